(* C18 — the anchored constructors / growers / inserters / destroy functions
   transcribed as programs.  Definitions only.  [X_orig] follows the code of
   the unchanged repository literally (bugs included); [X] follows the code
   after the proposed repair fixes/C18-*.patch.  Resource numbers are the
   pointer fields / locals of the C function named in the comment. *)
From MV Require Import C18.Model.

Definition RF := Ret (Some Fail).
Definition RO := Ret (Some Ok).
Definition call (p : list stmt) := Call p false [].        (* call, result ignored / void *)
(* H n b: failure handler / cleanup block number n with body b.  The numbers are
   the "labels" of the coverage table (each must be entered in some compared case). *)
Definition H (n : nat) (b : list stmt) : list stmt := Lbl n :: b.

(* every constructor and every operation is RETRIED without faults after a reported failure ("safe to destroy
   or retry"): s_retry = true; growers / inserters additionally continue to use the object ([oper_c], s_cont) *)
Definition ctor (op d : list stmt) (owns : list res) : scn := mkscn [] op d owns true false true [] true [].
Definition oper (pre op d : list stmt) (owns : list res) : scn := mkscn pre op d owns true false true [] true [].
Definition oper_c (pre op d : list stmt) (owns : list res) (cont : list stmt) : scn :=
  mkscn pre op d owns true false true [] true cont.

(* ================= memory/memory_pool.c =================
   b = memory_pool_data_bufs, b+1 = memory_pool_ptr_buf, b+2 = data_bufs[0],
   b+3 = (num_buf >= 1), b+4 = new_bufs, b+5 = data_bufs[1], b+6 = new_ptr_buf,
   b+7 = (num_buf >= 2) *)
Definition mpool_init (b : res) : list stmt :=
  [ Alloc b; IfNull [b] (H 11 [RF]);
    Alloc (b+1); IfNull [b+1] (H 12 [Free b; SetNull b; RF]);
    Alloc (b+2); IfNull [b+2] (H 13 [Free b; SetNull b; Free (b+1); SetNull (b+1); RF]);
    Mark (b+3); Use (b+1); RO ].

Definition mpool_destroy (b : res) : list stmt :=
  [ IfSet (b+3) [Use b; Free (b+2)];
    IfSet (b+7) [Use b; Free (b+5)];
    Free b; Free (b+1);
    SetNull b; SetNull (b+1); SetNull (b+2); SetNull (b+3); SetNull (b+5); SetNull (b+7) ].

Definition mpool_ensure (b : res) : list stmt :=
  [ Alloc (b+4); IfNull [b+4] (H 14 [RF]);
    Use b;
    Alloc (b+5); IfNull [b+5] (H 15 [Free (b+4); RF]);
    Alloc (b+6); IfNull [b+6] (H 16 [Free (b+5); Free (b+4); RF]);
    Free b; Move b (b+4);
    Use (b+1);
    Free (b+1); Move (b+1) (b+6);
    Mark (b+7); RO ].

Definition mpool_alloc (b : res) : list stmt :=      (* pool full: grows first *)
  [ Call (mpool_ensure b) false (H 17 [RF]); Use (b+1); RO ].

Definition i_mpool_init := ctor (mpool_init 0) (mpool_destroy 0) [0; 1; 2].
(* continued use of a pool: blocks are allocated up to the (new) capacity - beyond the old one -, written and freed:
   the slab-pointer array, the free-pointer ring and every slab are dereferenced *)
Definition mpool_cont (b : res) : list stmt :=
  [ Use b; Use (b+1); IfSet (b+3) [Use (b+2)]; IfSet (b+7) [Use (b+5)]; RO ].
Definition i_mpool_ensure := oper_c [call (mpool_init 0)] (mpool_ensure 0) (mpool_destroy 0) [0; 1; 2; 5] (mpool_cont 0).
Definition i_mpool_alloc_grow := oper_c [call (mpool_init 0)] (mpool_alloc 0) (mpool_destroy 0) [0; 1; 2; 5] (mpool_cont 0).

(* ================= sync/channel.c =================
   0 = write_mutex, 1 = read_mutex, 2 = read_cv, 3 = blocks *)
Definition chan_destroy : list stmt :=
  [ IfSet 3 [Free 3; SetNull 3];
    IfSet 2 [Use 2; Free 2; SetNull 2];
    IfSet 1 [Use 1; Free 1; SetNull 1];
    IfSet 0 [Use 0; Free 0; SetNull 0] ].
Definition chan_except : list stmt := H 20 [ call chan_destroy; Ret None ].   (* channel_init_except: *)

Definition chan_init_mutex_orig : list stmt :=       (* flags = WRITE_MUTEX | READ_MUTEX; int ret = 0 *)
  [ Alloc 0; IfNull [0] (H 21 chan_except);
    Alloc 1; IfNull [1] (H 22 chan_except);
    Alloc 2; IfNull [2] (H 23 chan_except);
    Alloc 3; IfNull [3] (H 24 (SetRet Fail :: chan_except));
    Use 3; RO ].
Definition chan_init_mutex : list stmt :=
  [ Alloc 0; IfNull [0] (H 21 (SetRet Fail :: chan_except));
    Alloc 1; IfNull [1] (H 22 (SetRet Fail :: chan_except));
    Alloc 2; IfNull [2] (H 23 (SetRet Fail :: chan_except));
    Alloc 3; IfNull [3] (H 24 (SetRet Fail :: chan_except));
    Use 3; RO ].
Definition chan_init_default_orig : list stmt :=     (* flags = 0 = WRITE_MUTEX | READ_SYNC *)
  [ Alloc 0; IfNull [0] (H 21 chan_except);
    Alloc 3; IfNull [3] (H 24 (SetRet Fail :: chan_except));
    Use 3; RO ].
Definition chan_init_default : list stmt :=
  [ Alloc 0; IfNull [0] (H 21 (SetRet Fail :: chan_except));
    Alloc 3; IfNull [3] (H 24 (SetRet Fail :: chan_except));
    Use 3; RO ].
Definition chan_init_nolock : list stmt :=           (* WRITE_SINGLE | READ_BUSY: only blocks *)
  [ Alloc 3; IfNull [3] (H 24 (SetRet Fail :: chan_except)); Use 3; RO ].

Definition i_chan_mutex_orig := ctor chan_init_mutex_orig chan_destroy [0; 1; 2; 3].
Definition i_chan_mutex := ctor chan_init_mutex chan_destroy [0; 1; 2; 3].
Definition i_chan_nolock := ctor chan_init_nolock chan_destroy [3].
Definition i_chan_default_orig := ctor chan_init_default_orig chan_destroy [0; 3].
Definition i_chan_default := ctor chan_init_default chan_destroy [0; 3].
Definition chan_init_rmutex : list stmt :=           (* WRITE_SPIN | READ_MUTEX: read_mutex, read_cv, blocks *)
  [ Alloc 1; IfNull [1] (H 22 (SetRet Fail :: chan_except));
    Alloc 2; IfNull [2] (H 23 (SetRet Fail :: chan_except));
    Alloc 3; IfNull [3] (H 24 (SetRet Fail :: chan_except));
    Use 3; RO ].
Definition i_chan_rmutex := ctor chan_init_rmutex chan_destroy [1; 2; 3].

(* ================= sync/ring_buffer.c : 0 = blocks ================= *)
Definition i_ring_buffer := ctor [Alloc 0; IfNull [0] (H 25 [RF]); RO] [Free 0] [0].

(* ================= sync/ma_ring.c =================
   0 = s_muggle_ma_ring_thread_ctx, 1 = ->buffer, 2 = list node of insert_thread_ctx *)
Definition mar_insert : list stmt := [ Alloc 2; IfNull [2] (H 29 [RF]); Use 2; RO ].
Definition mar_cleanup_orig : list stmt :=
  [ IfSet 0 [ (* join: rpos == wpos *)
              (* remove_thread_ctx waits for DONE, which only a listed node ever gets *)
              IfNull [2] [Stuck];
              Free 2;                   (* the back-end thread frees the node *)
              Free 0; SetNull 0 ] ].
Definition mar_init_orig : list stmt :=
  [ IfSet 0 [RO];
    Alloc 0; IfNull [0] (H 26 [RF]); Use 0;
    Alloc 1; IfNull [1] (H 27 [call mar_cleanup_orig; RF]);
    Call mar_insert true (H 28 [call mar_cleanup_orig; RF]);
    RO ].
Definition mar_cleanup : list stmt :=
  [ IfSet 0 [ IfNull [2] [Stuck]; Free 2; Free 1; Free 0; SetNull 0 ] ].
Definition mar_init : list stmt :=
  [ IfSet 0 [RO];
    Alloc 0; IfNull [0] (H 26 [RF]); Use 0;
    Alloc 1; IfNull [1] (H 27 [Free 0; SetNull 0; RF]);
    Call mar_insert true (H 28 [Free 1; Free 0; SetNull 0; RF]);
    RO ].
Definition i_ma_ring_orig := ctor mar_init_orig mar_cleanup_orig [0; 1; 2].
Definition i_ma_ring := ctor mar_init mar_cleanup [0; 1; 2].

(* ================= sync/double_buffer.c : 0 = buf[0].datas, 1 = buf[1].datas ================= *)
Definition dbuf_destroy : list stmt := [ Free 0; Free 1 ].
Definition dbuf_init_orig : list stmt :=
  [ Alloc 0; IfNull [0] (H 30 [RF]);                 (* i == 0 *)
    Alloc 1; IfNull [1] (H 31 [Free 0; RF]);          (* i == 1: free(buf->buf[0].datas) *)
    RO ].
Definition dbuf_init : list stmt :=
  [ Alloc 0; IfNull [0] (H 30 [RF]);
    Alloc 1; IfNull [1] (H 31 [Free 0; SetNull 0; RF]);
    RO ].
Definition i_dbuf_orig := ctor dbuf_init_orig dbuf_destroy [0; 1].
Definition i_dbuf := ctor dbuf_init dbuf_destroy [0; 1].

(* ================= sync/array_blocking_queue.c : 0 = datas =================
   (mutex / condvar initialisation is not an allocation and cannot be failed
   by the fault class of the property) *)
Definition i_abq := ctor [Alloc 0; IfNull [0] (H 32 [RF]); RO] [Free 0] [0].

(* ================= memory/sowr_memory_pool.c : 0 = blocks ================= *)
Definition guarded_free1 : list stmt := [ IfSet 0 [Free 0; SetNull 0] ].
Definition i_sowr_orig := ctor [Alloc 0; Use 0; RO] guarded_free1 [0].
Definition i_sowr := ctor [Alloc 0; IfNull [0] (H 33 [RF]); Use 0; RO] guarded_free1 [0].

(* ================= memory/threadsafe_memory_pool.c : 0 = data, 1 = ptrs ================= *)
Definition guarded_free2 : list stmt := [ IfSet 0 [Free 0; SetNull 0]; IfSet 1 [Free 1; SetNull 1] ].
Definition ts_init_orig : list stmt :=
  [ Alloc 0; Alloc 1;
    IfNull [0; 1] (H 34 [ IfSet 0 [Free 0]; IfSet 1 [Free 1]; RF ]);
    Use 0; Use 1; RO ].
Definition ts_init : list stmt :=
  [ Alloc 0; Alloc 1;
    IfNull [0; 1] (H 34 [ IfSet 0 [Free 0; SetNull 0]; IfSet 1 [Free 1; SetNull 1]; RF ]);
    Use 0; Use 1; RO ].
Definition i_ts_orig := ctor ts_init_orig guarded_free2 [0; 1].
Definition i_ts := ctor ts_init guarded_free2 [0; 1].

(* ================= memory/ring_memory_pool.c : 0 = blocks ================= *)
Definition i_ring_pool := ctor [Alloc 0; IfNull [0] (H 36 [RF]); Use 0; RO] [Free 0] [0].

(* ================= memory/pointer_slot.c : 0 = slots, 1 = pp_slots ================= *)
Definition pslot_init : list stmt :=
  [ Alloc 0; Alloc 1;
    IfNull [0; 1] (H 35 [ IfSet 0 [Free 0; SetNull 0]; IfSet 1 [Free 1; SetNull 1]; RF ]);
    Use 0; Use 1; RO ].
Definition i_pointer_slot := ctor pslot_init guarded_free2 [0; 1].

(* ================= memory/bytes_buffer.c, time/flow_controller.c ================= *)
Definition i_bytes_buffer := ctor [Alloc 0; IfNull [0] (H 37 [RF]); RO] guarded_free1 [0].
Definition i_flow_ctl := ctor [Alloc 0; IfNull [0] (H 38 [RF]); Use 0; RO] guarded_free1 [0].

(* ================= dsaa: array_list / heap / stack : 0 = nodes, 1 = new_nodes ================= *)
Definition arr_init : list stmt := [ Alloc 0; IfNull [0] (H 40 [RF]); RO ].
Definition arr_ensure : list stmt := [ Alloc 1; IfNull [1] (H 41 [RF]); Use 0; Use 1; Free 0; Move 0 1; RO ].
Definition arr_insert_grow : list stmt := [ Call arr_ensure false (H 42 [RF]); Use 0; RO ].
Definition arr_destroy : list stmt := [ Free 0 ].
Definition arr_destroy_g : list stmt := guarded_free1.     (* heap_destroy: if (nodes) { free; = NULL } *)

(* continued use of an array container: elements are stored up to and beyond the old capacity (the array is read and
   written, one further growth), then read back *)
Definition arr_cont : list stmt := [ Use 0; Call arr_ensure false (H 42 [RF]); Use 0; RO ].
Definition i_array_list_init := ctor arr_init arr_destroy [0].
Definition i_array_list_ensure := oper_c [call arr_init] arr_ensure arr_destroy [0] arr_cont.
Definition i_array_list_insert_grow := oper_c [call arr_init] arr_insert_grow arr_destroy [0] arr_cont.
Definition i_array_list_insert_grow2 := oper_c [call arr_init] arr_insert_grow arr_destroy [0] arr_cont.  (* muggle_array_list_insert *)
Definition i_heap_init := ctor arr_init arr_destroy_g [0].
Definition i_heap_ensure := oper_c [call arr_init] arr_ensure arr_destroy_g [0] arr_cont.
Definition i_heap_insert_grow := oper_c [call arr_init] arr_insert_grow arr_destroy_g [0] arr_cont.
Definition i_stack_init := ctor arr_init arr_destroy [0].
Definition i_stack_ensure := oper_c [call arr_init] arr_ensure arr_destroy [0] arr_cont.
Definition i_stack_push_grow := oper_c [call arr_init] arr_insert_grow arr_destroy [0] arr_cont.

(* ================= dsaa containers with an optional node pool =================
   q = ->pool, q+1 .. q+8 = the pool's own fields (mpool_* with b = q+1),
   q+9 = (head.next / tail.prev linked), q+10, q+11, q+12 = nodes obtained by malloc *)
Definition pool_part_orig (q : res) : list stmt :=      (* if (capacity > 0) { ... } *)
  [ Alloc q; IfNull [q] (H 43 [RF]);
    Call (mpool_init (q+1)) false (H 44 [Free q; RF]) ].
Definition pool_part (q : res) : list stmt :=
  [ Alloc q; IfNull [q] (H 43 [RF]);
    Call (mpool_init (q+1)) false (H 44 [Free q; SetNull q; RF]) ].
Definition pool_destroy_part (q : res) : list stmt :=
  [ IfSet q [Use q; call (mpool_destroy (q+1)); Free q] ].
Definition free_nodes (q : res) : list stmt :=          (* clear: free every malloc'ed node *)
  [ IfSet (q+14) [Use (q+14); Free (q+14); SetNull (q+14)];
    IfSet (q+13) [Use (q+13); Free (q+13); SetNull (q+13)];
    IfSet (q+12) [Use (q+12); Free (q+12); SetNull (q+12)];
    IfSet (q+11) [Use (q+11); Free (q+11); SetNull (q+11)];
    IfSet (q+10) [Use (q+10); Free (q+10); SetNull (q+10)] ].
Definition node_alloc (n : res) : list stmt := [ Alloc n; IfNull [n] (H 45 [RF]); Use n; RO ].
Definition pool_owns (q : res) : list res := [q; q+1; q+2; q+3].
(* continued use of a node container: two more elements are inserted (one node each), everything is looked up *)
Definition nodes_cont (q : res) : list stmt :=
  [ Call (node_alloc (q+13)) false (H 46 [RF]); Call (node_alloc (q+14)) false (H 46 [RF]); RO ].
(* ... the same, but the two extra elements are removed again (containers whose stored values are counted) *)
Definition nodes_cont_rm (q : res) : list stmt :=
  [ Call (node_alloc (q+14)) false (H 46 [RF]); Call (node_alloc (q+15)) false (H 46 [RF]);
    Use (q+15); Free (q+15); SetNull (q+15); Use (q+14); Free (q+14); SetNull (q+14); RO ].
(* ... of a trie whose values are counted: muggle_trie_remove only clears the data, the two nodes stay until destroy *)
Definition trie_cont_keep (q : res) : list stmt :=
  [ Call (node_alloc (q+14)) false (H 46 [RF]); Call (node_alloc (q+15)) false (H 46 [RF]); Use (q+14); Use (q+15); RO ].
Definition extra_nodes (q : res) : list stmt :=
  [ IfSet (q+15) [Use (q+15); Free (q+15); SetNull (q+15)]; IfSet (q+14) [Use (q+14); Free (q+14); SetNull (q+14)] ].
(* ... of a container whose nodes come from its pool: an element is removed and inserted again (no growth), everything
   is looked up: the pool struct, its pointer ring and its slabs are dereferenced *)
Definition pooled_cont (q : res) : list stmt := Use q :: mpool_cont (q+1).

(* avl_tree.c / trie.c: no list links *)
Definition tree_init_orig (q : res) := pool_part_orig q ++ [RO].
Definition tree_init (q : res) := pool_part q ++ [RO].
Definition tree_init0 : list stmt := [RO].                  (* capacity == 0 *)
Definition tree_destroy (q : res) := free_nodes q ++ pool_destroy_part q.
Definition tree_insert (q n : res) : list stmt := [ Call (node_alloc n) false (H 46 [RF]); RO ].
Definition tree_insert_pool (q : res) : list stmt :=     (* node from the (full) pool *)
  [ Use q; Call (mpool_alloc (q+1)) false (H 47 [RF]); RO ].

Definition i_avl_init_orig := ctor (tree_init_orig 0) (tree_destroy 0) (pool_owns 0).
Definition i_avl_init := ctor (tree_init 0) (tree_destroy 0) (pool_owns 0).
Definition i_avl_insert :=
  oper_c [call tree_init0; call (node_alloc 10)] (tree_insert 0 11) (tree_destroy 0) [10; 11] (nodes_cont 0).
Definition i_avl_insert_pool_grow :=
  oper_c [call (tree_init 0)] (tree_insert_pool 0) (tree_destroy 0) (pool_owns 0 ++ [6]) (pooled_cont 0).
Definition i_trie_init_orig := ctor (tree_init_orig 0) (tree_destroy 0) (pool_owns 0).
Definition i_trie_init := ctor (tree_init 0) (tree_destroy 0) (pool_owns 0).
Definition i_trie_insert1 := oper_c [call tree_init0] (tree_insert 0 10) (tree_destroy 0) [10] (nodes_cont 0).
Definition trie_insert3 : list stmt :=                     (* key "abc": one node per byte, allocated where the child is missing *)
  [ IfNull [10] [Call (node_alloc 10) false (H 48 [RF])]; IfNull [11] [Call (node_alloc 11) false (H 49 [RF])];
    IfNull [12] [Call (node_alloc 12) false (H 50 [RF])]; RO ].
(* a failed insert keeps the prefix nodes it created (s_retains); the retry finds them and allocates only the rest *)
Definition i_trie_insert3 :=
  mkscn [call tree_init0] trie_insert3 (tree_destroy 0) [10; 11; 12] true true true [] true (nodes_cont 0).

(* linked_list.c: head/tail linked BEFORE the pool is created *)
Definition ll_init_orig (q : res) := Mark (q+9) :: pool_part_orig q ++ [RO].
Definition ll_init (q : res) := Mark (q+9) :: pool_part q ++ [RO].
Definition ll_init0 (q : res) : list stmt := [Mark (q+9); RO].
Definition list_destroy (q : res) :=                       (* clear walks from head.next to &tail *)
  IfNull [q+9] [Stuck] :: free_nodes q ++ pool_destroy_part q.
Definition i_ll_init_orig := ctor (ll_init_orig 0) (list_destroy 0) (pool_owns 0).
Definition i_ll_init := ctor (ll_init 0) (list_destroy 0) (pool_owns 0).
Definition i_ll_append :=
  oper_c [call (ll_init0 0); call (node_alloc 10)] (tree_insert 0 11) (list_destroy 0) [10; 11] (nodes_cont 0).

(* queue.c: the unchanged code links head/tail AFTER the pool is created *)
Definition queue_init_orig (q : res) := pool_part_orig q ++ [Mark (q+9); RO].
Definition queue_init (q : res) := ll_init q.
Definition i_queue_init_orig := ctor (queue_init_orig 0) (list_destroy 0) (pool_owns 0).
Definition i_queue_init := ctor (queue_init 0) (list_destroy 0) (pool_owns 0).
Definition i_queue_enqueue :=
  oper_c [call (ll_init0 0); call (node_alloc 10)] (tree_insert 0 11) (list_destroy 0) [10; 11] (nodes_cont 0).

(* hash_table.c: 20 = nodes (bucket array), 21 = (table_size != 0) *)
Definition ht_fail_nodes : list stmt :=
  H 51 [ IfSet 0 [Use 0; call (mpool_destroy 1); Free 0; SetNull 0]; RF ].
Definition ht_init_orig : list stmt :=
  pool_part_orig 0 ++ [ Mark 21; Alloc 20; IfNull [20] ht_fail_nodes; Use 20; RO ].
Definition ht_init : list stmt :=
  pool_part 0 ++ [ Alloc 20; IfNull [20] ht_fail_nodes; Mark 21; Use 20; RO ].
Definition ht_init0 : list stmt := [ Alloc 20; IfNull [20] (H 52 [RF]); Mark 21; Use 20; RO ].
Definition ht_destroy : list stmt :=
  IfSet 21 [Use 20] :: free_nodes 0 ++ pool_destroy_part 0 ++ [Free 20].
Definition i_ht_init_orig := ctor ht_init_orig ht_destroy (pool_owns 0 ++ [20]).
Definition i_ht_init := ctor ht_init ht_destroy (pool_owns 0 ++ [20]).
Definition i_ht_put :=
  oper_c [call ht_init0; call (node_alloc 10)] (Use 20 :: tree_insert 0 11) ht_destroy [20; 10; 11] (Use 20 :: nodes_cont 0).

(* more inserters: node from malloc through the other entry point, node from a full pool *)
Definition i_ll_insert :=                                   (* muggle_linked_list_insert *)
  oper_c [call (ll_init0 0); call (node_alloc 10)] (tree_insert 0 11) (list_destroy 0) [10; 11] (nodes_cont 0).
Definition i_ll_append_pool_grow :=
  oper_c [call (ll_init 0)] (tree_insert_pool 0) (list_destroy 0) (pool_owns 0 ++ [6]) (pooled_cont 0).
Definition i_queue_enqueue_pool_grow :=
  oper_c [call (queue_init 0)] (tree_insert_pool 0) (list_destroy 0) (pool_owns 0 ++ [6]) (pooled_cont 0).
Definition i_trie_insert_pool_grow :=
  oper_c [call (tree_init 0)] (tree_insert_pool 0) (tree_destroy 0) (pool_owns 0 ++ [6]) (pooled_cont 0).
Definition i_ht_put_pool_grow :=
  oper_c [call ht_init] (Use 20 :: tree_insert_pool 0) ht_destroy (pool_owns 0 ++ [20; 6]) (Use 20 :: pooled_cont 0).
Definition i_mpool_alloc_grow_capped :=                     (* max_delta_cap set: same code path *)
  oper_c [call (mpool_init 0)] (mpool_alloc 0) (mpool_destroy 0) [0; 1; 2; 5] (mpool_cont 0).

(* sort.c muggle_merge_sort: scratch array allocated and freed inside *)
Definition i_merge_sort := ctor [Alloc 0; IfNull [0] (H 53 [RF]); Use 0; Free 0; RO] [] [].

(* ================= event =================
   0 = evloop, 1 = ctx_list, 2.. = ctx_list's pool (dsaa numbering with q = 2, so
   11 = head linked, 12 = appended node), 30 = ev_signal, 31 = evfd,
   32 = epfd, 33 = events, 34 = poll fds, 35 = poll nodes *)
Definition evsig_init (fd : res) : list stmt := [ Alloc fd; IfNull [fd] (H 54 [RF]); RO ].
Definition evsig_destroy (fd : res) : list stmt := [ IfSet fd [Free fd; SetNull fd] ].
Definition i_ev_signal := ctor (evsig_init 31) (evsig_destroy 31) [31].

Definition evloop_destroy : list stmt :=
  [ IfSet 30 [Use 30; call (evsig_destroy 31); Free 30; SetNull 30];
    IfSet 1 [Use 1; call (list_destroy 2); Free 1; SetNull 1] ].
Definition evloop_except : list stmt := H 55 [ call evloop_destroy; RF ].     (* muggle_evloop_init_except: *)
Definition evloop_init (pool : bool) : list stmt :=
  [ Alloc 1; IfNull [1] (H 56 evloop_except);
    (* label 157: muggle_linked_list_init(list, 0) makes no acquisition and cannot fail *)
    Call (if pool then ll_init 2 else ll_init0 2) false (H (if pool then 57 else 157) ([Free 1; SetNull 1] ++ evloop_except));
    Alloc 30; IfNull [30] (H 58 evloop_except);
    Call (evsig_init 31) false (H 59 ([Free 30; SetNull 30] ++ evloop_except));
    RO ].

Definition epoll_destroy : list stmt := [ IfSet 33 [Free 33; SetNull 33]; IfSet 32 [Free 32; SetNull 32] ].
Definition epoll_except : list stmt := H 60 [ call epoll_destroy; RF ].        (* evloop_init_epoll_except: *)
Definition epoll_init : list stmt :=
  [ Alloc 32; IfNull [32] (H 61 epoll_except); Alloc 33; IfNull [33] (H 62 epoll_except); RO ].
Definition poll_destroy : list stmt := [ IfSet 34 [Free 34; SetNull 34]; IfSet 35 [Free 35; SetNull 35] ].
Definition poll_except : list stmt := H 63 [ call poll_destroy; RF ].          (* muggle_evloop_init_poll_except: *)
Definition poll_init : list stmt :=
  [ Alloc 34; IfNull [34] (H 64 poll_except); Alloc 35; IfNull [35] (H 65 poll_except); Use 34; Use 35; Use 30; RO ].
Definition select_init : list stmt := [ Use 30; RO ].
Definition select_destroy : list stmt := [].

Definition evloop_new_orig_gen (lb : nat) (pool : bool) (b_init b_destroy : list stmt) : list stmt :=
  [ Alloc 0; IfNull [0] (H 66 [RF]); Use 0;
    Call (evloop_init pool) true (H 67 [SetNull 0; RF]);            (* return NULL: evloop itself leaks *)
    Call b_init false (H lb [call evloop_destroy; Free 0; SetNull 0; RF]);
    RO ].
Definition evloop_new_gen (lb : nat) (pool : bool) (b_init b_destroy : list stmt) : list stmt :=
  [ Alloc 0; IfNull [0] (H 66 [RF]); Use 0;
    Call (evloop_init pool) true (H 67 [Free 0; SetNull 0; RF]);     (* SetNull 0: the caller receives NULL *)
    Call b_init false (H lb [call evloop_destroy; Free 0; SetNull 0; RF]);
    RO ].
(* label 68: the back-end's init failed; 168: same handler for select, whose init makes no
   acquisition and cannot fail *)
Definition evloop_new_orig := evloop_new_orig_gen 68.
Definition evloop_new := evloop_new_gen 68.
Definition evloop_delete (b_destroy : list stmt) : list stmt :=
  [ IfSet 0 [ Use 0; call b_destroy; call evloop_destroy; Free 0 ] ].

Definition ev_base : list res := [0; 1; 30; 31].
Definition i_evloop_epoll_orig := ctor (evloop_new_orig false epoll_init epoll_destroy) (evloop_delete epoll_destroy) (ev_base ++ [32; 33]).
Definition i_evloop_epoll := ctor (evloop_new false epoll_init epoll_destroy) (evloop_delete epoll_destroy) (ev_base ++ [32; 33]).
Definition i_evloop_poll_orig := ctor (evloop_new_orig false poll_init poll_destroy) (evloop_delete poll_destroy) (ev_base ++ [34; 35]).
Definition i_evloop_poll := ctor (evloop_new false poll_init poll_destroy) (evloop_delete poll_destroy) (ev_base ++ [34; 35]).
Definition i_evloop_select_orig := ctor (evloop_new_orig_gen 168 false select_init select_destroy) (evloop_delete select_destroy) ev_base.
Definition i_evloop_select := ctor (evloop_new_gen 168 false select_init select_destroy) (evloop_delete select_destroy) ev_base.
Definition i_evloop_epoll_pool_orig := ctor (evloop_new_orig true epoll_init epoll_destroy) (evloop_delete epoll_destroy) (ev_base ++ pool_owns 2 ++ [32; 33]).
Definition i_evloop_epoll_pool := ctor (evloop_new true epoll_init epoll_destroy) (evloop_delete epoll_destroy) (ev_base ++ pool_owns 2 ++ [32; 33]).

(* muggle_evloop_add_ctx: linked_list_append of the context, then the back-end's add *)
Definition evloop_add_ctx_on (backend_field : res) : list stmt :=
  [ Use 0; Call (node_alloc 12) false (H 69 [RF]); Use backend_field; RO ].
Definition evloop_add_ctx : list stmt := evloop_add_ctx_on 32.
Definition evloop_add_ctx_pool : list stmt :=            (* ctx_list node taken from the (full) pool *)
  [ Use 0; Use 2; Call (mpool_alloc 3) false (H 69 [RF]); Use 32; RO ].
(* continued use: a second context is registered (one more ctx_list node, the back-end is used again) *)
Definition evloop_add_cont (backend_field : res) : list stmt :=
  [ Use 0; Call (node_alloc 13) false (H 69 [RF]); Use backend_field; RO ].
Definition i_evloop_add_ctx :=
  oper_c [call (evloop_new false epoll_init epoll_destroy)] evloop_add_ctx (evloop_delete epoll_destroy)
       (ev_base ++ [32; 33; 12]) (evloop_add_cont 32).

Definition i_evloop_add_ctx_poll :=
  oper_c [call (evloop_new false poll_init poll_destroy)] (evloop_add_ctx_on 34) (evloop_delete poll_destroy)
       (ev_base ++ [34; 35; 12]) (evloop_add_cont 34).
Definition i_evloop_add_ctx_select :=
  oper_c [call (evloop_new_gen 168 false select_init select_destroy)] (evloop_add_ctx_on 30) (evloop_delete select_destroy)
       (ev_base ++ [12]) (evloop_add_cont 30).
Definition i_evloop_add_ctx_pool_grow :=
  oper_c [call (evloop_new true epoll_init epoll_destroy)] evloop_add_ctx_pool (evloop_delete epoll_destroy)
       (ev_base ++ pool_owns 2 ++ [32; 33; 8]) [Use 0; Use 2; Use 3; Use 4; Use 32; RO].

(* ================= net/socket_evloop_handle.c =================
   60 = ctx_queue (dsaa numbering with q = 61: 70 = head linked, 71 = node), 90 = mtx *)
Definition seh_destroy : list stmt :=
  [ IfSet 90 [Use 90; Free 90; SetNull 90];
    IfSet 60 [Use 60; call (list_destroy 61); Free 60; SetNull 60] ].
Definition seh_except : list stmt := H 70 [ call seh_destroy; RF ].   (* muggle_socket_evloop_handle_init_except: *)
Definition seh_init : list stmt :=
  [ Alloc 60; IfNull [60] (H 71 seh_except);
    (* label 72: muggle_queue_init(q, 0) makes no acquisition and cannot fail *)
    Call (ll_init0 61) false (H 72 ([Free 60; SetNull 60] ++ seh_except));
    Alloc 90; IfNull [90] (H 73 seh_except);
    RO ].
Definition i_seh_init := ctor seh_init seh_destroy [60; 90].

(* muggle_socket_evloop_add_ctx is void: the result of muggle_queue_enqueue is dropped *)
Definition seh_add_ctx : list stmt :=
  [ Use 60; Use 90; Call (node_alloc 71) false []; Use 31; RO ].
Definition i_seh_add_ctx :=
  oper [call seh_init; call (evloop_new false epoll_init epoll_destroy)] seh_add_ctx
       (seh_destroy ++ evloop_delete epoll_destroy)
       ([60; 90; 71] ++ ev_base ++ [32; 33]).

(* muggle_socket_evloop_on_read, TCP_LISTEN branch (the evloop's cb_read): accept, cb_alloc a
   context, register it.  95 = listening socket, 96 = connecting client (both made by the
   driver), 97 = accepted descriptor, 98 = new context, 12 = ctx_list node.  A callback: void. *)
Definition seh_on_read_accept : list stmt :=
  [ Use 60; Get 97;
    Alloc 98; IfNull [98] (H 78 [Free 97; RO]);
    Use 98;
    Call evloop_add_ctx false (H 79 [Free 98; Free 97; RO]);
    RO ].
(* what muggle_evloop_run does on exit for every registered context: cb_clear -> release *)
Definition seh_clear_ctxs (fd : res) : list stmt := [ IfSet 12 [Use 98; Free fd; Free 98] ].
Definition i_seh_on_read_accept :=
  mkscn [call seh_init; call (evloop_new false epoll_init epoll_destroy); Alloc 95; Alloc 96]
        seh_on_read_accept
        (seh_clear_ctxs 97 ++ seh_destroy ++ evloop_delete epoll_destroy ++ [Free 95; Free 96])
        ([60; 90] ++ ev_base ++ [32; 33; 95; 96; 97; 98; 12]) false false true [] false [].

(* muggle_socket_evloop_on_wake (cb_wake): a context queued by muggle_socket_evloop_add_ctx is
   registered; when registration fails it is released (closed and freed) on the spot.
   95 = the context's socket, 98 = the context, 71 = queue node.  A callback: void; on failure
   the handed-over context is released, so fewer blocks are live than before the call. *)
Definition seh_on_wake : list stmt :=
  [ Use 60; Use 90; Use 71;
    Call evloop_add_ctx false (H 80 [Use 98; Free 95; Free 98]);
    Free 71; SetNull 71; RO ].          (* muggle_queue_dequeue: node unlinked and freed *)
Definition i_seh_on_wake :=
  mkscn [call seh_init; call (evloop_new false epoll_init epoll_destroy); Alloc 95; Alloc 98; call (node_alloc 71)]
        seh_on_wake
        (seh_clear_ctxs 95 ++ seh_destroy ++ evloop_delete epoll_destroy)
        ([60; 90] ++ ev_base ++ [32; 33; 95; 98; 12]) false true true [] false [].

(* ================= net/socket_evloop_pipe.c : 0, 1 = the two pipe descriptors ================= *)
Definition i_seh_pipe_init :=
  ctor [Alloc2 0 1; IfNull [0] (H 77 [RF]); Use 0; Use 1; RO] [IfSet 0 [Free 0; SetNull 0]; IfSet 1 [Free 1; SetNull 1]] [0; 1].

(* ================= log/log_async_logger.c =================
   channel 0..3 as above; the consumer thread reads the channel;
   80 = msg, 81 = payload (both freed by the consumer thread) *)
Definition alog_init_with (chan_init : list stmt) : list stmt :=
  [ Call chan_init true (H 74 [Ret None]);
    Use 3;                                   (* thread started: muggle_channel_read *)
    RO ].
Definition alog_destroy : list stmt := [ Use 3; call chan_destroy ].
Definition alog_log_orig : list stmt :=
  [ Alloc 80; IfNull [80] (H 75 [RO]); Use 80;
    Alloc 81; Use 81;                        (* vsnprintf(payload, ..) *)
    Use 3; Free 81; Free 80; RO ].
Definition alog_log : list stmt :=
  [ Alloc 80; IfNull [80] (H 75 [RO]); Use 80;
    Alloc 81; IfNull [81] (H 76 [Free 80; RO]); Use 81;
    Use 3; Free 81; Free 80; RO ].
(* destroy joins the consumer thread, which a failed init never started: destroy is not run after a reported failure
   (s_dfail = false); the failed init is RETRIED instead, and destroy runs after the successful retry *)
Definition i_alog_init_orig := mkscn [] (alog_init_with chan_init_default_orig) alog_destroy [0; 3] true false false [] true [].
Definition i_alog_init := mkscn [] (alog_init_with chan_init_default) alog_destroy [0; 3] true false false [] true [].
Definition i_alog_log_orig := mkscn [call (alog_init_with chan_init_default)] alog_log_orig alog_destroy [0; 3] false false true [] false [].
Definition i_alog_log := mkscn [call (alog_init_with chan_init_default)] alog_log alog_destroy [0; 3] false false true [] false [].
(* no attached handler accepts the level: muggle_async_logger_log returns before it acquires anything *)
Definition i_alog_log_filtered := mkscn [call (alog_init_with chan_init_default)] [RO] alog_destroy [0; 3] true false true [] false [].

(* ================= boundary contents on the success path =================
   Containers pre-built with caller-owned values (200.. = blocks allocated by the caller and
   stored in the container); destroy is called with a free callback, which must release every
   stored value exactly once.  The contents are chosen to reach code the plain instances never
   touch: the EMPTY key of a trie (root.children['\0']), a single element, an element inserted
   at index 0 / at the head, a rejected duplicate, a pool or array that is exactly full at
   destroy.  A failed operation is retried without faults before destroy ("safe to retry"). *)
Definition content_c (pre op d : list stmt) (owns vals : list res) (cont : list stmt) : scn :=
  mkscn pre op d (owns ++ vals) true false true vals true cont.
Definition content (pre op d : list stmt) (owns vals : list res) : scn := content_c pre op d owns vals [].
Definition node_v (n v : res) : stmt := IfSet n [Use n; Free v; Free n; SetNull n].  (* callback(value); free(node) *)
Definition slot_v (f v : res) : stmt := IfSet f [Free v].                             (* callback(value) of a stored slot *)
(* the value that a FAILED operation did not store is still the caller's: the caller releases it after destroy
   (written before the container's own release of that slot, which clears the marker) *)
Definition unstored (n v : res) : stmt := IfNull [n] [Free v].

(* trie, capacity 0: pre "a" -> node 10 (value 201); op: insert "" -> node 11 = root.children[0] (value 200) *)
Definition i_trie_content_empty_key :=
  content_c [call tree_init0; Alloc 200; Alloc 201; call (node_alloc 10)] (tree_insert 0 11)
          ([unstored 11 200; node_v 11 200; node_v 10 201] ++ extra_nodes 0 ++ pool_destroy_part 0) [10; 11] [200; 201]
          (trie_cont_keep 0).
(* trie with a node pool of 8: pre "a", "ab" (flags 220, 221); op: insert "" (flag 222), no acquisition *)
Definition i_trie_content_empty_key_pool :=
  content_c [call (tree_init 0); Alloc 200; Alloc 201; Alloc 202; Mark 220; Mark 221] [Use 0; Use 2; Mark 222; RO]
          ([slot_v 222 200; slot_v 220 201; slot_v 221 202] ++ pool_destroy_part 0) (pool_owns 0) [200; 201; 202]
          (pooled_cont 0).
(* single element: the only key is "" / the first node of an avl tree / hash table *)
Definition i_trie_content_single_empty :=
  content_c [call tree_init0; Alloc 200] (tree_insert 0 11) ([unstored 11 200; node_v 11 200] ++ extra_nodes 0 ++ pool_destroy_part 0) [11] [200]
          (trie_cont_keep 0).
Definition i_avl_content_single :=
  content_c [call tree_init0; Alloc 200] (tree_insert 0 11) ([unstored 11 200; node_v 11 200] ++ pool_destroy_part 0) [11] [200]
          (nodes_cont_rm 0).
(* avl: pre 20, 10, 30 and a rejected duplicate 10 (no acquisition); op: insert 5 *)
Definition i_avl_content :=
  content_c [call tree_init0; Alloc 200; Alloc 201; Alloc 202; Alloc 203;
           call (node_alloc 10); call (node_alloc 11); call (node_alloc 12)] (tree_insert 0 13)
          ([unstored 13 200; node_v 13 200; node_v 12 203; node_v 11 202; node_v 10 201] ++ pool_destroy_part 0)
          [10; 11; 12; 13] [200; 201; 202; 203]
          (nodes_cont_rm 0).
(* hash table: pre "a", "b" and a rejected duplicate "a"; op: put "c" *)
Definition ht_destroy_v (l : list stmt) : list stmt := IfSet 21 [Use 20] :: l ++ pool_destroy_part 0 ++ [Free 20].
Definition i_ht_content :=
  content_c [call ht_init0; Alloc 200; Alloc 201; Alloc 202; call (node_alloc 10); call (node_alloc 11)]
          (Use 20 :: tree_insert 0 12) (ht_destroy_v [unstored 12 200; node_v 12 200; node_v 11 202; node_v 10 201])
          [20; 10; 11; 12] [200; 201; 202]
          (Use 20 :: nodes_cont_rm 0).
Definition i_ht_content_single :=
  content_c [call ht_init0; Alloc 200] (Use 20 :: tree_insert 0 12) (ht_destroy_v [unstored 12 200; node_v 12 200]) [20; 12] [200]
          (Use 20 :: nodes_cont_rm 0).
(* linked list / queue: pre two elements; op: insert at the head / enqueue *)
Definition list_destroy_v (l : list stmt) : list stmt := IfNull [9] [Stuck] :: l ++ pool_destroy_part 0.
Definition i_ll_content_head :=
  content_c [call (ll_init0 0); Alloc 200; Alloc 201; Alloc 202; call (node_alloc 10); call (node_alloc 11)]
          (tree_insert 0 12) (list_destroy_v [unstored 12 200; node_v 12 200; node_v 10 201; node_v 11 202]) [10; 11; 12] [200; 201; 202]
          (nodes_cont_rm 0).
Definition i_queue_content :=
  content_c [call (ll_init0 0); Alloc 200; Alloc 201; Alloc 202; call (node_alloc 10); call (node_alloc 11)]
          (tree_insert 0 12) (list_destroy_v [node_v 10 201; node_v 11 202; unstored 12 200; node_v 12 200]) [10; 11; 12] [200; 201; 202]
          (nodes_cont_rm 0).
(* node pool of exactly two nodes, both in use at destroy: no growth, no acquisition in the op *)
Definition i_ll_content_pool_full :=
  content_c [call (ll_init 0); Alloc 200; Alloc 201; Mark 220] [Use 0; Use 2; Mark 221; RO]
          (list_destroy_v [slot_v 220 201; slot_v 221 200]) (pool_owns 0) [200; 201]
          (pooled_cont 0).
Definition i_queue_content_pool_full :=
  content_c [call (queue_init 0); Alloc 200; Alloc 201; Mark 220] [Use 0; Use 2; Mark 221; RO]
          (list_destroy_v [slot_v 220 201; slot_v 221 200]) (pool_owns 0) [200; 201]
          (pooled_cont 0).
(* arrays: capacity 4; op stores the element that makes the array exactly full (index 0 / top) *)
Definition arr_destroy_v (l : list stmt) (d : list stmt) : list stmt := Use 0 :: l ++ d.
Definition i_array_list_content_index0_full :=
  content_c [call arr_init; Alloc 200; Alloc 201; Alloc 202; Alloc 203; Mark 220; Mark 221; Mark 222]
          [Use 0; Mark 223; RO]
          (arr_destroy_v [slot_v 223 200; slot_v 220 201; slot_v 221 202; slot_v 222 203] arr_destroy) [0] [200; 201; 202; 203]
          arr_cont.
Definition i_stack_content_full :=
  content_c [call arr_init; Alloc 200; Alloc 201; Alloc 202; Alloc 203; Mark 220; Mark 221; Mark 222]
          [Use 0; Mark 223; RO]
          (arr_destroy_v [slot_v 220 201; slot_v 221 202; slot_v 222 203; slot_v 223 200] arr_destroy) [0] [200; 201; 202; 203]
          arr_cont.
(* arrays already full with four values: op stores a fifth at index 0 / in the heap and grows *)
Definition arr_store_grow : list stmt := [ Call arr_ensure false (H 42 [RF]); Use 0; Mark 224; RO ].
Definition i_array_list_content_index0_grow :=
  content_c [call arr_init; Alloc 200; Alloc 201; Alloc 202; Alloc 203; Alloc 204; Mark 220; Mark 221; Mark 222; Mark 223]
          arr_store_grow
          (arr_destroy_v [unstored 224 200; slot_v 224 200; slot_v 220 201; slot_v 221 202; slot_v 222 203; slot_v 223 204] arr_destroy)
          [0] [200; 201; 202; 203; 204]
          arr_cont.
Definition i_heap_content_grow :=
  content_c [call arr_init; Alloc 200; Alloc 201; Alloc 202; Alloc 203; Alloc 204; Mark 220; Mark 221; Mark 222; Mark 223]
          arr_store_grow
          (arr_destroy_v [slot_v 220 201; slot_v 221 202; slot_v 222 203; slot_v 223 204; unstored 224 200; slot_v 224 200] arr_destroy_g)
          [0] [200; 201; 202; 203; 204]
          arr_cont.

(* ================= log handlers owning a FILE* (0 = handler->fp) =================
   fopen / fclose are acquisition / release of the third resource class; fwrite / fflush on a
   closed handle is a use after close, a second fclose a double close. *)
Definition fp_destroy : list stmt := [ IfSet 0 [Free 0; SetNull 0] ].
Definition i_log_file_handler := ctor [Alloc 0; IfNull [0] (H 83 [RF]); RO] fp_destroy [0].
Definition lrh_init : list stmt := [ Alloc 0; IfNull [0] (H 84 [RF]); Use 0; RO ].
Definition i_log_rotate_handler := ctor lrh_init fp_destroy [0].
(* muggle_log_file_rotate_handler_rotate / _write *)
Definition lrh_rotate : list stmt := [ IfSet 0 [Free 0; SetNull 0]; Alloc 0; IfNull [0] (H 81 [RF]); RO ].
Definition lrh_write : list stmt := [ IfSet 0 [Use 0; Call lrh_rotate false (H 82 [])]; RO ].
Definition i_log_rotate_write :=
  mkscn [call lrh_init] [call lrh_write; call lrh_write; RO] fp_destroy [0] false true true [] false [].


(* ================= entry points added by the coverage obligation (ids 300..) =================
   every function with external linkage under muggle/c from which an acquisition is reachable is either driven by an
   instance or listed, with its reason, in C18/Coverage.v (theorem every_allocating_entry_point_accounted_for) *)

(* time/fast_flow_controller.c : 0 = arr *)
Definition i_fast_flow_ctl := ctor [Alloc 0; IfNull [0] (H 85 [RF]); Use 0; RO] guarded_free1 [0].

(* log/log_file_time_rot_handler.c : 0 = handler->fp.  rotate: close the current file, open the file of the new period *)
Definition ltr_rotate : list stmt := [ IfSet 0 [Free 0; SetNull 0]; Alloc 0; IfNull [0] (H 86 [RF]); RO ].
Definition ltr_init : list stmt := [ Call ltr_rotate true (H 87 [Ret None]); RO ].
Definition i_log_time_rot_handler := ctor ltr_init fp_destroy [0].
(* write of a message stamped in a later period: detect -> rotate (result only printed) -> write when a file is open *)
Definition ltr_write : list stmt := [ IfSet 0 [Call ltr_rotate false (H 88 [])]; IfSet 0 [Use 0]; RO ].
Definition i_log_time_rot_write :=
  mkscn [call ltr_init] [call ltr_write; call ltr_write; RO] fp_destroy [0] false true true [] false [].

(* log/log_console_handler.c: muggle_log_console_handler_init makes no acquisition (mutex only) *)
Definition i_log_console_handler := ctor [RO] [] [].

(* log/log.c muggle_log_simple_init(console level, file level): console handler (no acquisition), then the rotating
   file handler "log/<process>.log"; both are attached to the default logger.  0 = rot_file_handler.fp *)
Definition log_simple_init : list stmt := [ Call lrh_init false (H 89 [RF]); RO ].
Definition i_log_simple_init := ctor log_simple_init fp_destroy [0].
(* log/log.c muggle_log_complicated_init.  Unchanged tree (_orig): the result of muggle_log_file_time_rot_handler_init
   was DROPPED - a failed fopen was answered with success and the handler (fp == NULL) attached. *)
Definition log_complicated_init_orig : list stmt := [ Call ltr_init false []; RO ].
Definition i_log_complicated_init_orig := ctor log_complicated_init_orig fp_destroy [0].
(* ... after the repair fixes/C18-log-complicated-init-reports-failure.patch: the failure is returned *)
Definition log_complicated_init : list stmt := [ Call ltr_init false (H 90 [RF]); RO ].
Definition i_log_complicated_init := ctor log_complicated_init fp_destroy [0].

(* os/os.c muggle_os_fopen (the file handlers open their files through it): 0 = the FILE* handed to the caller *)
Definition i_os_fopen := ctor [Alloc 0; IfNull [0] (H 91 [RF]); RO] fp_destroy [0].

(* net/socket.c, net/socket_utils.c: one socket() per call (one address for a numeric host); every later failure
   closes it.  0 = the descriptor handed to the caller, 95 = a listener made by the driver *)
Definition sock_op (l : nat) : list stmt := [ Alloc 0; IfNull [0] (H l [RF]); Use 0; RO ].
Definition sock_destroy : list stmt := [ IfSet 0 [Free 0; SetNull 0] ].
Definition i_socket_create := ctor (sock_op 92) sock_destroy [0].
Definition i_tcp_listen := ctor (sock_op 93) sock_destroy [0].
Definition i_tcp_connect := oper [Alloc 95] (sock_op 94) (sock_destroy ++ [Free 95]) [0; 95].
Definition i_tcp_bind := ctor (sock_op 95) sock_destroy [0].
Definition i_tcp_bind_connect :=
  oper [Alloc 95] [Call (sock_op 95) false (H 96 [RF]); Use 0; RO] (sock_destroy ++ [Free 95]) [0; 95].
Definition i_udp_bind := ctor (sock_op 97) sock_destroy [0].
Definition i_udp_connect := ctor (sock_op 98) sock_destroy [0].
Definition i_mcast_join := ctor (sock_op 99) sock_destroy [0].
Definition i_socketpair :=
  ctor [Alloc2 0 1; IfNull [0] (H 100 [RF]); RO] [IfSet 0 [Free 0; SetNull 0]; IfSet 1 [Free 1; SetNull 1]] [0; 1].

(* dsaa/sort.c muggle_heap_sort: a heap of count + 1 slots built and destroyed inside (inserts never grow it) *)
Definition i_heap_sort := ctor [Call arr_init false (H 101 [RF]); Use 0; call arr_destroy_g; RO] [] [].

(* sync/ma_ring.c muggle_ma_ring_thread_ctx_get: creates the thread context on first use *)
Definition mar_get : list stmt := [ IfNull [0] [Call mar_init true []; Ret None]; RO ].
Definition i_ma_ring_get := ctor mar_get mar_cleanup [0; 1; 2].

(* ================= table used by the drivers (id -> scenario) ================= *)
Definition inst_table : list (nat * scn) :=
  [ (0, i_chan_mutex); (1, i_chan_nolock); (2, i_ring_buffer); (3, i_ma_ring); (4, i_dbuf); (5, i_abq);
    (6, i_mpool_init); (7, i_mpool_ensure); (8, i_mpool_alloc_grow); (9, i_sowr); (10, i_ts);
    (11, i_ring_pool); (12, i_pointer_slot); (13, i_bytes_buffer); (14, i_flow_ctl);
    (15, i_array_list_init); (16, i_array_list_ensure); (17, i_array_list_insert_grow);
    (18, i_avl_init); (19, i_avl_insert); (20, i_avl_insert_pool_grow);
    (21, i_ht_init); (22, i_ht_put);
    (23, i_heap_init); (24, i_heap_ensure); (25, i_heap_insert_grow);
    (26, i_ll_init); (27, i_ll_append); (28, i_queue_init); (29, i_queue_enqueue);
    (30, i_stack_init); (31, i_stack_ensure); (32, i_stack_push_grow);
    (33, i_trie_init); (34, i_trie_insert1); (35, i_trie_insert3); (36, i_merge_sort);
    (37, i_ev_signal); (38, i_evloop_epoll); (39, i_evloop_poll); (40, i_evloop_select);
    (41, i_evloop_epoll_pool); (42, i_evloop_add_ctx); (43, i_seh_init); (44, i_seh_add_ctx);
    (45, i_alog_init); (46, i_alog_log); (47, i_chan_default);
    (48, i_array_list_insert_grow2); (49, i_ll_insert); (50, i_ll_append_pool_grow);
    (51, i_ht_put_pool_grow); (52, i_queue_enqueue_pool_grow); (53, i_trie_insert_pool_grow);
    (54, i_mpool_alloc_grow_capped); (55, i_evloop_add_ctx_poll); (56, i_evloop_add_ctx_select);
    (57, i_evloop_add_ctx_pool_grow); (58, i_seh_pipe_init); (59, i_seh_on_read_accept);
    (60, i_seh_on_wake); (61, i_chan_rmutex);
    (62, i_trie_content_empty_key); (63, i_trie_content_empty_key_pool); (64, i_trie_content_single_empty);
    (65, i_avl_content); (66, i_avl_content_single); (67, i_ht_content); (68, i_ht_content_single);
    (69, i_ll_content_head); (70, i_ll_content_pool_full); (71, i_queue_content); (72, i_queue_content_pool_full);
    (73, i_array_list_content_index0_full); (74, i_array_list_content_index0_grow); (75, i_heap_content_grow);
    (76, i_stack_content_full);
    (77, i_log_file_handler); (78, i_log_rotate_handler); (79, i_log_rotate_write); (80, i_alog_log_filtered);
    (300, i_fast_flow_ctl); (301, i_log_time_rot_handler); (302, i_log_time_rot_write); (303, i_log_console_handler);
    (304, i_log_simple_init); (305, i_log_complicated_init); (306, i_socket_create); (307, i_tcp_listen);
    (308, i_tcp_connect); (309, i_tcp_bind); (310, i_tcp_bind_connect); (311, i_udp_bind); (312, i_udp_connect);
    (313, i_mcast_join); (314, i_socketpair); (315, i_heap_sort); (316, i_ma_ring_get); (317, i_os_fopen);
    (* transcriptions of the unchanged (defective) code *)
    (100, i_chan_mutex_orig); (103, i_ma_ring_orig); (104, i_dbuf_orig); (109, i_sowr_orig);
    (110, i_ts_orig); (118, i_avl_init_orig); (121, i_ht_init_orig); (126, i_ll_init_orig);
    (128, i_queue_init_orig); (133, i_trie_init_orig); (138, i_evloop_epoll_orig);
    (139, i_evloop_poll_orig); (140, i_evloop_select_orig); (141, i_evloop_epoll_pool_orig);
    (145, i_alog_init_orig); (146, i_alog_log_orig); (147, i_chan_default_orig);
    (195, i_log_complicated_init_orig) ].

Fixpoint lookup (id : nat) (t : list (nat * scn)) : option scn :=
  match t with
  | [] => None
  | (k, s) :: r => if Nat.eqb k id then Some s else lookup id r
  end.

Definition inst_by_id (id : nat) : option scn := lookup id inst_table.
(* ids 100..199: transcriptions of the unchanged defective code (each refuted); every other id: the code as it is *)
Definition orig_id (id : nat) : bool := (100 <=? id) && (id <? 200).

(* what the model driver prints for one (instance, fault set) *)
Definition faults_of (ks : list nat) : nat -> bool := fun i => existsb (Nat.eqb i) ks.
Definition run_inst (id : nat) (ks : list nat) : option outcome :=
  match inst_by_id id with Some sc => Some (run_scn sc (faults_of ks)) | None => None end.
(* labels whose handler can never run: the callee makes no acquisition for these arguments *)
Definition dead_labels : list nat := [72; 157; 168].
Definition single_runs : list (nat -> bool) := no_fault :: map single (seq 0 16).
Definition reached_labels (sc : scn) : list nat := flat_map (fun f => o_labels (run_scn sc f)) single_runs.
Definition op_labels (sc : scn) : list nat := labels_of_list (s_op sc).
Definition labels_at (id k : nat) : list nat :=       (* k = 0: no fault; k >= 1: the k-th call fails *)
  match inst_by_id id with
  | Some sc => o_labels (run_scn sc (match k with 0 => no_fault | S j => single j end))
  | None => []
  end.
Definition op_labels_of (id : nat) : list nat :=
  match inst_by_id id with Some sc => op_labels sc | None => [] end.
Definition inst_ids : list nat := map fst inst_table.

Definition nvals_of (id : nat) : nat :=
  match inst_by_id id with Some sc => length (s_values sc) | None => 0 end.
Definition retry_of (id : nat) : bool :=
  match inst_by_id id with Some sc => s_retry sc | None => false end.
Definition dfail_of (id : nat) : bool :=
  match inst_by_id id with Some sc => s_dfail sc | None => false end.
Definition cont_of (id : nat) : bool :=
  match inst_by_id id with Some sc => negb (no_stmts (s_cont sc)) | None => false end.
