(* C18 — generic theorems, proved once for every program of the language:
   the outcome depends only on the oracle positions actually consulted
   (locality); hence the finite decision tree explored by [wf_scn] covers
   EVERY fault function, and a scenario accepted by the checker is
   failure-reporting, leak-free, crash-free and destroy-safe under every
   fault function; behaviour under any fault set equals behaviour under its
   first hit. *)
From MV Require Import C18.Model.

Definition agree (f g : nat -> bool) (a b : nat) : Prop := forall i, a <= i < b -> f i = g i.

(* ---------- the nested fixpoint equals exec_list ---------- *)

Lemma go_eq f : forall l x,
  (fix go (l : list stmt) (x : st) {struct l} : st :=
     match l with [] => x | s :: t => if stopped x then x else go t (exec f s x) end) l x
  = exec_list f l x.
Proof.
  induction l as [|a l IH]; intros x; [reflexivity|].
  cbn [exec_list]. destruct (stopped x); [reflexivity|]. apply IH.
Qed.

Lemma exec_IfNull f rs b x :
  exec f (IfNull rs b) x = if existsb (fun r => is_null (pv x r)) rs then exec_list f b x else x.
Proof. cbn [exec]. rewrite go_eq. reflexivity. Qed.

Lemma exec_IfSet f r b x :
  exec f (IfSet r b) x = if is_null (pv x r) then x else exec_list f b x.
Proof. cbn [exec]. rewrite go_eq. reflexivity. Qed.

Definition call_rc (y : st) : rc := match fin y with Some c0 => c0 | None => Ok end.
Definition call_in (x : st) : st := mkst (cnt x) (live x) (pv x) Ok None (bad x) (trace x).
Definition call_out (x y : st) (asg : bool) : st :=
  mkst (cnt y) (live y) (pv y) (if asg then call_rc y else retv x) (fin x) (bad y) (trace y).

Lemma exec_Call f c asg onf x :
  exec f (Call c asg onf) x =
  let y := exec_list f c (call_in x) in
  match call_rc y with Fail => exec_list f onf (call_out x y asg) | Ok => call_out x y asg end.
Proof. cbn [exec]. rewrite !go_eq. reflexivity. Qed.

(* ---------- induction principle for the nested type ---------- *)

Section StmtInd.
  Variable P : stmt -> Prop.
  Hypothesis HAlloc : forall r, P (Alloc r).
  Hypothesis HAlloc2 : forall r1 r2, P (Alloc2 r1 r2).
  Hypothesis HGet : forall r, P (Get r).
  Hypothesis HLbl : forall n, P (Lbl n).
  Hypothesis HFree : forall r, P (Free r).
  Hypothesis HSetNull : forall r, P (SetNull r).
  Hypothesis HMark : forall r, P (Mark r).
  Hypothesis HUse : forall r, P (Use r).
  Hypothesis HMove : forall d s, P (Move d s).
  Hypothesis HStuck : P Stuck.
  Hypothesis HSetRet : forall c, P (SetRet c).
  Hypothesis HRet : forall o, P (Ret o).
  Hypothesis HIfNull : forall rs b, Forall P b -> P (IfNull rs b).
  Hypothesis HIfSet : forall r b, Forall P b -> P (IfSet r b).
  Hypothesis HCall : forall c a o, Forall P c -> Forall P o -> P (Call c a o).

  Fixpoint stmt_ind2 (s : stmt) : P s :=
    let fix fa (l : list stmt) : Forall P l :=
      match l with
      | [] => Forall_nil P
      | s0 :: t => Forall_cons s0 (stmt_ind2 s0) (fa t)
      end in
    match s with
    | Alloc r => HAlloc r
    | Alloc2 r1 r2 => HAlloc2 r1 r2
    | Get r => HGet r
    | Lbl n => HLbl n
    | Free r => HFree r
    | SetNull r => HSetNull r
    | Mark r => HMark r
    | Use r => HUse r
    | Move d s0 => HMove d s0
    | Stuck => HStuck
    | SetRet c => HSetRet c
    | Ret o => HRet o
    | IfNull rs b => HIfNull rs b (fa b)
    | IfSet r b => HIfSet r b (fa b)
    | Call c a o => HCall c a o (fa c) (fa o)
    end.
End StmtInd.

(* ---------- locality ---------- *)

Definition LP (s : stmt) : Prop := forall f g x,
  cnt x <= cnt (exec f s x) /\
  (agree f g (cnt x) (cnt (exec f s x)) -> exec g s x = exec f s x).

Definition LQ (l : list stmt) : Prop := forall f g x,
  cnt x <= cnt (exec_list f l x) /\
  (agree f g (cnt x) (cnt (exec_list f l x)) -> exec_list g l x = exec_list f l x).

Lemma agree_sub f g a b a' b' : agree f g a b -> a <= a' -> b' <= b -> agree f g a' b'.
Proof. intros H ? ? i Hi. apply H. lia. Qed.

Lemma LQ_of_Forall l : Forall LP l -> LQ l.
Proof.
  induction 1 as [|s t Hs Ht IH]; intros f g x.
  - cbn. split; [lia|reflexivity].
  - cbn [exec_list]. destruct (stopped x).
    + split; [lia|reflexivity].
    + destruct (Hs f g x) as [H1 H2].
      destruct (IH f g (exec f s x)) as [H3 H4].
      split; [lia|]. intros Ha.
      rewrite H2 by (eapply agree_sub; [exact Ha|lia|lia]).
      apply H4. eapply agree_sub; [exact Ha|lia|lia].
Qed.

Lemma LP_all : forall s, LP s.
Proof.
  apply stmt_ind2.
  - (* Alloc *) intros r f g x. cbn [exec]. split.
    + destruct (f (cnt x)); cbn; lia.
    + intros Ha. assert (E : f (cnt x) = g (cnt x)).
      { apply Ha. destruct (f (cnt x)); cbn; lia. }
      rewrite <- E. reflexivity.
  - (* Alloc2 *) intros r1 r2 f g x. cbn [exec]. split.
    + destruct (f (cnt x)); cbn; lia.
    + intros Ha. assert (E : f (cnt x) = g (cnt x)).
      { apply Ha. destruct (f (cnt x)); cbn; lia. }
      rewrite <- E. reflexivity.
  - intros r f g x. cbn. split; [lia|reflexivity].
  - intros n f g x. cbn. split; [lia|reflexivity].
  - intros r f g x. cbn [exec]. split; [destruct (pv x r); cbn; lia|reflexivity].
  - intros r f g x. cbn. split; [lia|reflexivity].
  - intros r f g x. cbn. split; [lia|reflexivity].
  - intros r f g x. cbn [exec]. split; [destruct (pv x r); cbn; lia|reflexivity].
  - intros d s f g x. cbn. split; [lia|reflexivity].
  - intros f g x. cbn. split; [lia|reflexivity].
  - intros c f g x. cbn. split; [lia|reflexivity].
  - intros o f g x. cbn. split; [lia|reflexivity].
  - (* IfNull *) intros rs b Hb f g x. rewrite !exec_IfNull.
    destruct (existsb _ rs).
    + apply (LQ_of_Forall b Hb f g x).
    + split; [lia|reflexivity].
  - (* IfSet *) intros r b Hb f g x. rewrite !exec_IfSet.
    destruct (is_null (pv x r)).
    + split; [lia|reflexivity].
    + apply (LQ_of_Forall b Hb f g x).
  - (* Call *) intros c a o Hc Ho f g x. rewrite !exec_Call. cbv zeta.
    destruct (LQ_of_Forall c Hc f g (call_in x)) as [H1 H2].
    change (cnt (call_in x)) with (cnt x) in *.
    set (y := exec_list f c (call_in x)) in *.
    destruct (LQ_of_Forall o Ho f g (call_out x y a)) as [H3 H4].
    change (cnt (call_out x y a)) with (cnt y) in *.
    split.
    + destruct (call_rc y); [exact H1|]. lia.
    + intros Ha.
      assert (Ey : exec_list g c (call_in x) = y).
      { apply H2. eapply agree_sub; [exact Ha|lia|].
        destruct (call_rc y); [cbn; lia|exact H3]. }
      rewrite Ey. destruct (call_rc y); [reflexivity|].
      apply H4. eapply agree_sub; [exact Ha|exact H1|lia].
Qed.

Lemma exec_list_local l : LQ l.
Proof. apply LQ_of_Forall. apply Forall_forall. intros s _. apply LP_all. Qed.

Lemma run_scn_local sc f g :
  agree f g 0 (o_att (run_scn sc f)) -> run_scn sc g = run_scn sc f.
Proof.
  unfold run_scn. cbn [o_att]. intros Ha.
  set (x0 := restart (exec_list no_fault (s_pre sc) init_st)) in *.
  destruct (exec_list_local (s_op sc) f g x0) as [_ H].
  rewrite H; [reflexivity|]. exact Ha.
Qed.

(* ---------- the decision tree is complete ---------- *)

Section ExploreProofs.
  Variable O : Type.
  Variable R : (nat -> bool) -> O.
  Variable att : O -> nat.
  Hypothesis R_local : forall f g, agree f g 0 (att (R f)) -> R g = R f.

  Lemma explore_complete : forall fuel p L,
    explore (fun f => att (R f)) fuel p = Some L ->
    forall f, (forall i, i < length p -> f i = nth i p false) ->
    exists q, In q L /\ R f = R (of_prefix q) /\ agree f (of_prefix q) 0 (att (R f)).
  Proof.
    induction fuel as [|fu IH]; intros p L HL f Hf; [discriminate|].
    cbn [explore] in HL.
    destruct (att (R (of_prefix p)) <=? length p) eqn:E.
    - inversion HL; subst L. apply Nat.leb_le in E.
      assert (ER : R f = R (of_prefix p)).
      { apply R_local. intros i Hi. unfold of_prefix. symmetry. apply Hf. lia. }
      exists p. split; [left; reflexivity|]. split; [exact ER|].
      rewrite ER. intros i Hi. unfold of_prefix. apply Hf. lia.
    - destruct (explore _ fu (p ++ [false])) as [a|] eqn:Ea; [|discriminate].
      destruct (explore _ fu (p ++ [true])) as [b|] eqn:Eb; [|discriminate].
      inversion HL; subst L.
      assert (Hext : forall i, i < length (p ++ [f (length p)]) ->
                f i = nth i (p ++ [f (length p)]) false).
      { intros i Hi. rewrite app_length in Hi. cbn in Hi.
        destruct (Nat.lt_ge_cases i (length p)) as [Hlt|Hge].
        - rewrite app_nth1 by exact Hlt. apply Hf. exact Hlt.
        - assert (i = length p) by lia. subst i.
          rewrite app_nth2 by lia. rewrite Nat.sub_diag. reflexivity. }
      destruct (f (length p)) eqn:Eb0.
      + destruct (IH _ _ Eb f Hext) as [q [Hq H]]. exists q. split; [apply in_or_app; right; exact Hq|exact H].
      + destruct (IH _ _ Ea f Hext) as [q [Hq H]]. exists q. split; [apply in_or_app; left; exact Hq|exact H].
  Qed.
End ExploreProofs.

(* ---------- small reflection lemmas ---------- *)

Lemma existsb_ext_in (f g : nat -> bool) l :
  (forall x, In x l -> f x = g x) -> existsb f l = existsb g l.
Proof.
  induction l as [|a l IH]; intros H; [reflexivity|]. cbn.
  rewrite (H a) by (left; reflexivity). rewrite IH; [reflexivity|].
  intros x Hx. apply H. right. exact Hx.
Qed.

Lemma find_ext_in (f g : nat -> bool) l :
  (forall x, In x l -> f x = g x) -> find f l = find g l.
Proof.
  induction l as [|a l IH]; intros H; [reflexivity|]. cbn.
  rewrite (H a) by (left; reflexivity). rewrite IH; [reflexivity|].
  intros x Hx. apply H. right. exact Hx.
Qed.

Lemma hit_agree f g n : agree f g 0 n -> hit f n = hit g n.
Proof. intros H. apply existsb_ext_in. intros x Hx. apply in_seq in Hx. apply H. lia. Qed.

Lemma first_hit_agree f g n : agree f g 0 n -> first_hit f n = first_hit g n.
Proof. intros H. apply find_ext_in. intros x Hx. apply in_seq in Hx. apply H. lia. Qed.

Lemma rc_eqb_eq a b : rc_eqb a b = true -> a = b.
Proof. destruct a, b; cbn; congruence. Qed.

Lemma list_eqb_eq : forall a b, list_eqb a b = true -> a = b.
Proof.
  induction a as [|x a IH]; destruct b as [|y b]; cbn; try congruence.
  intros H. apply andb_prop in H. destruct H as [H1 H2].
  apply Nat.eqb_eq in H1. rewrite (IH _ H2). congruence.
Qed.

Lemma out_eqb_eq a b : out_eqb a b = true -> a = b.
Proof.
  unfold out_eqb. rewrite !andb_true_iff.
  intros [[[[[[[[[[[[[[[H1 H2] H3] H4] H5] H6] H7] H8] H9] H10] H11] H12] H13] H14] H15] H16].
  destruct a, b; cbn in *.
  apply list_eqb_eq in H14. apply Bool.eqb_prop in H15. apply Nat.eqb_eq in H16.
  apply Bool.eqb_prop in H9. apply Nat.eqb_eq in H10.
  apply Bool.eqb_prop in H11. apply Bool.eqb_prop in H12. apply list_eqb_eq in H13.
  apply rc_eqb_eq in H1. apply Nat.eqb_eq in H2. apply list_eqb_eq in H3.
  apply Bool.eqb_prop in H4. apply list_eqb_eq in H5. apply list_eqb_eq in H6.
  apply Bool.eqb_prop in H7. apply list_eqb_eq in H8. subst. reflexivity.
Qed.

Lemma incl_b_spec a b : incl_b a b = true <-> (forall r, In r a -> In r b).
Proof.
  unfold incl_b. rewrite forallb_forall. split; intros H r Hr.
  - apply H in Hr. apply existsb_exists in Hr. destruct Hr as [y [Hy E]].
    apply Nat.eqb_eq in E. subst. exact Hy.
  - apply existsb_exists. exists r. split; [apply H; exact Hr|apply Nat.eqb_refl].
Qed.

Lemma same_set_spec a b : same_set a b = true <-> (forall r, In r a <-> In r b).
Proof.
  unfold same_set. rewrite andb_true_iff, !incl_b_spec. split.
  - intros [H1 H2] r. split; auto.
  - intros H. split; intros r; apply H.
Qed.

Lemma is_nil_spec l : is_nil l = true <-> l = [].
Proof. destruct l; cbn; split; congruence. Qed.

(* ---------- main theorems ---------- *)

Lemma wf_leaf sc : wf_scn sc = true -> forall f,
  exists q, good sc (of_prefix q) (run_scn sc (of_prefix q)) = true /\ reduces sc q = true /\
            run_scn sc f = run_scn sc (of_prefix q) /\
            agree f (of_prefix q) 0 (o_att (run_scn sc f)).
Proof.
  unfold wf_scn, leaves. intros H f.
  destruct (explore _ explore_fuel []) as [L|] eqn:E; [|discriminate].
  destruct (explore_complete outcome (run_scn sc) o_att (run_scn_local sc) _ _ _ E f) as [q [Hq [H1 H2]]].
  { cbn. intros i Hi. lia. }
  rewrite forallb_forall in H. apply H in Hq. apply andb_prop in Hq. destruct Hq as [Hg Hr].
  exists q. auto.
Qed.

(* every fault function, not only the enumerated ones *)
Lemma wf_good sc : wf_scn sc = true -> forall f, good sc f (run_scn sc f) = true.
Proof.
  intros H f. destruct (wf_leaf sc H f) as [q [Hg [_ [E Ha]]]].
  unfold good in *. rewrite (hit_agree f (of_prefix q)) by exact Ha.
  rewrite E in *. exact Hg.
Qed.

Lemma wf_multi_fault sc : wf_scn sc = true -> forall f k,
  first_hit f (o_att (run_scn sc f)) = Some k -> run_scn sc f = run_scn sc (single k).
Proof.
  intros H f k Hk. destruct (wf_leaf sc H f) as [q [_ [Hr [E Ha]]]].
  rewrite (first_hit_agree f (of_prefix q)) in Hk by exact Ha.
  unfold reduces in Hr. rewrite E in *. rewrite Hk in Hr.
  apply out_eqb_eq in Hr. congruence.
Qed.

Section Readings.
  Variable sc : scn.
  Hypothesis WF : wf_scn sc = true.
  Variable f : nat -> bool.
  Let o := run_scn sc f.

  Lemma wf_no_fault_hit :
    hit f (o_att o) = false ->
    o_rc o = Ok /\ o_bad o = false /\ (forall r, In r (o_live o) <-> In r (s_owns sc)) /\
    o_dbad o = false /\ o_dlive o = [].
  Proof.
    intros Hh. pose proof (wf_good sc WF f) as G. unfold good in G. fold o in G. rewrite Hh in G.
    unfold good_ok in G. rewrite !andb_true_iff in G.
    destruct G as [[[[[[G1 G2] G3] G4] G5] _] _].
    apply rc_eqb_eq in G1. apply negb_true_iff in G2.
    pose proof (proj1 (same_set_spec _ _) G3) as G3'.
    apply negb_true_iff in G4. apply (proj1 (is_nil_spec _)) in G5. auto.
  Qed.

  Lemma wf_fault_hit :
    hit f (o_att o) = true ->
    (s_reports sc = true -> o_rc o = Fail) /\ o_bad o = false /\
    (s_retains sc = false -> forall r, In r (o_live o) <-> In r (o_base o)) /\
    o_dbad o = false /\ o_dlive o = [].
  Proof.
    intros Hh. pose proof (wf_good sc WF f) as G. unfold good in G. fold o in G. rewrite Hh in G.
    unfold good_fail in G. rewrite !andb_true_iff in G.
    destruct G as [[[[[[[[G1 G2] G3] G4] G5] _] _] _] _].
    apply negb_true_iff in G2. apply negb_true_iff in G4. apply (proj1 (is_nil_spec _)) in G5.
    split; [|split; [exact G2|split; [|split; [exact G4|exact G5]]]].
    - intros Hr. rewrite Hr in G1. apply rc_eqb_eq in G1. exact G1.
    - intros Hr. rewrite Hr in G3. exact (proj1 (same_set_spec _ _) G3).
  Qed.

  Lemma wf_destroy_releases_all : o_dbad o = false /\ o_dlive o = [].
  Proof.
    destruct (hit f (o_att o)) eqn:Hh.
    - destruct (wf_fault_hit Hh) as [_ [_ [_ H]]]. exact H.
    - destruct (wf_no_fault_hit Hh) as [_ [_ [_ H]]]. exact H.
  Qed.
End Readings.

(* for a constructor (nothing pre-built) "live = base" reads "nothing is live" *)
Lemma ctor_base_empty sc f : s_pre sc = [] -> o_base (run_scn sc f) = [].
Proof. unfold run_scn. intros E. rewrite E. reflexivity. Qed.

Lemma same_as_nil l : (forall r : res, In r l <-> In r []) -> l = [].
Proof. destruct l as [|a l]; [reflexivity|]. intros H. destruct (proj1 (H a)). left. reflexivity. Qed.

(* ---------- the property as a proposition, and its equivalence with [good] ---------- *)

Definition holds (sc : scn) (f : nat -> bool) : Prop :=
  let o := run_scn sc f in
  (hit f (o_att o) = false ->
     o_rc o = Ok /\ o_bad o = false /\ (forall r, In r (o_live o) <-> In r (s_owns sc)) /\
     o_dbad o = false /\ o_dlive o = [] /\
     (* every stored value is released by destroy (exactly once: a second release is a double free = o_dbad) *)
     o_freed o = length (s_values sc) /\
     (* the object stays usable: the continued use (more operations, beyond the old capacity) succeeds *)
     o_cont_ok o = true) /\
  (hit f (o_att o) = true ->
     (s_reports sc = true -> o_rc o = Fail) /\ o_bad o = false /\
     (s_retains sc = false -> forall r, In r (o_live o) <-> In r (o_base o)) /\
     o_dbad o = false /\ o_dlive o = [] /\
     (* safe to retry (future B): the retried operation succeeds, the object is used further, and destroy then
        releases everything - every stored value, nothing live, no crash / double free *)
     (s_retry sc = true -> o_retry_ok o = true /\ o_rfreed o = length (s_values sc) /\
                           o_rdbad o = false /\ o_rdlive o = []) /\
     (* the failed call changed nothing: what was live before is still live and still pointed to by its field *)
     (s_retains sc = false -> o_kept o = true) /\
     (* ... and after the retry the object stays usable (continued use succeeds) *)
     o_cont_ok o = true /\
     (* safe to destroy (future A): the destroy that follows the failure directly releases every stored value *)
     (s_dfail sc = true -> o_freed o = length (s_values sc))).

Lemma rc_eqb_refl a : rc_eqb a a = true.
Proof. destruct a; reflexivity. Qed.

Lemma holds_good sc f : holds sc f -> good sc f (run_scn sc f) = true.
Proof.
  unfold holds, good. cbv zeta. intros [H0 H1].
  destruct (hit f (o_att (run_scn sc f))).
  - destruct (H1 eq_refl) as [A [B [C [D [E [F [K [CO DF]]]]]]]]. unfold good_fail.
    rewrite !andb_true_iff. repeat split.
    + destruct (s_reports sc); [rewrite A by reflexivity; reflexivity|reflexivity].
    + rewrite B. reflexivity.
    + destruct (s_retains sc); [reflexivity|]. apply same_set_spec. apply C. reflexivity.
    + rewrite D. reflexivity.
    + rewrite E. reflexivity.
    + destruct (s_retry sc); [|reflexivity]. destruct (F eq_refl) as [F1 [F2 [F3 F4]]].
      rewrite F1, F3, F4. unfold rfreed_all. rewrite F2. rewrite Nat.eqb_refl. reflexivity.
    + destruct (s_retains sc); [reflexivity|]. apply K. reflexivity.
    + exact CO.
    + destruct (s_dfail sc); [|reflexivity]. unfold freed_all. rewrite (DF eq_refl). apply Nat.eqb_refl.
  - destruct (H0 eq_refl) as [A [B [C [D [E [F CO]]]]]]. unfold good_ok.
    rewrite !andb_true_iff. repeat split.
    + rewrite A. reflexivity.
    + rewrite B. reflexivity.
    + apply same_set_spec. exact C.
    + rewrite D. reflexivity.
    + rewrite E. reflexivity.
    + unfold freed_all. rewrite F. apply Nat.eqb_refl.
    + exact CO.
Qed.

Lemma good_holds sc f : good sc f (run_scn sc f) = true -> holds sc f.
Proof.
  unfold holds, good. cbv zeta. intros G. split; intros Hh; rewrite Hh in G.
  - unfold good_ok in G. rewrite !andb_true_iff in G.
    destruct G as [[[[[[G1 G2] G3] G4] G5] G6] G7].
    apply rc_eqb_eq in G1. apply negb_true_iff in G2.
    pose proof (proj1 (same_set_spec _ _) G3) as G3'.
    apply negb_true_iff in G4. apply (proj1 (is_nil_spec _)) in G5.
    apply Nat.eqb_eq in G6. auto 12.
  - unfold good_fail in G. rewrite !andb_true_iff in G.
    destruct G as [[[[[[[[G1 G2] G3] G4] G5] G6] G7] G8] G9].
    apply negb_true_iff in G2. apply negb_true_iff in G4. apply (proj1 (is_nil_spec _)) in G5.
    split; [|split; [exact G2|split; [|split; [exact G4|split; [exact G5|split; [|split; [|split; [exact G8|]]]]]]]].
    + intros Hr. rewrite Hr in G1. apply rc_eqb_eq in G1. exact G1.
    + intros Hr. rewrite Hr in G3. exact (proj1 (same_set_spec _ _) G3).
    + intros Hr. rewrite Hr in G6. rewrite !andb_true_iff in G6. destruct G6 as [[[R1 R2] R3] R4].
      apply Nat.eqb_eq in R2. apply negb_true_iff in R3. apply (proj1 (is_nil_spec _)) in R4. auto.
    + intros Hr. rewrite Hr in G7. exact G7.
    + intros Hr. rewrite Hr in G9. apply Nat.eqb_eq in G9. exact G9.
Qed.

(* MAIN: a scenario accepted by the checker satisfies the property under EVERY fault function *)
Theorem wf_sound sc : wf_scn sc = true -> forall f, holds sc f.
Proof. intros H f. apply good_holds. apply wf_good. exact H. Qed.

Lemma violates_not_holds sc k : violates sc k = true -> ~ holds sc (single k).
Proof.
  unfold violates. intros V H. apply holds_good in H. rewrite H in V. discriminate.
Qed.
