(* C18 — coverage of the allocating entry points: the HAND-WRITTEN side of the obligation
   [every_allocating_entry_point_accounted_for].  Definitions only.

   coq/gen/Params_C18.v (regenerated from the clang AST of every .c file under muggle/c on every run) lists
     alloc_entry_points   functions with external linkage from which an acquisition primitive is reachable
     alloc_callbacks      static functions that acquire and are entered only through a function pointer
     driven_under_faults  library functions called by the driver functions that run with the faults armed
     driven_reach         (entry point e, driven function d): e is reachable from d through direct calls
   Every entry point must be (1) driven, or (2) listed in [reached_through] with a driven caller from which the
   generated call graph really reaches it, or (3) listed in [excluded] with the reason.  Every callback must be in
   [callbacks_driven].  A new allocating function in the library, or an instance that disappears from the driver,
   breaks the obligation; so does an exclusion that is no longer needed (stale). *)
From Coq Require Import List String.
Import ListNotations.
Open Scope string_scope.

(* (entry point, the driven function whose fault enumeration reaches it) *)
Definition reached_through : list (string * string) := [].   (* none needed at present: every such function is driven itself *)

(* (entry point, why no instance drives it directly) *)
Definition excluded : list (string * string) :=
  [ ("muggle_evloop_init_epoll",
     "entered through the back-end table of muggle_evloop_new (no direct call): instances 38, 41, 42, 57 enumerate its two acquisitions; generated scenario 201 translates it");
    ("muggle_evloop_init_poll",
     "entered through the back-end table of muggle_evloop_new: instances 39, 55 enumerate its two acquisitions; generated scenario 202 translates it");
    ("muggle_socket_evloop_handle_alloc",
     "the default cb_alloc installed by muggle_socket_evloop_handle_init; entered through that pointer by the accept path: instance 59 fails its malloc (label 78)");
    ("muggle_dl_load",
     "os/: outside the modules the property quantifies over (sync, memory, dsaa, event, net, log); returns dlopen's result as it is, the handle lives inside libc");
    ("muggle_os_listdir",
     "os/: outside the modules the property quantifies over.  OBSERVATION (not claimed): the file-name malloc is unchecked (NULL dereference in memcpy) and a failed node malloc silently drops the entry");
    ("muggle_stacktrace_get",
     "os/: outside the modules the property quantifies over; its symbol strings come from backtrace_symbols (allocated inside libc, not interposable)");
    ("muggle_shm_open",
     "shmget / shmat are neither an allocation (malloc family) nor one of the descriptor-creating calls of the property (eventfd, epoll_create, pipe, socket).  OBSERVATION (not claimed): when shmat fails after shmget created the segment, the segment is neither removed nor reported to the caller");
    ("muggle_shm_ringbuf_open",
     "acquires only through muggle_shm_open (see there)") ].

(* (callback, the instance that enters it with the faults armed) *)
Definition callbacks_driven : list (string * string) :=
  [ ("muggle_log_file_rotate_handler_write", "instance 79 log_file_rotate_handler_write_rotate (handler->write)");
    ("muggle_log_file_time_rot_handler_write", "instance 302 log_file_time_rot_handler_write_rotate (handler->write)");
    ("muggle_socket_evloop_on_read", "instance 59 socket_evloop_on_read_accept (evloop->cb_read); accept() itself is tracked, never failed") ].

Close Scope string_scope.
