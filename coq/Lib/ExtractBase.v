(* Forces the inductive number types into every extracted model so that the
   shared OCaml conversion code (ocaml/zconv.ml.inc) always finds them. *)
From Coq Require Import ZArith NArith.
Definition force_types := (Z.of_N, N.of_nat, Z.to_nat, Z.add, N.add, Nat.add, Pos.add).
