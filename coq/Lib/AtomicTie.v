(* Shared tie for muggle/c/base/atomic.h (anchor of C01, C02, C04, C05).

   The drivers of the concurrent properties compile the repository with harness/vsched/vs_hooks.h force-included,
   which re-defines every muggle_atomic_* macro; the macro BODIES of atomic.h are therefore not executed by any
   scheduled run.  lib/atomic_tie.py reads, on every run, from gcc's GIMPLE of a probe translation unit
     - [header_atomic_table]: for every macro of atomic.h the __atomic builtin it expands to, which macro
       parameter (or constant) each argument of the builtin is, and how the builtin's result is returned;
     - [hook_atomic_table]: the same for the re-definition in vs_hooks.h, plus what the hook logs;
     - the values of muggle_memory_order_* and __ATOMIC_*, sizes/signedness of the muggle_atomic_* types
   into coq/gen/Params_Cxx.v.  This file is the hand-written side: the expected table (what the models of
   Lib/Conc.v assume an operation to be), what a hook of a given macro has to be, the boolean checkers and their
   soundness, the memory order a call site really gets, and the value semantics of the operations (used by the
   unhooked smoke driver). *)
From Coq Require Import List ZArith Bool Arith String Lia.
From MV Require Import Lib.Conc.
Import ListNotations.
Local Open Scope Z_scope.

Inductive abuiltin :=
  | BLoad | BStore | BXchg | BCas | BFadd | BFsub | BTas | BClear | BFence | BSigFence | BOther.
(* an argument of the builtin: the i-th parameter of the macro, a constant, or anything else *)
Inductive aarg := AParam (i : nat) | AConst (z : Z) | AOther.
(* how the macro's value is obtained from the builtin's: none, the same, its boolean negation, anything else *)
Inductive aret := RVoid | RId | RNot | ROther.

Record amacro := { am_builtin : abuiltin; am_args : list aarg; am_ret : aret }.
Record hmacro := {
  hm_builtin : abuiltin; hm_args : list aarg;
  hm_aux : list (abuiltin * list aarg);   (* other atomic builtins executed before the main one *)
  hm_log : string;                        (* operation name written to the trace *)
  hm_logptr : aarg; hm_logmo : aarg;      (* cell and memory order written to the trace *)
  hm_spurious : bool;                     (* the hook asks the schedule for a spurious failure *)
}.

(* ------------------------------------------------------------------ *)
(* boolean equalities *)
Definition abuiltin_eqb (a b : abuiltin) : bool :=
  match a, b with
  | BLoad, BLoad | BStore, BStore | BXchg, BXchg | BCas, BCas | BFadd, BFadd | BFsub, BFsub
  | BTas, BTas | BClear, BClear | BFence, BFence | BSigFence, BSigFence | BOther, BOther => true
  | _, _ => false
  end.
Definition aarg_eqb (a b : aarg) : bool :=
  match a, b with
  | AParam i, AParam j => Nat.eqb i j
  | AConst x, AConst y => Z.eqb x y
  | AOther, AOther => true
  | _, _ => false
  end.
Definition aret_eqb (a b : aret) : bool :=
  match a, b with RVoid, RVoid | RId, RId | RNot, RNot | ROther, ROther => true | _, _ => false end.
Fixpoint list_eqb {A} (eqb : A -> A -> bool) (a b : list A) : bool :=
  match a, b with
  | [], [] => true
  | x :: r, y :: s => eqb x y && list_eqb eqb r s
  | _, _ => false
  end.
Definition amacro_eqb (a b : amacro) : bool :=
  abuiltin_eqb (am_builtin a) (am_builtin b) && list_eqb aarg_eqb (am_args a) (am_args b) &&
  aret_eqb (am_ret a) (am_ret b).
Definition aux_eqb (a b : abuiltin * list aarg) : bool :=
  abuiltin_eqb (fst a) (fst b) && list_eqb aarg_eqb (snd a) (snd b).
Definition hmacro_eqb (a b : hmacro) : bool :=
  abuiltin_eqb (hm_builtin a) (hm_builtin b) && list_eqb aarg_eqb (hm_args a) (hm_args b) &&
  list_eqb aux_eqb (hm_aux a) (hm_aux b) && String.eqb (hm_log a) (hm_log b) &&
  aarg_eqb (hm_logptr a) (hm_logptr b) && aarg_eqb (hm_logmo a) (hm_logmo b) &&
  Bool.eqb (hm_spurious a) (hm_spurious b).

Lemma abuiltin_eqb_eq a b : abuiltin_eqb a b = true -> a = b.
Proof. destruct a, b; simpl; intros H; try discriminate; reflexivity. Qed.
Lemma aarg_eqb_eq a b : aarg_eqb a b = true -> a = b.
Proof.
  destruct a, b; simpl; intros H; try discriminate; try reflexivity.
  - apply Nat.eqb_eq in H. now subst.
  - apply Z.eqb_eq in H. now subst.
Qed.
Lemma aret_eqb_eq a b : aret_eqb a b = true -> a = b.
Proof. destruct a, b; simpl; intros H; try discriminate; reflexivity. Qed.
Lemma list_eqb_eq {A} (eqb : A -> A -> bool) : (forall x y, eqb x y = true -> x = y) ->
  forall a b, list_eqb eqb a b = true -> a = b.
Proof.
  intros He a. induction a as [|x r IH]; intros [|y s]; simpl; intros H; try discriminate; [reflexivity|].
  apply andb_prop in H as [H1 H2]. f_equal; [now apply He|now apply IH].
Qed.
Lemma amacro_eqb_eq a b : amacro_eqb a b = true -> a = b.
Proof.
  unfold amacro_eqb. intros H. apply andb_prop in H as [H H3]. apply andb_prop in H as [H1 H2].
  destruct a, b; simpl in *. f_equal;
    [now apply abuiltin_eqb_eq | now apply (list_eqb_eq aarg_eqb aarg_eqb_eq) | now apply aret_eqb_eq].
Qed.
Lemma aux_eqb_eq a b : aux_eqb a b = true -> a = b.
Proof.
  unfold aux_eqb. intros H. apply andb_prop in H as [H1 H2]. destruct a, b; simpl in *. f_equal;
    [now apply abuiltin_eqb_eq | now apply (list_eqb_eq aarg_eqb aarg_eqb_eq)].
Qed.
Lemma hmacro_eqb_eq a b : hmacro_eqb a b = true -> a = b.
Proof.
  unfold hmacro_eqb. intros H.
  apply andb_prop in H as [H H7]. apply andb_prop in H as [H H6]. apply andb_prop in H as [H H5].
  apply andb_prop in H as [H H4]. apply andb_prop in H as [H H3]. apply andb_prop in H as [H1 H2].
  destruct a, b; simpl in *. f_equal.
  - now apply abuiltin_eqb_eq.
  - now apply (list_eqb_eq aarg_eqb aarg_eqb_eq).
  - now apply (list_eqb_eq aux_eqb aux_eqb_eq).
  - now apply String.eqb_eq.
  - now apply aarg_eqb_eq.
  - now apply aarg_eqb_eq.
  - now apply Bool.eqb_prop.
Qed.

(* ------------------------------------------------------------------ *)
(* tables *)
Fixpoint lookup {A} (n : string) (t : list (string * A)) : option A :=
  match t with
  | [] => None
  | (m, x) :: r => if String.eqb n m then Some x else lookup n r
  end.
Fixpoint names_distinct (l : list string) : bool :=
  match l with
  | [] => true
  | x :: r => negb (existsb (String.eqb x) r) && names_distinct r
  end.

Lemma lookup_in {A} n (t : list (string * A)) x : lookup n t = Some x -> In (n, x) t.
Proof.
  induction t as [|[m y] r IH]; simpl; [discriminate|].
  destruct (String.eqb_spec n m); intros H.
  - inversion H; subst. now left.
  - right. now apply IH.
Qed.

(* every entry of [expected] is, literally, the entry of that name in [actual] *)
Definition table_covers {A} (eqb : A -> A -> bool) (expected actual : list (string * A)) : bool :=
  forallb (fun e => match lookup (fst e) actual with Some x => eqb x (snd e) | None => false end) expected.

Lemma table_covers_sound {A} (eqb : A -> A -> bool) : (forall x y, eqb x y = true -> x = y) ->
  forall expected actual, table_covers eqb expected actual = true ->
  forall n x, In (n, x) expected -> In (n, x) actual /\ lookup n actual = Some x.
Proof.
  intros He expected actual H n x Hin. unfold table_covers in H. rewrite forallb_forall in H.
  specialize (H _ Hin). simpl in H. destruct (lookup n actual) as [y|] eqn:E; [|discriminate].
  apply He in H. subst y. split; [now apply lookup_in|reflexivity].
Qed.

(* ------------------------------------------------------------------ *)
(* the expected header: the GCC branch of atomic.h, as the models of Lib/Conc.v understand the operations *)
Definition P (i : nat) := AParam i.
Definition mk (b : abuiltin) (args : list aarg) (r : aret) : amacro :=
  {| am_builtin := b; am_args := args; am_ret := r |}.
(* __atomic_compare_exchange_n (ptr, expected, desired, weak, success_order, failure_order) *)
Definition cas_weak := mk BCas [P 0; P 1; P 2; AConst 1; P 3; AConst 0] RId.
Definition cas_strong := mk BCas [P 0; P 1; P 2; AConst 0; P 3; AConst 0] RId.

Definition expected_atomic_table : list (string * amacro) := [
  ("muggle_atomic_load", mk BLoad [P 0; P 1] RId);
  ("muggle_atomic_store", mk BStore [P 0; P 1; P 2] RVoid);
  ("muggle_atomic_exchange", mk BXchg [P 0; P 1; P 2] RId);
  ("muggle_atomic_exchange32", mk BXchg [P 0; P 1; P 2] RId);
  ("muggle_atomic_exchange64", mk BXchg [P 0; P 1; P 2] RId);
  ("muggle_atomic_cmp_exch_weak", cas_weak);
  ("muggle_atomic_cmp_exch_weak32", cas_weak);
  ("muggle_atomic_cmp_exch_weak64", cas_weak);
  ("muggle_atomic_cmp_exch_strong", cas_strong);
  ("muggle_atomic_cmp_exch_strong32", cas_strong);
  ("muggle_atomic_cmp_exch_strong64", cas_strong);
  ("muggle_atomic_fetch_add", mk BFadd [P 0; P 1; P 2] RId);
  ("muggle_atomic_fetch_add32", mk BFadd [P 0; P 1; P 2] RId);
  ("muggle_atomic_fetch_add64", mk BFadd [P 0; P 1; P 2] RId);
  ("muggle_atomic_fetch_sub", mk BFsub [P 0; P 1; P 2] RId);
  ("muggle_atomic_fetch_sub32", mk BFsub [P 0; P 1; P 2] RId);
  ("muggle_atomic_fetch_sub64", mk BFsub [P 0; P 1; P 2] RId);
  (* the library's test_and_set answers "acquired": the negation of the previous value *)
  ("muggle_atomic_test_and_set", mk BTas [P 0; P 1] RNot);
  ("muggle_atomic_clear", mk BClear [P 0; P 1] RVoid);
  ("muggle_atomic_thread_fence", mk BFence [P 0] RVoid);
  ("muggle_atomic_signal_fence", mk BSigFence [P 0] RVoid)
]%string.

(* macros the scheduler harness leaves alone (no shared-memory effect) *)
Definition allowed_unhooked : list string := ["muggle_atomic_signal_fence"%string].

(* position of the (success) memory-order argument of each builtin *)
Definition order_pos (b : abuiltin) : nat :=
  match b with
  | BLoad | BTas | BClear => 1 | BStore | BXchg | BFadd | BFsub => 2 | BCas => 4 | _ => 0
  end%nat.
Definition log_name (m : amacro) : string :=
  match am_builtin m with
  | BLoad => "load" | BStore => "store" | BXchg => "xchg" | BFadd => "fadd" | BFsub => "fsub"
  | BTas => "tas" | BClear => "clear" | BFence => "fence"
  | BCas => match nth_error (am_args m) 3 with Some (AConst 1) => "casw" | _ => "cass" end
  | _ => "?"
  end%string.
Definition is_weak (m : amacro) : bool :=
  match am_builtin m, nth_error (am_args m) 3 with BCas, Some (AConst 1) => true | _, _ => false end.
Fixpoint set_nth {A} (l : list A) (n : nat) (x : A) : list A :=
  match l, n with
  | [], _ => []
  | _ :: r, O => x :: r
  | a :: r, S k => a :: set_nth r k x
  end.

(* what the hook of a macro has to be: the same builtin on the same operands with the call site's memory
   order, which is also the order it logs; a weak compare-exchange is performed strong and its permitted
   spurious failure is a schedule choice (taken only when a relaxed load finds *expected in the cell) *)
Definition hook_of_header (m : amacro) : hmacro :=
  {| hm_builtin := am_builtin m;
     hm_args := if is_weak m then set_nth (am_args m) 3 (AConst 0) else am_args m;
     hm_aux := if is_weak m then [(BLoad, [P 0; AConst 0])] else [];
     hm_log := log_name m;
     hm_logptr := match am_builtin m with BFence => AConst 0 | _ => P 0 end;
     hm_logmo := nth (order_pos (am_builtin m)) (am_args m) AOther;
     hm_spurious := is_weak m |}.

Definition expected_hook_table : list (string * hmacro) :=
  map (fun e => (fst e, hook_of_header (snd e)))
      (filter (fun e => negb (existsb (String.eqb (fst e)) allowed_unhooked)) expected_atomic_table).

(* values of muggle_memory_order_<name> and of __ATOMIC_<NAME> (the scheduler decodes the logged order with
   the latter); the numbering is the one [mo_of_const] reads *)
Definition expected_memory_order_consts : list (string * Z * Z) :=
  [("relaxed", 0, 0); ("consume", 1, 1); ("acquire", 2, 2); ("release", 3, 3); ("acq_rel", 4, 4);
   ("seq_cst", 5, 5)]%string.
Definition mo_of_const (c : Z) : memorder :=
  if c =? 0 then Rlx else if c =? 1 then Con else if c =? 2 then Acq else if c =? 3 then Rel
  else if c =? 4 then AcqRel else if c =? 5 then SeqCst else MoNone.

Definition expected_atomic_types : list (string * Z * bool) :=
  [("muggle_atomic_byte", 1, true); ("muggle_atomic_int", 4, true); ("muggle_atomic_int32", 4, true);
   ("muggle_atomic_int64", 8, true)]%string.

Definition triple_eqb (a b : string * Z * Z) : bool :=
  String.eqb (fst (fst a)) (fst (fst b)) && Z.eqb (snd (fst a)) (snd (fst b)) && Z.eqb (snd a) (snd b).
Definition type_eqb (a b : string * Z * bool) : bool :=
  String.eqb (fst (fst a)) (fst (fst b)) && Z.eqb (snd (fst a)) (snd (fst b)) && Bool.eqb (snd a) (snd b).

(* the whole check, as one boolean *)
Definition atomic_tie_ok (header : list (string * amacro)) (hooks : list (string * hmacro))
    (unhooked : list string) (consts : list (string * Z * Z)) (types : list (string * Z * bool)) : bool :=
  table_covers amacro_eqb expected_atomic_table header &&
  names_distinct (map fst header) &&
  table_covers hmacro_eqb expected_hook_table hooks &&
  names_distinct (map fst hooks) &&
  forallb (fun n => existsb (String.eqb n) allowed_unhooked) unhooked &&
  list_eqb triple_eqb consts expected_memory_order_consts &&
  forallb (fun e => existsb (type_eqb e) types) expected_atomic_types.

(* the statement the boolean decides *)
Definition atomic_tie_holds (header : list (string * amacro)) (hooks : list (string * hmacro))
    (unhooked : list string) (consts : list (string * Z * Z)) (types : list (string * Z * bool)) : Prop :=
  (* every macro of the expected table is, in atomic.h, exactly that builtin on exactly those operands *)
  (forall n m, In (n, m) expected_atomic_table -> lookup n header = Some m) /\
  (* .. and the hook that replaces it performs the same builtin on the same operands with the call site's
     order, and logs that order *)
  (forall n m, In (n, m) expected_atomic_table -> ~ In n allowed_unhooked ->
     lookup n hooks = Some (hook_of_header m)) /\
  (* a macro of atomic.h that the hooks leave alone is one of the allowed ones *)
  (forall n, In n unhooked -> In n allowed_unhooked) /\
  consts = expected_memory_order_consts /\
  (forall e, In e expected_atomic_types -> In e types).

Lemma triple_eqb_eq a b : triple_eqb a b = true -> a = b.
Proof.
  destruct a as [[a1 a2] a3], b as [[b1 b2] b3]; unfold triple_eqb; simpl. intros H.
  apply andb_prop in H as [H H3]. apply andb_prop in H as [H1 H2].
  apply String.eqb_eq in H1. apply Z.eqb_eq in H2. apply Z.eqb_eq in H3. now subst.
Qed.
Lemma type_eqb_eq a b : type_eqb a b = true -> a = b.
Proof.
  destruct a as [[a1 a2] a3], b as [[b1 b2] b3]; unfold type_eqb; simpl. intros H.
  apply andb_prop in H as [H H3]. apply andb_prop in H as [H1 H2].
  apply String.eqb_eq in H1. apply Z.eqb_eq in H2. apply Bool.eqb_prop in H3. now subst.
Qed.

Lemma atomic_tie_sound header hooks unhooked consts types :
  atomic_tie_ok header hooks unhooked consts types = true ->
  atomic_tie_holds header hooks unhooked consts types.
Proof.
  unfold atomic_tie_ok, atomic_tie_holds. intros H.
  apply andb_prop in H as [H H7]. apply andb_prop in H as [H H6]. apply andb_prop in H as [H H5].
  apply andb_prop in H as [H H4]. apply andb_prop in H as [H H3]. apply andb_prop in H as [H1 H2].
  split; [|split; [|split; [|split]]].
  - intros n m Hin. apply (table_covers_sound amacro_eqb amacro_eqb_eq _ _ H1 n m Hin).
  - intros n m Hin Hn.
    apply (table_covers_sound hmacro_eqb hmacro_eqb_eq _ _ H3 n (hook_of_header m)).
    unfold expected_hook_table. apply in_map_iff. exists (n, m). split; [reflexivity|].
    apply filter_In. split; [assumption|]. cbn [fst].
    destruct (existsb (String.eqb n) allowed_unhooked) eqn:E; [|reflexivity].
    exfalso. apply Hn. apply existsb_exists in E as (x & Hx & Ex). apply String.eqb_eq in Ex. now subst.
  - intros n Hin. rewrite forallb_forall in H5. specialize (H5 n Hin).
    apply existsb_exists in H5 as (x & Hx & Ex). apply String.eqb_eq in Ex. now subst.
  - now apply (list_eqb_eq triple_eqb triple_eqb_eq).
  - intros e Hin. rewrite forallb_forall in H7. specialize (H7 e Hin).
    apply existsb_exists in H7 as (x & Hx & Ex). apply type_eqb_eq in Ex. now subst.
Qed.

(* ------------------------------------------------------------------ *)
(* the memory order the builtin really receives when [macro] is called with order [mo] at a call site *)
Definition eff_order (header : list (string * amacro)) (macro : string) (mo_param : nat) (mo : memorder) : memorder :=
  match lookup macro header with
  | Some m =>
    match nth_error (am_args m) (order_pos (am_builtin m)) with
    | Some (AParam k) => if Nat.eqb k mo_param then mo else MoNone
    | Some (AConst c) => mo_of_const c
    | _ => MoNone
    end
  | None => MoNone
  end.

(* ------------------------------------------------------------------ *)
(* value semantics of the operations on one cell of [bits] bits (two's complement; the atomic read-modify-write
   operations wrap, they have no undefined overflow).  Result: new cell, value returned by the macro, value left
   in *expected (compare-exchange only; 0 otherwise). *)
Inductive aop :=
  | ALoad | AStore (v : Z) | AXchg (v : Z) | ACas (expected desired : Z) | AFadd (v : Z) | AFsub (v : Z)
  | ATas | AClear.
Definition wraps (bits x : Z) : Z :=
  let m := 2 ^ bits in let y := x mod m in if y <? 2 ^ (bits - 1) then y else y - m.
Definition aop_sem (bits cell : Z) (o : aop) : Z * Z * Z :=
  match o with
  | ALoad => (cell, cell, 0)
  | AStore v => (wraps bits v, 0, 0)
  | AXchg v => (wraps bits v, cell, 0)
  | ACas e d => if cell =? e then (wraps bits d, 1, e) else (cell, 0, cell)
  | AFadd v => (wraps bits (cell + v), cell, 0)
  | AFsub v => (wraps bits (cell - v), cell, 0)
  | ATas => (1, if cell =? 0 then 1 else 0, 0)     (* true = acquired *)
  | AClear => (0, 0, 0)
  end.
Fixpoint aop_run (bits cell : Z) (ops : list aop) : Z * list (Z * Z) :=
  match ops with
  | [] => (cell, [])
  | o :: r => let '(c, res, e) := aop_sem bits cell o in
              let (c', out) := aop_run bits c r in (c', (res, e) :: out)
  end.
