(* Shared vocabulary of the concurrent models (DESIGN.md 4.2):
   interleaving semantics at the granularity of the scheduler harness
   (harness/vsched): every atomic / lock / futex / condvar / yield operation is
   one step, every plain segment between two of them is one step.
   Plain data follows a view discipline: each plain cell has a version (number
   of writes so far); each thread has a view (the version it is guaranteed to
   see); a store with order >= release stamps the atomic cell with the storer's
   view, a load with order >= acquire joins the stamp into the reader's view,
   relaxed accesses transfer nothing.  A plain read is "covered" when the
   reader's view equals the cell's latest version. *)
From Coq Require Export List ZArith Lia Bool Arith.
Export ListNotations.

Inductive memorder := Rlx | Con | Acq | Rel | AcqRel | SeqCst | MoNone.

Definition is_acq (m : memorder) : bool :=
  match m with Acq | AcqRel | SeqCst => true | _ => false end.
Definition is_rel (m : memorder) : bool :=
  match m with Rel | AcqRel | SeqCst => true | _ => false end.

Inductive opk :=
  | OLoad | OStore | OXchg | OCasW | OCasS | OFadd | OFsub | OTas | OClear | OFence
  | OFwait | OFwake | OMlock | OMtry | OMunlock | OCvwait | OCvwoke | OCvsig | OCvall
  | OYield | OPlain.

(* one line of the harness trace: E <tid> <op> <cell> <mo> <a> <b> <c> *)
Record event := Ev { e_op : opk; e_cell : nat; e_mo : memorder; e_a : Z; e_b : Z; e_c : Z }.

(* what a step shows: an operation event, or the end of a plain segment together with the
   notes (R lines: code + argument) the segment produced, or thread exit *)
Inductive label :=
  | LEv (e : event)
  | LPlain (notes : list (nat * Z))
  | LExit.

Definition upd {A} (f : nat -> A) (t : nat) (x : A) : nat -> A :=
  fun u => if Nat.eqb u t then x else f u.

Lemma upd_same {A} (f : nat -> A) t x : upd f t x t = x.
Proof. unfold upd. now rewrite Nat.eqb_refl. Qed.
Lemma upd_other {A} (f : nat -> A) t u x : u <> t -> upd f t x u = f u.
Proof. unfold upd. intros H. destruct (Nat.eqb_spec u t); [contradiction|reflexivity]. Qed.

(* generic executions: a schedule is a list of (thread, choice); a step that is not enabled
   leaves the state unchanged (so every list is a schedule) *)
Section Exec.
  Variable state : Type.
  Variable step : state -> nat -> nat -> option (state * label).

  Definition exec1 (s : state) (tc : nat * nat) : state :=
    match step s (fst tc) (snd tc) with Some (s', _) => s' | None => s end.
  Definition exec (s : state) (sched : list (nat * nat)) : state := fold_left exec1 sched s.

  Lemma exec_app s a b : exec s (a ++ b) = exec (exec s a) b.
  Proof. unfold exec. apply fold_left_app. Qed.

  Lemma inv_exec (Inv : state -> Prop) :
    (forall s t c s' l, Inv s -> step s t c = Some (s', l) -> Inv s') ->
    forall sched s, Inv s -> Inv (exec s sched).
  Proof.
    intros Hstep sched. induction sched as [|[t c] sched IH]; intros s Hs; simpl; [exact Hs|].
    apply IH. unfold exec1; simpl. destruct (step s t c) as [[s' l]|] eqn:E; [|exact Hs].
    eapply Hstep; eauto.
  Qed.

  (* trace of labels produced along a schedule (disabled steps produce nothing) *)
  Fixpoint trace (s : state) (sched : list (nat * nat)) : list (nat * label) :=
    match sched with
    | [] => []
    | (t, c) :: r =>
      match step s t c with
      | Some (s', l) => (t, l) :: trace s' r
      | None => trace s r
      end
    end.
End Exec.
