(* C08 — property theorems (stub) *)
From MV Require Import C08.Model gen.Params_C08.
Local Open Scope Z_scope.
Theorem shm_constants_match : code_cache_line = CL /\ code_hdr_size = HDR.
Proof. vm_compute. split; reflexivity. Qed.
Print Assumptions shm_constants_match.
