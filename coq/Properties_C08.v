(* C08 — property theorems only.  Each is closed by [exact] of a lemma proved in C08/Proofs*.v
   and followed by Print Assumptions.  Constants, the footprint macro and the memory orders are
   those re-extracted from the code on this run (gen/Params_C08.v). *)
From MV Require Import Lib.Leaf C08.Model C08.ModelConc C08.ProofsSeq C08.ProofsDrain C08.ProofsConc C08.ProofsConcInv C08.ProofsConcWipe C08.ProofsGen gen.Params_C08.
Local Open Scope Z_scope.

(* tie of the literals used by the model to the headers: cache line size, header layout, and the
   footprint macro MUGGLE_SHM_RINGBUF_CAL_BYTES_CACHELINE on the complete range 0 .. 4224 bytes
   (a 64-line ring holds 4096) *)
Theorem shm_constants_and_footprint_match :
  code_cache_line = CL /\ code_hdr_size = HDR /\ code_off_nbytes = 0 /\ code_off_ncl = 4 /\
  length code_cal_table = 4225%nat /\
  forallb (fun kv => cal_cachelines (Z.of_nat (fst kv)) =? snd kv) (combine (seq 0 4225) code_cal_table) = true.
Proof. vm_compute. repeat split; reflexivity. Qed.
Print Assumptions shm_constants_and_footprint_match.

(* Every message the writer commits is fetched exactly once, in commit order, with exactly the
   committed length and bytes, and fetch reports nothing only when no committed message is
   pending: along EVERY op list (all size sequences, all ring sizes) each fetch answers the head
   of the ghost FIFO (appended at commit with the bytes then in memory, popped at r_move) or
   None iff that FIFO is empty; the committed bytes have the committed length. *)
Theorem shm_seq_refines_fifo : forall n ops, 1 <= n < 2147483648 ->
  fifo_ok (hinit n) [] ops /\
  (let h := fst (reach (hinit n) [] ops) in let q := snd (reach (hinit n) [] ops) in
   h = fst (run (hinit n) ops) /\ snd (step h OFetch) = expected_fetch q /\
   Forall (fun m => Z.of_nat (length (m_data m)) = m_nb m /\ 1 <= m_nb m) q).
Proof. intros n ops H. split; [exact (seq_refines_fifo n ops H)|exact (seq_reachable_facts n ops H)]. Qed.
Print Assumptions shm_seq_refines_fifo.

(* The region handed to the writer, lines [a, a+need), lies inside the ring (leaving the last line
   for a marker), holds the payload, is disjoint from every committed unread message and from the
   wrap marker the reader may still look at. *)
Theorem shm_alloc_no_overlap : forall n ops nb h' off, 1 <= n < 2147483648 ->
  let h := fst (reach (hinit n) [] ops) in let q := snd (reach (hinit n) [] ops) in
  step h (OAlloc nb) = (h', RAlloc (Some off)) ->
  let a := wcur (hr h') in let need := cal_cachelines nb in
  off = CL * a + HDR /\ 0 <= a /\ a + need <= n - 1 /\ off + nb <= CL * (a + need - 2) /\
  Forall (fun m => m_at m + m_nc m <= a \/ a + need <= m_at m) q /\
  (forall p, live_marker (hr h') q p -> a + need <= p).
Proof. exact alloc_no_overlap. Qed.
Print Assumptions shm_alloc_no_overlap.

(* cursors, cached_remain and every offset the reader is given stay inside the data area *)
Theorem shm_indices_in_range : forall n ops, 1 <= n < 2147483648 ->
  let h := fst (run (hinit n) ops) in
  0 <= wcur (hr h) <= n - 1 /\ 0 <= rcur (hr h) <= n - 1 /\ 0 <= crem (hr h) /\
  wcur (hr h) + crem (hr h) <= n - 1 /\ Z.of_nat (length (mem (hr h))) = CL * n /\
  (forall off nb bytes, snd (step h OFetch) = RFetch (Some (off, nb, bytes)) ->
     exists l, off = CL * l + HDR /\ 0 <= l /\ 1 <= nb /\ off + nb <= CL * (l + cal_cachelines nb - 2) /\
               l + cal_cachelines nb <= n).
Proof. exact indices_in_range. Qed.
Print Assumptions shm_indices_in_range.

(* FULL STATEMENT of the property's clause (refuted below): a drained ring accepts every message of
   up to half its size:   forall reachable h drained at p, 1 <= nb <= (CL/2)*n -> accepts h nb.
   Proved part (P_partial): a ring drained at line p accepts a message iff its footprint is at most
   max (n-1-p) (p-1) lines; hence it accepts every message outside the known class, and every
   message of at most n/2 - 1 lines wherever it was drained. *)
Theorem shm_drained_accepts_partial : forall n ops p nb, 1 <= n < 2147483648 ->
  let h := fst (reach (hinit n) [] ops) in
  wcur (hr h) = p -> rcur (hr h) = p -> 1 <= nb < 2147483648 ->
  (accepts h nb <-> cal_cachelines nb <= Z.max (n - 1 - p) (p - 1)) /\
  (nb <= (CL / 2) * n -> in_known_class n p nb = false -> accepts h nb) /\
  (cal_cachelines nb <= n / 2 - 1 -> accepts h nb).
Proof.
  intros n ops p nb H h Hw Hr Hnb.
  pose proof (reach_inv n H ops (hinit n) [] (init_inv n H)) as I. fold h in I.
  split; [exact (proj1 (drained_alloc n H h _ p nb I Hw Hr Hnb))|]. split.
  - intros Hh Hk. exact (drained_accepts_outside_class n H h _ p nb I Hw Hr ltac:(lia) ltac:(lia) Hk).
  - intros Hs. exact (drained_accepts_small n H h _ p nb I Hw Hr Hnb Hs).
Qed.
Print Assumptions shm_drained_accepts_partial.

(* KNOWN FINDING (P_refuted): ring of 8 lines, drained at line 4 = n/2 after one message was sent and
   consumed; a message of 100 bytes (footprint 4 = n/2 lines, 100 <= 256 = half the ring's bytes) is
   in the known class and is refused for ever: no number of retries and fetches changes that. *)
Theorem shm_drained_half_refuted :
  exists n pre p nb,
    let h := fst (run (hinit n) pre) in
    wcur (hr h) = p /\ rcur (hr h) = p /\ h_alloc h = None /\ snd (step h OFetch) = RFetch None /\
    cal_cachelines nb <= n / 2 /\ 1 <= nb <= (CL / 2) * n /\ in_known_class n p nb = true /\
    (forall ops, Forall (fun o => o = OAlloc nb \/ o = OFetch) ops ->
       Forall (fun r => r = RAlloc None \/ r = RFetch None) (snd (run h ops))).
Proof. exact drained_half_witness. Qed.
Print Assumptions shm_drained_half_refuted.

(* ------------------------------------------------------------------ concurrent layer *)

(* side condition on the memory orders the code passes at the cursor and lock sites (re-extracted
   on this run): both stores of write_cursor release, the reader's load acquire, lock acquire/release *)
Theorem shm_conc_memory_orders_sufficient : mo_sufficient code_params = true.
Proof. vm_compute. reflexivity. Qed.
Print Assumptions shm_conc_memory_orders_sufficient.

(* The reachable-state invariant under EVERY interleaving (schedule = any list of (thread, choice)),
   for every ring size, every number of writers under the write lock (or one writer without it), every
   script of message sizes >= 1, every retry bound and every kill point, with the memory orders the code
   passes on this run: each call linearises at its single cursor store / load, the other side's cursor
   being possibly stale but monotone (C08/ProofsConcInv.v: CInv, with per-program-point knowledge
   of the writers and of the reader).  Consequences stated here:
     - no plain read of a header or payload line outside the reader's release/acquire view (visibility);
     - the writer never stores into a line of a committed unread message or the live wrap marker;
     - committed = consumed ++ unread and delivered = consumed (+ the message being consumed): every
       delivery is the next committed message with its exact line, length and payload tag, once, in order;
     - the unread messages are intact in memory (header words, payload tag, versions covered by the
       stamp of write_cursor). *)
Theorem shm_conc_inv_reachable : forall n locked tries kill scripts sched,
  1 <= n < 2147483648 -> valid_scripts scripts ->
  let s := exec csys (cstep code_params) (cinit n locked tries kill scripts) sched in
  c_uncov s = 0%nat /\ c_overlap s = 0%nat /\
  (exists consumed, c_committed s = consumed ++ c_unread s /\
     (c_delivered s = consumed \/ exists m rest, c_unread s = m :: rest /\ c_delivered s = consumed ++ [m])) /\
  is_prefix (c_delivered s) (c_committed s) /\
  Forall (mok s) (c_unread s).
Proof.
  intros n locked tries kill scripts sched Hn Hs.
  exact (conc_inv_reachable code_params n locked tries kill scripts sched Hn Hs shm_conc_memory_orders_sufficient).
Qed.
Print Assumptions shm_conc_inv_reachable.

(* Crash safety as a corollary: after ANY schedule the writers stop for good (they are never
   scheduled again, wherever they were: inside update_cached_remain, between the marker and the wrap
   store, between the header and the commit store, holding the lock ...); whatever the reader does
   from then on, the committed list does not change and everything it is given is a prefix of it:
   only whole committed messages, in order, with exact length and bytes, read from covered lines. *)
Theorem shm_crash_safe : forall n locked tries kill scripts sched rsched,
  1 <= n < 2147483648 -> valid_scripts scripts ->
  (forall tc, In tc rsched -> fst tc = 0%nat) ->
  let s1 := exec csys (cstep code_params) (cinit n locked tries kill scripts) sched in
  let s2 := exec csys (cstep code_params) s1 rsched in
  c_committed s2 = c_committed s1 /\ is_prefix (c_delivered s2) (c_committed s1) /\ c_uncov s2 = 0%nat.
Proof.
  intros n locked tries kill scripts sched rsched Hn Hs Hr.
  exact (conc_crash_safe code_params n locked tries kill scripts sched rsched Hn Hs shm_conc_memory_orders_sufficient Hr).
Qed.
Print Assumptions shm_crash_safe.

(* frame property of reader-only schedules from ANY state (reachable or not): no data line, header
   word or the committed list changes, and every later delivery is what memory holds at that state *)
Theorem shm_reader_only_frame : forall P sched s, (forall tc, In tc sched -> fst tc = 0%nat) ->
  let s' := exec csys (cstep P) s sched in
  c_committed s' = c_committed s /\ c_w s' = c_w s /\
  c_hN s' = c_hN s /\ c_hC s' = c_hC s /\ c_body s' = c_body s /\ c_overlap s' = c_overlap s /\
  exists extra, c_delivered s' = c_delivered s ++ extra /\
    Forall (fun d => exists ln, d = (ln, c_hN s ln, c_body s ln)) extra.
Proof. intros P sched s H. exact (reader_only_frame P sched s H). Qed.
Print Assumptions shm_reader_only_frame.

(* Refuted variant (kept as a witness of what the reader's frame clause excludes): if r_move wipes the
   consumed header AFTER its release store of read_cursor (two plain stores in the segment following the
   store), then with a full ring and the writer polling for the released lines there is a schedule in
   which everybody finishes and a committed message is never delivered.  The clause of the model that such
   code violates is rstep_frame / shm_reader_only_frame: a reader step never writes a data line, which
   is what keeps the unread messages intact (g_mok) under reader steps in shm_conc_inv_reachable. *)
Theorem shm_reader_wipe_after_release_refuted :
  let s := fst (exec (csys * option Z) (cstep_wipe P_code) (wipe_init, None) wipe_sched) in
  r_pc (c_rd s) = RDone /\ w_pc (c_wr s 1%nat) = WDone /\
  c_committed s = [(0, 120, 10); (4, 1, 20); (0, 3, 40)] /\ c_delivered s = [(0, 120, 10); (4, 1, 20)] /\
  c_unread s = [(0, 3, 40)] /\ c_hN s 0 = 0.
Proof. exact wipe_after_release_refuted. Qed.
Print Assumptions shm_reader_wipe_after_release_refuted.

(* ------------------------------------------------------------------ second tie (translator) *)
(* The integer content of six functions of shm_ring_buffer.c is sliced out of the C text of THIS run
   (lib/props/c08_slice.py: atomics -> field reads / writes, header pointers -> line indices into the
   word arrays hN / hC, file-local helpers inlined) and translated by lib/leaftrans.py into the gen_
   definitions of gen/Params_C08.v.  Each obligation says: on the whole domain of the ring (1 <= n < 2^31,
   cursors inside the ring, cached_remain a uint32, request < 2^31) the generated function equals the
   reference function, and the model's function (C08/Model.v) equals the same reference.  The
   generated side is decided by a tactic that does not look at the shape of the C text. *)
Theorem gen_update_cached_remain_matches_model :
  (forall cr hC hN n r w req, dom n w r cr -> 0 <= req < 2147483648 ->
     gen_update_cached_remain cr hC hN n r w req = ref_update_full cr hC hN n r w req) /\
  (forall s req, sdom s -> 0 <= req < 2147483648 ->
     update_cached_remain s req =
     let '(c', w', wr) := ref_update (n_cl s) (wcur s) (rcur s) (Model.crem s) req in
     {| n_cl := n_cl s; wcur := w'; rcur := rcur s; Model.crem := c'; w_hdr := w_hdr s; r_hdr := r_hdr s;
        mem := if wr then set_hdr (mem s) (wcur s) 0 0 else mem s |}).
Proof. exact (conj gen_update_ref model_update_ref). Qed.
Print Assumptions gen_update_cached_remain_matches_model.

Theorem gen_w_alloc_cachelines_matches_model :
  (forall cr hC hN n r whl w nb nc, dom n w r cr -> 0 <= nc < 2147483648 ->
     gen_w_alloc_cachelines cr hC hN n r whl w nb nc = ref_alloc cr hC hN n r whl w nb nc) /\
  (forall s nb nc, sdom s -> 0 <= nc < 2147483648 ->
     w_alloc_cachelines s nb nc =
     let '(c1, w1, wr) := if Model.crem s <? nc then ref_update (n_cl s) (wcur s) (rcur s) (Model.crem s) nc
                          else (Model.crem s, wcur s, false) in
     let m1 := if wr then set_hdr (mem s) (wcur s) 0 0 else mem s in
     if c1 <? nc then
       ({| n_cl := n_cl s; wcur := w1; rcur := rcur s; Model.crem := c1; w_hdr := w_hdr s; r_hdr := r_hdr s; mem := m1 |}, None)
     else
       ({| n_cl := n_cl s; wcur := w1; rcur := rcur s; Model.crem := c1; w_hdr := w1; r_hdr := r_hdr s;
           mem := set_hdr m1 w1 nb nc |}, Some (CL * w1 + HDR))).
Proof. exact (conj gen_alloc_ref model_alloc_ref). Qed.
Print Assumptions gen_w_alloc_cachelines_matches_model.

(* w_alloc_bytes = w_alloc_cachelines with the footprint MUGGLE_SHM_RINGBUF_CAL_BYTES_CACHELINE(n_bytes),
   as the C text computes it (sizeof, round-up mask, division), for every length below 2^31 *)
Theorem gen_w_alloc_bytes_matches_model :
  forall cr hC hN n r whl w nb, dom n w r cr -> 0 <= nb < 2147483648 ->
    gen_w_alloc_bytes cr hC hN n r whl w nb = ref_alloc cr hC hN n r whl w nb (cal_cachelines nb).
Proof. exact gen_alloc_bytes_ref. Qed.
Print Assumptions gen_w_alloc_bytes_matches_model.

Theorem gen_w_move_matches_model :
  (forall cr hC whl w, gen_w_move cr hC whl w = ref_w_move cr (lget hC whl) w) /\
  (forall s, w_move s =
     let '(c', w') := ref_w_move (Model.crem s) (hdr_ncl (mem s) (w_hdr s)) (wcur s) in
     {| n_cl := n_cl s; wcur := w'; rcur := rcur s; Model.crem := c'; w_hdr := w_hdr s; r_hdr := r_hdr s; mem := mem s |}).
Proof. exact (conj gen_w_move_ref model_w_move_ref). Qed.
Print Assumptions gen_w_move_matches_model.

Theorem gen_r_fetch_matches_model :
  (forall hN out rhl r w, 0 <= r < 4294967296 ->
     gen_r_fetch hN out rhl r w = ref_fetch (lget hN r) (lget hN 0) out rhl r w) /\
  (forall s out, 0 <= rcur s ->
     r_fetch s =
     let '(ret, out', rhl', r') := ref_fetch (hdr_nbytes (mem s) (rcur s)) (hdr_nbytes (mem s) 0) out (r_hdr s) (rcur s) (wcur s) in
     (set_r s r' rhl', if ret =? 0 then None else Some (CL * (ret - 1) + HDR, out'))).
Proof. exact (conj gen_fetch_ref model_fetch_ref). Qed.
Print Assumptions gen_r_fetch_matches_model.

Theorem gen_r_move_matches_model :
  (forall hC rhl r, gen_r_move hC rhl r = ref_r_move (lget hC rhl) r) /\
  (forall s, r_move s = set_r s (ref_r_move (hdr_ncl (mem s) (r_hdr s)) (rcur s)) (r_hdr s)).
Proof. exact (conj gen_r_move_ref model_r_move_ref). Qed.
Print Assumptions gen_r_move_matches_model.
