(* C08 — property theorems only.  Each is closed by [exact] of a lemma proved in C08/Proofs*.v
   and followed by Print Assumptions.  Constants, the footprint macro and the memory orders are
   those re-extracted from the code on this run (gen/Params_C08.v). *)
From MV Require Import Lib.Leaf C08.Model C08.ModelConc C08.ModelAttach C08.ProofsAttach C08.ProofsSeq C08.ProofsDrain C08.ProofsOpen C08.ProofsConc C08.ProofsConcInv C08.ProofsConcRead C08.ProofsConcWipe C08.ProofsGen C08.ProofsGenOpen gen.Params_C08.
Local Open Scope Z_scope.

(* tie of the literals used by the model to the headers: cache line size, header layout, and the
   footprint macro MUGGLE_SHM_RINGBUF_CAL_BYTES_CACHELINE on the complete range 0 .. 4224 bytes
   (a 64-line ring holds 4096) *)
Theorem shm_constants_and_footprint_match :
  code_cache_line = CL /\ code_hdr_size = HDR /\ code_off_nbytes = 0 /\ code_off_ncl = 4 /\
  length code_cal_table = 4225%nat /\
  forallb (fun kv => cal_cachelines (Z.of_nat (fst kv)) =? snd kv) (combine (seq 0 4225) code_cal_table) = true.
Proof. vm_compute. repeat split; reflexivity. Qed.
Print Assumptions shm_constants_and_footprint_match.

(* muggle_shm_ringbuf_open: sizeof(muggle_shm_ringbuf_t) and MUGGLE_SHM_FLAG_CREAT as the headers of this run define them *)
Theorem shm_open_constants_match : code_ring_hdr_size = RHDR /\ code_flag_creat = 1.
Proof. vm_compute. split; reflexivity. Qed.
Print Assumptions shm_open_constants_match.

(* The ring as muggle_shm_ringbuf_open sizes it, for every request of 1 byte .. 2^31 bytes (powers of two or not,
   multiples of 64 / 4096 or not): the number of cache lines is THE least power of two that holds the request,
   n_bytes is that many lines, and the segment asked from muggle_shm_open (a multiple of 4096, less than a page
   of slack) holds the ring header and the WHOLE announced data area - so every line index the other theorems
   prove to be < n lies inside the shared memory; 1 <= n < 2^31 is the hypothesis of those theorems. *)
Theorem shm_open_segment_holds_ring : forall nbytes, 1 <= nbytes <= 2147483648 ->
  let '(n, data, total) := open_sizes nbytes in
  (exists k, 0 <= k /\ n = 2 ^ k) /\ nbytes <= CL * n /\
  (forall j, 0 <= j -> nbytes <= CL * 2 ^ j -> n <= 2 ^ j) /\
  1 <= n < 2147483648 /\ data = CL * n /\
  RHDR + CL * n <= total /\ total mod PAGE = 0 /\ total < RHDR + CL * n + PAGE.
Proof. exact open_sizes_ok. Qed.
Print Assumptions shm_open_segment_holds_ring.

(* Every message the writer commits is fetched exactly once, in commit order, with exactly the
   committed length and bytes, and fetch reports nothing only when no committed message is
   pending: along EVERY op list (all size sequences, all ring sizes; allocations through
   w_alloc_bytes AND through w_alloc_cachelines with any footprint that holds the message, e.g.
   fixed-size slots: op OAllocCl) each fetch answers the head
   of the ghost FIFO (appended at commit with the bytes then in memory, popped at r_move) or
   None iff that FIFO is empty; the committed bytes have the committed length.  [sized ops] is the property's size
   hypothesis: every allocation in the history asks for at least 1 byte (a message of length 0 is executed by the
   model as the code executes it - its header is the wrap marker - and is outside the property's quantifier, see
   shm_zero_length_observation below). *)
Theorem shm_seq_refines_fifo : forall n ops, 1 <= n < 2147483648 -> sized ops ->
  fifo_ok (hinit n) [] ops /\
  (let h := fst (reach (hinit n) [] ops) in let q := snd (reach (hinit n) [] ops) in
   h = fst (run (hinit n) ops) /\ snd (step h OFetch) = expected_fetch q /\
   Forall (fun m => Z.of_nat (length (m_data m)) = m_nb m /\ 1 <= m_nb m) q).
Proof. intros n ops H Hs. split; [exact (seq_refines_fifo n ops H Hs)|exact (seq_reachable_facts n ops H Hs)]. Qed.
Print Assumptions shm_seq_refines_fifo.

(* The region handed to the writer, lines [a, a+need), lies inside the ring (leaving the last line
   for a marker), holds the payload, is disjoint from every committed unread message and from the
   wrap marker the reader may still look at. *)
Theorem shm_alloc_no_overlap : forall n ops nb h' off, 1 <= n < 2147483648 -> sized ops -> 1 <= nb ->
  let h := fst (reach (hinit n) [] ops) in let q := snd (reach (hinit n) [] ops) in
  step h (OAlloc nb) = (h', RAlloc (Some off)) ->
  let a := wcur (hr h') in let need := cal_cachelines nb in
  off = CL * a + HDR /\ 0 <= a /\ a + need <= n - 1 /\ off + nb <= CL * (a + need - 2) /\
  Forall (fun m => m_at m + m_nc m <= a \/ a + need <= m_at m) q /\
  (forall p, live_marker (hr h') q p -> a + need <= p).
Proof. exact alloc_no_overlap. Qed.
Print Assumptions shm_alloc_no_overlap.

(* the same for muggle_shm_ringbuf_w_alloc_cachelines with an explicit footprint nc (any slack above what the
   message needs): the WHOLE of [a, a + nc) is inside the ring, free of unread messages and of the live marker *)
Theorem shm_alloc_cl_no_overlap : forall n ops nb nc h' off, 1 <= n < 2147483648 -> sized ops -> 1 <= nb ->
  let h := fst (reach (hinit n) [] ops) in let q := snd (reach (hinit n) [] ops) in
  step h (OAllocCl nb nc) = (h', RAlloc (Some off)) ->
  let a := wcur (hr h') in
  cal_cachelines nb <= nc /\
  off = CL * a + HDR /\ 0 <= a /\ a + nc <= n - 1 /\ off + nb <= CL * (a + nc - 2) /\
  Forall (fun m => m_at m + m_nc m <= a \/ a + nc <= m_at m) q /\
  (forall p, live_marker (hr h') q p -> a + nc <= p).
Proof. exact alloc_cl_no_overlap. Qed.
Print Assumptions shm_alloc_cl_no_overlap.

(* cursors, cached_remain and every offset the reader is given stay inside the data area *)
Theorem shm_indices_in_range : forall n ops, 1 <= n < 2147483648 -> sized ops ->
  let h := fst (run (hinit n) ops) in
  0 <= wcur (hr h) <= n - 1 /\ 0 <= rcur (hr h) <= n - 1 /\ 0 <= crem (hr h) /\
  wcur (hr h) + crem (hr h) <= n - 1 /\ Z.of_nat (length (mem (hr h))) = CL * n /\
  (forall off nb bytes, snd (step h OFetch) = RFetch (Some (off, nb, bytes)) ->
     exists l, off = CL * l + HDR /\ 0 <= l /\ 1 <= nb /\ off + nb <= CL * (l + cal_cachelines nb - 2) /\
               l + cal_cachelines nb <= n).
Proof. exact indices_in_range. Qed.
Print Assumptions shm_indices_in_range.

(* FULL STATEMENT of the property's clause (refuted below): a drained ring accepts every message of
   up to half its size:   forall reachable h drained at p, 1 <= nb <= (CL/2)*n -> accepts h nb.
   Proved part (P_partial): a ring drained at line p accepts a message iff its footprint is at most
   max (n-1-p) (p-1) lines; hence it accepts every message outside the known class, and every
   message of at most n/2 - 1 lines wherever it was drained. *)
Theorem shm_drained_accepts_partial : forall n ops p nb, 1 <= n < 2147483648 -> sized ops ->
  let h := fst (reach (hinit n) [] ops) in
  wcur (hr h) = p -> rcur (hr h) = p -> 1 <= nb < 2147483648 ->
  (accepts h nb <-> cal_cachelines nb <= Z.max (n - 1 - p) (p - 1)) /\
  (nb <= (CL / 2) * n -> in_known_class n p nb = false -> accepts h nb) /\
  (cal_cachelines nb <= n / 2 - 1 -> accepts h nb).
Proof.
  intros n ops p nb H Hs h Hw Hr Hnb.
  pose proof (reach_inv n H ops (hinit n) [] Hs (init_inv n H)) as I. fold h in I.
  split; [exact (proj1 (drained_alloc n H h _ p nb I Hw Hr Hnb))|]. split.
  - intros Hh Hk. exact (drained_accepts_outside_class n H h _ p nb I Hw Hr ltac:(lia) ltac:(lia) Hk).
  - intros Hsm. exact (drained_accepts_small n H h _ p nb I Hw Hr Hnb Hsm).
Qed.
Print Assumptions shm_drained_accepts_partial.

(* with an explicit footprint: a ring drained at line p accepts a request for nc lines (nc >= what the message
   needs) exactly when nc <= max (n-1-p) (p-1); a refusal changes nothing *)
Theorem shm_drained_accepts_cl : forall n ops p nb nc, 1 <= n < 2147483648 -> sized ops ->
  let h := fst (reach (hinit n) [] ops) in
  wcur (hr h) = p -> rcur (hr h) = p -> 1 <= nb < 2147483648 -> cal_cachelines nb <= nc < 2147483648 ->
  (accepts_cl h nb nc <-> nc <= Z.max (n - 1 - p) (p - 1)) /\
  (~ accepts_cl h nb nc -> step h (OAllocCl nb nc) = (h, RAlloc None)).
Proof.
  intros n ops p nb nc H Hs h Hw Hr Hnb Hnc.
  exact (drained_alloc_cl n h _ p nb nc H (reach_inv n H ops (hinit n) [] Hs (init_inv n H)) Hw Hr Hnb Hnc).
Qed.
Print Assumptions shm_drained_accepts_cl.

(* KNOWN FINDING (P_refuted): ring of 8 lines, drained at line 4 = n/2 after one message was sent and
   consumed; a message of 100 bytes (footprint 4 = n/2 lines, 100 <= 256 = half the ring's bytes) is
   in the known class and is refused for ever: no number of retries and fetches changes that. *)
Theorem shm_drained_half_refuted :
  exists n pre p nb,
    let h := fst (run (hinit n) pre) in
    wcur (hr h) = p /\ rcur (hr h) = p /\ h_alloc h = None /\ snd (step h OFetch) = RFetch None /\
    cal_cachelines nb <= n / 2 /\ 1 <= nb <= (CL / 2) * n /\ in_known_class n p nb = true /\
    (forall ops, Forall (fun o => o = OAlloc nb \/ o = OFetch) ops ->
       Forall (fun r => r = RAlloc None \/ r = RFetch None) (snd (run h ops))).
Proof. exact drained_half_witness. Qed.
Print Assumptions shm_drained_half_refuted.

(* OBSERVATION outside the property's quantifier (message sizes 1 byte .. half the ring): muggle_shm_ringbuf_w_alloc_bytes
   accepts a length of 0; the header of such a message is the wrap marker's encoding, so once it is committed the
   reader jumps back to line 0 and is given the first (already consumed) message again after every r_move; the
   0-byte message and whatever is committed after it are never delivered.  The model executes the code as it is
   (both drivers run such histories and agree); the theorems above carry [sized]. *)
Theorem shm_zero_length_observation :
  let rs := snd (run (hinit 16) [OAlloc 5; OWrite 0 [65; 66; 67; 68; 69]; OCommit; OFetch; ORMove;
                                  OAlloc 0; OCommit; OFetch; ORMove; OFetch; ORMove; OFetch]) in
  nth 3 rs RSkip = RFetch (Some (8, 5, [65; 66; 67; 68; 69])) /\ nth 5 rs RSkip = RAlloc (Some 200) /\
  nth 7 rs RSkip = RFetch (Some (8, 5, [65; 66; 67; 68; 69])) /\ nth 9 rs RSkip = RFetch (Some (8, 5, [65; 66; 67; 68; 69])) /\
  nth 11 rs RSkip = RFetch (Some (8, 5, [65; 66; 67; 68; 69])) /\
  ~ sized [OAlloc 0].
Proof. exact zero_length_observation. Qed.
Print Assumptions shm_zero_length_observation.

(* ------------------------------------------------------------------ concurrent layer *)

(* side condition on the memory orders the code passes at the cursor and lock sites (re-extracted
   on this run): both stores of write_cursor release, the reader's load acquire, lock acquire/release,
   and - for the reader -> writer direction - the store of read_cursor in r_move release *)
Theorem shm_conc_memory_orders_sufficient : mo_sufficient code_params = true.
Proof. vm_compute. reflexivity. Qed.
Print Assumptions shm_conc_memory_orders_sufficient.

(* The reachable-state invariant under EVERY interleaving (schedule = any list of (thread, choice)),
   for every ring size, every number of writers under the write lock (or one writer without it), every
   script of message sizes >= 1, every retry bound and every kill point, with the memory orders the code
   passes on this run: each call linearises at its single cursor store / load, the other side's cursor
   being possibly stale but monotone (C08/ProofsConcInv.v: CInv, with per-program-point knowledge
   of the writers and of the reader).  Consequences stated here:
     - no plain read of a header or payload line outside the reader's release/acquire view (visibility);
     - the writer never stores into a line of a committed unread message or the live wrap marker;
     - committed = consumed ++ unread and delivered = consumed (+ the message being consumed): every
       delivery is the next committed message with its exact line, length and payload tag, once, in order;
     - the unread messages are intact in memory (header words, payload tag, versions covered by the
       stamp of write_cursor). *)
Theorem shm_conc_inv_reachable : forall n locked tries kill scripts sched,
  1 <= n < 2147483648 -> valid_scripts scripts ->
  let s := exec csys (cstep code_params) (cinit n locked tries kill scripts) sched in
  c_uncov s = 0%nat /\ c_overlap s = 0%nat /\
  (exists consumed, c_committed s = consumed ++ c_unread s /\
     (c_delivered s = consumed \/ exists m rest, c_unread s = m :: rest /\ c_delivered s = consumed ++ [m])) /\
  is_prefix (c_delivered s) (c_committed s) /\
  Forall (mok s) (c_unread s).
Proof.
  intros n locked tries kill scripts sched Hn Hs.
  exact (conc_inv_reachable code_params n locked tries kill scripts sched Hn Hs shm_conc_memory_orders_sufficient).
Qed.
Print Assumptions shm_conc_inv_reachable.

(* The other direction of the hand-over (read-before-overwrite): in every reachable state, under EVERY
   interleaving, no writer has stored into a line whose latest plain read by the reader was not known to that
   writer to be complete (published by a release store of read_cursor that the writer's load of read_cursor - or
   the lock hand-over from a writer that loaded it - has observed): c_rrace = 0, together with the invariant RC
   behind it (C08/ProofsConcRead.v).  Needs r_move's store of read_cursor to be a release (part of
   mo_sufficient); with that store relaxed the model has a history with c_rrace > 0
   (conc_release_of_read_cursor_necessary below).  Accepted without proof obligation, see TRUSTED_BASE: the
   writer's relaxed load of read_cursor as the acquiring side, and the relaxed store read_cursor := 0 of
   r_fetch as ordered after the one header read it is control-dependent on. *)
Theorem shm_conc_reads_complete_before_overwrite : forall n locked tries kill scripts sched,
  1 <= n < 2147483648 -> valid_scripts scripts ->
  let s := exec csys (cstep code_params) (cinit n locked tries kill scripts) sched in
  RC s /\ c_rrace s = 0%nat.
Proof.
  intros n locked tries kill scripts sched Hn Hs.
  exact (conc_reads_covered code_params n locked tries kill scripts sched Hn Hs shm_conc_memory_orders_sufficient).
Qed.
Print Assumptions shm_conc_reads_complete_before_overwrite.

Theorem shm_conc_release_of_read_cursor_necessary :
  let s0 := cinit 8 false 3 None [[(120, 1); (1, 2); (1, 3)]] in
  let sa := exec csys (cstep P_code) s0 (rr 8 1 ++ rr 12 0 ++ rr 20 1 ++ rr 30 0) in
  let sb := exec csys (cstep P_rlx_move) s0 (rr 8 1 ++ rr 12 0 ++ rr 20 1 ++ rr 30 0) in
  c_rrace sa = 0%nat /\ c_delivered sa = c_committed sa /\ length (c_committed sa) = 3%nat /\
  (0 < c_rrace sb)%nat /\ mo_sufficient P_rlx_move = false /\ mo_sufficient P_code = true.
Proof. exact conc_release_of_read_cursor_necessary. Qed.
Print Assumptions shm_conc_release_of_read_cursor_necessary.

(* Crash safety as a corollary: after ANY schedule the writers stop for good (they are never
   scheduled again, wherever they were: inside update_cached_remain, between the marker and the wrap
   store, between the header and the commit store, holding the lock ...); whatever the reader does
   from then on, the committed list does not change and everything it is given is a prefix of it:
   only whole committed messages, in order, with exact length and bytes, read from covered lines. *)
Theorem shm_crash_safe : forall n locked tries kill scripts sched rsched,
  1 <= n < 2147483648 -> valid_scripts scripts ->
  (forall tc, In tc rsched -> fst tc = 0%nat) ->
  let s1 := exec csys (cstep code_params) (cinit n locked tries kill scripts) sched in
  let s2 := exec csys (cstep code_params) s1 rsched in
  c_committed s2 = c_committed s1 /\ is_prefix (c_delivered s2) (c_committed s1) /\ c_uncov s2 = 0%nat.
Proof.
  intros n locked tries kill scripts sched rsched Hn Hs Hr.
  exact (conc_crash_safe code_params n locked tries kill scripts sched rsched Hn Hs shm_conc_memory_orders_sufficient Hr).
Qed.
Print Assumptions shm_crash_safe.

(* frame property of reader-only schedules from ANY state (reachable or not): no data line, header
   word or the committed list changes, and every later delivery is what memory holds at that state *)
Theorem shm_reader_only_frame : forall P sched s, (forall tc, In tc sched -> fst tc = 0%nat) ->
  let s' := exec csys (cstep P) s sched in
  c_committed s' = c_committed s /\ c_w s' = c_w s /\
  c_hN s' = c_hN s /\ c_hC s' = c_hC s /\ c_body s' = c_body s /\ c_overlap s' = c_overlap s /\
  exists extra, c_delivered s' = c_delivered s ++ extra /\
    Forall (fun d => exists ln, d = (ln, c_hN s ln, c_body s ln)) extra.
Proof. intros P sched s H. exact (reader_only_frame P sched s H). Qed.
Print Assumptions shm_reader_only_frame.

(* Refuted variant (kept as a witness of what the reader's frame clause excludes): if r_move wipes the
   consumed header AFTER its release store of read_cursor (two plain stores in the segment following the
   store), then with a full ring and the writer polling for the released lines there is a schedule in
   which everybody finishes and a committed message is never delivered.  The clause of the model that such
   code violates is rstep_frame / shm_reader_only_frame: a reader step never writes a data line, which
   is what keeps the unread messages intact (g_mok) under reader steps in shm_conc_inv_reachable. *)
Theorem shm_reader_wipe_after_release_refuted :
  let s := fst (exec (csys * option Z) (cstep_wipe P_code) (wipe_init, None) wipe_sched) in
  r_pc (c_rd s) = RDone /\ w_pc (c_wr s 1%nat) = WDone /\
  c_committed s = [(0, 120, 10); (4, 1, 20); (0, 3, 40)] /\ c_delivered s = [(0, 120, 10); (4, 1, 20)] /\
  c_unread s = [(0, 3, 40)] /\ c_hN s 0 = 0.
Proof. exact wipe_after_release_refuted. Qed.
Print Assumptions shm_reader_wipe_after_release_refuted.

(* ------------------------------------------------------------------ the `ready` hand-over of open / is_ready *)
(* memory orders of the three sites as the code passes them on this run: store of ready in
   muggle_shm_ringbuf_open release, load of ready in muggle_shm_ringbuf_is_ready acquire *)
Theorem shm_attach_memory_orders_sufficient : mo_attach_sufficient code_aparams = true.
Proof. vm_compute. reflexivity. Qed.
Print Assumptions shm_attach_memory_orders_sufficient.

(* Under EVERY interleaving of the creating process (muggle_shm_ringbuf_open with CREAT: plain initialisation of
   the geometry and the magic word, then the store of ready) and an attaching process that polls
   muggle_shm_ringbuf_is_ready any number of times: whenever is_ready answers true the geometry the attacher
   then reads is the one the creator wrote (never the zero-filled segment) and every such read is covered by the
   attacher's view. *)
Theorem shm_attach_reads_initialised_geometry : forall n tries sched,
  let s := exec asys (astep code_aparams) (ainit n tries) sched in
  a_uncov s = 0%nat /\ Forall (fun g => g = n) (a_got s).
Proof. intros n tries sched. exact (attach_reads_initialised_geometry code_aparams n tries sched shm_attach_memory_orders_sufficient). Qed.
Print Assumptions shm_attach_reads_initialised_geometry.

(* necessity: with the store of ready (or the load of it) relaxed the same model reads the geometry uncovered *)
Theorem shm_attach_orders_necessary :
  let sc := arr 1 0 ++ arr 7 1 ++ arr 1 0 ++ arr 6 1 ++ arr 3 0 ++ arr 8 1 in
  (0 < a_uncov (exec asys (astep AP_weak_store) (ainit 64 5) sc))%nat /\
  (0 < a_uncov (exec asys (astep AP_weak_load) (ainit 64 5) sc))%nat /\
  mo_attach_sufficient AP_weak_store = false /\ mo_attach_sufficient AP_weak_load = false /\
  mo_attach_sufficient AP_code = true.
Proof. exact attach_orders_necessary. Qed.
Print Assumptions shm_attach_orders_necessary.

(* ------------------------------------------------------------------ second tie (translator) *)
(* The integer content of six functions of shm_ring_buffer.c is sliced out of the C text of THIS run
   (lib/props/c08_slice.py: atomics -> field reads / writes, header pointers -> line indices into the
   word arrays hN / hC, file-local helpers inlined) and translated by lib/leaftrans.py into the gen_
   definitions of gen/Params_C08.v.  Each obligation says: on the whole domain of the ring (1 <= n < 2^31,
   cursors inside the ring, cached_remain a uint32, request < 2^31) the generated function equals the
   reference function, and the model's function (C08/Model.v) equals the same reference.  The
   generated side is decided by a tactic that does not look at the shape of the C text. *)
Theorem gen_update_cached_remain_matches_model :
  (forall cr hC hN n r w req, dom n w r cr -> 0 <= req < 2147483648 ->
     gen_update_cached_remain cr hC hN n r w req = ref_update_full cr hC hN n r w req) /\
  (forall s req, sdom s -> 0 <= req < 2147483648 ->
     update_cached_remain s req =
     let '(c', w', wr) := ref_update (n_cl s) (wcur s) (rcur s) (Model.crem s) req in
     {| n_cl := n_cl s; wcur := w'; rcur := rcur s; Model.crem := c'; w_hdr := w_hdr s; r_hdr := r_hdr s;
        mem := if wr then set_hdr (mem s) (wcur s) 0 0 else mem s |}).
Proof. exact (conj gen_update_ref model_update_ref). Qed.
Print Assumptions gen_update_cached_remain_matches_model.

Theorem gen_w_alloc_cachelines_matches_model :
  (forall cr hC hN n r whl w nb nc, dom n w r cr -> 0 <= nc < 2147483648 ->
     gen_w_alloc_cachelines cr hC hN n r whl w nb nc = ref_alloc cr hC hN n r whl w nb nc) /\
  (forall s nb nc, sdom s -> 0 <= nc < 2147483648 ->
     w_alloc_cachelines s nb nc =
     let '(c1, w1, wr) := if Model.crem s <? nc then ref_update (n_cl s) (wcur s) (rcur s) (Model.crem s) nc
                          else (Model.crem s, wcur s, false) in
     let m1 := if wr then set_hdr (mem s) (wcur s) 0 0 else mem s in
     if c1 <? nc then
       ({| n_cl := n_cl s; wcur := w1; rcur := rcur s; Model.crem := c1; w_hdr := w_hdr s; r_hdr := r_hdr s; mem := m1 |}, None)
     else
       ({| n_cl := n_cl s; wcur := w1; rcur := rcur s; Model.crem := c1; w_hdr := w1; r_hdr := r_hdr s;
           mem := set_hdr m1 w1 nb nc |}, Some (CL * w1 + HDR))).
Proof. exact (conj gen_alloc_ref model_alloc_ref). Qed.
Print Assumptions gen_w_alloc_cachelines_matches_model.

(* w_alloc_bytes = w_alloc_cachelines with the footprint MUGGLE_SHM_RINGBUF_CAL_BYTES_CACHELINE(n_bytes),
   as the C text computes it (sizeof, round-up mask, division), for every length below 2^31 *)
Theorem gen_w_alloc_bytes_matches_model :
  forall cr hC hN n r whl w nb, dom n w r cr -> 0 <= nb < 2147483648 ->
    gen_w_alloc_bytes cr hC hN n r whl w nb = ref_alloc cr hC hN n r whl w nb (cal_cachelines nb).
Proof. exact gen_alloc_bytes_ref. Qed.
Print Assumptions gen_w_alloc_bytes_matches_model.

Theorem gen_w_move_matches_model :
  (forall cr hC whl w, gen_w_move cr hC whl w = ref_w_move cr (lget hC whl) w) /\
  (forall s, w_move s =
     let '(c', w') := ref_w_move (Model.crem s) (hdr_ncl (mem s) (w_hdr s)) (wcur s) in
     {| n_cl := n_cl s; wcur := w'; rcur := rcur s; Model.crem := c'; w_hdr := w_hdr s; r_hdr := r_hdr s; mem := mem s |}).
Proof. exact (conj gen_w_move_ref model_w_move_ref). Qed.
Print Assumptions gen_w_move_matches_model.

Theorem gen_r_fetch_matches_model :
  (forall hN out rhl r w, 0 <= r < 4294967296 ->
     gen_r_fetch hN out rhl r w = ref_fetch (lget hN r) (lget hN 0) out rhl r w) /\
  (forall s out, 0 <= rcur s ->
     r_fetch s =
     let '(ret, out', rhl', r') := ref_fetch (hdr_nbytes (mem s) (rcur s)) (hdr_nbytes (mem s) 0) out (r_hdr s) (rcur s) (wcur s) in
     (set_r s r' rhl', if ret =? 0 then None else Some (CL * (ret - 1) + HDR, out'))).
Proof. exact (conj gen_fetch_ref model_fetch_ref). Qed.
Print Assumptions gen_r_fetch_matches_model.

Theorem gen_r_move_matches_model :
  (forall hC rhl r, gen_r_move hC rhl r = ref_r_move (lget hC rhl) r) /\
  (forall s, r_move s = set_r s (ref_r_move (hdr_ncl (mem s) (r_hdr s)) (rcur s)) (r_hdr s)).
Proof. exact (conj gen_r_move_ref model_r_move_ref). Qed.
Print Assumptions gen_r_move_matches_model.

(* muggle_shm_ringbuf_open (sliced by lib/props/c08_slice.py OpenSlicer: the ring is what muggle_shm_open returns,
   its last argument is recorded as the segment size, memset / the release store of `ready` become field
   assignments, muggle_next_pow_of_2 stays a call of the model function npo2): for EVERY uint32 request and
   every flag word the segment size asked from muggle_shm_open and the values of n_bytes, total_bytes,
   n_cacheline, write_cursor, cached_remain, read_cursor, magic, ready are those of the model (open_sizes / init),
   about which shm_open_segment_holds_ring speaks. *)
Theorem gen_open_matches_model :
  forall cr mg nb ncl rc rdy seg tot wc k_num flag nbytes, 0 <= nbytes < 4294967296 ->
    gen_open cr mg nb ncl rc rdy seg tot wc k_num flag nbytes =
    ref_open cr mg nb ncl rc rdy seg tot wc (Z.land flag code_flag_creat) nbytes.
Proof. exact gen_open_ref. Qed.
Print Assumptions gen_open_matches_model.
