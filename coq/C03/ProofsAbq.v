(* C03 (d) — array blocking queue: one mutex, two condition variables, Mesa semantics with
   spurious wake-ups, `while` loops around the waits.  No lost wake-up and no deadlock for
   every schedule, any number of producers and consumers, any capacity >= 1. *)
From MV Require Import C03.Model C03.ProofsCommon.
Local Open Scope Z_scope.

Definition q_holds (p : qpc) : bool :=
  match p with
  | QPChk | QPWait | QPSig | QPSeg2 | QPUnlock | QCChk | QCWait | QCSig | QCSeg2 | QCUnlock => true
  | _ => false
  end.
(* classes of thread states that are counted *)
Definition q_a_nf (x : qthread) : bool :=     (* asleep (or committed to sleep) on cv_not_full *)
  match q_pc x with QPWait | QPAsleep => true | _ => false end.
Definition q_t_nf (x : qthread) : bool :=     (* wake tokens for cv_not_full in flight *)
  match q_pc x with QPWoken | QPChk | QCSig => true | _ => false end.
Definition q_a_ne (x : qthread) : bool :=
  match q_pc x with QCWait | QCAsleep => true | _ => false end.
Definition q_t_ne (x : qthread) : bool :=
  match q_pc x with QCWoken | QCChk | QPSig => true | _ => false end.

Definition A_nf s := tcount q_a_nf (q_thr s) (q_n s).
Definition T_nf s := tcount q_t_nf (q_thr s) (q_n s).
Definition A_ne s := tcount q_a_ne (q_thr s) (q_n s).
Definition T_ne s := tcount q_t_ne (q_thr s) (q_n s).

Definition q_enabled (s : qsys) (t : nat) : Prop := qstep s t 0 <> None.
Definition q_done (s : qsys) (t : nat) : Prop := q_pc (q_thr s t) = QDone.

Record QInv (s : qsys) : Prop := {
  qi_excl : forall t, q_holds (q_pc (q_thr s t)) = true -> q_m s = Some t;
  qi_own : forall u, q_m s = Some u -> (u < q_n s)%nat /\ q_holds (q_pc (q_thr s u)) = true;
  qi_cnt : 0 <= q_cnt s <= q_cap s;
  (* THE no-lost-wake-up invariants (counting form; the existential form is not inductive):
     while somebody sleeps on cv_not_full every free slot is matched by a wake token in flight
     (a consumer between its dequeue and its notify, or a woken producer that has not re-checked
     yet); symmetrically for cv_not_empty and the items in the queue *)
  qi_nf : (0 < A_nf s)%nat -> q_cap s - q_cnt s <= Z.of_nat (T_nf s);
  qi_ne : (0 < A_ne s)%nat -> q_cnt s <= Z.of_nat (T_ne s);
}.

Lemma qinit_inv n nc cap ks : 0 <= cap -> QInv (qinit n nc cap ks).
Proof.
  intros Hc. constructor; simpl.
  - intros t. destruct (Nat.ltb t nc); discriminate.
  - discriminate.
  - lia.
  - unfold A_nf; simpl. rewrite tcount_zero; [lia|]. intros u _. unfold q_a_nf; simpl. destruct (Nat.ltb u nc); reflexivity.
  - unfold A_ne; simpl. rewrite tcount_zero; [lia|]. intros u _. unfold q_a_ne; simpl. destruct (Nat.ltb u nc); reflexivity.
Qed.

Lemma q_casleep_pc s u : q_casleep s u = true -> q_pc (q_thr s u) = QCAsleep.
Proof. unfold q_casleep. destruct (q_pc (q_thr s u)); congruence. Qed.
Lemma q_pasleep_pc s u : q_pasleep s u = true -> q_pc (q_thr s u) = QPAsleep.
Proof. unfold q_pasleep. destruct (q_pc (q_thr s u)); congruence. Qed.

Ltac step_cases Hs :=
  repeat match type of Hs with
  | context [match ?e with _ => _ end] => destruct e eqn:?
  end.

Ltac old_pc_contra C :=
  match goal with
  | E : q_pc (q_thr _ ?x) = _ |- _ => rewrite E in C; discriminate
  end.

(* mutual exclusion: a holder in the new state is the owner recorded in the new state *)
Ltac t_excl Hexcl :=
  intros a Ha; upd_all; try discriminate;
  first [ reflexivity
        | (apply Hexcl; assumption)
        | match goal with E : q_pc (q_thr _ ?x) = _ |- q_m _ = Some ?x => apply Hexcl; rewrite E; reflexivity end
        | (* somebody else held the mutex although it was free / held by the stepping thread *)
          (exfalso;
           match goal with
           | _ => let X := fresh in pose proof (Hexcl _ Ha) as X; discriminate X
           | Hm : q_m _ = None |- _ => rewrite (Hexcl _ Ha) in Hm; discriminate
           | E : q_pc (q_thr ?s ?t) = _, n : ?x <> ?t |- _ =>
             let H := fresh in
             assert (H : q_m s = Some t) by (apply Hexcl; rewrite E; reflexivity);
             rewrite (Hexcl _ Ha) in H; congruence
           end) ].

Ltac t_own Hown Hlt :=
  intros u Hu; simpl in Hu; try discriminate;
  first [ (inv_some Hu; upd_all; split; [assumption|reflexivity])
        | (let B := fresh "B" in let C := fresh "C" in
           destruct (Hown _ Hu) as (B & C); split; [assumption|]; upd_all;
           first [assumption | reflexivity | old_pc_contra C]) ].

(* the four class counts of the new thread map in terms of the old ones *)
Ltac q_counts s t Hlt :=
  match goal with
  | |- context [upd (upd (q_thr s) ?u ?xu) t ?xt] =>
    match goal with
    | Hul : (u < q_n s)%nat, Hne : u <> t |- _ =>
      pose proof (tcount_upd2 q_a_nf (q_thr s) u xu t xt (q_n s) Hul Hlt Hne);
      pose proof (tcount_upd2 q_t_nf (q_thr s) u xu t xt (q_n s) Hul Hlt Hne);
      pose proof (tcount_upd2 q_a_ne (q_thr s) u xu t xt (q_n s) Hul Hlt Hne);
      pose proof (tcount_upd2 q_t_ne (q_thr s) u xu t xt (q_n s) Hul Hlt Hne)
    end
  | |- context [upd (q_thr s) t ?x] =>
    pose proof (tcount_upd q_a_nf (q_thr s) t x (q_n s) Hlt);
    pose proof (tcount_upd q_t_nf (q_thr s) t x (q_n s) Hlt);
    pose proof (tcount_upd q_a_ne (q_thr s) t x (q_n s) Hlt);
    pose proof (tcount_upd q_t_ne (q_thr s) t x (q_n s) Hlt)
  end.

Ltac q_norm :=
  unfold A_nf, T_nf, A_ne, T_ne, qset, qset_m, qset_cnt, qpcset in *;
  cbn [q_thr q_n q_cap q_cnt q_m q_nc q_pc q_k q_pend] in *.

Ltac q_arith Epc :=
  unfold q_a_nf, q_t_nf, q_a_ne, q_t_ne in *; cbn [q_pc] in *;
  repeat match goal with E : q_pc (q_thr _ _) = _ |- _ => rewrite E in * end;
  cbn [b2n] in *; unfold b2n in *;
  repeat match goal with H : Z.eqb _ _ = true |- _ => apply Z.eqb_eq in H end;
  repeat match goal with H : Z.eqb _ _ = false |- _ => apply Z.eqb_neq in H end;
  lia.

Lemma qstep_inv s t ch s' l : QInv s -> qstep s t ch = Some (s', l) -> QInv s'.
Proof.
  intros [Hexcl Hown Hcnt Hnf Hne] Hs. unfold qstep in Hs.
  destruct (Nat.leb (q_n s) t) eqn:Hlt; [discriminate|]. apply Nat.leb_gt in Hlt.
  cbv zeta in Hs.
  destruct (q_pc (q_thr s t)) eqn:Epc; step_cases Hs; try discriminate; inv_some Hs.
  (* facts about the waiter chosen by a notify *)
  all: try match goal with
       | E : pick_waiter (q_casleep _) _ _ = Some ?u |- _ =>
         let H0 := fresh "Hul" in let H1 := fresh "Hwk" in
         destruct (pick_waiter_some _ _ _ _ E) as [H0 H1]; apply q_casleep_pc in H1;
         assert (u <> t) by (intros ->; congruence)
       | E : pick_waiter (q_pasleep _) _ _ = Some ?u |- _ =>
         let H0 := fresh "Hul" in let H1 := fresh "Hwk" in
         destruct (pick_waiter_some _ _ _ _ E) as [H0 H1]; apply q_pasleep_pc in H1;
         assert (u <> t) by (intros ->; congruence)
       end.
  all: constructor.
  all: try (q_norm; t_excl Hexcl; fail).
  all: try (q_norm; t_own Hown Hlt; fail).
  all: try (q_norm; q_arith Epc; fail).
  all: try (q_norm; q_counts s t Hlt; q_arith Epc; fail).
  - (* notify(cv_not_empty) finds no sleeper: nobody sleeps there (nor is about to: mutual exclusion) *)
    intros Hpos. exfalso. q_norm.
    rewrite tcount_zero in Hpos; [lia|]. intros u Hu. unfold upd.
    destruct (Nat.eqb_spec u t); [reflexivity|].
    unfold q_a_ne. destruct (q_pc (q_thr s u)) eqn:Eu; try reflexivity; exfalso.
    + assert (q_m s = Some u) by (apply Hexcl; rewrite Eu; reflexivity).
      assert (q_m s = Some t) by (apply Hexcl; rewrite Epc; reflexivity). congruence.
    + pose proof (pick_waiter_none _ _ _ Heqo u Hu) as X. unfold q_casleep in X. rewrite Eu in X. discriminate.
  - intros Hpos. exfalso. q_norm.
    rewrite tcount_zero in Hpos; [lia|]. intros u Hu. unfold upd.
    destruct (Nat.eqb_spec u t); [reflexivity|].
    unfold q_a_nf. destruct (q_pc (q_thr s u)) eqn:Eu; try reflexivity; exfalso.
    + assert (q_m s = Some u) by (apply Hexcl; rewrite Eu; reflexivity).
      assert (q_m s = Some t) by (apply Hexcl; rewrite Epc; reflexivity). congruence.
    + pose proof (pick_waiter_none _ _ _ Heqo u Hu) as X. unfold q_pasleep in X. rewrite Eu in X. discriminate.
Qed.

Lemma q_cap_step s t ch s' l : qstep s t ch = Some (s', l) -> q_n s' = q_n s /\ q_cap s' = q_cap s.
Proof.
  unfold qstep. destruct (Nat.leb (q_n s) t); [discriminate|]. cbv zeta.
  destruct (q_pc (q_thr s t)); intros Hs; step_cases Hs; try discriminate; inv_some Hs; split; reflexivity.
Qed.

Lemma q_cap_exec sched s :
  q_n (exec qsys qstep s sched) = q_n s /\ q_cap (exec qsys qstep s sched) = q_cap s.
Proof.
  revert s. induction sched as [|[t c] r IH]; intros s; simpl; [split; reflexivity|].
  destruct (IH (exec1 qsys qstep s (t, c))) as [A B]. rewrite A, B. unfold exec1; simpl.
  destruct (qstep s t c) as [[s' l]|] eqn:E; [|split; reflexivity].
  eapply q_cap_step; eauto.
Qed.

Theorem q_reachable_inv n nc cap ks sched : 0 <= cap ->
  QInv (exec qsys qstep (qinit n nc cap ks) sched).
Proof. intros Hc. apply inv_exec; [|now apply qinit_inv]. intros; eapply qstep_inv; eauto. Qed.

(* ---------------- enabledness ---------------- *)
Ltac enabled_cases :=
  repeat match goal with
  | |- context [match ?e with _ => _ end] => destruct e
  end; discriminate.

Lemma q_holds_enabled s u : (u < q_n s)%nat -> q_holds (q_pc (q_thr s u)) = true -> q_enabled s u.
Proof.
  intros Hu Hin. unfold q_enabled, qstep. apply Nat.leb_gt in Hu. rewrite Hu. cbv zeta.
  destruct (q_pc (q_thr s u)); try discriminate; enabled_cases.
Qed.

Definition q_stuck_pc (p : qpc) : bool := match p with QPAsleep | QCAsleep | QDone => true | _ => false end.

Lemma q_enabled_unless s t :
  (t < q_n s)%nat -> q_m s = None -> q_stuck_pc (q_pc (q_thr s t)) = false -> q_enabled s t.
Proof.
  intros Ht Hm Hp. unfold q_enabled, qstep. apply Nat.leb_gt in Ht. rewrite Ht. cbv zeta.
  rewrite Hm. destruct (q_pc (q_thr s t)); try discriminate; enabled_cases.
Qed.

(* Deadlock freedom, full form: some thread can take a step (spurious wake-ups NOT counted), or
   all have finished, or every unfinished thread is a consumer asleep on a genuinely EMPTY queue
   (so every producer has finished), or every unfinished thread is a producer asleep on a
   genuinely FULL queue (every consumer has finished). *)
Lemma q_progress s : QInv s -> 1 <= q_cap s ->
  (exists t, (t < q_n s)%nat /\ q_enabled s t) \/
  (forall t, (t < q_n s)%nat -> q_done s t) \/
  (q_cnt s = 0 /\ forall t, (t < q_n s)%nat -> q_pc (q_thr s t) = QCAsleep \/ q_done s t) \/
  (q_cnt s = q_cap s /\ forall t, (t < q_n s)%nat -> q_pc (q_thr s t) = QPAsleep \/ q_done s t).
Proof.
  intros [Hexcl Hown Hcnt Hnf Hne] Hcap.
  destruct (q_m s) as [o|] eqn:Em.
  { destruct (Hown o eq_refl) as (B & C). left. exists o. split; [assumption|]. now apply q_holds_enabled. }
  destruct (bounded_dec (fun t => negb (q_stuck_pc (q_pc (q_thr s t)))) (q_n s)) as [(t & Ht & Hp)|Hall].
  { left. exists t. split; [assumption|]. apply q_enabled_unless; auto.
    destruct (q_stuck_pc (q_pc (q_thr s t))); [discriminate|reflexivity]. }
  right.
  assert (Hst : forall t, (t < q_n s)%nat ->
            q_pc (q_thr s t) = QPAsleep \/ q_pc (q_thr s t) = QCAsleep \/ q_pc (q_thr s t) = QDone).
  { intros t Ht. specialize (Hall t Ht). destruct (q_pc (q_thr s t)); simpl in Hall; try discriminate; auto. }
  assert (Tnf : T_nf s = 0%nat).
  { apply tcount_zero. intros u Hu. unfold q_t_nf. destruct (Hst u Hu) as [E|[E|E]]; rewrite E; reflexivity. }
  assert (Tne : T_ne s = 0%nat).
  { apply tcount_zero. intros u Hu. unfold q_t_ne. destruct (Hst u Hu) as [E|[E|E]]; rewrite E; reflexivity. }
  destruct (bounded_dec (fun t => q_pasleep s t) (q_n s)) as [(p & Hp & Ep)|Np];
  destruct (bounded_dec (fun t => q_casleep s t) (q_n s)) as [(c & Hc & Ec)|Nc].
  - exfalso. apply q_pasleep_pc in Ep. apply q_casleep_pc in Ec.
    assert (0 < A_nf s)%nat by (eapply tcount_pos; [exact Hp|unfold q_a_nf; rewrite Ep; reflexivity]).
    assert (0 < A_ne s)%nat by (eapply tcount_pos; [exact Hc|unfold q_a_ne; rewrite Ec; reflexivity]).
    specialize (Hnf H). specialize (Hne H0). lia.
  - right. right. apply q_pasleep_pc in Ep.
    assert (0 < A_nf s)%nat by (eapply tcount_pos; [exact Hp|unfold q_a_nf; rewrite Ep; reflexivity]).
    specialize (Hnf H). split; [lia|].
    intros t Ht. destruct (Hst t Ht) as [E|[E|E]]; auto.
    exfalso. specialize (Nc t Ht). unfold q_casleep in Nc. rewrite E in Nc. discriminate.
  - right. left. apply q_casleep_pc in Ec.
    assert (0 < A_ne s)%nat by (eapply tcount_pos; [exact Hc|unfold q_a_ne; rewrite Ec; reflexivity]).
    specialize (Hne H). split; [lia|].
    intros t Ht. destruct (Hst t Ht) as [E|[E|E]]; auto.
    exfalso. specialize (Np t Ht). unfold q_pasleep in Np. rewrite E in Np. discriminate.
  - left. intros t Ht. destruct (Hst t Ht) as [E|[E|E]]; auto; exfalso.
    + specialize (Np t Ht). unfold q_pasleep in Np. rewrite E in Np. discriminate.
    + specialize (Nc t Ht). unfold q_casleep in Nc. rewrite E in Nc. discriminate.
Qed.

Theorem abq_no_deadlock_all n nc cap ks sched : 1 <= cap ->
  let s := exec qsys qstep (qinit n nc cap ks) sched in
  (exists t, (t < n)%nat /\ q_enabled s t) \/
  (forall t, (t < n)%nat -> q_done s t) \/
  (q_cnt s = 0 /\ forall t, (t < n)%nat -> q_pc (q_thr s t) = QCAsleep \/ q_done s t) \/
  (q_cnt s = cap /\ forall t, (t < n)%nat -> q_pc (q_thr s t) = QPAsleep \/ q_done s t).
Proof.
  intros Hc s. assert (Hi : QInv s) by (apply q_reachable_inv; lia).
  destruct (q_cap_exec sched (qinit n nc cap ks)) as [En Ec]. fold s in En, Ec. simpl in En, Ec.
  pose proof (q_progress s Hi) as H. rewrite En, Ec in H. apply H. exact Hc.
Qed.

(* No lost wake-up, per sleeper.  A consumer asleep on cv_not_empty: every item in the queue is
   matched by a wake token in flight (a producer between its enqueue and its notify, or a woken
   consumer that has not yet re-checked): in particular the queue is empty or such a thread
   exists.  Symmetrically for a producer asleep on cv_not_full and the free slots. *)
Theorem abq_no_lost_wakeup_all n nc cap ks sched t : 1 <= cap ->
  let s := exec qsys qstep (qinit n nc cap ks) sched in
  (t < n)%nat ->
  (q_pc (q_thr s t) = QCAsleep ->
     q_cnt s <= Z.of_nat (T_ne s) /\
     (q_cnt s = 0 \/ exists u, (u < n)%nat /\ q_t_ne (q_thr s u) = true)) /\
  (q_pc (q_thr s t) = QPAsleep ->
     q_cap s - q_cnt s <= Z.of_nat (T_nf s) /\
     (q_cnt s = q_cap s \/ exists u, (u < n)%nat /\ q_t_nf (q_thr s u) = true)).
Proof.
  intros Hc s Ht. assert (Hi : QInv s) by (apply q_reachable_inv; lia).
  destruct Hi as [Hexcl Hown Hcnt Hnf Hne].
  destruct (q_cap_exec sched (qinit n nc cap ks)) as [En Ec]. fold s in En, Ec. simpl in En, Ec.
  split; intros E.
  - assert (0 < A_ne s)%nat by (eapply tcount_pos; [rewrite En; exact Ht|unfold q_a_ne; rewrite E; reflexivity]).
    specialize (Hne H). split; [exact Hne|].
    destruct (Nat.eq_dec (T_ne s) 0) as [Z0|NZ]; [left; lia|right].
    destruct (tcount_pos_inv q_t_ne (q_thr s) (q_n s)) as (u & Hu & Hp); [unfold T_ne in NZ; lia|].
    exists u. rewrite En in Hu. auto.
  - assert (0 < A_nf s)%nat by (eapply tcount_pos; [rewrite En; exact Ht|unfold q_a_nf; rewrite E; reflexivity]).
    specialize (Hnf H). split; [exact Hnf|].
    destruct (Nat.eq_dec (T_nf s) 0) as [Z0|NZ]; [left; lia|right].
    destruct (tcount_pos_inv q_t_nf (q_thr s) (q_n s)) as (u & Hu & Hp); [unfold T_nf in NZ; lia|].
    exists u. rewrite En in Hu. auto.
Qed.

(* non-vacuity: capacity 1, two producers, one consumer: a producer really sleeps on
   cv_not_full while the queue is full, and the run can be completed *)
Definition q_demo : qsys := qinit 3 1 1 (fun t => match t with O => 2%nat | _ => 1%nat end).
Example q_producer_sleeps_when_full :
  let s := exec qsys qstep q_demo
             [(1,0);(1,0);(1,0);(1,0);(1,0);(1,0); (2,0);(2,0);(2,0);(2,0)]%nat in
  q_pc (q_thr s 2%nat) = QPAsleep /\ q_cnt s = 1 /\ A_nf s = 1%nat.
Proof. vm_compute. repeat split; reflexivity. Qed.


(* ---------------- the two condition variables keep their waiters apart ---------------- *)
(* What the counting invariants silently rely on: the waiters of cv_not_full are producers only
   and those of cv_not_empty consumers only.  In the model a thread asleep on cv_not_full is at
   QPAsleep (a producer program point), one asleep on cv_not_empty at QCAsleep; a notify on
   cv_not_empty (issued by put, at QPSig) can only move a thread QCAsleep -> QCWoken, a notify on
   cv_not_full (issued by take, at QCSig) only QPAsleep -> QPWoken: a wake token always reaches a
   waiter for whom the state change it announces is the one it waits for.  With ONE condition
   variable for both directions this fails (C03/Variants.v, abq_single_cv_deadlocks). *)
Lemma abq_cv_waiters_homogeneous_all s t ch s' l u :
  qstep s t ch = Some (s', l) -> u <> t -> q_thr s' u <> q_thr s u ->
  (q_pc (q_thr s t) = QPSig /\ q_pc (q_thr s u) = QCAsleep /\ q_pc (q_thr s' u) = QCWoken) \/
  (q_pc (q_thr s t) = QCSig /\ q_pc (q_thr s u) = QPAsleep /\ q_pc (q_thr s' u) = QPWoken).
Proof.
  intros Hs Hu Hch. unfold qstep in Hs.
  destruct (Nat.leb (q_n s) t); [discriminate|]. cbv zeta in Hs.
  destruct (q_pc (q_thr s t)) eqn:Epc; step_cases Hs; try discriminate; inv_some Hs;
    cbn [q_thr qset qset_m qset_cnt] in Hch |- *;
    try (rewrite upd_other in Hch by exact Hu; congruence).
  - (* put's notify found a sleeper: a consumer *)
    left. destruct (pick_waiter_some _ _ _ _ Heqo) as [_ Hw]. apply q_casleep_pc in Hw.
    rewrite (upd_other _ t) in Hch |- * by exact Hu. unfold upd in *.
    destruct (Nat.eqb_spec u n) as [E|E]; [subst u; repeat split; first [reflexivity | exact Hw | exact Epc]|exfalso; apply Hch; reflexivity].
  - right. destruct (pick_waiter_some _ _ _ _ Heqo) as [_ Hw]. apply q_pasleep_pc in Hw.
    rewrite (upd_other _ t) in Hch |- * by exact Hu. unfold upd in *.
    destruct (Nat.eqb_spec u n) as [E|E]; [subst u; repeat split; first [reflexivity | exact Hw | exact Epc]|exfalso; apply Hch; reflexivity].
Qed.
