(* C03 (c), temporal step — ring buffer with futex-waiting readers (wait / single-wait /
   read-once), balanced scripts (every read has a matching write; fewer than capacity messages in
   all, so no reader is lapped), FAIR schedules: every thread terminates.
   Part 1: the accounting the termination argument needs -- cursor = number of completed stores
   (no wrap), the spin lock really serialises the cursor update, what the readers' registers say,
   and how many reads are still owed. *)
From MV Require Import C03.Model C03.ProofsCommon C03.ProofsRing C03.ModArith.
Local Open Scope Z_scope.

Definition g_is_writer (p : gpc) : bool :=
  match p with
  | GWSeg | GWTas | GWSegT | GWYield | GWSegA | GWStore | GWSeg2 | GWClear | GWSeg3 | GWWake => true
  | _ => false
  end.
(* from the computation of the next cursor value to the release of the write lock *)
Definition g_region (p : gpc) : bool :=
  match p with GWSegA | GWStore | GWSeg2 | GWClear => true | _ => false end.
Definition g_rhas (p : gpc) : bool := match p with GRChk | GRWait | GRBlocked => true | _ => false end.
Definition g_wlonly (p : gpc) : bool :=
  match p with GWTas | GWSegT | GWYield | GWSegA | GWClear | GWSeg3 => true | _ => false end.
Definition g_active (p : gpc) : bool := match p with GRSeg | GWSeg | GFin | GDone => false | _ => true end.

Definition g_ww (x : gthread) : nat :=
  match g_pc x with
  | GWSeg | GWTas | GWSegT | GWYield | GWSegA | GWStore => g_k x
  | GWSeg2 | GWClear | GWSeg3 | GWWake => pred (g_k x)
  | _ => 0%nat
  end.
Definition g_rr (x : gthread) : nat :=
  match g_pc x with
  | GRSeg | GRLock | GRSeg1 | GRLoad | GRChk | GRWait | GRBlocked => g_k x
  | GRUnlock => pred (g_k x)
  | _ => 0%nat
  end.

Lemma g_wake_all_cases thr n a :
  g_wake_all thr n a = thr a \/ (g_pc (thr a) = GRBlocked /\ g_wake_all thr n a = gpcset (thr a) GRSeg1).
Proof.
  rewrite g_wake_all_spec. destruct (Nat.ltb a n && g_blocked_thr thr a) eqn:Eb; [right|left; reflexivity].
  apply andb_prop in Eb as [_ Eb]. apply g_blocked_pc in Eb. split; [exact Eb|reflexivity].
Qed.

Section Data.
Variable k : Z.
Hypothesis Hk : 0 <= k.
Variable T : nat.                       (* total number of messages the writers will write *)
Hypothesis HT : Z.of_nat T < 2 ^ k.     (* no reader is ever lapped *)
Local Notation cap := (2 ^ k).

Record GData (s : gsys) : Prop := {
  gd_cap : g_cap s = cap;
  gd_wmode : g_wl s = true \/ (g_n s <= g_nr s + 1)%nat;      (* SINGLE_WRITER => one writer thread *)
  gd_wrole : forall t, g_is_writer (g_pc (g_thr s t)) = true -> (g_nr s <= t)%nat;
  gd_k : forall t, g_active (g_pc (g_thr s t)) = true -> (0 < g_k (g_thr s t))%nat;
  gd_T : (g_written s + tsum g_ww (g_thr s) (g_n s) = T)%nat;
  gd_cur : g_cursor s = Z.of_nat (g_written s);
  gd_wlonly : forall t, g_wlonly (g_pc (g_thr s t)) = true -> g_wl s = true;
  gd_nospin : g_wl s = false -> g_spin s = 0;
  gd_spin01 : g_spin s = 0 \/ g_spin s = 1;
  gd_spin : g_wl s = true -> forall t, g_region (g_pc (g_thr s t)) = true -> g_spin s = 1;
  gd_uniq : forall t u, g_region (g_pc (g_thr s t)) = true -> g_region (g_pc (g_thr s u)) = true -> t = u;
  gd_held : g_spin s = 1 -> exists u, (u < g_n s)%nat /\ g_region (g_pc (g_thr s u)) = true;
  gd_wreg : forall t, g_pc (g_thr s t) = GWStore -> g_reg (g_thr s t) = Z.of_nat (g_written s) + 1;
  gd_ri : g_mode s <> GMOnce -> forall t, g_is_reader (g_pc (g_thr s t)) = true ->
          0 <= g_i (g_thr s t) <= Z.of_nat (g_written s) /\
          g_i (g_thr s t) + Z.of_nat (g_k (g_thr s t)) <= Z.of_nat T;
  gd_rreg : g_mode s <> GMOnce -> forall t, g_rhas (g_pc (g_thr s t)) = true ->
            g_i (g_thr s t) <= g_reg (g_thr s t) <= Z.of_nat (g_written s);
  gd_orc : g_mode s = GMOnce ->
           0 <= g_rcur s <= Z.of_nat (g_written s) /\
           g_rcur s + Z.of_nat (tsum g_rr (g_thr s) (g_n s)) <= Z.of_nat T;
  gd_oreg : g_mode s = GMOnce -> forall t, g_rhas (g_pc (g_thr s t)) = true ->
            g_rcur s <= g_reg (g_thr s t) <= Z.of_nat (g_written s);
}.

Lemma ridx_small x : 0 <= x < cap -> ridx x cap = x.
Proof. intros H. rewrite ridx_mod by exact Hk. apply Z.mod_small. exact H. Qed.

Ltac step_cases Hs :=
  repeat match type of Hs with
  | context [match ?e with _ => _ end] => destruct e eqn:?
  end.

Ltac norm_mode := try match goal with E : g_mode ?s = ?b |- _ => rewrite ?E in * end.

Ltac g_sums s t Hlt :=
  match goal with
  | |- context [upd (upd (g_thr s) ?u ?xu) t ?xt] =>
    match goal with
    | Hul : (u < g_n s)%nat, Hne : u <> t |- _ =>
      pose proof (tsum_upd2 g_ww (g_thr s) u xu t xt (g_n s) Hul Hlt Hne);
      pose proof (tsum_upd2 g_rr (g_thr s) u xu t xt (g_n s) Hul Hlt Hne)
    end
  | |- context [upd (g_thr s) t ?x] =>
    pose proof (tsum_upd g_ww (g_thr s) t x (g_n s) Hlt);
    pose proof (tsum_upd g_rr (g_thr s) t x (g_n s) Hlt)
  end.

Lemma gstep_data s t ch s' l : GInv s -> GData s -> gstep s t ch = Some (s', l) -> GData s'.
Proof.
  intros GI D Hs.
  pose proof GI as [Hrole Hltn Hsingle Honce Hexcl Hown Hwait Hsleep].
  pose proof D as [Hcap Hwm Hwr Hk0 HTs Hcur Hwlo Hnospin H01 Hspin Huniq Hheld Hwreg Hri Hrreg Horc Horeg].
  pose proof (Hk0 t) as Hkt.
  unfold gstep in Hs.
  destruct (Nat.leb (g_n s) t) eqn:Hlt; [discriminate|]. apply Nat.leb_gt in Hlt.
  cbv zeta in Hs.
  destruct (g_pc (g_thr s t)) eqn:Epc; step_cases Hs; try discriminate; inv_some Hs.
  all: try match goal with
       | E : first_such (g_blocked_thr _) _ = Some ?u |- _ =>
         let H1 := fresh "Hwk" in let H0 := fresh "Hul" in
         destruct (first_such_some _ _ _ E) as [H0 H1]; apply g_blocked_pc in H1;
         assert (u <> t) by (intros ->; congruence)
       end.
  all: constructor; cbn [g_cap g_wl g_n g_nr g_mode g_cursor g_rcur g_spin g_rm g_written g_thr gset gset_rm gset_spin gpcset].
  all: try exact Hcap.
  all: try exact Hwm.
  all: try (destruct Hwm as [X|X]; [first [left; assumption | discriminate X]|right; exact X]; fail).
  (* gd_wlonly *)
  all: try (intros a Ha; upd_all; try discriminate;
            first [ assumption | reflexivity | exact (Hwlo _ Ha)
                  | match goal with E : g_pc (g_thr _ ?x) = _ |- _ => apply (Hwlo x); rewrite E; reflexivity end ]; fail).
  (* gd_nospin *)
  all: try (intros Hf; try discriminate; first [ exact (Hnospin Hf) | congruence ]; fail).
  (* gd_wrole *)
  all: try (intros a Ha; upd_all; try discriminate;
            first [ exact (Hwr _ Ha)
                  | match goal with E : g_pc (g_thr _ ?x) = _ |- (_ <= ?x)%nat => apply Hwr; rewrite E; reflexivity end ]; fail).
  (* gd_k *)
  all: try (intros a Ha; upd_all; try discriminate; try (exact (Hk0 _ Ha));
            try (simpl in Hkt; specialize (Hkt eq_refl); lia);
            try (match goal with E : g_k _ = S _ |- _ => rewrite E; lia end);
            try (match goal with E : g_pc (g_thr _ ?x) = _ |- _ =>
                   let X := fresh in pose proof (Hk0 x) as X; rewrite E in X; specialize (X eq_refl); assumption end);
            fail).
  (* gd_T *)
  all: try (g_sums s t Hlt;
            unfold g_ww, g_rr, gpcset in *; cbn [g_pc g_k] in *;
            repeat match goal with E : g_pc (g_thr _ _) = _ |- _ => rewrite E in * end;
            cbn [g_active] in *;
            repeat match goal with H : true = true -> _ |- _ => specialize (H eq_refl) end;
            repeat match goal with E : g_k _ = _ |- _ => rewrite E in * end;
            cbn [pred] in *; lia).
  (* gd_cur, gd_spin01 unchanged *)
  all: try exact Hcur.
  all: try exact H01.
  all: try (left; reflexivity).
  all: try (right; reflexivity).
  (* gd_spin *)
  all: try (intros Hwl' a Ha; upd_all; try discriminate;
            first [ reflexivity | exact (Hspin Hwl' _ Ha) | exact (Hspin eq_refl _ Ha)
                  | match goal with E : g_pc (g_thr _ ?x) = _ |- _ => apply (Hspin Hwl' x); rewrite E; reflexivity end ]; fail).
  (* gd_uniq *)
  all: try (intros a b Ha Hb; upd_all; try discriminate;
            first [ reflexivity | exact (Huniq _ _ Ha Hb)
                  | match goal with E : g_pc (g_thr _ ?x) = _ |- ?x = _ => apply Huniq; [rewrite E; reflexivity|exact Hb] end
                  | match goal with E : g_pc (g_thr _ ?x) = _ |- _ = ?x => apply Huniq; [exact Ha|rewrite E; reflexivity] end ]; fail).
  (* gd_held *)
  all: try (intros Hs1; try discriminate; try lia;
            let u := fresh "u" in let Hu := fresh "Hu" in let Hp := fresh "Hp" in
            destruct (Hheld Hs1) as (u & Hu & Hp); exists u; split; [assumption|]; upd_all;
            first [assumption | reflexivity
                  | match goal with E : g_pc (g_thr _ ?x) = _ |- _ => rewrite E in Hp; discriminate end ]; fail).
  (* gd_wreg *)
  all: try (intros a Ha; upd_all; try discriminate; exact (Hwreg _ Ha)).
  (* reader register facts *)
  all: try (norm_mode; intros Hm; try (exfalso; apply Hm; reflexivity); try discriminate; intros a Ha; upd_all; try discriminate;
            first [ exact (Hri Hm _ Ha)
                  | match goal with E : g_pc (g_thr _ ?x) = _ |- _ => apply (Hri Hm x); rewrite E; reflexivity end ]; fail).
  all: try (norm_mode; intros Hm; try (exfalso; apply Hm; reflexivity); try discriminate; intros a Ha; upd_all; try discriminate;
            first [ exact (Hrreg Hm _ Ha)
                  | match goal with E : g_pc (g_thr _ ?x) = _ |- _ => apply (Hrreg Hm x); rewrite E; reflexivity end ]; fail).
  all: try (norm_mode; intros Hm; try (exfalso; apply Hm; reflexivity); try discriminate; intros a Ha; upd_all; try discriminate;
            first [ exact (Horeg Hm _ Ha)
                  | match goal with E : g_pc (g_thr _ ?x) = _ |- _ => apply (Horeg Hm x); rewrite E; reflexivity end ]; fail).
  (* gd_orc *)
  all: try (norm_mode; intros Hm; try discriminate; destruct (Horc Hm) as [Ho1 Ho2]; split; [exact Ho1|];
            g_sums s t Hlt;
            unfold g_ww, g_rr, gpcset in *; cbn [g_pc g_k] in *;
            repeat match goal with E : g_pc (g_thr _ _) = _ |- _ => rewrite E in * end;
            cbn [g_active] in *;
            repeat match goal with H : true = true -> _ |- _ => specialize (H eq_refl) end;
            repeat match goal with E : g_k _ = _ |- _ => rewrite E in * end;
            cbn [pred] in *; lia).
  all: assert (Hwle : (g_written s <= T)%nat) by lia.
  all: assert (Hcpos : 0 < cap) by (apply pow2_pos; lia).
  all: pose proof (fun a (_ : a <> t) => g_wake_all_cases (g_thr s) (g_n s) a) as Hwa.
  - (* GRLoad (wait / single-wait): the register is the cursor = number of messages written *)
    norm_mode. intros Hm a Ha. upd_all; [|exact (Hrreg Hm _ Ha)].
    destruct (Hri Hm t) as [[A B] C]; [rewrite Epc; reflexivity|]. rewrite Hcur. lia.
  - norm_mode. intros Hm a Ha. upd_all; [|exact (Horeg Hm _ Ha)].
    destruct (Horc Hm) as [A _]. rewrite Hcur. lia.
  - (* GRChk, message there: the loaded counter is ahead of the read position *)
    norm_mode. intros Hm a Ha. upd_all; [|exact (Hri Hm _ Ha)].
    destruct (Hri Hm t) as [[A B] C]; [rewrite Epc; reflexivity|].
    destruct (Hrreg Hm t) as [E F]; [rewrite Epc; reflexivity|].
    apply Z.eqb_neq in Heqb. rewrite Hcap, ridx_small in Heqb by lia.
    destruct (g_k (g_thr s t)) as [|[|kk]]; simpl in *; try discriminate; lia.
  - norm_mode. intros Hm a Ha. upd_all; [|exact (Hri Hm _ Ha)].
    destruct (Hri Hm t) as [[A B] C]; [rewrite Epc; reflexivity|].
    destruct (Hrreg Hm t) as [E F]; [rewrite Epc; reflexivity|].
    apply Z.eqb_neq in Heqb. rewrite Hcap, ridx_small in Heqb by lia.
    destruct (g_k (g_thr s t)) as [|[|kk]]; simpl in *; try discriminate; lia.
  - (* read-once take: read_cursor + 1, no wrap *)
    intros Hm. destruct (Horc eq_refl) as [[A B] C].
    destruct (Horeg eq_refl t) as [E F]; [rewrite Epc; reflexivity|].
    apply Z.eqb_neq in Heqb. rewrite Hcap, ridx_small by lia. split; [lia|].
    g_sums s t Hlt. unfold g_rr, gpcset in *. cbn [g_pc g_k] in *. rewrite Epc in *.
    specialize (Hkt eq_refl). lia.
  - intros Hm a Ha. exfalso. upd_all; try discriminate.
    assert (g_rm s = Some a) by (apply (Hexcl eq_refl); destruct (g_pc (g_thr s a)); simpl in *; congruence).
    assert (g_rm s = Some t) by (apply (Hexcl eq_refl); rewrite Epc; reflexivity). congruence.
  - (* GRUnlock exists only in read-once mode *)
    intros Hm. exfalso. apply Hm. apply (Honce t). rewrite Epc. reflexivity.
  - (* single writer: GWSeg -> GWStore *)
    intros a Ha. upd_all; [lia|exact (Hk0 _ Ha)].
  - intros a Ha. upd_all; try discriminate. pose proof (Hwlo _ Ha). congruence.
  - intros a b Ha Hb.
    assert (Hone : forall x, g_region (g_pc (g_thr s x)) = true -> x = t).
    { intros x Hx. destruct Hwm as [X|X]; [discriminate X|].
      assert (g_nr s <= x)%nat by (apply Hwr; destruct (g_pc (g_thr s x)); simpl in *; congruence).
      assert (g_nr s <= t)%nat by (apply Hwr; rewrite Epc; reflexivity).
      assert (x < g_n s)%nat.
      { destruct (Nat.lt_ge_cases x (g_n s)) as [L|L]; [exact L|].
        pose proof (Hltn x L). destruct (g_pc (g_thr s x)); simpl in *; congruence. }
      lia. }
    upd_all; try discriminate; try reflexivity;
      try (pose proof (Hone _ Ha)); try (pose proof (Hone _ Hb)); congruence.
  - intros a Ha. upd_all; [|exact (Hwreg _ Ha)].
    pose proof (tsum_ge g_ww (g_thr s) (g_n s) t Hlt) as G. unfold g_ww in G at 1. rewrite Epc, Heqn in G.
    rewrite Hcur, Hcap, ridx_small by lia. reflexivity.
  - (* tas succeeds *)
    intros Hf. exfalso. assert (g_wl s = true) by (apply (Hwlo t); rewrite Epc; reflexivity). congruence.
  - intros a b Ha Hb. apply Z.eqb_eq in Heqb.
    assert (Hwl1 : g_wl s = true) by (apply (Hwlo t); rewrite Epc; reflexivity).
    upd_all; try discriminate; try reflexivity; exfalso;
      try (pose proof (Hspin Hwl1 _ Ha)); try (pose proof (Hspin Hwl1 _ Hb)); lia.
  - intros _. exists t. split; [exact Hlt|]. upd_all; try reflexivity.
  - (* tas fails: the lock was held *)
    intros Hf. exfalso. assert (g_wl s = true) by (apply (Hwlo t); rewrite Epc; reflexivity). congruence.
  - intros _. apply Z.eqb_neq in Heqb. destruct H01 as [X|X]; [contradiction|].
    destruct (Hheld X) as (u & Hu & Hp). exists u. split; [exact Hu|]. upd_all; first [exact Hp | (rewrite Epc in Hp; discriminate)].
  - (* GWSegA -> GWStore *)
    intros a Ha. upd_all; [|exact (Hwreg _ Ha)].
    pose proof (tsum_ge g_ww (g_thr s) (g_n s) t Hlt) as G. unfold g_ww in G at 1. rewrite Epc in G.
    specialize (Hkt eq_refl). rewrite Hcur, Hcap, ridx_small by lia. reflexivity.
  - (* GWStore: cursor = written + 1 *)
    rewrite (Hwreg t Epc). lia.
  - intros a Ha. exfalso. upd_all; try discriminate.
    assert (a = t) by (apply Huniq; [rewrite Ha|rewrite Epc]; reflexivity). congruence.
  - norm_mode. intros Hm a Ha. upd_all; try discriminate. destruct (Hri Hm _ Ha) as [[A B] C]. lia.
  - norm_mode. intros Hm a Ha. upd_all; try discriminate. destruct (Hrreg Hm _ Ha) as [A B]. lia.
  - norm_mode. intros Hm. destruct (Horc Hm) as [[A B] C]. split; [lia|].
    g_sums s t Hlt. unfold g_rr, gpcset in *. cbn [g_pc g_k] in *. rewrite Epc in *. lia.
  - norm_mode. intros Hm a Ha. upd_all; try discriminate. destruct (Horeg Hm _ Ha) as [A B]. lia.
  - (* GWSeg2 -> GWClear *)
    intros Hw a Ha. upd_all; first [exact (Hspin eq_refl _ Ha) | (apply (Hspin eq_refl t); rewrite Epc; reflexivity)].
  - intros a Ha. upd_all; try discriminate. pose proof (Hwlo _ Ha). congruence.
  - (* GWClear: the lock is released; nobody else was inside *)
    intros Hw a Ha. exfalso. upd_all; try discriminate.
    assert (a = t) by (apply Huniq; [exact Ha|rewrite Epc; reflexivity]). congruence.
  (* wake_all: a woken thread was asleep in the futex (a reader), and only its program point changes *)
  - intros a Ha. unfold upd in Ha. destruct (Nat.eqb_spec a t) as [Heq|Hne]; [subst a; apply Hwr; rewrite Epc; reflexivity|].
    destruct (Hwa a Hne) as [E|[E1 E2]]; [rewrite E in Ha; exact (Hwr _ Ha)|rewrite E2 in Ha; discriminate].
  - intros a Ha. unfold upd in *. destruct (Nat.eqb_spec a t) as [Heq|Hne]; [subst a; discriminate|].
    destruct (Hwa a Hne) as [E|[E1 E2]]; [rewrite E in *; exact (Hk0 _ Ha)|].
    rewrite E2. simpl. apply Hk0. rewrite E1. reflexivity.
  - pose proof (tsum_upd g_ww (g_wake_all (g_thr s) (g_n s)) t
                  {| g_pc := GWSeg; g_k := Init.Nat.pred (g_k (g_thr s t)); g_i := g_i (g_thr s t);
                     g_reg := g_reg (g_thr s t); g_pend := [(n_wrote, 0)] |} (g_n s) Hlt) as X.
    assert (Y : tsum g_ww (g_wake_all (g_thr s) (g_n s)) (g_n s) = tsum g_ww (g_thr s) (g_n s)).
    { apply tsum_ext. intros u _. rewrite g_wake_all_spec.
      destruct (Nat.ltb u (g_n s) && g_blocked_thr (g_thr s) u) eqn:Eb; [|reflexivity].
      apply andb_prop in Eb as [_ Eb]. apply g_blocked_pc in Eb. unfold g_ww, gpcset. simpl. rewrite Eb. reflexivity. }
    assert (Z0 : g_wake_all (g_thr s) (g_n s) t = g_thr s t).
    { rewrite g_wake_all_spec. unfold g_blocked_thr. rewrite Epc, andb_false_r. reflexivity. }
    rewrite Z0, Y in X.
    assert (W1 : g_ww (g_thr s t) = pred (g_k (g_thr s t))) by (unfold g_ww; rewrite Epc; reflexivity).
    rewrite W1 in X. change (g_ww {| g_pc := GWSeg; g_k := Init.Nat.pred (g_k (g_thr s t)); g_i := g_i (g_thr s t);
                     g_reg := g_reg (g_thr s t); g_pend := [(n_wrote, 0)] |}) with (pred (g_k (g_thr s t))) in X. lia.
  - intros a Ha. unfold upd in Ha. destruct (Nat.eqb_spec a t) as [Heq|Hne]; [subst a; discriminate|].
    destruct (Hwa a Hne) as [E|[E1 E2]]; [rewrite E in Ha; exact (Hwlo _ Ha)|rewrite E2 in Ha; discriminate].
  - intros Hw a Ha. unfold upd in Ha. destruct (Nat.eqb_spec a t) as [Heq|Hne]; [subst a; discriminate|].
    destruct (Hwa a Hne) as [E|[E1 E2]]; [rewrite E in Ha; exact (Hspin Hw _ Ha)|rewrite E2 in Ha; discriminate].
  - intros a b Ha Hb. unfold upd in Ha, Hb.
    destruct (Nat.eqb_spec a t) as [Heq|Hna]; [discriminate|]. destruct (Nat.eqb_spec b t) as [Heq|Hnb]; [discriminate|].
    destruct (Hwa a Hna) as [E|[E1 E2]]; [rewrite E in Ha|rewrite E2 in Ha; discriminate].
    destruct (Hwa b Hnb) as [F|[F1 F2]]; [rewrite F in Hb|rewrite F2 in Hb; discriminate].
    exact (Huniq _ _ Ha Hb).
  - intros Hs1. destruct (Hheld Hs1) as (u & Hu & Hp). exists u. split; [exact Hu|].
    unfold upd. destruct (Nat.eqb_spec u t) as [Heq|Hne]; [subst u; rewrite Epc in Hp; discriminate|].
    destruct (Hwa u Hne) as [E|[E1 E2]]; [rewrite E; exact Hp|rewrite E1 in Hp; discriminate].
  - intros a Ha. unfold upd in *. destruct (Nat.eqb_spec a t) as [Heq|Hne]; [subst a; discriminate|].
    destruct (Hwa a Hne) as [E|[E1 E2]]; [rewrite E in *; exact (Hwreg _ Ha)|rewrite E2 in Ha; discriminate].
  - intros Hm a Ha. unfold upd in *. destruct (Nat.eqb_spec a t) as [Heq|Hne]; [subst a; discriminate|].
    destruct (Hwa a Hne) as [E|[E1 E2]]; [rewrite E in *; exact (Hri Hm _ Ha)|].
    rewrite E2. simpl. apply (Hri Hm). rewrite E1. reflexivity.
  - intros Hm a Ha. unfold upd in *. destruct (Nat.eqb_spec a t) as [Heq|Hne]; [subst a; discriminate|].
    destruct (Hwa a Hne) as [E|[E1 E2]]; [rewrite E in *; exact (Hrreg Hm _ Ha)|rewrite E2 in Ha; discriminate].
Qed.
End Data.
