(* C03 (a), temporal step — channel with a futex-waiting reader, balanced scripts, FAIR schedules:
   every thread terminates, nobody is left blocked.
   Part 1 (this file, first half): the data-path accounting the termination argument needs --
   ghost counters W (cursor stores) / R (reads), write_cursor = W mod cap, read_cursor = (R-1) mod
   cap, 0 <= W - R <= cap - 2, what the registers loaded from the cursors still say when they are
   used, and (balanced scripts) remaining reads = unread + remaining writes.
   Part 2: the measure, spinning, productivity, and the theorem via C03/FairGen.v. *)
From MV Require Import C03.Model C03.ProofsCommon C03.ProofsChanF C03.ModArith C03.FairGen.
Local Open Scope Z_scope.

Definition f_is_writer (p : fpc) : bool :=
  match p with
  | FWSeg | FWLock | FWSeg1 | FWLoadR | FWChk | FWStore | FWSeg3 | FWUnlock | FWSeg4 | FWWake
  | FWUnlockF | FWSegF | FWYield => true
  | _ => false
  end.
(* from the load of read_cursor to the store of write_cursor *)
Definition f_region (p : fpc) : bool :=
  match p with FWLoadR | FWChk | FWStore => true | _ => false end.
Definition f_rhas (p : fpc) : bool :=
  match p with FRChk | FRStore | FRWait | FRBlocked => true | _ => false end.
Definition f_initpc (p : fpc) : bool := match p with FRSeg | FWSeg => true | _ => false end.

Section Data.
Variable k : Z.
Hypothesis Hk : 1 <= k.
Let cap := 2 ^ k.

Record FData (s : fsys) : Prop := {
  fd_cap : f_cap s = cap;
  fd_mode : f_wl s = true \/ (f_n s <= 2)%nat;     (* WRITE_SINGLE => one writer thread *)
  fd_lt : forall t, (f_n s <= t)%nat -> f_initpc (f_pc (f_thr s t)) = true;
  fd_w0 : f_is_writer (f_pc (f_thr s 0%nat)) = false;
  fd_excl : f_wl s = true -> forall t, f_inlock (f_pc (f_thr s t)) = true -> f_wm s = Some t;
  fd_cur : f_wcur s = f_W s mod cap /\ f_rcur s = (f_R s - 1) mod cap;
  fd_bound : 0 <= f_R s <= f_W s /\ f_W s <= f_R s + cap - 2;
  fd_rreg : forall t, f_rhas (f_pc (f_thr s t)) = true ->
            f_reg (f_thr s t) = f_g (f_thr s t) mod cap /\ f_R s <= f_g (f_thr s t) <= f_W s;
  fd_take : forall t, f_pc (f_thr s t) = FRStore -> f_R s < f_g (f_thr s t);
  fd_wchk : forall t, f_pc (f_thr s t) = FWChk ->
            f_reg (f_thr s t) = (f_g (f_thr s t) - 1) mod cap /\ f_g (f_thr s t) <= f_R s /\
            f_W s - f_g (f_thr s t) <= cap - 2;
  fd_wsto : forall t, f_pc (f_thr s t) = FWStore ->
            f_reg2 (f_thr s t) = (f_W s + 1) mod cap /\ f_W s - f_R s <= cap - 3;
}.

Lemma cap_pos : 0 < cap. Proof. apply pow2_pos. lia. Qed.
Lemma cap_ge2 : 2 <= cap.
Proof. unfold cap. replace 2 with (2 ^ 1) at 1 by reflexivity. apply Z.pow_le_mono_r; lia. Qed.

Lemma finit_data n wl nreads wk : (wl = true \/ (n <= 2)%nat) -> FData (finit n cap wl nreads wk).
Proof.
  intros Hm. pose proof cap_pos. pose proof cap_ge2.
  constructor; simpl; auto; try discriminate.
  - intros [|t] _; reflexivity.
  - intros _ [|t]; simpl; discriminate.
  - split; [rewrite Z.mod_0_l by lia; reflexivity|].
    apply (Z.mod_unique_pos (0 - 1) cap (-1) (cap - 1)); lia.
  - lia.
  - intros [|t]; simpl; discriminate.
  - intros [|t]; simpl; discriminate.
  - intros [|t]; simpl; discriminate.
  - intros [|t]; simpl; discriminate.
Qed.

(* at most one writer is between its load of read_cursor and its store of write_cursor *)
Lemma region_unique s t u : FInv s -> FData s ->
  f_region (f_pc (f_thr s t)) = true -> f_region (f_pc (f_thr s u)) = true -> t = u.
Proof.
  intros FI [_ Hm Hlt Hw0 Hex _ _ _ _ _ _] Ht Hu.
  destruct Hm as [Hwl|Hn].
  - assert (f_wm s = Some t) by (apply (Hex Hwl); destruct (f_pc (f_thr s t)); simpl in *; congruence).
    assert (f_wm s = Some u) by (apply (Hex Hwl); destruct (f_pc (f_thr s u)); simpl in *; congruence).
    congruence.
  - assert (Ht1 : t = 1%nat).
    { destruct (Nat.lt_ge_cases t (f_n s)) as [H|H].
      - destruct t as [|[|t]]; [|reflexivity|lia].
        exfalso. destruct (f_pc (f_thr s 0%nat)); simpl in *; congruence.
      - specialize (Hlt t H). destruct (f_pc (f_thr s t)); simpl in *; congruence. }
    assert (Hu1 : u = 1%nat).
    { destruct (Nat.lt_ge_cases u (f_n s)) as [H|H].
      - destruct u as [|[|u]]; [|reflexivity|lia].
        exfalso. destruct (f_pc (f_thr s 0%nat)); simpl in *; congruence.
      - specialize (Hlt u H). destruct (f_pc (f_thr s u)); simpl in *; congruence. }
    congruence.
Qed.

Ltac step_cases Hs :=
  repeat match type of Hs with
  | context [match ?e with _ => _ end] => destruct e eqn:?
  end.

Ltac pc_contra :=
  match goal with
  | E : f_pc (f_thr _ ?x) = _, H : context [f_pc (f_thr _ ?x)] |- _ => rewrite E in H; discriminate
  end.

Lemma fstep_data s t ch s' l : FInv s -> FData s -> fstep s t ch = Some (s', l) -> FData s'.
Proof.
  intros FI D Hs.
  pose proof (fun a b => region_unique s a b FI D) as Huniq.
  pose proof FI as [Hrole Hwl Hown Hwait Hsleep].
  pose proof cap_pos as Hcp. pose proof cap_ge2 as Hc2.
  pose proof D as [Hcap Hm Hlt Hw0 Hex [Hcw Hcr] [Hb1 Hb2] Hrreg Htake Hwchk Hwsto].
  assert (Hrp : ridx (f_rcur s + 1) (f_cap s) = f_R s mod cap).
  { rewrite Hcap. unfold cap. rewrite ridx_mod by lia. fold cap. rewrite Hcr, mod_succ by lia. f_equal. lia. }
  assert (Hwp : ridx (f_wcur s + 1) (f_cap s) = (f_W s + 1) mod cap).
  { rewrite Hcap. unfold cap. rewrite ridx_mod by lia. fold cap. rewrite Hcw, mod_succ by lia. reflexivity. }
  unfold fstep in Hs.
  destruct (Nat.leb (f_n s) t) eqn:Hn; [discriminate|]. apply Nat.leb_gt in Hn.
  cbv zeta in Hs.
  destruct (f_pc (f_thr s t)) eqn:Epc; step_cases Hs; try discriminate; inv_some Hs.
  all: try match goal with
       | E : first_such (f_blocked _) _ = Some ?u |- _ =>
         let H1 := fresh "Hwk" in let H0 := fresh "Hwlt" in
         destruct (first_such_some _ _ _ E) as [H0 H1]; apply f_blocked_pc in H1
       end.
  all: constructor; cbn [f_cap f_wl f_n f_wcur f_rcur f_wm f_W f_R f_thr fset fpcset].
  (* constants *)
  all: try exact Hcap.
  all: try exact Hm.
  (* fd_lt *)
  all: try (intros a Ha; upd_all; try lia; try (apply Hlt; assumption); fail).
  (* fd_w0 *)
  all: try (upd_all; try reflexivity; try assumption; try pc_contra;
            try (exfalso; rewrite Epc in Hw0; discriminate); fail).
  (* fd_excl *)
  all: try (intros Hwl' a Ha;
            (first [ pose proof (Hex Hwl') as Hex2 | pose proof (Hex eq_refl) as Hex2 ]); clear Hex;
            rename Hex2 into Hex; clear Hwl'; pose proof I as Hwl';
            upd_all; try discriminate;
            first [ reflexivity
                  | (apply Hex; assumption)
                  | match goal with E : f_pc (f_thr _ ?x) = _ |- f_wm _ = Some ?x => apply Hex; rewrite E; reflexivity end
                  | (exfalso;
                     match goal with
                     | _ => let X := fresh in pose proof (Hex _ Ha) as X; discriminate X
                     | E : f_pc (f_thr ?s ?t) = _, n : ?x <> ?t |- _ =>
                       let H := fresh in
                       assert (H : f_wm s = Some t) by (apply Hex; rewrite E; reflexivity);
                       rewrite (Hex _ Ha) in H; congruence
                     end) ]; fail).
  (* fd_cur, fd_bound unchanged *)
  all: try (split; assumption).
  all: try (split; [split; assumption|assumption]).
  (* register facts of the other threads / unchanged registers of the stepping thread *)
  all: try (intros a Ha; upd_all; try discriminate;
            first [ apply Hrreg; assumption
                  | match goal with E : f_pc (f_thr _ ?x) = _ |- _ => apply Hrreg; rewrite E; reflexivity end ]; fail).
  all: try (intros a Ha; upd_all; try discriminate;
            first [ apply Htake; assumption ]; fail).
  all: try (intros a Ha; upd_all; try discriminate;
            first [ apply Hwchk; assumption ]; fail).
  all: try (intros a Ha; upd_all; try discriminate;
            first [ apply Hwsto; assumption ]; fail).
  - (* FRLoad: the register is write_cursor = W mod cap *)
    intros a Ha. upd_all; [split; [exact Hcw|lia]|apply Hrreg; assumption].
  - (* FRChk -> FRStore: the loaded counter differs from the read position, so it is ahead *)
    intros a Ha. upd_all; [|apply Htake; assumption].
    destruct (Hrreg t) as [Hr1 Hr2]; [rewrite Epc; reflexivity|].
    apply Z.eqb_neq in Heqb. rewrite Hrp, Hr1 in Heqb.
    destruct (Z.eq_dec (f_g (f_thr s t)) (f_R s)) as [E|E]; [rewrite E in Heqb; congruence|lia].
  - (* FRStore: read_cursor = ((R+1) - 1) mod cap *)
    split; [exact Hcw|]. rewrite Hrp. f_equal. lia.
  - destruct (Hrreg t) as [_ Hr2]; [rewrite Epc; reflexivity|]. pose proof (Htake t Epc). lia.
  - intros a Ha. upd_all; try discriminate. exfalso.
    assert (a = 0%nat) by (apply Hrole; destruct (f_pc (f_thr s a)); simpl in *; congruence).
    assert (t = 0%nat) by (apply Hrole; rewrite Epc; reflexivity). congruence.
  - intros a Ha. upd_all; try discriminate. exfalso.
    assert (a = 0%nat) by (apply Hrole; rewrite Ha; reflexivity).
    assert (t = 0%nat) by (apply Hrole; rewrite Epc; reflexivity). congruence.
  - intros a Ha. upd_all; try discriminate. destruct (Hwchk a Ha) as (A & B & C). repeat split; [exact A|lia|exact C].
  - intros a Ha. upd_all; try discriminate. destruct (Hwsto a Ha) as (A & B). split; [exact A|lia].
  - unfold upd; destruct (Nat.eqb_spec 0 t); [reflexivity|exact Hw0].
  - unfold upd; destruct (Nat.eqb_spec 0 t); [reflexivity|exact Hw0].
  - unfold upd; destruct (Nat.eqb_spec 0 t); [reflexivity|exact Hw0].
  - (* FWLoadR: the register is read_cursor = (R-1) mod cap *)
    intros a Ha. upd_all; [repeat split; [exact Hcr|lia|lia]|apply Hwchk; assumption].
  - (* FWChk -> FWStore: not full by the (possibly stale) register, hence not full now *)
    intros a Ha. upd_all; [|apply Hwsto; assumption].
    destruct (Hwchk t Epc) as (A & B & C). split; [exact Hwp|].
    apply Z.eqb_neq in Heqb. rewrite Hwp, A in Heqb.
    destruct (Z.eq_dec (f_W s - f_g (f_thr s t)) (cap - 2)) as [E|E]; [|lia].
    exfalso. apply Heqb. replace (f_W s + 1) with (f_g (f_thr s t) - 1 + cap) by lia. apply mod_shift; lia.
  - (* FWStore: write_cursor = (W+1) mod cap *)
    destruct (Hwsto t Epc) as (A & B). split; [exact A|exact Hcr].
  - destruct (Hwsto t Epc) as (A & B). lia.
  - intros a Ha. upd_all; try discriminate. destruct (Hrreg a Ha) as (A & B). split; [exact A|lia].
  - intros a Ha. upd_all; try discriminate. exfalso.
    assert (t = a) by (apply Huniq; [rewrite Epc|rewrite Ha]; reflexivity). congruence.
  - intros a Ha. upd_all; try discriminate. exfalso.
    assert (t = a) by (apply Huniq; [rewrite Epc|rewrite Ha]; reflexivity). congruence.
  - (* fd_w0 at the wake: the woken thread is the reader *)
    unfold upd; destruct (Nat.eqb_spec 0 t); [subst t; rewrite Epc in Hw0; discriminate|].
    destruct (Nat.eqb_spec 0 n); [reflexivity|exact Hw0].
Qed.
End Data.

(* ------------------------------------------------------------------ *)
(* balanced scripts: remaining reads = unread messages + remaining writes *)

Definition f_rr (x : fthread) : nat :=
  match f_pc x with
  | FRSeg | FRLoad | FRChk | FRStore | FRWait | FRBlocked => f_k x
  | _ => 0%nat
  end.
Definition f_ww (x : fthread) : nat :=
  match f_pc x with
  | FWSeg | FWLock | FWSeg1 | FWLoadR | FWChk | FWStore | FWUnlockF | FWSegF | FWYield => f_k x
  | FWSeg3 | FWUnlock | FWSeg4 | FWWake => pred (f_k x)
  | _ => 0%nat
  end.
Definition f_active (p : fpc) : bool :=
  match p with FRSeg | FWSeg | FFin | FDone => false | _ => true end.

Record FAcc (s : fsys) : Prop := {
  fa_k : forall t, f_active (f_pc (f_thr s t)) = true -> (0 < f_k (f_thr s t))%nat;
  fa_sum : Z.of_nat (tsum f_rr (f_thr s) (f_n s)) = f_W s - f_R s + Z.of_nat (tsum f_ww (f_thr s) (f_n s));
}.

Ltac step_cases Hs :=
  repeat match type of Hs with
  | context [match ?e with _ => _ end] => destruct e eqn:?
  end.

Ltac f_sums s t Hlt :=
  match goal with
  | |- context [upd (upd (f_thr s) ?u ?xu) t ?xt] =>
    match goal with
    | Hul : (u < f_n s)%nat, Hne : u <> t |- _ =>
      pose proof (tsum_upd2 f_rr (f_thr s) u xu t xt (f_n s) Hul Hlt Hne);
      pose proof (tsum_upd2 f_ww (f_thr s) u xu t xt (f_n s) Hul Hlt Hne)
    end
  | |- context [upd (f_thr s) t ?x] =>
    pose proof (tsum_upd f_rr (f_thr s) t x (f_n s) Hlt);
    pose proof (tsum_upd f_ww (f_thr s) t x (f_n s) Hlt)
  end.

Lemma fstep_acc s t ch s' l : FAcc s -> fstep s t ch = Some (s', l) -> FAcc s'.
Proof.
  intros [Hk Hsum] Hs. unfold fstep in Hs.
  destruct (Nat.leb (f_n s) t) eqn:Hlt; [discriminate|]. apply Nat.leb_gt in Hlt.
  cbv zeta in Hs. pose proof (Hk t) as Hkt.
  destruct (f_pc (f_thr s t)) eqn:Epc; step_cases Hs; try discriminate; inv_some Hs.
  all: try match goal with
       | E : first_such (f_blocked _) _ = Some ?u |- _ =>
         let H1 := fresh "Hwk" in let H0 := fresh "Hul" in
         destruct (first_such_some _ _ _ E) as [H0 H1]; apply f_blocked_pc in H1;
         assert (u <> t) by (intros ->; congruence)
       end.
  all: constructor.
  all: try (intros a Ha; upd_all; try discriminate; try (apply Hk; assumption);
            try (simpl in Hkt; specialize (Hkt eq_refl); lia);
            try (match goal with E : f_k _ = S _ |- _ => rewrite E; lia end);
            try (match goal with E : f_pc (f_thr _ ?x) = _ |- _ =>
                   let X := fresh in pose proof (Hk x) as X; rewrite E in X; specialize (X eq_refl); assumption end);
            fail).
  all: try (unfold fset, fpcset in *; cbn [f_thr f_n f_W f_R] in *;
            f_sums s t Hlt;
            unfold f_rr, f_ww in *; cbn [f_pc f_k] in *;
            repeat match goal with E : f_pc (f_thr _ _) = _ |- _ => rewrite E in * end;
            cbn [f_active] in *;
            repeat match goal with H : true = true -> _ |- _ => specialize (H eq_refl) end;
            repeat match goal with E : f_k _ = _ |- _ => rewrite E in * end;
            cbn [pred] in *; lia).
Qed.

Lemma finit_acc n cap wl nreads wk :
  tsum f_rr (f_thr (finit n cap wl nreads wk)) n = tsum f_ww (f_thr (finit n cap wl nreads wk)) n ->
  FAcc (finit n cap wl nreads wk).
Proof.
  intros H. constructor; simpl.
  - intros [|t]; simpl; discriminate.
  - simpl in H. rewrite H. lia.
Qed.

