(* C03 — lemmas shared by the protocol proofs: bounded search, waiter selection, counting
   threads in a given program-point class under [upd]. *)
From MV Require Import C03.Model.

Lemma first_such_some P n u : first_such P n = Some u -> (u < n)%nat /\ P u = true.
Proof.
  induction n as [|m IH]; simpl; [discriminate|].
  destruct (first_such P m) as [v|] eqn:E.
  - intros H; inversion H; subst. destruct (IH eq_refl). split; [lia|assumption].
  - destruct (P m) eqn:Ep; [|discriminate]. intros H; inversion H; subst. split; [lia|assumption].
Qed.

Lemma first_such_none P n : first_such P n = None -> forall u, (u < n)%nat -> P u = false.
Proof.
  induction n as [|m IH]; simpl; intros H u Hu; [lia|].
  destruct (first_such P m) as [v|] eqn:E; [discriminate|].
  destruct (P m) eqn:Ep; [discriminate|].
  destruct (Nat.eq_dec u m); [subst; assumption|]. apply IH; [reflexivity|lia].
Qed.

Lemma pick_waiter_some P n ch u : pick_waiter P n ch = Some u -> (u < n)%nat /\ P u = true.
Proof.
  unfold pick_waiter. destruct ch as [|v]; [apply first_such_some|].
  destruct (Nat.ltb v n && P v) eqn:E.
  - intros H; inversion H; subst. apply andb_prop in E as [E1 E2].
    apply Nat.ltb_lt in E1. split; assumption.
  - apply first_such_some.
Qed.

Lemma pick_waiter_none P n ch : pick_waiter P n ch = None -> forall u, (u < n)%nat -> P u = false.
Proof.
  unfold pick_waiter. destruct ch as [|v]; [apply first_such_none|].
  destruct (Nat.ltb v n && P v); [discriminate|apply first_such_none].
Qed.

(* decidable bounded search *)
Lemma bounded_dec (P : nat -> bool) n :
  (exists t, (t < n)%nat /\ P t = true) \/ (forall t, (t < n)%nat -> P t = false).
Proof.
  destruct (first_such P n) as [u|] eqn:E.
  - left. exists u. now apply first_such_some.
  - right. now apply first_such_none.
Qed.

(* ---- counting ---- *)
Definition b2n (b : bool) : nat := if b then 1%nat else 0%nat.

Lemma count_such_ext P Q n : (forall u, (u < n)%nat -> P u = Q u) -> count_such P n = count_such Q n.
Proof.
  induction n as [|m IH]; simpl; intros H; [reflexivity|].
  rewrite (H m) by lia. rewrite IH; [reflexivity|]. intros; apply H; lia.
Qed.

Lemma count_such_zero P n : (forall u, (u < n)%nat -> P u = false) -> count_such P n = 0%nat.
Proof.
  induction n as [|m IH]; simpl; intros H; [reflexivity|].
  rewrite (H m) by lia. rewrite IH; [reflexivity|]. intros; apply H; lia.
Qed.

Lemma count_such_pos P n t : (t < n)%nat -> P t = true -> (0 < count_such P n)%nat.
Proof.
  induction n as [|m IH]; simpl; intros Ht Hp; [lia|].
  destruct (Nat.eq_dec t m); [subst; rewrite Hp; lia|].
  assert (0 < count_such P m)%nat by (apply IH; [lia|assumption]). lia.
Qed.

Lemma count_such_pos_inv P n : (0 < count_such P n)%nat -> exists t, (t < n)%nat /\ P t = true.
Proof.
  intros H. destruct (bounded_dec P n) as [E|E]; [exact E|].
  rewrite (count_such_zero P n E) in H. lia.
Qed.

(* the count of a class of thread states when one thread's state is replaced *)
Lemma count_upd {A} (p : A -> bool) (f : nat -> A) t x n :
  (t < n)%nat ->
  (count_such (fun u => p (upd f t x u)) n + b2n (p (f t)) = count_such (fun u => p (f u)) n + b2n (p x))%nat.
Proof.
  induction n as [|m IH]; intros Ht; [lia|]. simpl.
  destruct (Nat.eq_dec t m) as [->|Hne].
  - rewrite upd_same.
    rewrite (count_such_ext (fun u => p (upd f m x u)) (fun u => p (f u)) m).
    + unfold b2n. destruct (p x), (p (f m)); lia.
    + intros u Hu. rewrite upd_other by lia. reflexivity.
  - rewrite upd_other by congruence.
    assert (t < m)%nat by lia. specialize (IH H). lia.
Qed.

Lemma count_upd_out {A} (p : A -> bool) (f : nat -> A) t x n :
  (n <= t)%nat -> count_such (fun u => p (upd f t x u)) n = count_such (fun u => p (f u)) n.
Proof.
  intros Ht. apply count_such_ext. intros u Hu. rewrite upd_other by lia. reflexivity.
Qed.

(* replacing a thread's state by one in the same class changes nothing *)
Lemma count_upd_same {A} (p : A -> bool) (f : nat -> A) t x n :
  p x = p (f t) -> count_such (fun u => p (upd f t x u)) n = count_such (fun u => p (f u)) n.
Proof.
  intros E. apply count_such_ext. intros u _. unfold upd. destruct (Nat.eqb_spec u t); [subst; exact E|reflexivity].
Qed.

Ltac inv_some H := inversion H; subst; clear H.

(* case analysis on every [upd] / thread-id comparison in sight *)
Ltac upd_all := simpl in *; unfold upd in *; repeat (match goal with
  | H : context [Nat.eqb ?a ?t] |- _ => destruct (Nat.eqb_spec a t); subst
  | |- context [Nat.eqb ?a ?t] => destruct (Nat.eqb_spec a t); subst
  end; simpl in * ); try congruence.

(* ---- counting threads whose state is in a class ---- *)
Definition tcount {A} (p : A -> bool) (thr : nat -> A) (n : nat) : nat := count_such (fun u => p (thr u)) n.

Lemma tcount_upd {A} (p : A -> bool) thr t x n : (t < n)%nat ->
  (tcount p (upd thr t x) n + b2n (p (thr t)) = tcount p thr n + b2n (p x))%nat.
Proof. intros H. unfold tcount. apply (count_upd p thr t x n H). Qed.

Lemma tcount_upd2 {A} (p : A -> bool) thr u xu t xt n : (u < n)%nat -> (t < n)%nat -> u <> t ->
  (tcount p (upd (upd thr u xu) t xt) n + b2n (p (thr u)) + b2n (p (thr t))
   = tcount p thr n + b2n (p xu) + b2n (p xt))%nat.
Proof.
  intros Hu Ht Hne.
  pose proof (tcount_upd p (upd thr u xu) t xt n Ht) as H1.
  pose proof (tcount_upd p thr u xu n Hu) as H2.
  rewrite upd_other in H1 by congruence. lia.
Qed.

Lemma tcount_zero {A} (p : A -> bool) thr n : (forall u, (u < n)%nat -> p (thr u) = false) -> tcount p thr n = 0%nat.
Proof. intros H. unfold tcount. now apply count_such_zero. Qed.

Lemma tcount_pos {A} (p : A -> bool) thr n t : (t < n)%nat -> p (thr t) = true -> (0 < tcount p thr n)%nat.
Proof. intros. unfold tcount. eapply count_such_pos; eauto. Qed.

Lemma tcount_pos_inv {A} (p : A -> bool) thr n : (0 < tcount p thr n)%nat -> exists t, (t < n)%nat /\ p (thr t) = true.
Proof. unfold tcount. apply count_such_pos_inv. Qed.

(* ---- summing a per-thread quantity ---- *)
Fixpoint sum_such (f : nat -> nat) (n : nat) : nat :=
  match n with O => 0%nat | S m => (f m + sum_such f m)%nat end.
Definition tsum {A} (f : A -> nat) (thr : nat -> A) (n : nat) : nat := sum_such (fun u => f (thr u)) n.

Lemma sum_such_ext f g n : (forall u, (u < n)%nat -> f u = g u) -> sum_such f n = sum_such g n.
Proof.
  induction n as [|m IH]; simpl; intros H; [reflexivity|].
  rewrite (H m) by lia. rewrite IH; [reflexivity|]. intros; apply H; lia.
Qed.

Lemma tsum_upd {A} (f : A -> nat) thr t x n : (t < n)%nat ->
  (tsum f (upd thr t x) n + f (thr t) = tsum f thr n + f x)%nat.
Proof.
  unfold tsum. induction n as [|m IH]; intros Ht; [lia|]. simpl.
  destruct (Nat.eq_dec t m) as [->|Hne].
  - rewrite upd_same.
    rewrite (sum_such_ext (fun u => f (upd thr m x u)) (fun u => f (thr u)) m); [lia|].
    intros u Hu. rewrite upd_other by lia. reflexivity.
  - rewrite upd_other by congruence. assert (t < m)%nat by lia. specialize (IH H). lia.
Qed.

Lemma tsum_upd2 {A} (f : A -> nat) thr u xu t xt n : (u < n)%nat -> (t < n)%nat -> u <> t ->
  (tsum f (upd (upd thr u xu) t xt) n + f (thr u) + f (thr t) = tsum f thr n + f xu + f xt)%nat.
Proof.
  intros Hu Ht Hne.
  pose proof (tsum_upd f (upd thr u xu) t xt n Ht) as H1.
  pose proof (tsum_upd f thr u xu n Hu) as H2.
  rewrite upd_other in H1 by congruence. lia.
Qed.

Lemma tsum_zero {A} (f : A -> nat) thr n : (forall u, (u < n)%nat -> f (thr u) = 0%nat) -> tsum f thr n = 0%nat.
Proof.
  unfold tsum. induction n as [|m IH]; simpl; intros H; [reflexivity|].
  rewrite (H m) by lia. rewrite IH; [reflexivity|]. intros; apply H; lia.
Qed.

Lemma tsum_ge {A} (f : A -> nat) thr n t : (t < n)%nat -> (f (thr t) <= tsum f thr n)%nat.
Proof.
  unfold tsum. induction n as [|m IH]; simpl; intros Ht; [lia|].
  destruct (Nat.eq_dec t m) as [->|Hne]; [lia|]. assert (t < m)%nat by lia. specialize (IH H). lia.
Qed.

Lemma tsum_single {A} (f : A -> nat) thr n t : (t < n)%nat ->
  (forall u, (u < n)%nat -> u <> t -> f (thr u) = 0%nat) -> tsum f thr n = f (thr t).
Proof.
  unfold tsum. induction n as [|m IH]; simpl; intros Ht H; [lia|].
  destruct (Nat.eq_dec t m) as [->|Hne].
  - rewrite (sum_such_ext (fun u => f (thr u)) (fun _ => 0%nat) m).
    + assert (Z0 : forall k, sum_such (fun _ => 0%nat) k = 0%nat) by (induction k; simpl; auto). rewrite Z0. lia.
    + intros u Hu. apply H; lia.
  - rewrite (H m) by lia. rewrite IH; [lia|lia|]. intros u Hu Hn. apply H; lia.
Qed.

Lemma tsum_pos_inv {A} (f : A -> nat) thr n : (0 < tsum f thr n)%nat -> exists u, (u < n)%nat /\ (0 < f (thr u))%nat.
Proof.
  unfold tsum. induction n as [|m IH]; simpl; intros H; [lia|].
  destruct (Nat.eq_dec (f (thr m)) 0) as [E|E].
  - destruct IH as (u & Hu & Hp); [lia|]. exists u. split; [lia|exact Hp].
  - exists m. split; lia.
Qed.

Lemma tsum_ext {A} (f : A -> nat) thr thr' n :
  (forall u, (u < n)%nat -> f (thr' u) = f (thr u)) -> tsum f thr' n = tsum f thr n.
Proof. intros H. unfold tsum. apply sum_such_ext. exact H. Qed.

Lemma tsum_le_pointwise {A} (f g : A -> nat) thr n :
  (forall u, (u < n)%nat -> (f (thr u) <= g (thr u))%nat) -> (tsum f thr n <= tsum g thr n)%nat.
Proof.
  intros H. unfold tsum. induction n as [|m IH]; simpl; [lia|].
  pose proof (H m ltac:(lia)). assert (forall u, (u < m)%nat -> (f (thr u) <= g (thr u))%nat) by (intros; apply H; lia).
  specialize (IH H1). lia.
Qed.

Lemma tsum_le_const {A} (f : A -> nat) thr c n : (forall u, (f (thr u) <= c)%nat) -> (tsum f thr n <= c * n)%nat.
Proof.
  intros H. unfold tsum. induction n as [|m IH]; simpl; [lia|]. specialize (H m). lia.
Qed.
