(* C03 — the futex itself.  harness/vsched REPLACES muggle/c/sync/sync_obj_futex.c by the
   scheduler's own muggle_sync_wait / wake_one / wake_all (atomic compare-and-block; wake n
   waiters), and the models (Model.v, ModelK.v, C04/Model.v) transcribe those.  This file states
   what the repository's sync_obj_futex.c must ask the kernel for so that the real functions have
   that semantics, against an abstract model of futex(2) for one futex word:

     FUTEX_WAIT  (cmd 0): atomically: if *uaddr == val, enqueue the caller as a waiter on the
                 word's key and block; else return at once (EAGAIN).  timeout NULL: no time limit.
     FUTEX_WAKE  (cmd 1): wake at most val waiters queued on the word's key; returns their number.
     key: FUTEX_PRIVATE_FLAG (128) selects the process-private key space; a waiter queued with the
          private key is found only by a private wake and vice versa.
     cmd = op with FUTEX_PRIVATE_FLAG and FUTEX_CLOCK_REALTIME (256) masked out.

   [futex_obs] is what the repository's three functions were OBSERVED to pass to syscall() on this
   run (lib/props/c03.py gen_params compiles the unmodified sync_obj_futex.c with `syscall`
   renamed to a recording stub and calls each function with sample arguments), together with the
   constants of the platform headers as the compiler sees them (coq/gen/Params_C03.v).
   Definitions and the decision procedure [futex_calls_ok]; soundness lemmas in ProofsFutex.v. *)
From MV Require Export Lib.Conc.
Local Open Scope Z_scope.

(* ---- Linux ABI constants (include/uapi/linux/futex.h; x86-64 syscall table) ---- *)
Definition ABI_FUTEX_WAIT : Z := 0.
Definition ABI_FUTEX_WAKE : Z := 1.
Definition ABI_FUTEX_PRIVATE_FLAG : Z := 128.
Definition ABI_FUTEX_CLOCK_REALTIME : Z := 256.
Definition ABI_SYS_futex_x86_64 : Z := 202.
Definition ABI_INT_MAX : Z := 2147483647.

(* ---- abstract kernel: the waiters queued on ONE futex word, by key space ---- *)
Record kq := { q_priv : nat; q_shared : nat }.
Inductive kout :=
  | KBlock                     (* the caller is now asleep on the word *)
  | KRet (rc : Z)              (* returned at once: -1 = EAGAIN for WAIT, number woken for WAKE *)
  | KInval.                    (* not an operation this file gives a meaning to *)

Definition futex_cmd (op : Z) : Z := Z.land op (Z.lnot (Z.lor ABI_FUTEX_PRIVATE_FLAG ABI_FUTEX_CLOCK_REALTIME)).
Definition futex_private (op : Z) : bool := negb (Z.land op ABI_FUTEX_PRIVATE_FLAG =? 0).

(* one syscall(SYS_futex, uaddr, op, val, timeout, ...) on the word whose current value is [word];
   [tmo_null]: the timeout argument is NULL *)
Definition kernel_futex (q : kq) (word : Z) (op val : Z) (tmo_null : bool) : kq * kout :=
  if futex_cmd op =? ABI_FUTEX_WAIT then
    if word =? val then
      if tmo_null then
        ((if futex_private op then {| q_priv := S (q_priv q); q_shared := q_shared q |}
          else {| q_priv := q_priv q; q_shared := S (q_shared q) |}), KBlock)
      else (q, KInval)          (* timed waits: not used by the conduits, no meaning given here *)
    else (q, KRet (-1))
  else if futex_cmd op =? ABI_FUTEX_WAKE then
    if val <? 0 then (q, KInval) else
    let n := Z.to_nat val in
    if futex_private op then
      let w := Nat.min n (q_priv q) in
      ({| q_priv := (q_priv q - w)%nat; q_shared := q_shared q |}, KRet (Z.of_nat w))
    else
      let w := Nat.min n (q_shared q) in
      ({| q_priv := q_priv q; q_shared := (q_shared q - w)%nat |}, KRet (Z.of_nat w))
  else (q, KInval).

(* ---- the semantics the scheduler and the models implement, for the conduits' waiters ---- *)
(* waiters = number of threads asleep on the word (all queued by muggle_sync_wait) *)
Definition sched_wait (waiters : nat) (word val : Z) : nat * bool :=      (* (waiters', blocked?) *)
  if word =? val then (S waiters, true) else (waiters, false).
Definition sched_wake_one (waiters : nat) : nat * nat :=                  (* (waiters', woken) *)
  match waiters with O => (O, O) | S w => (w, 1%nat) end.
Definition sched_wake_all (waiters : nat) : nat * nat := (O, waiters).

(* ---- what the code was observed to do ---- *)
Inductive tmo := TPassed | TNull | TOther.      (* the timeout argument: the caller's pointer / NULL / something else *)
Record obs := {
  o_in_val : Z;          (* sample value handed to muggle_sync_wait (unused for the wakes) *)
  o_in_tmo_null : bool;  (* the sample call passed timeout = NULL *)
  o_nr : Z;              (* first argument of syscall() *)
  o_addr_ok : bool;      (* uaddr is the address handed to the function *)
  o_op : Z;
  o_val : Z;             (* low 32 bits (the kernel reads a u32) *)
  o_tmo : tmo;
}.
Record futex_obs := {
  fo_wait : list obs;
  fo_wake_one : list obs;
  fo_wake_all : list obs;
  hdr_SYS_futex : Z; hdr_FUTEX_WAIT : Z; hdr_FUTEX_WAKE : Z; hdr_FUTEX_PRIVATE_FLAG : Z; hdr_INT_MAX : Z;
}.

Definition hdr_ok (c : futex_obs) : bool :=
  (hdr_SYS_futex c =? ABI_SYS_futex_x86_64) && (hdr_FUTEX_WAIT c =? ABI_FUTEX_WAIT) &&
  (hdr_FUTEX_WAKE c =? ABI_FUTEX_WAKE) && (hdr_FUTEX_PRIVATE_FLAG c =? ABI_FUTEX_PRIVATE_FLAG) &&
  (hdr_INT_MAX c =? ABI_INT_MAX).

Definition tmo_faithful (o : obs) : bool :=
  match o_tmo o with
  | TPassed => true                       (* the caller's pointer is handed on unchanged *)
  | TNull => o_in_tmo_null o              (* NULL only when the caller passed NULL *)
  | TOther => false
  end.
Definition wait_obs_ok (o : obs) : bool :=
  (o_nr o =? ABI_SYS_futex_x86_64) && o_addr_ok o && (futex_cmd (o_op o) =? ABI_FUTEX_WAIT) &&
  futex_private (o_op o) && (o_val o =? o_in_val o) && tmo_faithful o.
Definition wake_obs_ok (count : Z) (o : obs) : bool :=
  (o_nr o =? ABI_SYS_futex_x86_64) && o_addr_ok o && (futex_cmd (o_op o) =? ABI_FUTEX_WAKE) &&
  futex_private (o_op o) && (o_val o =? count).

(* at least two samples per function (different values / timeouts), every one conforming *)
Definition futex_calls_ok (c : futex_obs) : bool :=
  hdr_ok c &&
  (Nat.leb 2 (length (fo_wait c))) && forallb wait_obs_ok (fo_wait c) &&
  (Nat.leb 1 (length (fo_wake_one c))) && forallb (wake_obs_ok 1) (fo_wake_one c) &&
  (Nat.leb 1 (length (fo_wake_all c))) && forallb (wake_obs_ok ABI_INT_MAX) (fo_wake_all c).

