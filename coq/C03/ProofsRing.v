(* C03 (c) — ring buffer readers waiting on the cursor futex (READ_WAIT: any number of readers,
   wake_all; SINGLE_WAIT: one reader, wake_one; MSG_READ_ONCE: readers serialised by read_mutex,
   the holder sleeps in the futex WITH the mutex, wake_one).  No lost wake-up and no deadlock
   for every schedule. *)
From MV Require Import C03.Model C03.ProofsCommon.
Local Open Scope Z_scope.

Definition g_is_reader (p : gpc) : bool :=
  match p with GRSeg | GRLock | GRSeg1 | GRLoad | GRChk | GRWait | GRBlocked | GRUnlock => true | _ => false end.
(* a writer between its cursor store and its wake call *)
Definition g_pending (p : gpc) : bool :=
  match p with GWSeg2 | GWClear | GWSeg3 | GWWake => true | _ => false end.
(* reader program points inside the read-once critical section *)
Definition g_inrm (p : gpc) : bool :=
  match p with GRSeg1 | GRLoad | GRChk | GRWait | GRBlocked | GRUnlock => true | _ => false end.
Definition g_rmonly (p : gpc) : bool :=
  match p with GRLock | GRUnlock => true | _ => false end.
Definition g_initpc (p : gpc) : bool :=
  match p with GRSeg | GWSeg => true | _ => false end.
Definition g_waiting (p : gpc) : bool :=
  match p with GRWait | GRBlocked => true | _ => false end.

Definition g_enabled (s : gsys) (t : nat) : Prop := gstep s t 0 <> None.
Definition g_done (s : gsys) (t : nat) : Prop := g_pc (g_thr s t) = GDone.

Record GInv (s : gsys) : Prop := {
  gi_role : forall t, g_is_reader (g_pc (g_thr s t)) = true -> (t < g_nr s)%nat;
  gi_lt : forall t, (g_n s <= t)%nat -> g_initpc (g_pc (g_thr s t)) = true;
  gi_single : g_mode s = GMSingle -> (g_nr s <= 1)%nat;
  gi_once : forall t, g_rmonly (g_pc (g_thr s t)) = true -> g_mode s = GMOnce;
  gi_excl : g_mode s = GMOnce -> forall t, g_inrm (g_pc (g_thr s t)) = true -> g_rm s = Some t;
  gi_own : forall u, g_rm s = Some u ->
           g_mode s = GMOnce /\ (u < g_n s)%nat /\ g_inrm (g_pc (g_thr s u)) = true;
  (* the futex is waited on with the value that was compared with the reader's own position *)
  gi_wait : forall t, g_waiting (g_pc (g_thr s t)) = true ->
            g_reg (g_thr s t) = match g_mode s with
                                | GMOnce => g_rcur s
                                | _ => ridx (g_i (g_thr s t)) (g_cap s)
                                end;
  (* THE no-lost-wake-up invariant *)
  gi_sleep : forall t, g_pc (g_thr s t) = GRBlocked -> g_cursor s <> g_reg (g_thr s t) ->
             exists u, (u < g_n s)%nat /\ g_pending (g_pc (g_thr s u)) = true;
}.

Lemma ginit_inv n nr cap md wl ks : (md = GMSingle -> (nr <= 1)%nat) -> GInv (ginit n nr cap md wl ks).
Proof.
  intros Hs. constructor; simpl.
  - intros t. destruct (Nat.ltb_spec t nr); [auto|discriminate].
  - intros t _. destruct (Nat.ltb t nr); reflexivity.
  - exact Hs.
  - intros t. destruct (Nat.ltb t nr); discriminate.
  - intros _ t. destruct (Nat.ltb t nr); discriminate.
  - discriminate.
  - intros t. destruct (Nat.ltb t nr); discriminate.
  - intros t. destruct (Nat.ltb t nr); discriminate.
Qed.

Lemma g_blocked_pc thr u : g_blocked_thr thr u = true -> g_pc (thr u) = GRBlocked.
Proof. unfold g_blocked_thr. destruct (g_pc (thr u)); congruence. Qed.
Lemma g_blocked_pc_inv thr u : g_pc (thr u) = GRBlocked -> g_blocked_thr thr u = true.
Proof. unfold g_blocked_thr. intros ->. reflexivity. Qed.

Lemma g_wake_all_spec thr n u :
  g_wake_all thr n u = if Nat.ltb u n && g_blocked_thr thr u then gpcset (thr u) GRSeg1 else thr u.
Proof.
  induction n as [|m IH]; simpl; [reflexivity|].
  destruct (g_blocked_thr thr m) eqn:Em.
  - unfold upd. destruct (Nat.eqb_spec u m) as [->|Hne].
    + replace (Nat.ltb m (S m)) with true by (symmetry; apply Nat.ltb_lt; lia). rewrite Em. reflexivity.
    + rewrite IH. destruct (Nat.ltb_spec u m); destruct (Nat.ltb_spec u (S m)); try lia; reflexivity.
  - rewrite IH. destruct (Nat.eq_dec u m) as [->|Hne].
    + rewrite Em. rewrite !andb_false_r. reflexivity.
    + destruct (Nat.ltb_spec u m); destruct (Nat.ltb_spec u (S m)); try lia; reflexivity.
Qed.

Ltac step_cases Hs :=
  repeat match type of Hs with
  | context [match ?e with _ => _ end] => destruct e eqn:?
  end.

Ltac old_pc_contra C :=
  match goal with
  | E : g_pc (g_thr _ ?x) = _ |- _ => rewrite E in C; discriminate
  end.

Ltac norm_mode := try match goal with E : g_mode ?s = ?b |- _ => rewrite ?E in * end.

Ltac t_role Hrole :=
  intros a Ha; upd_all; try discriminate;
  first [ apply Hrole; assumption
        | match goal with E : g_pc (g_thr _ ?x) = _ |- (?x < _)%nat => apply Hrole; rewrite E; reflexivity end ].

Ltac t_lt Hltn Hlt :=
  intros a Ha; upd_all; try lia; first [ apply Hltn; assumption | reflexivity ].

Ltac t_once Honce :=
  intros a Ha; norm_mode; upd_all; try discriminate;
  first [ reflexivity | assumption | eapply Honce; eassumption
        | match goal with E : g_pc (g_thr _ ?x) = _ |- _ => apply (Honce x); rewrite E; reflexivity end ].

Ltac t_excl Hexcl :=
  norm_mode; intros Hm; try discriminate; intros a Ha; upd_all; try discriminate;
  first [ reflexivity
        | (apply (Hexcl Hm); assumption)
        | match goal with E : g_pc (g_thr _ ?x) = _ |- g_rm _ = Some ?x => apply (Hexcl Hm); rewrite E; reflexivity end
        | (exfalso;
           match goal with
           | _ => let X := fresh in pose proof (Hexcl Hm _ Ha) as X; discriminate X
           | E : g_pc (g_thr ?s ?t) = _, n : ?x <> ?t |- _ =>
             let H := fresh in
             assert (H : g_rm s = Some t) by (apply (Hexcl Hm); rewrite E; reflexivity);
             rewrite (Hexcl Hm _ Ha) in H; congruence
           end) ].

Ltac t_own Hown Honce Hlt :=
  intros u Hu; norm_mode; simpl in Hu; try discriminate;
  first [ (let A := fresh "A" in let B := fresh "B" in let C := fresh "C" in
           destruct (Hown _ Hu) as (A & B & C); try discriminate A;
           (split; [assumption|split; [assumption|]]; upd_all;
            first [assumption | reflexivity | old_pc_contra C]))
        | (inv_some Hu; upd_all; split;
           [ match goal with E : g_pc (g_thr _ ?x) = _ |- _ => apply (Honce x); rewrite E; reflexivity end
           | split; [assumption | reflexivity] ]) ].

Ltac t_wait Hwait :=
  intros a Ha; norm_mode; upd_all; try discriminate;
  first [ apply Hwait; assumption
        | match goal with E : g_pc (g_thr _ ?x) = _ |- _ => apply Hwait; rewrite E; reflexivity end
        | (symmetry; apply Z.eqb_eq; assumption) | (apply Z.eqb_eq; assumption) ].

Ltac t_sleep Hsleep :=
  intros a Ha Hne; upd_all; try discriminate;
  let u := fresh "u" in let Hu := fresh "Hu" in let Hp := fresh "Hp" in
  destruct (Hsleep _ Ha Hne) as (u & Hu & Hp); exists u; split; [assumption|]; upd_all;
  first [assumption | reflexivity | old_pc_contra Hp].

Lemma gstep_inv s t ch s' l : GInv s -> gstep s t ch = Some (s', l) -> GInv s'.
Proof.
  intros [Hrole Hltn Hsingle Honce Hexcl Hown Hwait Hsleep] Hs. unfold gstep in Hs.
  destruct (Nat.leb (g_n s) t) eqn:Hlt; [discriminate|]. apply Nat.leb_gt in Hlt.
  cbv zeta in Hs.
  destruct (g_pc (g_thr s t)) eqn:Epc; step_cases Hs; try discriminate; inv_some Hs.
  all: try match goal with
       | E : first_such (g_blocked_thr _) _ = Some ?u |- _ =>
         let H1 := fresh "Hwk" in let H0 := fresh "Hwlt" in
         destruct (first_such_some _ _ _ E) as [H0 H1]; apply g_blocked_pc in H1
       end.
  all: constructor; simpl.
  all: try (t_role Hrole; fail).
  all: try (t_lt Hltn Hlt; fail).
  all: try (intros E; norm_mode; first [discriminate | apply Hsingle; reflexivity | apply Hsingle; assumption]; fail).
  all: try (t_once Honce; fail).
  all: try (t_excl Hexcl; fail).
  all: try (t_own Hown Honce Hlt; fail).
  all: try (t_wait Hwait; fail).
  all: try (t_sleep Hsleep; fail).
  - (* read-once take: read_cursor moves; any other waiting thread would hold read_mutex too *)
    intros a Ha. upd_all; try discriminate. exfalso.
    assert (g_rm s = Some a) by (apply (Hexcl eq_refl); destruct (g_pc (g_thr s a)); simpl in *; congruence).
    assert (g_rm s = Some t) by (apply (Hexcl eq_refl); rewrite Epc; reflexivity). congruence.
  - (* the compare-and-block: the word equals the checked value *)
    intros a Ha Hne. upd_all.
    + apply Z.eqb_eq in Heqb. congruence.
    + destruct (Hsleep _ Ha Hne) as (u & Hu & Hp). exists u. split; [assumption|].
      upd_all; first [assumption | old_pc_contra Hp].
  - (* cursor store: the storing writer is now between its store and its wake call *)
    intros a Ha Hne. exists t. split; [assumption|]. upd_all; reflexivity.
  - (* wake_all: role *)
    intros a Ha. unfold upd in Ha. destruct (Nat.eqb_spec a t); [subst; discriminate|].
    rewrite g_wake_all_spec in Ha. apply Hrole.
    destruct (Nat.ltb a (g_n s) && g_blocked_thr (g_thr s) a) eqn:Eb; [|exact Ha].
    apply andb_prop in Eb as [_ Eb]. apply g_blocked_pc in Eb. rewrite Eb. reflexivity.
  - intros a Ha. unfold upd. destruct (Nat.eqb_spec a t); [lia|].
    rewrite g_wake_all_spec.
    destruct (Nat.ltb_spec a (g_n s)); [lia|]. simpl. apply Hltn; assumption.
  - intros a Ha. unfold upd in Ha. destruct (Nat.eqb_spec a t); [subst; discriminate|].
    rewrite g_wake_all_spec in Ha.
    destruct (Nat.ltb a (g_n s) && g_blocked_thr (g_thr s) a) eqn:Eb; [discriminate|].
    exfalso. pose proof (Honce _ Ha). congruence.
  - intros a Ha. unfold upd in *. destruct (Nat.eqb_spec a t); [subst; discriminate|].
    rewrite g_wake_all_spec in *.
    destruct (Nat.ltb a (g_n s) && g_blocked_thr (g_thr s) a) eqn:Eb; [discriminate|].
    exact (Hwait _ Ha).
  - (* wake_all: nobody stays asleep *)
    intros a Ha Hne. exfalso. unfold upd in Ha. destruct (Nat.eqb_spec a t); [subst; discriminate|].
    rewrite g_wake_all_spec in Ha.
    destruct (Nat.ltb_spec a (g_n s)) as [Hl|Hl]; simpl in Ha.
    + destruct (g_blocked_thr (g_thr s) a) eqn:Eb; [discriminate|].
      apply g_blocked_pc_inv in Ha. congruence.
    + pose proof (Hltn a Hl) as X. rewrite Ha in X. discriminate.
  - (* single-wait wake_one with a sleeper: there is only one reader *)
    intros a Ha Hne. upd_all; try discriminate. exfalso.
    assert (a < g_nr s)%nat by (apply Hrole; rewrite Ha; reflexivity).
    assert (n < g_nr s)%nat by (apply Hrole; rewrite Hwk; reflexivity).
    specialize (Hsingle eq_refl). lia.
  - (* wake_one without a sleeper: nobody is asleep *)
    intros a Ha Hne. upd_all; try discriminate. exfalso.
    destruct (Nat.lt_ge_cases a (g_n s)) as [Hl|Hl].
    + pose proof (first_such_none _ _ Heqo a Hl) as X. apply g_blocked_pc_inv in Ha. congruence.
    + pose proof (Hltn a Hl) as X. rewrite Ha in X. discriminate.
  - (* read-once wake_one with a sleeper: only the holder of read_mutex can be asleep *)
    intros a Ha Hne. upd_all; try discriminate. exfalso.
    assert (g_rm s = Some a) by (apply (Hexcl eq_refl); rewrite Ha; reflexivity).
    assert (g_rm s = Some n) by (apply (Hexcl eq_refl); rewrite Hwk; reflexivity). congruence.
  - intros a Ha Hne. upd_all; try discriminate. exfalso.
    destruct (Nat.lt_ge_cases a (g_n s)) as [Hl|Hl].
    + pose proof (first_such_none _ _ Heqo a Hl) as X. apply g_blocked_pc_inv in Ha. congruence.
    + pose proof (Hltn a Hl) as X. rewrite Ha in X. discriminate.
Qed.


Theorem g_reachable_inv n nr cap md wl ks sched : (md = GMSingle -> (nr <= 1)%nat) ->
  GInv (exec gsys gstep (ginit n nr cap md wl ks) sched).
Proof. intros H. apply inv_exec; [|now apply ginit_inv]. intros; eapply gstep_inv; eauto. Qed.

Lemma g_const_step s t ch s' l : gstep s t ch = Some (s', l) ->
  g_n s' = g_n s /\ g_nr s' = g_nr s /\ g_mode s' = g_mode s /\ g_cap s' = g_cap s.
Proof.
  unfold gstep. destruct (Nat.leb (g_n s) t); [discriminate|]. cbv zeta.
  destruct (g_pc (g_thr s t)); intros Hs; step_cases Hs; try discriminate; inv_some Hs; repeat split; simpl; congruence.
Qed.

Lemma g_const_exec sched s : let s' := exec gsys gstep s sched in
  g_n s' = g_n s /\ g_nr s' = g_nr s /\ g_mode s' = g_mode s /\ g_cap s' = g_cap s.
Proof.
  revert s. induction sched as [|[t c] r IH]; intros s; simpl; [repeat split; reflexivity|].
  destruct (IH (exec1 gsys gstep s (t, c))) as (A & B & C & D). simpl in *. rewrite A, B, C, D.
  unfold exec1; simpl. destruct (gstep s t c) as [[s' l]|] eqn:E; [|repeat split; reflexivity].
  eapply g_const_step; eauto.
Qed.

(* ---------------- enabledness ---------------- *)
Ltac enabled_cases :=
  repeat match goal with
  | |- context [match ?e with _ => _ end] => destruct e
  end; discriminate.

Definition g_stuck_pc (p : gpc) : bool := match p with GRBlocked | GRLock | GDone => true | _ => false end.

Lemma g_enabled_unless s t : (t < g_n s)%nat -> g_stuck_pc (g_pc (g_thr s t)) = false -> g_enabled s t.
Proof.
  intros Ht Hp. unfold g_enabled, gstep. apply Nat.leb_gt in Ht. rewrite Ht. cbv zeta.
  destruct (g_pc (g_thr s t)); try discriminate; enabled_cases.
Qed.
Lemma g_lock_enabled s t : (t < g_n s)%nat -> g_rm s = None -> g_pc (g_thr s t) = GRLock -> g_enabled s t.
Proof.
  intros Ht Hm Hp. unfold g_enabled, gstep. apply Nat.leb_gt in Ht. rewrite Ht, Hp, Hm. discriminate.
Qed.
Lemma g_pending_enabled s u : (u < g_n s)%nat -> g_pending (g_pc (g_thr s u)) = true -> g_enabled s u.
Proof.
  intros Hu Hp. apply g_enabled_unless; [assumption|]. destruct (g_pc (g_thr s u)); simpl in *; congruence.
Qed.

(* the value a sleeping reader compared the cursor with: its own read position *)
Definition g_expect (s : gsys) (t : nat) : Z :=
  match g_mode s with GMOnce => g_rcur s | _ => ridx (g_i (g_thr s t)) (g_cap s) end.

(* Deadlock freedom, full form: some thread can take a step, or every thread is finished, or
   asleep in the futex on a cursor that STILL equals its own read position (the code's emptiness
   test holds: no message for it), or -- read-once mode -- queued on read_mutex behind such a
   sleeper; and every writer has finished. *)
Lemma g_progress s : GInv s ->
  (exists t, (t < g_n s)%nat /\ g_enabled s t) \/
  ((forall t, (t < g_n s)%nat ->
      g_done s t \/
      (g_pc (g_thr s t) = GRBlocked /\ g_cursor s = g_expect s t) \/
      (g_pc (g_thr s t) = GRLock /\ exists u, g_rm s = Some u /\ g_pc (g_thr s u) = GRBlocked)) /\
   (forall t, (g_nr s <= t < g_n s)%nat -> g_done s t)).
Proof.
  intros [Hrole Hltn Hsingle Honce Hexcl Hown Hwait Hsleep].
  destruct (bounded_dec (fun t => negb (g_stuck_pc (g_pc (g_thr s t)))) (g_n s)) as [(t & Ht & Hp)|Hall].
  { left. exists t. split; [assumption|]. apply g_enabled_unless; [assumption|].
    destruct (g_stuck_pc (g_pc (g_thr s t))); [discriminate|reflexivity]. }
  assert (Hst : forall t, (t < g_n s)%nat ->
            g_pc (g_thr s t) = GRBlocked \/ g_pc (g_thr s t) = GRLock \/ g_pc (g_thr s t) = GDone).
  { intros t Ht. specialize (Hall t Ht). destruct (g_pc (g_thr s t)); simpl in Hall; try discriminate; auto. }
  assert (Hblk : forall t, (t < g_n s)%nat -> g_pc (g_thr s t) = GRBlocked -> g_cursor s = g_expect s t).
  { intros t Ht E. unfold g_expect. rewrite <- (Hwait t) by (rewrite E; reflexivity).
    destruct (Z.eq_dec (g_cursor s) (g_reg (g_thr s t))) as [Eq|Ne]; [exact Eq|].
    exfalso. destruct (Hsleep t E Ne) as (u & Hu & Hp).
    destruct (Hst u Hu) as [E'|[E'|E']]; rewrite E' in Hp; discriminate. }
  assert (Hwr : forall t, (g_nr s <= t < g_n s)%nat -> g_done s t).
  { intros t [H1 H2]. destruct (Hst t H2) as [E|[E|E]]; [| |exact E]; exfalso;
      assert (t < g_nr s)%nat by (apply Hrole; rewrite E; reflexivity); lia. }
  destruct (g_rm s) as [o|] eqn:Erm.
  - destruct (Hown o eq_refl) as (A & B & C).
    assert (Eo : g_pc (g_thr s o) = GRBlocked).
    { destruct (Hst o B) as [E|[E|E]]; [exact E| |]; rewrite E in C; discriminate. }
    right. split; [|exact Hwr]. intros t Ht. destruct (Hst t Ht) as [E|[E|E]].
    + right. left. split; [exact E|]. now apply Hblk.
    + right. right. split; [exact E|]. exists o. split; [reflexivity|exact Eo].
    + left. exact E.
  - destruct (bounded_dec (fun t => match g_pc (g_thr s t) with GRLock => true | _ => false end) (g_n s))
      as [(t & Ht & Hp)|Hnl].
    { left. exists t. split; [assumption|]. apply g_lock_enabled; auto.
      destruct (g_pc (g_thr s t)); congruence. }
    right. split; [|exact Hwr]. intros t Ht. destruct (Hst t Ht) as [E|[E|E]].
    + right. left. split; [exact E|]. now apply Hblk.
    + exfalso. specialize (Hnl t Ht). rewrite E in Hnl. discriminate.
    + left. exact E.
Qed.

Theorem ring_no_deadlock_all n nr cap md wl ks sched : (md = GMSingle -> (nr <= 1)%nat) ->
  let s := exec gsys gstep (ginit n nr cap md wl ks) sched in
  (exists t, (t < n)%nat /\ g_enabled s t) \/
  ((forall t, (t < n)%nat ->
      g_done s t \/
      (g_pc (g_thr s t) = GRBlocked /\ g_cursor s = g_expect s t) \/
      (g_pc (g_thr s t) = GRLock /\ exists u, g_rm s = Some u /\ g_pc (g_thr s u) = GRBlocked)) /\
   (forall t, (nr <= t < n)%nat -> g_done s t)).
Proof.
  intros Hs s. pose proof (g_progress s (g_reachable_inv n nr cap md wl ks sched Hs)) as H.
  destruct (g_const_exec sched (ginit n nr cap md wl ks)) as (A & B & _ & _). fold s in A, B. simpl in A, B.
  rewrite A, B in H. exact H.
Qed.

(* No lost wake-up, per sleeper: a reader asleep in the futex waits on the value it compared
   with its own position, and the cursor still has that value or a writer is between its cursor
   store and its wake call (and can take a step). *)
Theorem ring_no_lost_wakeup_all n nr cap md wl ks sched t : (md = GMSingle -> (nr <= 1)%nat) ->
  let s := exec gsys gstep (ginit n nr cap md wl ks) sched in
  g_pc (g_thr s t) = GRBlocked ->
  g_reg (g_thr s t) = g_expect s t /\
  (g_cursor s = g_reg (g_thr s t) \/
   exists u, (u < n)%nat /\ g_pending (g_pc (g_thr s u)) = true /\ g_enabled s u).
Proof.
  intros Hs s Hb. pose proof (g_reachable_inv n nr cap md wl ks sched Hs) as [Hrole Hltn Hsingle Honce Hexcl Hown Hwait Hsleep].
  fold s in Hrole, Hltn, Hsingle, Honce, Hexcl, Hown, Hwait, Hsleep.
  destruct (g_const_exec sched (ginit n nr cap md wl ks)) as (A & _). fold s in A. simpl in A.
  split; [unfold g_expect; apply Hwait; rewrite Hb; reflexivity|].
  destruct (Z.eq_dec (g_cursor s) (g_reg (g_thr s t))) as [Eq|Ne]; [left; exact Eq|right].
  destruct (Hsleep t Hb Ne) as (u & Hu & Hp). exists u. rewrite A in Hu.
  split; [assumption|]. split; [assumption|]. apply g_pending_enabled; [rewrite A|]; assumption.
Qed.

(* non-vacuity: two readers really asleep, writer between store and wake; wake_all resumes both *)
Definition g_demo : gsys := ginit 3 2 4 GMWait false (fun t => match t with 2%nat => 1%nat | _ => 1%nat end).
Example g_two_sleepers_woken :
  let s1 := exec gsys gstep g_demo
              [(0,0);(0,0);(0,0);(0,0); (1,0);(1,0);(1,0);(1,0); (2,0);(2,0);(2,0)]%nat in
  let s2 := exec gsys gstep s1 [(2,0)]%nat in
  g_pc (g_thr s1 0%nat) = GRBlocked /\ g_pc (g_thr s1 1%nat) = GRBlocked /\
  g_pending (g_pc (g_thr s1 2%nat)) = true /\ g_cursor s1 <> g_reg (g_thr s1 0%nat) /\
  g_pc (g_thr s2 0%nat) = GRSeg1 /\ g_pc (g_thr s2 1%nat) = GRSeg1.
Proof. vm_compute. repeat split; try reflexivity; discriminate. Qed.

(* OUTSIDE the documented usage (Appendix B: writers never lap a waiting reader): with capacity 2
   the writer publishes two messages between the reader's check and its futex call; the cursor is
   back at the checked value (ABA on the futex word), the compare-and-block succeeds and the
   reader sleeps although messages were written.  This is why the no-lapping precondition is part
   of the documented usage; the theorems above speak about the cursor value, not about counts. *)
Example ring_lapped_reader_sleeps :
  let s := exec gsys gstep (ginit 2 1 2 GMSingle false (fun t => match t with O => 1%nat | _ => 2%nat end))
             [(0,0);(0,0);(0,0); (1,0);(1,0);(1,0);(1,0); (1,0);(1,0);(1,0);(1,0); (1,0);(1,0); (0,0)]%nat in
  g_pc (g_thr s 0%nat) = GRBlocked /\ g_written s = 2%nat /\ g_done s 1%nat /\
  forall t, (t < 2)%nat -> gstep s t 0 = None.
Proof.
  vm_compute. repeat split; try reflexivity.
  intros t Ht. destruct t as [|[|t]]; [reflexivity|reflexivity|lia].
Qed.

(* ---------------- futex waits that return early (EINTR / spurious wake-up) ---------------- *)
(* The theorems above cover the schedule choices 2 / 3 of a wait that would block.  Such a return
   only sends the reader back to its re-check: script, read position, read_cursor, cursor and (in
   read-once mode) the ownership of read_mutex are unchanged. *)
Lemma g_early_return_rechecks s t ch s' l :
  g_pc (g_thr s t) = GRWait -> g_cursor s = g_reg (g_thr s t) -> (ch = 2 \/ ch = 3)%nat ->
  gstep s t ch = Some (s', l) ->
  g_pc (g_thr s' t) = GRSeg1 /\ g_k (g_thr s' t) = g_k (g_thr s t) /\ g_i (g_thr s' t) = g_i (g_thr s t) /\
  g_rcur s' = g_rcur s /\ g_cursor s' = g_cursor s /\ g_rm s' = g_rm s /\
  (forall u, u <> t -> g_thr s' u = g_thr s u).
Proof.
  intros Epc Eq Hch Hs. unfold gstep in Hs.
  destruct (Nat.leb (g_n s) t); [discriminate|]. rewrite Epc in Hs. cbv zeta in Hs.
  rewrite Eq, Z.eqb_refl in Hs.
  destruct Hch as [-> | ->]; simpl in Hs; inv_some Hs; simpl; rewrite upd_same;
    (repeat split; try reflexivity; intros u Hu; apply upd_other; assumption).
Qed.

Example g_interrupted_reader_rechecks_and_sleeps :
  let s := exec gsys gstep g_demo [(0,0);(0,0);(0,0);(0,2); (0,0);(0,0);(0,0);(0,3); (0,0);(0,0);(0,0);(0,0)]%nat in
  g_pc (g_thr s 0%nat) = GRBlocked /\ g_k (g_thr s 0%nat) = 1%nat /\ g_i (g_thr s 0%nat) = 0.
Proof. vm_compute. repeat split; reflexivity. Qed.
