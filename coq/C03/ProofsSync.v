(* C03 (f) — synclock: CAS to locked, futex wait on the lock word (expected = LOCK), unlock =
   store UNLOCK + wake_one.  Uses C04's model of synclock.c (C04/Model.v, [lstep] with
   [KSync], repaired loop) read-only.  No lost wake-up and no deadlock for every schedule
   (spurious weak-CAS failures included) and any number of threads. *)
From MV Require Import C04.Model C04.ProofsLock.
From MV Require Import C03.ProofsCommon.
Local Open Scope Z_scope.

(* a thread that is about to (re)try the compare-exchange *)
Definition l_about (x : lthread) : bool :=
  match l_pc x with
  | LAcq => true
  | LStart => negb (Nat.eqb (l_iters x) 0)
  | _ => false
  end.
(* an unlocker between its store of UNLOCK and its wake call *)
Definition l_waker (p : lpc) : bool := match p with LRelSeg | LWake => true | _ => false end.
Definition l_idle (p : lpc) : bool := match p with LStart | LFin | LDone => true | _ => false end.

Definition l_enabled (P : params) (s : lsys) (t : nat) : Prop := lstep P true s t 0 <> None.

Record SInv (s : lsys) : Prop := {
  si_kind : l_kind s = KSync;
  si_linv : LInv s;
  si_lt : forall t, (l_n s <= t)%nat -> l_pc (l_thr s t) = LStart;
  si_iters : forall t, l_idle (l_pc (l_thr s t)) = false -> (0 < l_iters (l_thr s t))%nat;
  (* lock word = LOCK  =>  some thread holds the lock (and will unlock: store + wake) *)
  si_held : l_lock s = 1 -> exists u, (u < l_n s)%nat /\ holds (l_pc (l_thr s u)) = true;
  (* THE no-lost-wake-up invariant: asleep on the lock word expecting LOCK  =>  the word is
     LOCK, or an unlocker is between its store and its wake call, or a (woken / new) thread is
     about to retry the compare-exchange *)
  si_sleep : forall t, l_pc (l_thr s t) = LBlocked ->
             l_lock s = 1 \/
             (exists u, (u < l_n s)%nat /\ l_waker (l_pc (l_thr s u)) = true) \/
             (exists u, (u < l_n s)%nat /\ l_about (l_thr s u) = true);
  (* C04's model also has a mutex client whose owner locks again (program point LNest); the synclock client
     never is there *)
  si_nonest : forall t, l_pc (l_thr s t) <> LNest;
}.

Lemma sinit_inv n it : SInv (linit KSync n it).
Proof.
  constructor; simpl; try reflexivity; try discriminate.
  apply linit_inv.
Qed.

Lemma first_blocked_none thr n : first_blocked thr n = None ->
  forall u, (u < n)%nat -> l_pc (thr u) <> LBlocked.
Proof.
  induction n as [|m IH]; simpl; intros H u Hu; [lia|].
  destruct (first_blocked thr m) as [v|] eqn:E; [discriminate|].
  destruct (Nat.eq_dec u m) as [->|Hne].
  - intros Eb. rewrite Eb in H. discriminate.
  - apply IH; [reflexivity|lia].
Qed.

Lemma first_blocked_lt thr n u : first_blocked thr n = Some u -> (u < n)%nat.
Proof.
  induction n as [|m IH]; simpl; [discriminate|].
  destruct (first_blocked thr m) as [v|] eqn:E.
  - intros H; inversion H; subst. specialize (IH eq_refl). lia.
  - destruct (l_pc (thr m)); try discriminate. intros H; inversion H; subst. lia.
Qed.

Ltac step_cases Hs :=
  repeat match type of Hs with
  | context [match ?e with _ => _ end] => destruct e eqn:?
  end.
Ltac old_pc_contra C :=
  match goal with
  | E : l_pc (l_thr _ ?x) = _ |- _ => rewrite E in C; discriminate
  end.

Ltac t_lt Hltn :=
  intros a Ha; upd_all; try lia; first [apply Hltn; assumption | reflexivity].
Ltac t_iters Hit :=
  intros a Ha; upd_all; try discriminate; try lia;
  first [ apply Hit; assumption
        | match goal with E : l_pc (l_thr _ ?x) = _ |- _ =>
            let X := fresh in pose proof (Hit x) as X; rewrite E in X; specialize (X eq_refl); lia end ].
Ltac t_held Hheld :=
  intros Hl; try discriminate; try lia;
  let u := fresh "u" in let Hu := fresh "Hu" in let Hp := fresh "Hp" in
  destruct (Hheld Hl) as (u & Hu & Hp); exists u; split; [assumption|]; upd_all;
  first [assumption | reflexivity | old_pc_contra Hp].
(* keep whichever disjunct held; the old witness keeps its class unless it is the stepping thread *)
Ltac t_sleep Hsleep :=
  intros a Ha; upd_all; try discriminate;
  let u := fresh "u" in let Hu := fresh "Hu" in let Hp := fresh "Hp" in
  destruct (Hsleep _ Ha) as [Hl|[(u & Hu & Hp)|(u & Hu & Hp)]];
  [ left; first [assumption | reflexivity | lia]
  | right; left; exists u; split; [assumption|]; upd_all; first [assumption | reflexivity | old_pc_contra Hp]
  | right; right; exists u; split; [assumption|]; unfold l_about in *; upd_all;
    first [assumption | reflexivity | old_pc_contra Hp
          | match goal with E : l_pc (l_thr _ ?x) = _ |- _ => rewrite E in Hp; discriminate end
          | (match goal with E : l_iters _ = S _ |- _ => rewrite E; reflexivity end) ] ].

Lemma sstep_inv P s t ch s' l : SInv s -> lstep P true s t ch = Some (s', l) -> SInv s'.
Proof.
  intros [Hk HL Hltn Hit Hheld Hsleep Hnn] Hs.
  assert (HL' : LInv s') by (eapply lstep_linv; eauto).
  assert (Hk' : l_kind s' = KSync) by (rewrite <- Hk; eapply lstep_kind; eauto).
  destruct HL as [H01 Hex Hfree Hi0 Hi1 Hov].
  unfold lstep in Hs. rewrite Hk in Hs.
  destruct (Nat.leb (l_n s) t) eqn:Hlt; [discriminate|]. apply Nat.leb_gt in Hlt.
  cbv zeta in Hs.
  destruct (l_pc (l_thr s t)) eqn:Epc; step_cases Hs; try discriminate;
    try (exfalso; apply (Hnn t); assumption);
    try match goal with H : nests KSync && _ = true |- _ => simpl in H; discriminate end;
    inv_some Hs.
  all: try match goal with
       | E : first_blocked _ _ = Some ?u |- _ =>
         let H1 := fresh "Hwk" in pose proof (first_blocked_spec _ _ _ E) as H1
       end.
  all: constructor; try assumption; simpl.
  all: try (t_lt Hltn; fail).
  all: try (t_iters Hit; fail).
  all: try (t_held Hheld; fail).
  all: try (t_sleep Hsleep; fail).
  all: try solve [ let a := fresh "a" in intros a; upd_all; try discriminate; apply Hnn ].
  (* the remaining goals are selected by what they need, not by position, so that program points / lock
     kinds added to C04's model (which this development reads only for KSync) do not disturb the proof *)
  (* a new holder: compare-exchange success (and any other step that takes the free lock word) *)
  all: try solve [ intros _; exists t; (split; [assumption|]); upd_all; try reflexivity ].
  (* spurious weak-CAS failure: the thread retries (repaired loop) *)
  all: try solve [ let a := fresh "a" in let Ha := fresh "Ha" in let X := fresh "X" in
                   intros a Ha; right; right; exists t; (split; [assumption|]);
                   pose proof (Hit t) as X; rewrite Epc in X; specialize (X eq_refl);
                   unfold l_about; upd_all; try reflexivity; try (exfalso; lia) ].
  (* unlock: store UNLOCK; the unlocker is now between its store and its wake call *)
  all: try solve [ let a := fresh "a" in let Ha := fresh "Ha" in
                   intros a Ha; right; left; exists t; (split; [assumption|]); upd_all; try reflexivity ].
  (* wake_one with a sleeper: the woken thread is about to retry the CAS *)
  all: try solve [ match goal with
       | E : first_blocked _ _ = Some ?n, Hw : l_pc (l_thr _ ?n) = LBlocked |- _ =>
         let Hn := fresh "Hn" in let Hnt := fresh "Hnt" in let a := fresh "a" in let Ha := fresh "Ha" in
         let X := fresh "X" in
         assert (Hn : (n < l_n s)%nat) by (eapply first_blocked_lt; eassumption);
         assert (Hnt : n <> t) by (intros ->; congruence);
         intros a Ha; right; right; exists n; (split; [assumption|]);
         pose proof (Hit n) as X; rewrite Hw in X; specialize (X eq_refl);
         unfold l_about; upd_all; try reflexivity; try (exfalso; lia)
       end ].
  (* wake_one without a sleeper: nobody is asleep *)
  all: try solve [ match goal with
       | E : first_blocked _ _ = None |- _ =>
         let a := fresh "a" in let Ha := fresh "Ha" in let Hl := fresh "Hl" in
         intros a Ha; exfalso; upd_all; try discriminate;
         (destruct (Nat.lt_ge_cases a (l_n s)) as [Hl|Hl];
          [ eapply first_blocked_none; eassumption
          | rewrite (Hltn a Hl) in Ha; discriminate ])
       end ].
Qed.

Theorem s_reachable_inv P n it sched : SInv (exec lsys (lstep P true) (linit KSync n it) sched).
Proof. apply inv_exec; [|apply sinit_inv]. intros; eapply sstep_inv; eauto. Qed.

Lemma l_n_step P s t ch s' l : lstep P true s t ch = Some (s', l) -> l_n s' = l_n s.
Proof.
  unfold lstep. destruct (Nat.leb (l_n s) t); [discriminate|]. cbv zeta.
  destruct (l_pc (l_thr s t)); intros Hs; step_cases Hs; try discriminate; inv_some Hs; reflexivity.
Qed.
Lemma l_n_exec P sched s : l_n (exec lsys (lstep P true) s sched) = l_n s.
Proof.
  revert s. induction sched as [|[t c] r IH]; intros s; simpl; [reflexivity|].
  rewrite IH. unfold exec1; simpl. destruct (lstep P true s t c) as [[s' l]|] eqn:E; [|reflexivity].
  eapply l_n_step; eauto.
Qed.

Definition l_stuck_pc (p : lpc) : bool := match p with LBlocked | LDone => true | _ => false end.

Lemma l_enabled_unless P s t : l_kind s = KSync -> l_pc (l_thr s t) <> LNest ->
  (t < l_n s)%nat -> l_stuck_pc (l_pc (l_thr s t)) = false -> l_enabled P s t.
Proof.
  intros Hk Hnn Ht Hp. unfold l_enabled, lstep. apply Nat.leb_gt in Ht. rewrite Ht, Hk. cbv zeta.
  destruct (l_pc (l_thr s t)); try discriminate; try (exfalso; apply Hnn; reflexivity);
    repeat match goal with |- context [match ?e with _ => _ end] => destruct e end; discriminate.
Qed.

(* Deadlock freedom: some thread can take a step, or every thread has finished.  (There is no
   "legitimate" blocked end state for a lock.) *)
Lemma s_progress P s : SInv s ->
  (exists t, (t < l_n s)%nat /\ l_enabled P s t) \/ (forall t, (t < l_n s)%nat -> l_pc (l_thr s t) = LDone).
Proof.
  intros [Hk HL Hltn Hit Hheld Hsleep Hnn].
  destruct (bounded_dec (fun t => negb (l_stuck_pc (l_pc (l_thr s t)))) (l_n s)) as [(t & Ht & Hp)|Hall].
  { left. exists t. split; [assumption|]. apply l_enabled_unless; auto.
    destruct (l_stuck_pc (l_pc (l_thr s t))); [discriminate|reflexivity]. }
  assert (Hst : forall t, (t < l_n s)%nat -> l_pc (l_thr s t) = LBlocked \/ l_pc (l_thr s t) = LDone).
  { intros t Ht. specialize (Hall t Ht). destruct (l_pc (l_thr s t)); simpl in Hall; try discriminate; auto. }
  right. intros t Ht. destruct (Hst t Ht) as [E|E]; [|exact E]. exfalso.
  destruct (Hsleep t E) as [Hl|[(u & Hu & Hp)|(u & Hu & Hp)]].
  - destruct (Hheld Hl) as (u & Hu & Hp). destruct (Hst u Hu) as [E'|E']; rewrite E' in Hp; discriminate.
  - destruct (Hst u Hu) as [E'|E']; rewrite E' in Hp; discriminate.
  - unfold l_about in Hp. destruct (Hst u Hu) as [E'|E']; rewrite E' in Hp; discriminate.
Qed.

Theorem synclock_no_deadlock_all P n it sched :
  let s := exec lsys (lstep P true) (linit KSync n it) sched in
  (exists t, (t < n)%nat /\ l_enabled P s t) \/ (forall t, (t < n)%nat -> l_pc (l_thr s t) = LDone).
Proof.
  intros s. pose proof (s_progress P s (s_reachable_inv P n it sched)) as H.
  unfold s in *. rewrite l_n_exec in H. exact H.
Qed.

(* No lost wake-up, per sleeper *)
Theorem synclock_no_lost_wakeup_all P n it sched t :
  let s := exec lsys (lstep P true) (linit KSync n it) sched in
  l_pc (l_thr s t) = LBlocked ->
  (l_lock s = 1 /\ exists u, (u < n)%nat /\ holds (l_pc (l_thr s u)) = true /\ l_enabled P s u) \/
  (exists u, (u < n)%nat /\ l_waker (l_pc (l_thr s u)) = true /\ l_enabled P s u) \/
  (exists u, (u < n)%nat /\ l_about (l_thr s u) = true /\ l_enabled P s u).
Proof.
  intros s Hb. pose proof (s_reachable_inv P n it sched) as [Hk HL Hltn Hit Hheld Hsleep Hnn].
  fold s in Hk, HL, Hltn, Hit, Hheld, Hsleep, Hnn.
  assert (Hn : l_n s = n) by (unfold s; rewrite l_n_exec; reflexivity). rewrite Hn in *.
  destruct (Hsleep t Hb) as [Hl|[(u & Hu & Hp)|(u & Hu & Hp)]].
  - left. split; [exact Hl|]. destruct (Hheld Hl) as (u & Hu & Hp). exists u. split; [assumption|]. split; [assumption|].
    apply l_enabled_unless; [assumption|apply Hnn|rewrite Hn; assumption|]. destruct (l_pc (l_thr s u)); simpl in *; congruence.
  - right. left. exists u. split; [assumption|]. split; [assumption|].
    apply l_enabled_unless; [assumption|apply Hnn|rewrite Hn; assumption|]. destruct (l_pc (l_thr s u)); simpl in *; congruence.
  - right. right. exists u. split; [assumption|]. split; [assumption|].
    apply l_enabled_unless; [assumption|apply Hnn|rewrite Hn; assumption|]. unfold l_about in Hp.
    destruct (l_pc (l_thr s u)); simpl in *; congruence.
Qed.

(* non-vacuity: a thread really sleeps on the lock word while the holder is inside *)
Example s_sleeper_behind_holder :
  let s := exec lsys (lstep any_params true) (linit KSync 2 1)
             [(0,0);(0,0);(0,0);(1,0);(1,0);(1,0);(1,0)]%nat in
  l_pc (l_thr s 1%nat) = LBlocked /\ l_lock s = 1 /\ holds (l_pc (l_thr s 0%nat)) = true.
Proof. vm_compute. repeat split; reflexivity. Qed.
