(* C03 (a), temporal step, part 2: the measure, spinning, productivity and the theorem. *)
From MV Require Import C03.Model C03.ProofsCommon C03.ProofsChanF C03.ModArith C03.FairGen C03.ProofsFairChanF.
Local Open Scope Z_scope.

Ltac step_cases Hs :=
  repeat match type of Hs with
  | context [match ?e with _ => _ end] => destruct e eqn:?
  end.

(* ------------------------------------------------------------------ *)
(* the measure *)

(* [fG]: twice the remaining script, minus one once the message in flight has been published.
   Decreases at every cursor store and at every wake call. *)
Definition fG (x : fthread) : nat :=
  match f_pc x with
  | FRSeg | FRLoad | FRChk | FRStore | FRWait | FRBlocked => 2 * f_k x
  | FWSeg | FWLock | FWSeg1 | FWLoadR | FWChk | FWStore | FWUnlockF | FWSegF | FWYield => 2 * f_k x
  | FWSeg3 | FWUnlock | FWSeg4 | FWWake => 2 * f_k x - 1
  | _ => 0
  end%nat.

(* [fD]: distance (in own steps) of a thread to its next [fG]-decreasing step, 0 while it cannot
   get there by itself: the reader while the channel is empty (it re-checks, waits, is interrupted,
   re-checks ...), a writer while the channel is full (FULL, yield, retry ...).  Depends on the
   shared state only through write_cursor / read_cursor. *)
Definition fD (wl : bool) (cap wcur rcur : Z) (x : fthread) : nat :=
  let empty := wcur =? ridx (rcur + 1) cap in
  let full := ridx (wcur + 1) cap =? rcur in
  let wloop (d : nat) := if full then 0%nat else d in
  match f_pc x with
  | FRSeg => match f_k x with O => 2 | S _ => if empty then 0 else 4 end
  | FRLoad => if empty then 0 else 3
  | FRChk => if Z.eqb (f_reg x) (ridx (rcur + 1) cap) then (if empty then 0 else 6) else 2
  | FRStore => 1
  | FRWait => if empty then 0 else 5
  | FRBlocked => if empty then 0 else 5
  | FWSeg => match f_k x with O => 2 | S _ => wloop 10 end
  | FWLock => wloop 9
  | FWSeg1 => wloop 8
  | FWLoadR => wloop 7
  | FWChk => if Z.eqb (ridx (wcur + 1) cap) (f_reg x) then wloop 14 else 6
  | FWStore => 5
  | FWSeg3 => 4
  | FWUnlock => 3
  | FWSeg4 => 2
  | FWWake => 1
  | FWUnlockF => wloop 13
  | FWSegF => wloop 12
  | FWYield => wloop 11
  | FFin => 1
  | FDone => 0
  end%nat.

Definition fDs (s : fsys) : fthread -> nat := fD (f_wl s) (f_cap s) (f_wcur s) (f_rcur s).
Definition fM (s : fsys) : nat :=
  ((14 * f_n s + 1) * tsum fG (f_thr s) (f_n s) + tsum (fDs s) (f_thr s) (f_n s))%nat.

Lemma fD_le wl cap wcur rcur x : (fD wl cap wcur rcur x <= 14)%nat.
Proof.
  unfold fD. destruct (f_pc x); repeat match goal with |- context [if ?b then _ else _] => destruct b end;
    try destruct (f_k x); lia.
Qed.

(* a thread that cannot get to its next productive step by itself *)
Definition f_spinning (s : fsys) (t : nat) : Prop :=
  fDs s (f_thr s t) = 0%nat /\ f_pc (f_thr s t) <> FDone.

Definition f_productive (s : fsys) (u : nat) : Prop := fstep s u 0 <> None /\ ~ f_spinning s u.

Lemma f_enabled_cong s s' u :
  f_n s' = f_n s -> f_thr s' u = f_thr s u ->
  (f_pc (f_thr s u) = FWLock -> f_wm s' = None) ->
  fstep s u 0 <> None -> fstep s' u 0 <> None.
Proof.
  intros Hn Ht Hl Hen. unfold fstep in *. rewrite Hn, Ht.
  destruct (Nat.leb (f_n s) u); [exact Hen|]. cbv zeta in *.
  destruct (f_pc (f_thr s u)) eqn:Epc; try exact Hen;
    try (repeat match goal with |- context [match ?e with _ => _ end] => destruct e end; discriminate).
  rewrite (Hl eq_refl). discriminate.
Qed.

Lemma f_lock_prod s u : f_productive s u -> f_pc (f_thr s u) = FWLock ->
  f_wm s = None /\ (ridx (f_wcur s + 1) (f_cap s) =? f_rcur s) = false.
Proof.
  intros [Hen Hns] Epc. split.
  - unfold fstep in Hen. destruct (Nat.leb (f_n s) u); [congruence|]. rewrite Epc in Hen. cbv zeta in Hen.
    destruct (f_wm s); [congruence|reflexivity].
  - destruct (ridx (f_wcur s + 1) (f_cap s) =? f_rcur s) eqn:E; [|reflexivity].
    exfalso. apply Hns. split; [|rewrite Epc; discriminate].
    unfold fDs, fD. rewrite Epc, E. reflexivity.
Qed.

(* a spinning writer sees the channel full *)
Lemma f_spin_writer_full s t : f_spinning s t -> f_is_writer (f_pc (f_thr s t)) = true ->
  (ridx (f_wcur s + 1) (f_cap s) =? f_rcur s) = true.
Proof.
  intros [Hd _] Hw. unfold fDs, fD in Hd.
  destruct (ridx (f_wcur s + 1) (f_cap s) =? f_rcur s); [reflexivity|].
  destruct (f_pc (f_thr s t)); simpl in Hw; try discriminate;
    repeat match type of Hd with context [match ?e with _ => _ end] => destruct e end; discriminate.
Qed.

Lemma f_prod_fset s t x u : u <> t -> f_productive s u -> f_productive (fset s t x) u.
Proof.
  intros Hu Hp. pose proof Hp as [Hen Hns]. split.
  - apply (f_enabled_cong s); cbn [fset f_n f_thr f_wm]; [reflexivity|apply upd_other; exact Hu| |exact Hen].
    intros E. apply (f_lock_prod s u Hp E).
  - unfold f_spinning, fDs in *. cbn [fset f_n f_thr f_wl f_cap f_wcur f_rcur]. rewrite upd_other by exact Hu. exact Hns.
Qed.

(* K * (G+1) <= K * G0 and D <= 14 n < K give the strict decrease at the G-decreasing steps *)
Lemma fM_drop (n G1 G0 D1 D0 : nat) :
  (G1 + 1 <= G0)%nat -> (D1 <= 14 * n)%nat ->
  ((14 * n + 1) * G1 + D1 < (14 * n + 1) * G0 + D0)%nat.
Proof.
  intros H1 H2. pose proof (Nat.mul_le_mono_l _ _ (14 * n + 1) H1). lia.
Qed.

Section Measure.
Variable k : Z.
Hypothesis Hk : 1 <= k.

Definition FGood (s : fsys) : Prop := FInv s /\ FData k s /\ FAcc s.

Lemma fgood_step s t c s' l : FGood s -> fstep s t c = Some (s', l) -> FGood s'.
Proof.
  intros (A & B & C) Hs. split; [eapply fstep_inv; eauto|]. split; [eapply fstep_data; eauto|eapply fstep_acc; eauto].
Qed.

Lemma f_step_measure s t ch s' l : FGood s -> fstep s t ch = Some (s', l) ->
  (fM s' < fM s)%nat \/
  (f_spinning s t /\ fM s' = fM s /\ forall u, u <> t -> f_productive s u -> f_productive s' u).
Proof.
  intros (FI & FD & FA) Hs.
  pose proof FI as [Hrole Hwl Hown Hwait Hsleep].
  pose proof FA as [Hk0 _]. pose proof (Hk0 t) as Hkt.
  unfold fstep in Hs.
  destruct (Nat.leb (f_n s) t) eqn:Hlt; [discriminate|]. apply Nat.leb_gt in Hlt.
  cbv zeta in Hs.
  destruct (f_pc (f_thr s t)) eqn:Epc; step_cases Hs; try discriminate; inv_some Hs.
  all: try match goal with
       | E : first_such (f_blocked _) _ = Some ?u |- _ =>
         let H1 := fresh "Hwk" in let H0 := fresh "Hul" in
         destruct (first_such_some _ _ _ E) as [H0 H1]; apply f_blocked_pc in H1;
         assert (u <> t) by (intros ->; congruence)
       end.
  (* scripts at active program points are non-empty *)
  all: try (destruct (f_k (f_thr s t)) as [|kk] eqn:Ek0; [exfalso; specialize (Hkt eq_refl); lia|]).
  (* the value the reader waits on is its read position *)
  all: try (assert (Hrp : f_reg (f_thr s t) = ridx (f_rcur s + 1) (f_cap s))
              by (apply Hwait; rewrite Epc; reflexivity);
            rewrite Hrp in *).
  (* the measure does not look at the mutex *)
  all: try (match goal with
            | |- context [fM ?s1] =>
              match s1 with
              | {| f_n := _; f_cap := _; f_wl := _; f_wcur := f_wcur _; f_rcur := f_rcur _;
                   f_wm := _; f_W := _; f_R := _; f_thr := upd _ _ ?x |} =>
                change (fM s1) with (fM (fset s t x))
              end
            end).
  (* steps that leave both cursors alone: only the stepping thread's weights change *)
  all: try (
    match goal with |- context [fM (fset _ _ ?x)] =>
      pose proof (tsum_upd fG (f_thr s) t x (f_n s) Hlt) as HG;
      pose proof (tsum_upd (fDs s) (f_thr s) t x (f_n s) Hlt) as HD;
      assert (EM : fM (fset s t x) = ((14 * f_n s + 1) * tsum fG (upd (f_thr s) t x) (f_n s)
                                      + tsum (fDs s) (upd (f_thr s) t x) (f_n s))%nat) by reflexivity;
      rewrite EM; clear EM
    end;
    unfold fM;
    set (G0 := tsum fG (f_thr s) (f_n s)) in *;
    set (D0 := tsum (fDs s) (f_thr s) (f_n s)) in *;
    match goal with |- context [tsum fG (upd ?a ?b ?c) ?d] => set (G1 := tsum fG (upd a b c) d) in * end;
    match goal with |- context [tsum (fDs ?z) (upd ?a ?b ?c) ?d] => set (D1 := tsum (fDs z) (upd a b c) d) in * end;
    destruct (f_wcur s =? ridx (f_rcur s + 1) (f_cap s)) eqn:Eem; try discriminate;
    destruct (ridx (f_wcur s + 1) (f_cap s) =? f_rcur s) eqn:Efu; try discriminate;
    unfold fG, fDs, fD, fpcset in HG, HD; cbn [f_pc f_k f_reg f_reg2 f_g f_pend] in HG, HD;
    rewrite ?Epc in HG; rewrite ?Epc in HD;
    repeat match goal with E : f_k _ = _ |- _ => progress (rewrite ?E in HG; rewrite ?E in HD) end;
    cbv iota beta zeta in HG, HD;
    rewrite ?Eem, ?Efu in HD;
    repeat match goal with E : (_ =? _) = _ |- _ => progress (rewrite ?E in HD) end;
    cbv iota beta zeta in HG, HD;
    first [ (assert (EG : G1 = G0) by lia; rewrite EG;
             first [ left; lia
                   | right; split;
                     [ split; [unfold fDs, fD; rewrite ?Epc;
                               repeat match goal with E : f_k _ = _ |- _ => progress (rewrite ?E) end; cbv iota beta zeta;
                               rewrite ?Eem, ?Efu;
                               repeat match goal with E : (_ =? _) = _ |- _ => progress (rewrite ?E) end; reflexivity
                              | rewrite Epc; discriminate]
                     | split; [lia|] ] ])
          | (left; apply fM_drop; [lia|apply tsum_le_const; intros; apply fD_le]) ]).
  (* productivity of the others across a spin step that does not touch the mutex *)
  all: try (intros u Hu Hp; apply f_prod_fset; assumption).
  - (* FRStore: a read completes *)
    left. unfold fM. cbn [f_n f_thr].
    match goal with |- context [upd (f_thr s) t ?x] =>
      pose proof (tsum_upd fG (f_thr s) t x (f_n s) Hlt) as HG end.
    set (G0 := tsum fG (f_thr s) (f_n s)) in *.
    match goal with |- context [tsum fG (upd ?a ?b ?c) ?d] => set (G1 := tsum fG (upd a b c) d) in * end.
    unfold fG in HG. cbn [f_pc f_k] in HG. rewrite Epc, Ek0 in HG. cbn [pred] in HG.
    apply fM_drop; [lia|apply tsum_le_const; intros; apply fD_le].
  - (* FWLock taken by a writer that sees the channel full: the others that are productive do not
       need the write mutex (a productive writer does not see the channel full) *)
    intros u Hu Hp. pose proof Hp as [Hen Hns]. split.
    + apply (f_enabled_cong s); cbn [f_n f_thr f_wm]; [reflexivity|apply upd_other; exact Hu| |exact Hen].
      intros E. destruct (f_lock_prod s u Hp E) as [_ X]. congruence.
    + unfold f_spinning, fDs in *. cbn [f_n f_thr f_wl f_cap f_wcur f_rcur]. rewrite upd_other by exact Hu. exact Hns.
  - intros u Hu Hp. pose proof Hp as [Hen Hns]. split.
    + apply (f_enabled_cong s); cbn [f_n f_thr f_wm]; [reflexivity|apply upd_other; exact Hu| |exact Hen].
      intros E. destruct (f_lock_prod s u Hp E) as [_ X]. congruence.
    + unfold f_spinning, fDs in *. cbn [f_n f_thr f_wl f_cap f_wcur f_rcur]. rewrite upd_other by exact Hu. exact Hns.
  - (* FWStore: a message is published *)
    left. unfold fM. cbn [f_n f_thr].
    match goal with |- context [upd (f_thr s) t ?x] =>
      pose proof (tsum_upd fG (f_thr s) t x (f_n s) Hlt) as HG end.
    set (G0 := tsum fG (f_thr s) (f_n s)) in *.
    match goal with |- context [tsum fG (upd ?a ?b ?c) ?d] => set (G1 := tsum fG (upd a b c) d) in * end.
    unfold fG in HG. cbn [f_pc f_k fpcset] in HG. rewrite Epc, Ek0 in HG.
    apply fM_drop; [lia|apply tsum_le_const; intros; apply fD_le].
  - (* FWWake with a sleeper *)
    left. unfold fM. cbn [f_n f_thr fset].
    match goal with |- context [upd (upd (f_thr s) ?u ?xu) t ?x] =>
      pose proof (tsum_upd2 fG (f_thr s) u xu t x (f_n s) Hul Hlt H) as HG end.
    set (G0 := tsum fG (f_thr s) (f_n s)) in *.
    match goal with |- context [tsum fG (upd ?a ?b ?c) ?d] => set (G1 := tsum fG (upd a b c) d) in * end.
    unfold fG in HG. cbn [f_pc f_k fpcset] in HG. rewrite Epc, Hwk, Ek0 in HG. cbn [pred] in HG.
    apply fM_drop; [lia|apply tsum_le_const; intros; apply fD_le].
  - intros u Hu Hp. pose proof Hp as [Hen Hns]. split.
    + apply (f_enabled_cong s); cbn [f_n f_thr f_wm]; [reflexivity|apply upd_other; exact Hu|reflexivity|exact Hen].
    + unfold f_spinning, fDs in *. cbn [f_n f_thr f_wl f_cap f_wcur f_rcur]. rewrite upd_other by exact Hu. exact Hns.
  - intros u Hu Hp. pose proof Hp as [Hen Hns]. split.
    + apply (f_enabled_cong s); cbn [f_n f_thr f_wm]; [reflexivity|apply upd_other; exact Hu|reflexivity|exact Hen].
    + unfold f_spinning, fDs in *. cbn [f_n f_thr f_wl f_cap f_wcur f_rcur]. rewrite upd_other by exact Hu. exact Hns.
Qed.
End Measure.

(* ------------------------------------------------------------------ *)
(* who is productive *)

Lemma f_nospin_writer s u :
  (ridx (f_wcur s + 1) (f_cap s) =? f_rcur s) = false -> f_is_writer (f_pc (f_thr s u)) = true ->
  ~ f_spinning s u.
Proof.
  intros Efu Hw [Hd _]. unfold fDs, fD in Hd. rewrite Efu in Hd.
  destruct (f_pc (f_thr s u)); simpl in Hw; try discriminate;
    repeat match type of Hd with context [match ?e with _ => _ end] => destruct e end; discriminate.
Qed.

Lemma f_nospin_reader s u :
  (f_wcur s =? ridx (f_rcur s + 1) (f_cap s)) = false -> f_is_reader (f_pc (f_thr s u)) = true ->
  ~ f_spinning s u.
Proof.
  intros Eem Hw [Hd _]. unfold fDs, fD in Hd. rewrite Eem in Hd.
  destruct (f_pc (f_thr s u)); simpl in Hw; try discriminate;
    repeat match type of Hd with context [match ?e with _ => _ end] => destruct e end; discriminate.
Qed.

Lemma f_nospin_pending s u : f_pending (f_pc (f_thr s u)) = true -> ~ f_spinning s u.
Proof.
  intros Hp [Hd _]. unfold fDs, fD in Hd. destruct (f_pc (f_thr s u)); simpl in Hp; discriminate.
Qed.

Lemma f_enabled_any s u c : fstep s u 0 <> None -> fstep s u c <> None.
Proof.
  unfold fstep. destruct (Nat.leb (f_n s) u); [auto|]. cbv zeta.
  destruct (f_pc (f_thr s u)); auto;
    repeat match goal with |- context [match ?e with _ => _ end] => destruct e end; auto; discriminate.
Qed.

Lemma f_enabled_lt s u : fstep s u 0 <> None -> (u < f_n s)%nat.
Proof.
  unfold fstep. destruct (Nat.leb (f_n s) u) eqn:E; [congruence|]. intros _. now apply Nat.leb_gt.
Qed.

Section Prod.
Variable k : Z.
Hypothesis Hk : 2 <= k.
Local Notation cap := (2 ^ k).

Lemma cap_ge4 : 4 <= cap.
Proof. replace 4 with (2 ^ 2) by reflexivity. apply Z.pow_le_mono_r; lia. Qed.

(* the code's emptiness / fullness tests in terms of the counters *)
Lemma f_empty_iff s : FData k s ->
  (f_wcur s =? ridx (f_rcur s + 1) (f_cap s)) = true <-> f_W s = f_R s.
Proof.
  intros [Hcap _ _ _ _ [Hcw Hcr] [Hb1 Hb2] _ _ _ _].
  pose proof cap_ge4 as Hc4.
  assert (Hrp : ridx (f_rcur s + 1) (f_cap s) = f_R s mod cap).
  { rewrite Hcap. rewrite ridx_mod by lia. rewrite Hcr, mod_succ by lia. f_equal. lia. }
  rewrite Hrp, Hcw, Z.eqb_eq. split.
  - intros H. apply (mod_inj cap); [lia|lia|exact H].
  - intros ->. reflexivity.
Qed.

Lemma f_full_iff s : FData k s ->
  (ridx (f_wcur s + 1) (f_cap s) =? f_rcur s) = true <-> f_W s - f_R s = cap - 2.
Proof.
  intros [Hcap _ _ _ _ [Hcw Hcr] [Hb1 Hb2] _ _ _ _].
  pose proof cap_ge4 as Hc4.
  assert (Hwp : ridx (f_wcur s + 1) (f_cap s) = (f_W s + 1) mod cap).
  { rewrite Hcap. rewrite ridx_mod by lia. rewrite Hcw, mod_succ by lia. reflexivity. }
  rewrite Hwp, Hcr, Z.eqb_eq. rewrite <- (mod_shift cap (f_R s - 1)) by lia. split.
  - intros H. assert (f_R s - 1 + cap = f_W s + 1); [|lia].
    apply (mod_inj cap); [lia|lia|symmetry; exact H].
  - intros H. f_equal. lia.
Qed.

Lemma f_exists_productive s : FInv s -> FData k s -> FAcc s ->
  ~ (forall t, (t < f_n s)%nat -> f_done s t) -> exists u, f_productive s u.
Proof.
  intros FI FD FA Hnd.
  pose proof FI as [Hrole Hwl Hown Hwait Hsleep]. pose proof FA as [Hk0 Hsum].
  pose proof cap_ge4 as Hc4.
  pose proof FD as [Hcap _ _ _ _ _ [Hb1 Hb2] _ _ _ _].
  (* 1. a writer between its store and its wake *)
  destruct (bounded_dec (fun u => f_pending (f_pc (f_thr s u))) (f_n s)) as [(u & Hu & Hp)|Hnp].
  { exists u. split; [apply f_pending_enabled; assumption|apply f_nospin_pending; assumption]. }
  (* 2. a thread about to exit *)
  destruct (bounded_dec (fun u => match f_pc (f_thr s u) with FFin => true | _ => false end) (f_n s))
    as [(u & Hu & Hp)|Hnf].
  { exists u. destruct (f_pc (f_thr s u)) eqn:E; try discriminate. split.
    - unfold fstep. apply Nat.leb_gt in Hu. rewrite Hu, E. discriminate.
    - intros [Hd _]. unfold fDs, fD in Hd. rewrite E in Hd. discriminate. }
  (* a sleeping reader on a non-empty channel would have a pending writer *)
  assert (Hblk : forall u, (u < f_n s)%nat -> f_pc (f_thr s u) = FRBlocked ->
                 (f_wcur s =? ridx (f_rcur s + 1) (f_cap s)) = false -> False).
  { intros u Hu E Eem. apply Z.eqb_neq in Eem.
    assert (Hr : f_reg (f_thr s u) = ridx (f_rcur s + 1) (f_cap s)) by (apply Hwait; rewrite E; reflexivity).
    destruct (Hsleep u E) as (v & Hv & Hp); [congruence|].
    specialize (Hnp v Hv). simpl in Hnp. congruence. }
  (* a reader with a non-empty channel is productive *)
  assert (Hrd : forall u, (u < f_n s)%nat -> f_is_reader (f_pc (f_thr s u)) = true ->
                (f_wcur s =? ridx (f_rcur s + 1) (f_cap s)) = false -> f_productive s u).
  { intros u Hu Hr Eem. split; [|apply f_nospin_reader; assumption].
    destruct (f_wm s) as [o|] eqn:Ewm.
    - unfold fstep. pose proof Hu as Hu'. apply Nat.leb_gt in Hu'. rewrite Hu'. cbv zeta.
      destruct (f_pc (f_thr s u)) eqn:E; simpl in Hr; try discriminate;
        try (repeat match goal with |- context [match ?e with _ => _ end] => destruct e end; discriminate).
      exfalso. eapply Hblk; eauto.
    - apply f_enabled_unless; auto; intros E; [eapply Hblk; eauto|rewrite E in Hr; discriminate]. }
  destruct (ridx (f_wcur s + 1) (f_cap s) =? f_rcur s) eqn:Efu.
  - (* the channel is full: it is not empty, and by the accounting some reader still wants messages *)
    apply (f_full_iff s FD) in Efu.
    assert (Eem : (f_wcur s =? ridx (f_rcur s + 1) (f_cap s)) = false).
    { destruct (f_wcur s =? ridx (f_rcur s + 1) (f_cap s)) eqn:E; [|reflexivity].
      apply (f_empty_iff s FD) in E. lia. }
    destruct (tsum_pos_inv f_rr (f_thr s) (f_n s)) as (u & Hu & Hp); [lia|].
    exists u. apply Hrd; [exact Hu| |exact Eem].
    unfold f_rr in Hp. destruct (f_pc (f_thr s u)); try reflexivity; lia.
  - (* not full: any writer that is not finished can get on *)
    destruct (bounded_dec (fun u => f_is_writer (f_pc (f_thr s u))) (f_n s)) as [(u & Hu & Hw)|Hnw].
    + destruct (f_wm s) as [o|] eqn:Ewm.
      * destruct (Hown o eq_refl) as (_ & Ho & Hin). exists o. split; [apply f_inlock_enabled; assumption|].
        apply f_nospin_writer; [exact Efu|]. destruct (f_pc (f_thr s o)); simpl in *; congruence.
      * exists u. split; [|apply f_nospin_writer; assumption].
        apply f_enabled_unless; auto; intros E; rewrite E in Hw; discriminate.
    + (* no writer left: only readers and finished threads *)
      assert (Hcls : forall u, (u < f_n s)%nat -> f_is_reader (f_pc (f_thr s u)) = true \/ f_done s u).
      { intros u Hu. specialize (Hnw u Hu). specialize (Hnf u Hu). unfold f_done.
        destruct (f_pc (f_thr s u)); simpl in *; try discriminate; auto. }
      destruct (bounded_dec (fun u => f_is_reader (f_pc (f_thr s u))) (f_n s)) as [(u & Hu & Hr)|Hnr].
      2:{ exfalso. apply Hnd. intros t Ht. destruct (Hcls t Ht) as [E|E]; [|exact E].
          rewrite Hnr in E by exact Ht. discriminate. }
      destruct (f_wcur s =? ridx (f_rcur s + 1) (f_cap s)) eqn:Eem.
      * (* empty and every writer finished: by the accounting the reader wants nothing more *)
        apply (f_empty_iff s FD) in Eem.
        assert (Zw : tsum f_ww (f_thr s) (f_n s) = 0%nat).
        { apply tsum_zero. intros v Hv. unfold f_ww. specialize (Hnw v Hv).
          destruct (f_pc (f_thr s v)); simpl in Hnw; try discriminate; reflexivity. }
        assert (Zr : tsum f_rr (f_thr s) (f_n s) = 0%nat) by lia.
        pose proof (tsum_ge f_rr (f_thr s) (f_n s) u Hu) as G. rewrite Zr in G.
        assert (Ek : f_k (f_thr s u) = 0%nat).
        { unfold f_rr in G. destruct (f_pc (f_thr s u)); simpl in Hr; try discriminate; lia. }
        assert (Epc : f_pc (f_thr s u) = FRSeg).
        { pose proof (Hk0 u) as K. destruct (f_pc (f_thr s u)); simpl in Hr; try discriminate; try reflexivity;
            specialize (K eq_refl); lia. }
        exists u. split.
        -- unfold fstep. pose proof Hu as Hu'. apply Nat.leb_gt in Hu'. rewrite Hu', Epc. discriminate.
        -- intros [Hd _]. unfold fDs, fD in Hd. rewrite Epc, Ek in Hd. discriminate.
      * exists u. apply Hrd; first [assumption|reflexivity].
Qed.
End Prod.

(* ------------------------------------------------------------------ *)
(* the theorem *)

Lemma f_done_step s t c s' l u : fstep s t c = Some (s', l) -> f_done s u -> f_done s' u.
Proof.
  unfold f_done. intros Hs Hd. unfold fstep in Hs.
  destruct (Nat.leb (f_n s) t); [discriminate|]. cbv zeta in Hs.
  destruct (Nat.eq_dec u t) as [->|Hne]; [rewrite Hd in Hs; discriminate|].
  destruct (f_pc (f_thr s t)) eqn:Epc; step_cases Hs; try discriminate; inv_some Hs;
    cbn [f_thr fset]; rewrite ?upd_other by exact Hne; try exact Hd.
  (* the wake-up: the woken thread was asleep, not finished *)
  destruct (first_such_some _ _ _ Heqo) as [_ Hb]. apply f_blocked_pc in Hb.
  unfold upd. destruct (Nat.eqb_spec u n); [subst; congruence|exact Hd].
Qed.

Section Thm.
Variable k : Z.
Hypothesis Hk : 2 <= k.
Variable n : nat.

Definition FGoodN (s : fsys) : Prop := FGood k s /\ f_n s = n.
Definition f_all_done (s : fsys) : Prop := forall t, (t < n)%nat -> f_done s t.

Lemma fgoodn_step s t c s' l : FGoodN s -> fstep s t c = Some (s', l) -> FGoodN s'.
Proof.
  intros [G N] Hs. assert (H1 : 1 <= k) by lia. split; [apply (fgood_step k H1 s t c s' l G Hs)|]. rewrite <- N. eapply f_n_step; eauto.
Qed.

Theorem chan_futex_fair_core rounds s :
  FGoodN s -> Forall (fair_round n) rounds -> (fM s < length rounds)%nat ->
  f_all_done (exec fsys fstep s (concat rounds)).
Proof.
  apply (fair_goal fsys fstep n FGoodN fM f_spinning).
  - exact fgoodn_step.
  - intros s0 u [_ N] H. rewrite <- N. now apply f_enabled_lt.
  - intros s0 u c _ H. now apply f_enabled_any.
  - intros s0 t c s' l [G _] Hs. apply (f_step_measure k s0 t c s' l G Hs).
  - intros s0. unfold f_all_done.
    destruct (bounded_dec (fun t => match f_pc (f_thr s0 t) with FDone => false | _ => true end) n) as [(t & Ht & Hp)|Hall].
    + right. intros H. specialize (H t Ht). unfold f_done in H. rewrite H in Hp. discriminate.
    + left. intros t Ht. specialize (Hall t Ht). unfold f_done. destruct (f_pc (f_thr s0 t)); try discriminate; reflexivity.
  - intros s0 t c s' l _ Hg Hs u Hu. eapply f_done_step; eauto.
  - intros s0 [(FI & FD & FA) N] Hng. unfold f_all_done in Hng. rewrite <- N in Hng. now apply (f_exists_productive k Hk).
Qed.
End Thm.

(* FAIR TERMINATION, channel with a futex-waiting reader.  Capacity 2^k >= 4, one reader (tid 0),
   any number of writers (one if the channel is WRITE_SINGLE), balanced scripts (the reader asks
   for exactly as many messages as the writers write), any reachable state [pre], and then ANY
   fair continuation -- rounds scheduling every thread at least once, in any order, any number of
   times, with ANY schedule choices: futex waits interrupted (EINTR) or returning spuriously as
   often as the schedule likes, writers bouncing off a full channel and retrying -- of more than
   [fM] rounds: every thread has finished; nobody is left asleep. *)
Theorem chan_futex_no_lost_wakeup_fair_all k n wl nreads wk pre rounds :
  2 <= k -> (wl = true \/ (n <= 2)%nat) ->
  tsum f_rr (f_thr (finit n (2 ^ k) wl nreads wk)) n = tsum f_ww (f_thr (finit n (2 ^ k) wl nreads wk)) n ->
  let s := exec fsys fstep (finit n (2 ^ k) wl nreads wk) pre in
  Forall (fair_round n) rounds -> (fM s < length rounds)%nat ->
  forall t, (t < n)%nat -> f_done (exec fsys fstep (finit n (2 ^ k) wl nreads wk) (pre ++ concat rounds)) t.
Proof.
  intros Hk Hm Hbal s Hf Hlt. rewrite exec_app. apply (chan_futex_fair_core k Hk n); auto.
  assert (H : forall s0, FGoodN k n s0 -> FGoodN k n (exec fsys fstep s0 pre)).
  { apply (inv_exec fsys fstep (FGoodN k n)). intros; eapply fgoodn_step; eauto. }
  apply H. split; [|reflexivity]. split; [apply finit_inv|]. split; [apply finit_data; [lia|exact Hm]|now apply finit_acc].
Qed.

(* non-vacuity: two writers (write mutex), capacity 4, three messages; round-robin rounds are
   fair; the reader really goes to sleep in the futex (rounds 4..9) and is really woken (round 10); after 600
   rounds (more than the measure of the initial state) everybody has finished *)
Definition f_fair_demo : fsys := finit 3 (2 ^ 2) true 3 (fun w => match w with O => 2%nat | _ => 1%nat end).
Example chan_futex_fair_example :
  let rr := [(0,0);(1,0);(2,0)]%nat in
  fair_round 3 rr /\
  tsum f_rr (f_thr f_fair_demo) 3 = tsum f_ww (f_thr f_fair_demo) 3 /\
  (fM f_fair_demo < 600)%nat /\
  f_pc (f_thr (exec fsys fstep f_fair_demo (concat (repeat rr 4))) 0%nat) = FRBlocked /\
  f_pc (f_thr (exec fsys fstep f_fair_demo (concat (repeat rr 9))) 0%nat) = FRBlocked /\
  f_pc (f_thr (exec fsys fstep f_fair_demo (concat (repeat rr 10))) 0%nat) = FRSeg /\
  (forall t, (t < 3)%nat -> f_done (exec fsys fstep f_fair_demo (concat (repeat rr 600))) t).
Proof.
  split; [intros t Ht; destruct t as [|[|[|t]]]; simpl; auto; lia|].
  split; [vm_compute; reflexivity|].
  split; [vm_compute; lia|].
  split; [vm_compute; reflexivity|].
  split; [vm_compute; reflexivity|].
  split; [vm_compute; reflexivity|].
  intros t Ht. destruct t as [|[|[|t]]]; [vm_compute; reflexivity..|lia].
Qed.
