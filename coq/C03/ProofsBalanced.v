(* C03 — balanced scripts finish: if the scripts ask for as many takes as puts (array blocking
   queue) resp. the reader asks for exactly the items that will be written (double buffer), the
   "somebody finished early" end states of abq_no_deadlock / dbuf_no_deadlock are unreachable:
   in every reachable state some thread can take a step or EVERY thread has finished.
   Accounting invariant: count + (puts still to be enqueued) = (takes still to be dequeued). *)
From MV Require Import C03.Model C03.ProofsCommon C03.ProofsAbq C03.ProofsDbuf.
Local Open Scope Z_scope.

Ltac step_cases Hs :=
  repeat match type of Hs with
  | context [match ?e with _ => _ end] => destruct e eqn:?
  end.

(* ================================================================== *)
(* array blocking queue                                                *)

(* puts this producer still has to enqueue (the one in flight is no longer counted once the
   count has been incremented) *)
Definition q_pw (x : qthread) : nat :=
  match q_pc x with
  | QPSeg | QPLock | QPChk | QPWait | QPAsleep | QPWoken => q_k x
  | QPSig | QPSeg2 | QPUnlock => pred (q_k x)
  | _ => 0%nat
  end.
Definition q_cw (x : qthread) : nat :=
  match q_pc x with
  | QCSeg | QCLock | QCChk | QCWait | QCAsleep | QCWoken => q_k x
  | QCSig | QCSeg2 | QCUnlock => pred (q_k x)
  | _ => 0%nat
  end.
Definition q_active (p : qpc) : bool :=
  match p with QPSeg | QCSeg | QFin | QDone => false | _ => true end.

Record QBal (s : qsys) : Prop := {
  qb_k : forall t, q_active (q_pc (q_thr s t)) = true -> (0 < q_k (q_thr s t))%nat;
  qb_sum : q_cnt s + Z.of_nat (tsum q_pw (q_thr s) (q_n s)) = Z.of_nat (tsum q_cw (q_thr s) (q_n s));
}.

Ltac q_sums s t Hlt :=
  match goal with
  | |- context [upd (upd (q_thr s) ?u ?xu) t ?xt] =>
    match goal with
    | Hul : (u < q_n s)%nat, Hne : u <> t |- _ =>
      pose proof (tsum_upd2 q_pw (q_thr s) u xu t xt (q_n s) Hul Hlt Hne);
      pose proof (tsum_upd2 q_cw (q_thr s) u xu t xt (q_n s) Hul Hlt Hne)
    end
  | |- context [upd (q_thr s) t ?x] =>
    pose proof (tsum_upd q_pw (q_thr s) t x (q_n s) Hlt);
    pose proof (tsum_upd q_cw (q_thr s) t x (q_n s) Hlt)
  end.

Lemma qstep_bal s t ch s' l : QBal s -> qstep s t ch = Some (s', l) -> QBal s'.
Proof.
  intros [Hk Hsum] Hs. unfold qstep in Hs.
  destruct (Nat.leb (q_n s) t) eqn:Hlt; [discriminate|]. apply Nat.leb_gt in Hlt.
  cbv zeta in Hs.
  pose proof (Hk t) as Hkt.
  destruct (q_pc (q_thr s t)) eqn:Epc; step_cases Hs; try discriminate; inv_some Hs.
  all: try match goal with
       | E : pick_waiter (q_casleep _) _ _ = Some ?u |- _ =>
         let H0 := fresh "Hul" in let H1 := fresh "Hwk" in
         destruct (pick_waiter_some _ _ _ _ E) as [H0 H1]; apply q_casleep_pc in H1;
         assert (u <> t) by (intros ->; congruence)
       | E : pick_waiter (q_pasleep _) _ _ = Some ?u |- _ =>
         let H0 := fresh "Hul" in let H1 := fresh "Hwk" in
         destruct (pick_waiter_some _ _ _ _ E) as [H0 H1]; apply q_pasleep_pc in H1;
         assert (u <> t) by (intros ->; congruence)
       end.
  all: constructor.
  (* qb_k *)
  all: try (intros a Ha; upd_all; try discriminate; try (apply Hk; assumption);
            try (simpl in Hkt; specialize (Hkt eq_refl); lia);
            try (match goal with E : q_k _ = S _ |- _ => rewrite E; lia end);
            try (match goal with E : q_pc (q_thr _ ?x) = _ |- _ =>
                   let X := fresh in pose proof (Hk x) as X; rewrite E in X; specialize (X eq_refl); assumption end);
            fail).
  (* qb_sum *)
  all: try (unfold qset, qset_m, qset_cnt, qpcset in *;
            cbn [q_thr q_n q_cap q_cnt q_m q_nc] in *;
            q_sums s t Hlt;
            unfold q_pw, q_cw in *; cbn [q_pc q_k] in *;
            repeat match goal with E : q_pc (q_thr _ _) = _ |- _ => rewrite E in * end;
            cbn [q_active] in *;
            repeat match goal with H : true = true -> _ |- _ => specialize (H eq_refl) end;
            repeat match goal with E : q_k _ = _ |- _ => rewrite E in * end;
            cbn [pred] in *; lia).
Qed.

Lemma qinit_bal n nc cap ks :
  tsum q_pw (q_thr (qinit n nc cap ks)) n = tsum q_cw (q_thr (qinit n nc cap ks)) n ->
  QBal (qinit n nc cap ks).
Proof.
  intros H. constructor; simpl.
  - intros t. destruct (Nat.ltb t nc); discriminate.
  - simpl in H. rewrite H. lia.
Qed.

Theorem q_reachable_bal n nc cap ks sched :
  tsum q_pw (q_thr (qinit n nc cap ks)) n = tsum q_cw (q_thr (qinit n nc cap ks)) n ->
  QBal (exec qsys qstep (qinit n nc cap ks) sched).
Proof. intros H. apply inv_exec; [|now apply qinit_bal]. intros; eapply qstep_bal; eauto. Qed.

(* Balanced scripts (total puts = total takes): no blocked end state at all. *)
Theorem abq_balanced_no_deadlock_all n nc cap ks sched : 1 <= cap ->
  tsum q_pw (q_thr (qinit n nc cap ks)) n = tsum q_cw (q_thr (qinit n nc cap ks)) n ->
  let s := exec qsys qstep (qinit n nc cap ks) sched in
  (exists t, (t < n)%nat /\ q_enabled s t) \/ (forall t, (t < n)%nat -> q_done s t).
Proof.
  intros Hc Hb s.
  destruct (q_reachable_bal n nc cap ks sched Hb) as [Hk Hsum]. fold s in Hk, Hsum.
  destruct (q_cap_exec sched (qinit n nc cap ks)) as [En Ec]. fold s in En, Ec. simpl in En, Ec.
  rewrite En in Hsum.
  destruct (abq_no_deadlock_all n nc cap ks sched Hc) as [H|[H|[[H0 H]|[H0 H]]]]; fold s in H; try fold s in H0.
  - left. exact H.
  - right. exact H.
  - (* consumers asleep on the empty queue, producers finished: then no take is outstanding *)
    right. assert (Zp : tsum q_pw (q_thr s) n = 0%nat).
    { apply tsum_zero. intros u Hu. unfold q_pw. destruct (H u Hu) as [E|E]; [|unfold q_done in E]; rewrite E; reflexivity. }
    rewrite Zp, H0 in Hsum.
    intros t Ht. destruct (H t Ht) as [E|E]; [exfalso|exact E].
    pose proof (tsum_ge q_cw (q_thr s) n t Ht) as G. unfold q_cw at 1 in G. rewrite E in G.
    pose proof (Hk t) as K. rewrite E in K. specialize (K eq_refl). lia.
  - (* producers asleep on the full queue, consumers finished: impossible, capacity >= 1 *)
    exfalso. assert (Zc : tsum q_cw (q_thr s) n = 0%nat).
    { apply tsum_zero. intros u Hu. unfold q_cw. destruct (H u Hu) as [E|E]; [|unfold q_done in E]; rewrite E; reflexivity. }
    rewrite Zc, H0 in Hsum. lia.
Qed.


(* ================================================================== *)
(* double buffer                                                       *)

Definition d_ww (x : dthread) : nat :=
  match d_pc x with
  | DWSeg | DWLock | DWChk | DWWait | DWAsleep | DWWoken | DWUnlockF | DWSegF | DWYield => d_k x
  | DWSig | DWSeg2 | DWUnlock => pred (d_k x)
  | _ => 0%nat
  end.
(* items the reader still needs (the buffer just obtained is no longer counted) *)
Definition d_rw (x : dthread) : nat :=
  match d_pc x with
  | DRSeg | DRLock | DRChk | DRWait | DRAsleep | DRWoken => d_k x
  | DRSig | DRSeg2 | DRUnlock => (d_k x - Z.to_nat (d_last x))%nat
  | _ => 0%nat
  end.
Definition d_active (p : dpc) : bool :=
  match p with DRSeg | DWSeg | DFin | DDone => false | _ => true end.

Record DBal (s : dsys) : Prop := {
  db_k : forall t, d_active (d_pc (d_thr s t)) = true -> (0 < d_k (d_thr s t))%nat;
  db_sum : d_back s + Z.of_nat (tsum d_ww (d_thr s) (d_n s)) = Z.of_nat (tsum d_rw (d_thr s) (d_n s));
}.

Ltac d_sums s t Hlt :=
  match goal with
  | |- context [upd (upd (d_thr s) ?u ?xu) t ?xt] =>
    match goal with
    | Hul : (u < d_n s)%nat, Hne : u <> t |- _ =>
      pose proof (tsum_upd2 d_ww (d_thr s) u xu t xt (d_n s) Hul Hlt Hne);
      pose proof (tsum_upd2 d_rw (d_thr s) u xu t xt (d_n s) Hul Hlt Hne)
    end
  | |- context [upd (d_thr s) t ?x] =>
    pose proof (tsum_upd d_ww (d_thr s) t x (d_n s) Hlt);
    pose proof (tsum_upd d_rw (d_thr s) t x (d_n s) Hlt)
  end.

Lemma dstep_bal s t ch s' l : DInv s -> DBal s -> dstep s t ch = Some (s', l) -> DBal s'.
Proof.
  intros [Hcap Hrole Hexcl Hown Hback Hnf Hne] [Hk Hsum] Hs. unfold dstep in Hs.
  destruct (Nat.leb (d_n s) t) eqn:Hlt; [discriminate|]. apply Nat.leb_gt in Hlt.
  cbv zeta in Hs.
  pose proof (Hk t) as Hkt.
  (* the only reader: every other thread's reader weight is 0 *)
  assert (Hsingle : d_is_reader (d_pc (d_thr s t)) = true ->
                    tsum d_rw (d_thr s) (d_n s) = d_rw (d_thr s t)).
  { intros Hr. apply tsum_single; [assumption|]. intros u Hu Hn. unfold d_rw.
    destruct (d_pc (d_thr s u)) eqn:Eu; try reflexivity; exfalso; apply Hn;
      rewrite (Hrole u), (Hrole t); try reflexivity; try assumption; rewrite Eu; reflexivity. }
  destruct (d_pc (d_thr s t)) eqn:Epc; step_cases Hs; try discriminate; inv_some Hs.
  all: try match goal with
       | E : pick_waiter (d_wasleep _) _ _ = Some ?u |- _ =>
         let H0 := fresh "Hul" in let H1 := fresh "Hwk" in
         destruct (pick_waiter_some _ _ _ _ E) as [H0 H1]; apply d_wasleep_pc in H1;
         assert (u <> t) by (intros ->; congruence)
       | E : pick_waiter (d_rasleep _) _ _ = Some ?u |- _ =>
         let H0 := fresh "Hul" in let H1 := fresh "Hwk" in
         destruct (pick_waiter_some _ _ _ _ E) as [H0 H1]; apply d_rasleep_pc in H1;
         assert (u <> t) by (intros ->; congruence)
       end.
  all: constructor.
  all: try (intros a Ha; upd_all; try discriminate; try (apply Hk; assumption);
            try (simpl in Hkt; specialize (Hkt eq_refl); lia);
            try (match goal with E : d_k _ = S _ |- _ => rewrite E; lia end);
            try (match goal with E : d_pc (d_thr _ ?x) = _ |- _ =>
                   let X := fresh in pose proof (Hk x) as X; rewrite E in X; specialize (X eq_refl); assumption end);
            fail).
  all: try (unfold dset, dset_m, dset_back, dpcset in *;
            cbn [d_thr d_n d_cap d_back d_m] in *;
            d_sums s t Hlt;
            try (specialize (Hsingle eq_refl));
            unfold d_ww, d_rw in *; cbn [d_pc d_k d_last] in *;
            repeat match goal with E : d_pc (d_thr _ _) = _ |- _ => rewrite E in * end;
            cbn [d_active] in *;
            repeat match goal with H : true = true -> _ |- _ => specialize (H eq_refl) end;
            repeat match goal with E : d_k _ = _ |- _ => rewrite E in * end;
            repeat match goal with H : Z.eqb _ _ = false |- _ => apply Z.eqb_neq in H end;
            cbn [pred] in *; lia).
Qed.

Lemma dinit_bal n cap nb need wk :
  tsum d_ww (d_thr (dinit n cap nb need wk)) n = tsum d_rw (d_thr (dinit n cap nb need wk)) n ->
  DBal (dinit n cap nb need wk).
Proof.
  intros H. constructor; simpl.
  - intros [|t]; simpl; discriminate.
  - simpl in H. rewrite H. lia.
Qed.

Theorem d_reachable_bal n cap nb need wk sched : 1 <= cap ->
  tsum d_ww (d_thr (dinit n cap nb need wk)) n = tsum d_rw (d_thr (dinit n cap nb need wk)) n ->
  DInv (exec dsys dstep (dinit n cap nb need wk) sched) /\ DBal (exec dsys dstep (dinit n cap nb need wk) sched).
Proof.
  intros Hc H. apply (inv_exec dsys dstep (fun s => DInv s /\ DBal s)).
  - intros s t c s' l [Hi Hb] Hs. split; [eapply dstep_inv; eauto|eapply dstep_bal; eauto].
  - split; [now apply dinit_inv|now apply dinit_bal].
Qed.

(* Balanced usage (the reader asks for exactly the items that will be written): no blocked end
   state at all -- in particular no writer is left asleep behind a notify_one. *)
Theorem dbuf_balanced_no_deadlock_all n cap nb need wk sched : 1 <= cap ->
  tsum d_ww (d_thr (dinit n cap nb need wk)) n = tsum d_rw (d_thr (dinit n cap nb need wk)) n ->
  let s := exec dsys dstep (dinit n cap nb need wk) sched in
  (exists t, (t < n)%nat /\ d_enabled s t) \/ (forall t, (t < n)%nat -> d_done s t).
Proof.
  intros Hc Hb s.
  destruct (d_reachable_bal n cap nb need wk sched Hc Hb) as [_ [Hk Hsum]]. fold s in Hk, Hsum.
  destruct (d_const_exec sched (dinit n cap nb need wk)) as [En _]. fold s in En. simpl in En.
  rewrite En in Hsum.
  destruct (dbuf_no_deadlock_all n cap nb need wk sched Hc) as [H|[H|[[H0 H]|[H0 H]]]]; fold s in H; try fold s in H0.
  - left. exact H.
  - right. exact H.
  - right. assert (Zw : tsum d_ww (d_thr s) n = 0%nat).
    { apply tsum_zero. intros u Hu. unfold d_ww. destruct (H u Hu) as [E|E]; [|unfold d_done in E]; rewrite E; reflexivity. }
    rewrite Zw, H0 in Hsum.
    intros t Ht. destruct (H t Ht) as [E|E]; [exfalso|exact E].
    pose proof (tsum_ge d_rw (d_thr s) n t Ht) as G. unfold d_rw at 1 in G. rewrite E in G.
    pose proof (Hk t) as K. rewrite E in K. specialize (K eq_refl). lia.
  - exfalso. assert (Zr : tsum d_rw (d_thr s) n = 0%nat).
    { apply tsum_zero. intros u Hu. unfold d_rw. destruct (H u Hu) as [E|E]; [|unfold d_done in E]; rewrite E; reflexivity. }
    rewrite Zr in Hsum. pose proof (Nat2Z.is_nonneg (tsum d_ww (d_thr s) n)). lia.
Qed.

(* non-vacuity of the hypotheses: concrete balanced instances *)
Example abq_balanced_instance :
  let ks := fun t => match t with 0%nat => 2%nat | 1%nat => 1%nat | 2%nat => 1%nat | _ => 2%nat end in
  tsum q_pw (q_thr (qinit 4 2 1 ks)) 4 = tsum q_cw (q_thr (qinit 4 2 1 ks)) 4.
Proof. vm_compute. reflexivity. Qed.
Example dbuf_balanced_instance : forall nb,
  tsum d_ww (d_thr (dinit 4 2 nb 4 (fun w => match w with 0%nat => 2%nat | _ => 1%nat end))) 4
  = tsum d_rw (d_thr (dinit 4 2 nb 4 (fun w => match w with 0%nat => 2%nat | _ => 1%nat end))) 4.
Proof. vm_compute. reflexivity. Qed.
