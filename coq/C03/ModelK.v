(* C03 (g) — channel.c, every writer-lock kind x every reader mode in ONE model:
     writer lock  MUGGLE_CHANNEL_FLAG_WRITE_SINGLE (none), _MUTEX (write_mutex), _SPIN (spinlock.c:
                  test-and-set / sched_yield loop; unlock = clear), _SYNC (synclock.c: weak
                  compare-exchange / futex-wait loop; unlock = store UNLOCK + wake_one)
     reader mode  MUGGLE_CHANNEL_FLAG_READ_SYNC (futex on write_cursor), _MUTEX (read_mutex + read_cv),
                  _BUSY (busy loop on write_cursor, no sleep / wake protocol at all)
   Models (a) / (b) of Model.v (WRITE_MUTEX / WRITE_SINGLE x READ_SYNC / READ_MUTEX) carry the fair-
   schedule theorems; this one puts every path of muggle_channel_write -- in particular the
   MUGGLE_ERR_FULL return -- and the busy (spin-based) reader inside the no-deadlock theorems under
   every combination.

     muggle_channel_write:  fn_lock; ret = fn_write; fn_unlock; if (ret == 0) fn_wake; return ret
     fn_lock  (spin):  while (!test_and_set(&write_spinlock, acq)) sched_yield();
     fn_lock  (sync):  expected = 0; while (!cmp_exch_weak(&write_synclock, &expected, 1, acq)) {
                         if (expected != 0) muggle_sync_wait(&write_synclock, expected); expected = 0; }
     fn_lock  (mutex): muggle_mutex_lock(write_mutex);          fn_lock (single): nothing
     fn_unlock: clear(rel) | store(0, rel); muggle_sync_wake_one | muggle_mutex_unlock | nothing
     fn_write (READ_SYNC):  rpos = load(read_cursor, rlx); wpos = IDX(write_cursor+1);
                            if (wpos == rpos) return FULL; slot = data; store(write_cursor, wpos, rel)
     fn_write (READ_MUTEX): lock(read_mutex); wpos = IDX(write_cursor+1);
                            if (wpos == read_cursor) { unlock(read_mutex); return FULL }
                            slot = data; write_cursor = wpos; unlock(read_mutex)
     fn_write (READ_BUSY):  wpos = IDX(write_cursor+1);
                            if (wpos != cached_r_cur) { slot = data; store(write_cursor, wpos, rel); return OK }
                            cached_r_cur = load(read_cursor, rlx);
                            if (wpos != cached_r_cur) { ... store ...; return OK } else return FULL
     fn_wake:  READ_SYNC muggle_sync_wake_one(&write_cursor);  READ_MUTEX notify_one(read_cv);  READ_BUSY nothing
     readers:  READ_SYNC / READ_MUTEX as in Model.v (a) / (b);
               READ_BUSY: rpos = IDX(read_cursor+1); loop { wpos = load(write_cursor, acq);
                          if (wpos != rpos) { ...; store(read_cursor, rpos, rel); return } }
   The client (driver) retries a refused write after noting "full" and a sched_yield.  Same granularity
   as Model.v: one step per operation / plain segment (a plain segment runs from one operation to the
   next, so where a lock kind or reader mode has no operation the neighbouring segments are one
   step: [k_in], [k_seg], [k_out], [k_ret] below).  The register [k_ok] is the C variable `ret`
   (true = MUGGLE_OK).  Definitions only. *)
From MV Require Export C03.Model.
Local Open Scope Z_scope.

Definition kc_wcur : nat := 0%nat.
Definition kc_rcur : nat := 1%nat.
Definition kc_wl : nat := 2%nat.      (* write_mutex / write_spinlock / write_synclock *)
Definition kc_rm : nat := 3%nat.
Definition kc_rcv : nat := 4%nat.

Inductive klk := KLSingle | KLMutex | KLSpin | KLSync.
Inductive krm := KRSync | KRMutex | KRBusy.

Inductive kpc :=
  (* reader, READ_SYNC / READ_BUSY (KRWait, KRBlocked: READ_SYNC only) *)
  | KRSeg | KRLoad | KRChk | KRStore | KRWait | KRBlocked
  (* reader, READ_MUTEX (starts at KRSeg too) *)
  | KMLock | KMChk | KMUnlock | KMWait | KMAsleep | KMWoken
  (* writer: client segment, fn_lock *)
  | KWSeg | KWAcq | KWFail | KWYield | KWLWait | KWLBlocked
  (* fn_write, READ_SYNC / READ_BUSY *)
  | KWIn | KWLoadR | KWChk | KWStore
  (* fn_write, READ_MUTEX *)
  | KWRmLock | KWRmChk | KWRmUnlock
  (* fn_write has returned (ret in k_ok); fn_unlock *)
  | KWRet | KWRel | KWRelSeg | KWLWake | KWOut
  (* fn_wake (ret == 0) / the client's yield after MUGGLE_ERR_FULL *)
  | KWWake | KWYieldF
  | KFin | KDone.

Record kthread := { k_pc : kpc; k_k : nat; k_reg : Z; k_ok : bool; k_pend : notes }.
Record ksys := {
  k_n : nat;                  (* tid 0 is the reader, 1 .. n-1 are writers *)
  k_cap : Z;
  k_rmode : krm;
  k_lk : klk;
  k_wcur : Z;
  k_rcur : Z;
  k_cached : Z;               (* cached_r_cur (READ_BUSY; written under the writer lock) *)
  k_lock : Z;                 (* the writer lock: 0 free, 1 held (mutex: ownership flag) *)
  k_rm : option nat;          (* owner of read_mutex (READ_MUTEX) *)
  k_thr : nat -> kthread;
}.

Definition kinit (n : nat) (cap : Z) (rm : krm) (lk : klk) (nreads : nat) (wk : nat -> nat) : ksys :=
  {| k_n := n; k_cap := cap; k_rmode := rm; k_lk := lk; k_wcur := 0; k_rcur := cap - 1; k_cached := cap - 1;
     k_lock := 0; k_rm := None;
     k_thr := fun t => match t with
                       | O => {| k_pc := KRSeg; k_k := nreads; k_reg := 0; k_ok := false; k_pend := [] |}
                       | S w => {| k_pc := KWSeg; k_k := wk w; k_reg := 0; k_ok := false; k_pend := [] |}
                       end |}.

Definition kset (s : ksys) (t : nat) (x : kthread) : ksys :=
  {| k_n := k_n s; k_cap := k_cap s; k_rmode := k_rmode s; k_lk := k_lk s; k_wcur := k_wcur s; k_rcur := k_rcur s;
     k_cached := k_cached s; k_lock := k_lock s; k_rm := k_rm s; k_thr := upd (k_thr s) t x |}.
Definition kset_lock (s : ksys) (v : Z) : ksys :=
  {| k_n := k_n s; k_cap := k_cap s; k_rmode := k_rmode s; k_lk := k_lk s; k_wcur := k_wcur s; k_rcur := k_rcur s;
     k_cached := k_cached s; k_lock := v; k_rm := k_rm s; k_thr := k_thr s |}.
Definition kset_rm (s : ksys) (o : option nat) : ksys :=
  {| k_n := k_n s; k_cap := k_cap s; k_rmode := k_rmode s; k_lk := k_lk s; k_wcur := k_wcur s; k_rcur := k_rcur s;
     k_cached := k_cached s; k_lock := k_lock s; k_rm := o; k_thr := k_thr s |}.
Definition kset_wcur (s : ksys) (v : Z) : ksys :=
  {| k_n := k_n s; k_cap := k_cap s; k_rmode := k_rmode s; k_lk := k_lk s; k_wcur := v; k_rcur := k_rcur s;
     k_cached := k_cached s; k_lock := k_lock s; k_rm := k_rm s; k_thr := k_thr s |}.
Definition kset_rcur (s : ksys) (v : Z) : ksys :=
  {| k_n := k_n s; k_cap := k_cap s; k_rmode := k_rmode s; k_lk := k_lk s; k_wcur := k_wcur s; k_rcur := v;
     k_cached := k_cached s; k_lock := k_lock s; k_rm := k_rm s; k_thr := k_thr s |}.
Definition kset_cached (s : ksys) (v : Z) : ksys :=
  {| k_n := k_n s; k_cap := k_cap s; k_rmode := k_rmode s; k_lk := k_lk s; k_wcur := k_wcur s; k_rcur := k_rcur s;
     k_cached := v; k_lock := k_lock s; k_rm := k_rm s; k_thr := k_thr s |}.
Definition kpcset (x : kthread) (p : kpc) : kthread :=
  {| k_pc := p; k_k := k_k x; k_reg := k_reg x; k_ok := k_ok x; k_pend := [] |}.
Definition kokset (x : kthread) (p : kpc) (ok : bool) : kthread :=
  {| k_pc := p; k_k := k_k x; k_reg := k_reg x; k_ok := ok; k_pend := [] |}.

Definition k_rblocked (s : ksys) (u : nat) : bool :=
  match k_pc (k_thr s u) with KRBlocked => true | _ => false end.
Definition k_lblocked (s : ksys) (u : nat) : bool :=
  match k_pc (k_thr s u) with KWLBlocked => true | _ => false end.
Definition k_masleep (s : ksys) (u : nat) : bool :=
  match k_pc (k_thr s u) with KMAsleep => true | _ => false end.

(* ---- plain-segment continuations (a segment ends at the next operation) ---- *)
(* entering fn_write: up to its first operation *)
Definition k_in (s : ksys) (x : kthread) : kthread :=
  match k_rmode s with
  | KRSync => kpcset x KWLoadR
  | KRMutex => kpcset x KWRmLock
  | KRBusy =>
    let wpos := ridx (k_wcur s + 1) (k_cap s) in
    if wpos =? k_cached s then kpcset x KWLoadR
    else {| k_pc := KWStore; k_k := k_k x; k_reg := wpos; k_ok := true; k_pend := [] |}
  end.
(* the client segment before a call: finished, or up to the first operation of muggle_channel_write *)
Definition k_seg (s : ksys) (x : kthread) : kthread :=
  match k_k x with
  | O => kpcset x KFin
  | S _ => match k_lk s with KLSingle => k_in s x | _ => kpcset x KWAcq end
  end.
(* after fn_unlock: if (ret == 0) fn_wake; return ret; the client notes the result *)
Definition k_out (s : ksys) (x : kthread) : kthread * notes :=
  if k_ok x then
    match k_rmode s with
    | KRBusy =>
      (* fn_wake does nothing: the call returns, the client notes "wrote" and goes on *)
      (k_seg s {| k_pc := k_pc x; k_k := pred (k_k x); k_reg := k_reg x; k_ok := k_ok x; k_pend := [] |},
       [(n_wrote, 0)])
    | _ => (kpcset x KWWake, [])
    end
  else (kpcset x KWYieldF, [(n_full, 0)]).
(* fn_write has returned: up to the unlock operation, or (no writer lock) straight on *)
Definition k_ret (s : ksys) (x : kthread) : kthread * notes :=
  match k_lk s with KLSingle => k_out s x | _ => (kpcset x KWRel, []) end.

Definition kstep (s : ksys) (t : nat) (ch : nat) : option (ksys * label) :=
  let x := k_thr s t in
  let go p := kset s t (kpcset x p) in
  if Nat.leb (k_n s) t then None else
  match k_pc x with
  (* ---------------- reader ---------------- *)
  | KRSeg =>
    Some (go (match k_k x with O => KFin | S _ => match k_rmode s with KRMutex => KMLock | _ => KRLoad end end),
          LPlain (k_pend x))
  | KRLoad =>
    Some (kset s t {| k_pc := KRChk; k_k := k_k x; k_reg := k_wcur s; k_ok := k_ok x; k_pend := [] |},
          ev OLoad kc_wcur Acq (k_wcur s) 0 0)
  | KRChk =>
    if k_reg x =? ridx (k_rcur s + 1) (k_cap s)
    then Some (go (match k_rmode s with KRBusy => KRLoad | _ => KRWait end), LPlain [])    (* busy: loop *)
    else Some (go KRStore, LPlain [])
  | KRStore =>
    let rpos := ridx (k_rcur s + 1) (k_cap s) in
    Some (kset (kset_rcur s rpos) t {| k_pc := KRSeg; k_k := pred (k_k x); k_reg := k_reg x; k_ok := k_ok x;
                                       k_pend := [(n_read, 0)] |},
          ev OStore kc_rcur Rel rpos 0 0)
  | KRWait =>
    let expected := k_reg x in
    if k_wcur s =? expected
    then
      if Nat.eqb ch 2 then Some (go KRSeg, ev OFwait kc_wcur MoNone expected (k_wcur s) 2)
      else if Nat.eqb ch 3 then Some (go KRSeg, ev OFwait kc_wcur MoNone expected (k_wcur s) 3)
      else Some (go KRBlocked, ev OFwait kc_wcur MoNone expected (k_wcur s) 1)
    else Some (go KRSeg, ev OFwait kc_wcur MoNone expected (k_wcur s) 0)
  | KRBlocked => None
  | KMLock =>
    match k_rm s with
    | Some _ => None
    | None => Some (kset (kset_rm s (Some t)) t (kpcset x KMChk), ev OMlock kc_rm MoNone 0 0 0)
    end
  | KMChk =>
    let rpos := ridx (k_rcur s + 1) (k_cap s) in
    if rpos =? k_wcur s then Some (go KMWait, LPlain [])
    else Some (kset (kset_rcur s rpos) t (kpcset x KMUnlock), LPlain [])
  | KMUnlock =>
    Some (kset (kset_rm s None) t {| k_pc := KRSeg; k_k := pred (k_k x); k_reg := k_reg x; k_ok := k_ok x;
                                     k_pend := [(n_read, 0)] |},
          ev OMunlock kc_rm MoNone 0 0 0)
  | KMWait => Some (kset (kset_rm s None) t (kpcset x KMAsleep), ev OCvwait kc_rcv MoNone 0 0 0)
  | KMAsleep => if Nat.eqb ch 1 then Some (go KMWoken, ev OCvwoke kc_rcv MoNone 1 0 0) else None
  | KMWoken =>
    match k_rm s with
    | Some _ => None
    | None => Some (kset (kset_rm s (Some t)) t (kpcset x KMChk), ev OCvwoke kc_rcv MoNone 0 0 0)
    end
  (* ---------------- writer ---------------- *)
  | KWSeg => Some (kset s t (k_seg s x), LPlain (k_pend x))
  (* fn_lock *)
  | KWAcq =>
    match k_lk s with
    | KLSync =>
      (* cmp_exch_weak(&lock, &expected = 0, 1, acq); log a = observed, b = desired, c = result *)
      if k_lock s =? 0 then
        if Nat.eqb ch 1 then
          (* spurious failure: expected keeps UNLOCK, no wait, the loop retries *)
          Some (go KWSeg, ev OCasW kc_wl Acq 0 1 2)
        else Some (kset (kset_lock s 1) t (kpcset x KWIn), ev OCasW kc_wl Acq 0 1 1)
      else Some (go KWFail, ev OCasW kc_wl Acq (k_lock s) 1 0)
    | KLSpin =>
      (* test_and_set(&lock, acq); log a = previous value *)
      let prev := k_lock s in
      Some (kset (kset_lock s 1) t (kpcset x (if prev =? 0 then KWIn else KWFail)), ev OTas kc_wl Acq prev 0 0)
    | _ =>
      (* muggle_mutex_lock(write_mutex): blocks while owned (WRITE_SINGLE never gets here) *)
      if k_lock s =? 0 then Some (kset (kset_lock s 1) t (kpcset x KWIn), ev OMlock kc_wl MoNone 0 0 0)
      else None
    end
  | KWFail => Some (go (match k_lk s with KLSync => KWLWait | _ => KWYield end), LPlain [])
  | KWYield => Some (go KWSeg, ev OYield 0%nat MoNone 0 0 0)
  | KWLWait =>
    (* muggle_sync_wait(&lock, expected = LOCK): compare-and-block; may return early (choices 2 / 3) *)
    if k_lock s =? 1 then
      if Nat.eqb ch 2 then Some (go KWSeg, ev OFwait kc_wl MoNone 1 1 2)
      else if Nat.eqb ch 3 then Some (go KWSeg, ev OFwait kc_wl MoNone 1 1 3)
      else Some (go KWLBlocked, ev OFwait kc_wl MoNone 1 1 1)
    else Some (go KWSeg, ev OFwait kc_wl MoNone 1 (k_lock s) 0)
  | KWLBlocked => None
  (* fn_write *)
  | KWIn => Some (kset s t (k_in s x), LPlain [])
  | KWLoadR =>
    (* READ_SYNC: rpos = load(read_cursor); READ_BUSY: cached_r_cur = load(read_cursor) *)
    let s1 := match k_rmode s with KRBusy => kset_cached s (k_rcur s) | _ => s end in
    Some (kset s1 t {| k_pc := KWChk; k_k := k_k x; k_reg := k_rcur s; k_ok := k_ok x; k_pend := [] |},
          ev OLoad kc_rcur Rlx (k_rcur s) 0 0)
  | KWChk =>
    let wpos := ridx (k_wcur s + 1) (k_cap s) in
    if wpos =? k_reg x then
      (* return MUGGLE_ERR_FULL *)
      let r := k_ret s (kokset x (k_pc x) false) in Some (kset s t (fst r), LPlain (snd r))
    else Some (kset s t {| k_pc := KWStore; k_k := k_k x; k_reg := wpos; k_ok := true; k_pend := [] |}, LPlain [])
  | KWStore => Some (kset (kset_wcur s (k_reg x)) t (kokset x KWRet true), ev OStore kc_wcur Rel (k_reg x) 0 0)   (* return MUGGLE_OK *)
  | KWRmLock =>
    match k_rm s with
    | Some _ => None
    | None => Some (kset (kset_rm s (Some t)) t (kpcset x KWRmChk), ev OMlock kc_rm MoNone 0 0 0)
    end
  | KWRmChk =>
    let wpos := ridx (k_wcur s + 1) (k_cap s) in
    if wpos =? k_rcur s then Some (kset s t (kokset x KWRmUnlock false), LPlain [])
    else Some (kset (kset_wcur s wpos) t (kokset x KWRmUnlock true), LPlain [])
  | KWRmUnlock => Some (kset (kset_rm s None) t (kpcset x KWRet), ev OMunlock kc_rm MoNone 0 0 0)
  (* fn_unlock (always executed: ret is only looked at afterwards) *)
  | KWRet => let r := k_ret s x in Some (kset s t (fst r), LPlain (snd r))
  | KWRel =>
    match k_lk s with
    | KLSync => Some (kset (kset_lock s 0) t (kpcset x KWRelSeg), ev OStore kc_wl Rel 0 0 0)
    | KLSpin => Some (kset (kset_lock s 0) t (kpcset x KWOut), ev OClear kc_wl Rel 0 0 0)
    | _ => Some (kset (kset_lock s 0) t (kpcset x KWOut), ev OMunlock kc_wl MoNone 0 0 0)
    end
  | KWRelSeg => Some (go KWLWake, LPlain [])
  | KWLWake =>
    let w := first_such (k_lblocked s) (k_n s) in
    let s1 := match w with Some u => kset s u (kpcset (k_thr s u) KWSeg) | None => s end in
    Some (kset s1 t (kpcset x KWOut), ev OFwake kc_wl MoNone 1 (zcount w) 0)
  | KWOut => let r := k_out s x in Some (kset s t (fst r), LPlain (snd r))
  | KWWake =>
    let x1 := {| k_pc := KWSeg; k_k := pred (k_k x); k_reg := k_reg x; k_ok := k_ok x; k_pend := [(n_wrote, 0)] |} in
    match k_rmode s with
    | KRMutex =>
      let w := pick_waiter (k_masleep s) (k_n s) ch in
      let s1 := match w with Some u => kset s u (kpcset (k_thr s u) KMWoken) | None => s end in
      Some (kset s1 t x1, ev OCvsig kc_rcv MoNone (zcount w) (zfirst w) 0)
    | _ =>
      let w := first_such (k_rblocked s) (k_n s) in
      let s1 := match w with Some u => kset s u (kpcset (k_thr s u) KRSeg) | None => s end in
      Some (kset s1 t x1, ev OFwake kc_wcur MoNone 1 (zcount w) 0)
    end
  | KWYieldF => Some (go KWSeg, ev OYield 0%nat MoNone 0 0 0)
  | KFin => Some (go KDone, LExit)
  | KDone => None
  end.
