(* C03 (e) — double buffer, NON-BLOCKING mode (buf->non_blocking != 0) and the lock discipline of
   both modes.  In non-blocking mode a write that finds the back buffer full unlocks the mutex and
   returns MUGGLE_ERR_FULL; the client retries.  Proved for every schedule, any number of writers,
   any capacity >= 1:
     - mode separation: writers sleep on cv_not_full only in blocking mode, the FULL return path
       exists only in non-blocking mode;
     - every return path releases the mutex: a thread that is outside its call (before the call,
       after an OK or a FULL return, in its retry yield, finished) never owns the mutex, and a
       FULL return changes nothing but the mutex (back buffer, scripts, other threads untouched);
     - no deadlock in non-blocking mode: some thread can run, or all have finished, or the reader
       sleeps on a genuinely EMPTY back buffer with every writer finished; "every unfinished writer
       asleep" is unreachable. *)
From MV Require Import C03.Model C03.ProofsCommon C03.ProofsDbuf.
Local Open Scope Z_scope.

Ltac step_cases Hs :=
  repeat match type of Hs with
  | context [match ?e with _ => _ end] => destruct e eqn:?
  end.

(* program points of the cv_not_full wait (blocking mode only) / of the FULL return (non-blocking only) *)
Definition d_sleepy (p : dpc) : bool := match p with DWWait | DWAsleep | DWWoken => true | _ => false end.
Definition d_fullret (p : dpc) : bool := match p with DWUnlockF | DWSegF | DWYield => true | _ => false end.
(* outside muggle_double_buffer_read / _write: client code *)
Definition d_outside (p : dpc) : bool :=
  match p with DRSeg | DWSeg | DWSegF | DWYield | DFin | DDone => true | _ => false end.

Definition DMode (s : dsys) : Prop :=
  forall t, (d_sleepy (d_pc (d_thr s t)) = true -> d_nb s = false) /\
            (d_fullret (d_pc (d_thr s t)) = true -> d_nb s = true).

Lemma dinit_mode n cap nb need wk : DMode (dinit n cap nb need wk).
Proof. intros [|t]; simpl; split; discriminate. Qed.

Lemma dstep_mode s t ch s' l : DMode s -> dstep s t ch = Some (s', l) -> DMode s'.
Proof.
  intros Hm Hs. unfold dstep in Hs.
  destruct (Nat.leb (d_n s) t) eqn:Hlt; [discriminate|]. cbv zeta in Hs.
  pose proof (Hm t) as [Ht1 Ht2].
  destruct (d_pc (d_thr s t)) eqn:Epc; step_cases Hs; try discriminate; inv_some Hs.
  all: try match goal with
       | E : pick_waiter (d_wasleep _) _ _ = Some ?u |- _ =>
         let H0 := fresh "Hul" in let H1 := fresh "Hwk" in
         destruct (pick_waiter_some _ _ _ _ E) as [H0 H1]; apply d_wasleep_pc in H1
       | E : pick_waiter (d_rasleep _) _ _ = Some ?u |- _ =>
         let H0 := fresh "Hul" in let H1 := fresh "Hwk" in
         destruct (pick_waiter_some _ _ _ _ E) as [H0 H1]; apply d_rasleep_pc in H1
       end.
  all: intros a; pose proof (Hm a) as [Ha1 Ha2]; simpl in *; split; intros Hp; upd_all; try discriminate;
       try (apply Ha1; assumption); try (apply Ha2; assumption);
       try (simpl in Ht1; apply Ht1; reflexivity); try (simpl in Ht2; apply Ht2; reflexivity);
       try assumption;
       try match goal with
       | E : d_pc (d_thr _ ?x) = _ |- _ =>
         let X := fresh in let Y := fresh in
         pose proof (Hm x) as [X Y]; rewrite E in X, Y; simpl in X, Y;
         first [apply X; reflexivity | apply Y; reflexivity]
       end.
Qed.

Theorem d_reachable_mode n cap nb need wk sched : DMode (exec dsys dstep (dinit n cap nb need wk) sched).
Proof. apply inv_exec; [|apply dinit_mode]. intros; eapply dstep_mode; eauto. Qed.

(* ---- mode separation ---- *)
Theorem dbuf_nb_writers_never_sleep_all n cap need wk sched t :
  let s := exec dsys dstep (dinit n cap true need wk) sched in
  d_sleepy (d_pc (d_thr s t)) = false.
Proof.
  intros s. destruct (d_sleepy (d_pc (d_thr s t))) eqn:E; [|reflexivity].
  pose proof (d_reachable_mode n cap true need wk sched t) as [H _]. fold s in H. specialize (H E).
  unfold s in H. rewrite d_nb_exec in H. simpl in H. discriminate.
Qed.

Theorem dbuf_blocking_never_returns_full_all n cap need wk sched t :
  let s := exec dsys dstep (dinit n cap false need wk) sched in
  d_fullret (d_pc (d_thr s t)) = false.
Proof.
  intros s. destruct (d_fullret (d_pc (d_thr s t))) eqn:E; [|reflexivity].
  pose proof (d_reachable_mode n cap false need wk sched t) as [_ H]. fold s in H. specialize (H E).
  unfold s in H. rewrite d_nb_exec in H. simpl in H. discriminate.
Qed.

(* ---- every return path releases the mutex ---- *)
Lemma d_outside_not_holds p : d_outside p = true -> d_holds p = false.
Proof. destruct p; simpl; congruence. Qed.

Theorem dbuf_calls_release_mutex_all n cap nb need wk sched t : 1 <= cap ->
  let s := exec dsys dstep (dinit n cap nb need wk) sched in
  d_outside (d_pc (d_thr s t)) = true -> d_m s <> Some t.
Proof.
  intros Hc s Ho Hm.
  destruct (d_reachable_inv n cap nb need wk sched Hc) as [_ _ _ Hown _ _ _]. fold s in Hown.
  destruct (Hown t Hm) as [_ Hh]. rewrite (d_outside_not_holds _ Ho) in Hh. discriminate.
Qed.

(* the mutex is owned only by a thread inside a call, between its lock and its unlock / wait *)
Theorem dbuf_mutex_owner_is_inside_all n cap nb need wk sched u : 1 <= cap ->
  let s := exec dsys dstep (dinit n cap nb need wk) sched in
  d_m s = Some u -> (u < n)%nat /\ d_holds (d_pc (d_thr s u)) = true /\ d_enabled s u.
Proof.
  intros Hc s Hm.
  destruct (d_reachable_inv n cap nb need wk sched Hc) as [_ _ _ Hown _ _ _]. fold s in Hown.
  destruct (Hown u Hm) as [Hu Hh].
  destruct (d_const_exec sched (dinit n cap nb need wk)) as [En _]. fold s in En. simpl in En.
  split; [rewrite <- En; exact Hu|]. split; [exact Hh|]. apply d_holds_enabled; assumption.
Qed.

(* what the FULL return does: the mutex the call acquired is released, nothing else changes *)
Lemma d_full_return_unlocks s t ch s' l :
  d_pc (d_thr s t) = DWUnlockF -> dstep s t ch = Some (s', l) ->
  d_m s' = None /\ d_pc (d_thr s' t) = DWSegF /\ d_k (d_thr s' t) = d_k (d_thr s t) /\
  d_back s' = d_back s /\ (forall u, u <> t -> d_thr s' u = d_thr s u).
Proof.
  intros Epc Hs. unfold dstep in Hs. destruct (Nat.leb (d_n s) t); [discriminate|].
  rewrite Epc in Hs. cbv zeta in Hs. inv_some Hs. simpl. rewrite upd_same.
  repeat split; try reflexivity. intros u Hu. apply upd_other. assumption.
Qed.

(* a refused write is refused on a genuinely full back buffer, under the mutex *)
Lemma d_full_only_when_full s t ch s' l :
  d_pc (d_thr s t) = DWChk -> dstep s t ch = Some (s', l) -> d_pc (d_thr s' t) = DWUnlockF ->
  d_back s = d_cap s /\ d_nb s = true.
Proof.
  intros Epc Hs E'. unfold dstep in Hs. destruct (Nat.leb (d_n s) t); [discriminate|].
  rewrite Epc in Hs. cbv zeta in Hs.
  destruct (d_back s =? d_cap s) eqn:Eb; [|inv_some Hs; simpl in E'; rewrite upd_same in E'; discriminate].
  destruct (d_nb s) eqn:En; inv_some Hs; simpl in E'; rewrite upd_same in E'; try discriminate.
  split; [apply Z.eqb_eq; exact Eb|reflexivity].
Qed.

(* ---- no deadlock, non-blocking mode ---- *)
Theorem dbuf_nb_no_deadlock_all n cap need wk sched : 1 <= cap ->
  let s := exec dsys dstep (dinit n cap true need wk) sched in
  (exists t, (t < n)%nat /\ d_enabled s t) \/
  (forall t, (t < n)%nat -> d_done s t) \/
  (d_back s = 0 /\ forall t, (t < n)%nat -> d_pc (d_thr s t) = DRAsleep \/ d_done s t).
Proof.
  intros Hc s.
  destruct (dbuf_no_deadlock_all n cap true need wk sched Hc) as [H|[H|[H|[_ H]]]]; fold s in H.
  - left. exact H.
  - right. left. exact H.
  - right. right. exact H.
  - right. left. intros t Ht. destruct (H t Ht) as [E|E]; [exfalso|exact E].
    pose proof (dbuf_nb_writers_never_sleep_all n cap need wk sched t) as X. cbv zeta in X. fold s in X.
    rewrite E in X. discriminate.
Qed.

(* while the reader has not finished and some writer still has work, somebody can run *)
Theorem dbuf_nb_writer_never_stuck_all n cap need wk sched w : 1 <= cap ->
  let s := exec dsys dstep (dinit n cap true need wk) sched in
  (w < n)%nat -> d_is_reader (d_pc (d_thr s w)) = false -> ~ d_done s w ->
  exists t, (t < n)%nat /\ d_enabled s t.
Proof.
  intros Hc s Hw Hr Hd.
  destruct (dbuf_nb_no_deadlock_all n cap need wk sched Hc) as [H|[H|[_ H]]]; fold s in H.
  - exact H.
  - exfalso. apply Hd. apply H. exact Hw.
  - exfalso. destruct (H w Hw) as [E|E]; [rewrite E in Hr; discriminate|apply Hd; exact E].
Qed.

(* non-vacuity: capacity 1, one writer with two items, non-blocking.  The second write is refused
   (FULL) with the mutex released; the reader then reads, the retry is accepted, everybody finishes. *)
Definition d_nb_demo : dsys := dinit 2 1 true 2 (fun _ => 2%nat).
Definition d_w6 : list (nat * nat) := [(1,0);(1,0);(1,0);(1,0);(1,0);(1,0)]%nat.
Definition d_r6 : list (nat * nat) := [(0,0);(0,0);(0,0);(0,0);(0,0);(0,0)]%nat.
Example d_nb_full_then_read_then_retry :
  let s1 := exec dsys dstep d_nb_demo (d_w6 ++ [(1,0);(1,0);(1,0)]%nat) in
  let s2 := exec dsys dstep s1 [(1,0);(1,0)]%nat in
  let s3 := exec dsys dstep s2 ([(1,0)]%nat ++ d_r6 ++ d_w6 ++ d_r6 ++ [(0,0);(0,0);(1,0);(1,0)]%nat) in
  d_pc (d_thr s1 1%nat) = DWUnlockF /\ d_m s1 = Some 1%nat /\ d_back s1 = 1 /\
  d_pc (d_thr s2 1%nat) = DWYield /\ d_m s2 = None /\ d_k (d_thr s2 1%nat) = 1%nat /\
  d_back s3 = 0 /\ (forall t, (t < 2)%nat -> d_done s3 t).
Proof.
  cbv zeta. repeat split; try (vm_compute; reflexivity).
  intros [|[|u]] H; [vm_compute; reflexivity|vm_compute; reflexivity|lia].
Qed.
