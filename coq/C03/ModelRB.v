(* C03 (h) — ring_buffer.c with BUSY-LOOP readers (MUGGLE_RING_BUFFER_FLAG_READ_BUSY_LOOP, with or
   without SINGLE_READER): spin-based waiting, no sleep / wake protocol.
     write (lock):   spinlock_lock(write_spin) [test-and-set / sched_yield loop];
                     slot = data; rpos = IDX(cursor+1); store(cursor, rpos, rel); spinlock_unlock [clear]
     write (single): slot = data; rpos = IDX(cursor+1); store(cursor, rpos, rel)
     wake:           muggle_ring_buffer_wake_busy_loop: nothing
     read_busy_loop(idx): rpos = IDX(idx); do { wpos = load(cursor, acq); if (wpos != rpos) return slot } while (1)
   Same granularity and conventions as model (c) of Model.v (tids < nr readers, the rest writers;
   reader t reads the messages 0, 1, ... in turn).  Definitions only. *)
From MV Require Export C03.Model.
Local Open Scope Z_scope.

Definition bc_cursor : nat := 0%nat.
Definition bc_spin : nat := 1%nat.

Inductive bpc :=
  | BRSeg | BRLoad | BRChk
  | BWSeg | BWTas | BWSegT | BWYield | BWSegA | BWStore | BWSeg2 | BWClear
  | BFin | BDone.
Record bthread := { b_pc : bpc; b_k : nat; b_i : Z; b_reg : Z; b_pend : notes }.
Record bsys := {
  b_n : nat; b_nr : nat;
  b_cap : Z; b_wl : bool;     (* wl: true = write spinlock, false = single writer *)
  b_cursor : Z;
  b_spin : Z;
  b_thr : nat -> bthread;
}.
Definition binit (n nr : nat) (cap : Z) (wl : bool) (ks : nat -> nat) : bsys :=
  {| b_n := n; b_nr := nr; b_cap := cap; b_wl := wl; b_cursor := 0; b_spin := 0;
     b_thr := fun t => {| b_pc := if Nat.ltb t nr then BRSeg else BWSeg; b_k := ks t; b_i := 0; b_reg := 0; b_pend := [] |} |}.
Definition bset (s : bsys) (t : nat) (x : bthread) : bsys :=
  {| b_n := b_n s; b_nr := b_nr s; b_cap := b_cap s; b_wl := b_wl s; b_cursor := b_cursor s; b_spin := b_spin s;
     b_thr := upd (b_thr s) t x |}.
Definition bset_spin (s : bsys) (v : Z) : bsys :=
  {| b_n := b_n s; b_nr := b_nr s; b_cap := b_cap s; b_wl := b_wl s; b_cursor := b_cursor s; b_spin := v;
     b_thr := b_thr s |}.
Definition bset_cursor (s : bsys) (v : Z) : bsys :=
  {| b_n := b_n s; b_nr := b_nr s; b_cap := b_cap s; b_wl := b_wl s; b_cursor := v; b_spin := b_spin s;
     b_thr := b_thr s |}.
Definition bpcset (x : bthread) (p : bpc) : bthread :=
  {| b_pc := p; b_k := b_k x; b_i := b_i x; b_reg := b_reg x; b_pend := [] |}.

Definition bstep (s : bsys) (t : nat) (ch : nat) : option (bsys * label) :=
  let x := b_thr s t in
  let go p := bset s t (bpcset x p) in
  if Nat.leb (b_n s) t then None else
  match b_pc x with
  (* ---- reader ---- *)
  | BRSeg => Some (go (match b_k x with O => BFin | S _ => BRLoad end), LPlain (b_pend x))
  | BRLoad =>
    Some (bset s t {| b_pc := BRChk; b_k := b_k x; b_i := b_i x; b_reg := b_cursor s; b_pend := [] |},
          ev OLoad bc_cursor Acq (b_cursor s) 0 0)
  | BRChk =>
    if b_reg x =? ridx (b_i x) (b_cap s) then Some (go BRLoad, LPlain [])      (* busy loop: load again *)
    else
      Some (bset s t {| b_pc := match pred (b_k x) with O => BFin | S _ => BRLoad end;
                        b_k := pred (b_k x); b_i := b_i x + 1; b_reg := b_reg x; b_pend := [] |},
            LPlain [(n_read, 0)])
  (* ---- writer ---- *)
  | BWSeg =>
    match b_k x with
    | O => Some (go BFin, LPlain (b_pend x))
    | S _ =>
      if b_wl s then Some (go BWTas, LPlain (b_pend x))
      else Some (bset s t {| b_pc := BWStore; b_k := b_k x; b_i := b_i x;
                             b_reg := ridx (b_cursor s + 1) (b_cap s); b_pend := [] |}, LPlain (b_pend x))
    end
  | BWTas =>
    let prev := b_spin s in
    Some (bset (bset_spin s 1) t (bpcset x (if prev =? 0 then BWSegA else BWSegT)), ev OTas bc_spin Acq prev 0 0)
  | BWSegT => Some (go BWYield, LPlain [])
  | BWYield => Some (go BWSeg, ev OYield 0%nat MoNone 0 0 0)
  | BWSegA =>
    Some (bset s t {| b_pc := BWStore; b_k := b_k x; b_i := b_i x;
                      b_reg := ridx (b_cursor s + 1) (b_cap s); b_pend := [] |}, LPlain [])
  | BWStore =>
    if b_wl s then Some (bset (bset_cursor s (b_reg x)) t (bpcset x BWSeg2), ev OStore bc_cursor Rel (b_reg x) 0 0)
    else
      (* single writer: no unlock, no wake call: the write returns, the client notes "wrote" *)
      Some (bset (bset_cursor s (b_reg x)) t {| b_pc := BWSeg; b_k := pred (b_k x); b_i := b_i x; b_reg := b_reg x;
                                                b_pend := [(n_wrote, 0)] |},
            ev OStore bc_cursor Rel (b_reg x) 0 0)
  | BWSeg2 => Some (go BWClear, LPlain [])
  | BWClear =>
    Some (bset (bset_spin s 0) t {| b_pc := BWSeg; b_k := pred (b_k x); b_i := b_i x; b_reg := b_reg x;
                                    b_pend := [(n_wrote, 0)] |},
          ev OClear bc_spin Rel 0 0 0)
  | BFin => Some (go BDone, LExit)
  | BDone => None
  end.
