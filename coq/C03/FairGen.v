(* C03 — generic fair-termination argument (scheme of coq/C14/ProofsFair.v, stated once for an
   arbitrary step function): a FAIR schedule is a sequence of rounds, each round scheduling every
   thread at least once (any order, any multiplicity, any schedule choices); a natural-number
   measure [M] that no step increases and that every step strictly decreases unless the stepping
   thread is SPINNING (busy retry while it cannot make progress: its step leaves M unchanged and
   does not take productivity away from the others); a thread is productive when it is enabled
   and not spinning; while the goal is not reached some thread is productive.  Then a round that
   schedules a productive thread decreases M, hence the goal is reached within M rounds. *)
From MV Require Import Lib.Conc.

Section FairGen.
Variable state : Type.
Variable step : state -> nat -> nat -> option (state * label).
Variable n : nat.
Variable Good : state -> Prop.
Variable M : state -> nat.
Variable spinning : state -> nat -> Prop.

Definition enabled (s : state) (u : nat) : Prop := step s u 0 <> None.
Definition productive (s : state) (u : nat) : Prop := enabled s u /\ ~ spinning s u.

Hypothesis good_step : forall s t c s' l, Good s -> step s t c = Some (s', l) -> Good s'.
Hypothesis enabled_lt : forall s u, Good s -> enabled s u -> (u < n)%nat.
Hypothesis enabled_any : forall s u c, Good s -> enabled s u -> step s u c <> None.
Hypothesis step_measure : forall s t c s' l, Good s -> step s t c = Some (s', l) ->
  (M s' < M s)%nat \/
  (spinning s t /\ M s' = M s /\ forall u, u <> t -> productive s u -> productive s' u).

Lemma good_exec r : forall s, Good s -> Good (exec state step s r).
Proof.
  induction r as [|[t c] r IH]; intros s Hg; simpl; [exact Hg|].
  apply IH. unfold exec1; simpl. destruct (step s t c) as [[s1 l]|] eqn:E; [eapply good_step; eauto|exact Hg].
Qed.

Lemma M_exec_le r : forall s, Good s -> (M (exec state step s r) <= M s)%nat.
Proof.
  induction r as [|[t c] r IH]; intros s Hg; simpl; [lia|].
  unfold exec1; simpl. destruct (step s t c) as [[s1 l]|] eqn:E; [|apply IH; exact Hg].
  pose proof (good_step _ _ _ _ _ Hg E) as Hg1. specialize (IH s1 Hg1).
  destruct (step_measure s t c s1 l Hg E) as [Hlt|(_ & Heq & _)]; lia.
Qed.

(* fairness: a round schedules every thread at least once *)
Definition fair_round (r : list (nat * nat)) : Prop := forall t, (t < n)%nat -> In t (map fst r).

Lemma round_decreases u r : forall s, Good s -> productive s u -> In u (map fst r) ->
  (M (exec state step s r) < M s)%nat.
Proof.
  induction r as [|[t c] r IH]; intros s Hg Hp Hin; simpl in *; [contradiction|].
  unfold exec1; simpl. destruct (step s t c) as [[s1 l]|] eqn:E.
  - pose proof (good_step _ _ _ _ _ Hg E) as Hg1.
    destruct (step_measure s t c s1 l Hg E) as [Hlt|(Hsp & Heq & Hpres)].
    + pose proof (M_exec_le r s1 Hg1). lia.
    + assert (Hu : u <> t) by (intros ->; destruct Hp as [_ Hp]; contradiction).
      destruct Hin as [Hin|Hin]; [congruence|].
      specialize (IH s1 Hg1 (Hpres u Hu Hp) Hin). lia.
  - destruct Hin as [Hin|Hin].
    + subst t. exfalso. destruct Hp as [Hen _]. exact (enabled_any s u c Hg Hen E).
    + apply IH; assumption.
Qed.

Section Goal.
Variable Goal : state -> Prop.
Hypothesis Goal_dec : forall s, Goal s \/ ~ Goal s.
Hypothesis Goal_step : forall s t c s' l, Good s -> Goal s -> step s t c = Some (s', l) -> Goal s'.
Hypothesis Goal_prod : forall s, Good s -> ~ Goal s -> exists u, productive s u.

Lemma Goal_exec r : forall s, Good s -> Goal s -> Goal (exec state step s r).
Proof.
  induction r as [|[t c] r IH]; intros s Hp Hg; simpl; [exact Hg|].
  unfold exec1; simpl. destruct (step s t c) as [[s1 l]|] eqn:E; [|apply IH; assumption].
  apply IH; [eapply good_step; eauto|eapply Goal_step; eauto].
Qed.

Theorem fair_goal rounds : forall s, Good s -> Forall fair_round rounds -> (M s < length rounds)%nat ->
  Goal (exec state step s (concat rounds)).
Proof.
  induction rounds as [|r rs IH]; intros s Hp Hf Hlt; simpl in *; [lia|].
  inversion Hf as [|r0 rs0 Hr Hrs]; subst. rewrite exec_app.
  destruct (Goal_dec s) as [Hg|Hng].
  - apply Goal_exec; [apply good_exec; exact Hp|apply Goal_exec; assumption].
  - destruct (Goal_prod s Hp Hng) as (u & Hu).
    assert (Hin : In u (map fst r)) by (apply Hr; eapply enabled_lt; [exact Hp|exact (proj1 Hu)]).
    pose proof (round_decreases u r s Hp Hu Hin) as Hdec.
    apply IH; [apply good_exec; exact Hp|exact Hrs|lia].
Qed.
End Goal.
End FairGen.
