(* C03 (b) — channel with a condvar-waiting reader (READ_MUTEX): the reader re-checks in a loop
   under read_mutex; writers change write_cursor under read_mutex and notify_one AFTER both
   unlocks (outside the mutex).  No lost wake-up, no deadlock, every schedule, any number of
   writers, spurious wake-ups included. *)
From MV Require Import C03.Model C03.ProofsCommon.
Local Open Scope Z_scope.

Definition m_is_reader (p : mpc) : bool :=
  match p with MRSeg | MRLock | MRChk | MRUnlock | MRWait | MRAsleep | MRWoken => true | _ => false end.
Definition m_inrm (p : mpc) : bool :=
  match p with MRChk | MRUnlock | MRWait | MWChk | MWUnlockR | MWUnlockRF => true | _ => false end.
Definition m_inwm (p : mpc) : bool :=
  match p with
  | MWSeg1 | MWLockR | MWChk | MWUnlockR | MWSeg2 | MWUnlockW | MWUnlockRF | MWSeg2F | MWUnlockWF => true
  | _ => false
  end.
Definition m_wlonly (p : mpc) : bool :=
  match p with MWLockW | MWSeg1 | MWSeg2 | MWUnlockW | MWSeg2F | MWUnlockWF => true | _ => false end.
(* a writer between its write_cursor update and its notify *)
Definition m_pending (p : mpc) : bool :=
  match p with MWUnlockR | MWSeg2 | MWUnlockW | MWSeg3 | MWSig => true | _ => false end.

Definition m_empty (s : msys) : Prop := ridx (m_rcur s + 1) (m_cap s) = m_wcur s.
Definition m_enabled (s : msys) (t : nat) : Prop := mstep s t 0 <> None.
Definition m_done (s : msys) (t : nat) : Prop := m_pc (m_thr s t) = MDone.

Record MInv (s : msys) : Prop := {
  mi_role : forall t, m_is_reader (m_pc (m_thr s t)) = true -> t = 0%nat;
  mi_wl : forall t, m_wlonly (m_pc (m_thr s t)) = true -> m_wl s = true;
  mi_exclr : forall t, m_inrm (m_pc (m_thr s t)) = true -> m_rm s = Some t;
  mi_ownr : forall u, m_rm s = Some u -> (u < m_n s)%nat /\ m_inrm (m_pc (m_thr s u)) = true;
  mi_ownw : forall u, m_wm s = Some u ->
            m_wl s = true /\ (u < m_n s)%nat /\ m_inwm (m_pc (m_thr s u)) = true;
  (* the reader decided to wait under the mutex: the channel is empty until it sleeps *)
  mi_wait : forall t, m_pc (m_thr s t) = MRWait -> m_empty s;
  (* THE no-lost-wake-up invariant: waiter asleep => predicate false (channel empty) or a
     notifier is between its state change and its notify *)
  mi_ne : forall t, (t < m_n s)%nat -> m_pc (m_thr s t) = MRAsleep ->
          m_empty s \/ exists u, (u < m_n s)%nat /\ m_pending (m_pc (m_thr s u)) = true;
}.

Lemma minit_inv n cap wl nreads wk : MInv (minit n cap wl nreads wk).
Proof.
  constructor; simpl.
  - intros [|t]; simpl; [reflexivity|discriminate].
  - intros [|t]; simpl; discriminate.
  - intros [|t]; simpl; discriminate.
  - discriminate.
  - discriminate.
  - intros [|t]; simpl; discriminate.
  - intros [|t] _; simpl; discriminate.
Qed.

Lemma m_asleep_pc s u : m_asleep s u = true -> m_pc (m_thr s u) = MRAsleep.
Proof. unfold m_asleep. destruct (m_pc (m_thr s u)); congruence. Qed.

Ltac step_cases Hs :=
  repeat match type of Hs with
  | context [match ?e with _ => _ end] => destruct e eqn:?
  end.
Ltac old_pc_contra C :=
  match goal with
  | E : m_pc (m_thr _ ?x) = _ |- _ => rewrite E in C; discriminate
  end.
Ltac norm_wl := try match goal with E : m_wl ?s = ?b |- _ => rewrite ?E in * end.

Ltac t_role Hrole :=
  intros a Ha; upd_all; try discriminate;
  first [ apply Hrole; assumption
        | match goal with E : m_pc (m_thr _ ?x) = _ |- ?x = 0%nat => apply Hrole; rewrite E; reflexivity end ].

Ltac t_wl Hwl :=
  intros a Ha; norm_wl; upd_all; try discriminate;
  first [ assumption | reflexivity | eapply Hwl; eassumption
        | match goal with E : m_pc (m_thr _ ?x) = _ |- _ => apply (Hwl x); rewrite E; reflexivity end ].

Ltac t_excl Hexcl :=
  intros a Ha; upd_all; try discriminate;
  first [ reflexivity
        | (apply Hexcl; assumption)
        | match goal with E : m_pc (m_thr _ ?x) = _ |- m_rm _ = Some ?x => apply Hexcl; rewrite E; reflexivity end
        | (exfalso;
           match goal with
           | _ => let X := fresh in pose proof (Hexcl _ Ha) as X; discriminate X
           | E : m_pc (m_thr ?s ?t) = _, n : ?x <> ?t |- _ =>
             let H := fresh in
             assert (H : m_rm s = Some t) by (apply Hexcl; rewrite E; reflexivity);
             rewrite (Hexcl _ Ha) in H; congruence
           end) ].

Ltac t_ownr Hown Hlt :=
  intros u Hu; simpl in Hu; try discriminate;
  first [ (inv_some Hu; upd_all; split; [assumption|reflexivity])
        | (let B := fresh "B" in let C := fresh "C" in
           destruct (Hown _ Hu) as (B & C); (split; [assumption|]; upd_all;
           first [assumption | reflexivity | old_pc_contra C])) ].

Ltac t_ownw Hown Hwl Hlt :=
  intros u Hu; norm_wl; simpl in Hu; try discriminate;
  first [ (let A := fresh "A" in let B := fresh "B" in let C := fresh "C" in
           destruct (Hown _ Hu) as (A & B & C); try discriminate A;
           (split; [assumption|split; [assumption|]]; upd_all;
            first [assumption | reflexivity | old_pc_contra C]))
        | (inv_some Hu; upd_all; split;
           [ first [ reflexivity | match goal with E : m_pc (m_thr _ ?x) = _ |- _ => apply (Hwl x); rewrite E; reflexivity end ]
           | split; [assumption | reflexivity] ]) ].

Ltac t_wait Hwait :=
  intros a Ha; unfold m_empty in *; upd_all; try discriminate;
  first [ eapply Hwait; eassumption
        | (apply Z.eqb_eq; assumption) ].

Ltac t_ne Hne :=
  intros a Hal Ha; unfold m_empty in *; upd_all; try discriminate;
  let u := fresh "u" in let Hu := fresh "Hu" in let Hp := fresh "Hp" in
  destruct (Hne _ Hal Ha) as [Hb|(u & Hu & Hp)];
  [ left; assumption
  | right; exists u; split; [assumption|]; upd_all; first [assumption | reflexivity | old_pc_contra Hp] ].

Lemma mstep_inv s t ch s' l : MInv s -> mstep s t ch = Some (s', l) -> MInv s'.
Proof.
  intros [Hrole Hwl Hexcl Hownr Hownw Hwait Hne] Hs. unfold mstep in Hs.
  destruct (Nat.leb (m_n s) t) eqn:Hlt; [discriminate|]. apply Nat.leb_gt in Hlt.
  cbv zeta in Hs.
  destruct (m_pc (m_thr s t)) eqn:Epc; step_cases Hs; try discriminate; inv_some Hs.
  all: try match goal with
       | E : pick_waiter (m_asleep _) _ _ = Some ?u |- _ =>
         let H0 := fresh "Hul" in let H1 := fresh "Hwk" in
         destruct (pick_waiter_some _ _ _ _ E) as [H0 H1]; apply m_asleep_pc in H1;
         assert (u <> t) by (intros ->; congruence)
       end.
  all: constructor; simpl.
  all: try (t_role Hrole; fail).
  all: try (t_wl Hwl; fail).
  all: try (t_excl Hexcl; fail).
  all: try (t_ownr Hownr Hlt; fail).
  all: try (t_ownw Hownw Hwl Hlt; fail).
  all: try (t_wait Hwait; fail).
  all: try (t_ne Hne; fail).
  - (* the read: read_cursor moves, but the only reader is the stepping thread *)
    intros a Ha. exfalso. upd_all; try discriminate.
    assert (a = 0%nat) by (apply Hrole; rewrite Ha; reflexivity).
    assert (t = 0%nat) by (apply Hrole; rewrite Epc; reflexivity). congruence.
  - intros a Hal Ha. exfalso. upd_all; try discriminate.
    assert (a = 0%nat) by (apply Hrole; rewrite Ha; reflexivity).
    assert (t = 0%nat) by (apply Hrole; rewrite Epc; reflexivity). congruence.
  - (* cond_wait: releases the mutex and sleeps atomically; the channel is (still) empty *)
    intros a Hal Ha. left. unfold m_empty; simpl. apply (Hwait t Epc).
  - (* the write happens under read_mutex: nobody is between its check and its sleep *)
    intros a Ha. exfalso. upd_all; try discriminate.
    assert (m_rm s = Some a) by (apply Hexcl; rewrite Ha; reflexivity).
    assert (m_rm s = Some t) by (apply Hexcl; rewrite Epc; reflexivity). congruence.
  - (* ... and the writer is from now on between its state change and its notify *)
    intros a Hal Ha. right. exists t. split; [assumption|]. upd_all; reflexivity.
  - (* notify_one wakes the (only) reader *)
    intros a Hal Ha. exfalso. upd_all; try discriminate.
    assert (a = 0%nat) by (apply Hrole; rewrite Ha; reflexivity).
    assert (n = 0%nat) by (apply Hrole; rewrite Hwk; reflexivity). congruence.
  - (* notify_one finds nobody asleep *)
    intros a Hal Ha. exfalso. upd_all; try discriminate.
    pose proof (pick_waiter_none _ _ _ Heqo a Hal) as X. unfold m_asleep in X. rewrite Ha in X. discriminate.
Qed.

Theorem m_reachable_inv n cap wl nreads wk sched :
  MInv (exec msys mstep (minit n cap wl nreads wk) sched).
Proof. apply inv_exec; [|apply minit_inv]. intros; eapply mstep_inv; eauto. Qed.

Lemma m_n_step s t ch s' l : mstep s t ch = Some (s', l) -> m_n s' = m_n s.
Proof.
  unfold mstep. destruct (Nat.leb (m_n s) t); [discriminate|]. cbv zeta.
  destruct (m_pc (m_thr s t)); intros Hs; step_cases Hs; try discriminate; inv_some Hs; reflexivity.
Qed.
Lemma m_n_exec sched s : m_n (exec msys mstep s sched) = m_n s.
Proof.
  revert s. induction sched as [|[t c] r IH]; intros s; simpl; [reflexivity|].
  rewrite IH. unfold exec1; simpl. destruct (mstep s t c) as [[s' l]|] eqn:E; [|reflexivity].
  eapply m_n_step; eauto.
Qed.

(* ---------------- enabledness ---------------- *)
Ltac enabled_cases :=
  repeat match goal with
  | |- context [match ?e with _ => _ end] => destruct e
  end; discriminate.

Lemma m_inrm_enabled s u : (u < m_n s)%nat -> m_inrm (m_pc (m_thr s u)) = true -> m_enabled s u.
Proof.
  intros Hu Hin. unfold m_enabled, mstep. apply Nat.leb_gt in Hu. rewrite Hu. cbv zeta.
  destruct (m_pc (m_thr s u)); try discriminate; enabled_cases.
Qed.
Lemma m_inwm_enabled s u : (u < m_n s)%nat -> m_rm s = None -> m_inwm (m_pc (m_thr s u)) = true -> m_enabled s u.
Proof.
  intros Hu Hr Hin. unfold m_enabled, mstep. apply Nat.leb_gt in Hu. rewrite Hu. cbv zeta. rewrite Hr.
  destruct (m_pc (m_thr s u)); try discriminate; enabled_cases.
Qed.
Definition m_stuck_pc (p : mpc) : bool := match p with MRAsleep | MDone => true | _ => false end.
Lemma m_enabled_unless s t :
  (t < m_n s)%nat -> m_rm s = None -> m_wm s = None -> m_stuck_pc (m_pc (m_thr s t)) = false -> m_enabled s t.
Proof.
  intros Ht Hr Hw Hp. unfold m_enabled, mstep. apply Nat.leb_gt in Ht. rewrite Ht. cbv zeta. rewrite Hr, Hw.
  destruct (m_pc (m_thr s t)); try discriminate; enabled_cases.
Qed.
Lemma m_pending_enabled s u : (u < m_n s)%nat -> m_pending (m_pc (m_thr s u)) = true -> m_enabled s u.
Proof.
  intros Hu Hin. unfold m_enabled, mstep. apply Nat.leb_gt in Hu. rewrite Hu. cbv zeta.
  destruct (m_pc (m_thr s u)); try discriminate; enabled_cases.
Qed.

Lemma m_progress s : MInv s ->
  (exists t, (t < m_n s)%nat /\ m_enabled s t) \/
  (forall t, (t < m_n s)%nat -> m_done s t) \/
  (m_pc (m_thr s 0%nat) = MRAsleep /\ m_empty s /\ forall t, (0 < t < m_n s)%nat -> m_done s t).
Proof.
  intros [Hrole Hwl Hexcl Hownr Hownw Hwait Hne].
  destruct (m_rm s) as [o|] eqn:Er.
  { destruct (Hownr o eq_refl) as (B & C). left. exists o. split; [assumption|]. now apply m_inrm_enabled. }
  destruct (m_wm s) as [o|] eqn:Ew.
  { destruct (Hownw o eq_refl) as (_ & B & C). left. exists o. split; [assumption|]. now apply m_inwm_enabled. }
  destruct (bounded_dec (fun t => negb (m_stuck_pc (m_pc (m_thr s t)))) (m_n s)) as [(t & Ht & Hp)|Hall].
  { left. exists t. split; [assumption|]. apply m_enabled_unless; auto.
    destruct (m_stuck_pc (m_pc (m_thr s t))); [discriminate|reflexivity]. }
  right.
  assert (Hst : forall t, (t < m_n s)%nat -> m_pc (m_thr s t) = MRAsleep \/ m_pc (m_thr s t) = MDone).
  { intros t Ht. specialize (Hall t Ht). destruct (m_pc (m_thr s t)); simpl in Hall; try discriminate; auto. }
  assert (Hw : forall t, (0 < t < m_n s)%nat -> m_done s t).
  { intros t [Ht0 Ht]. destruct (Hst t Ht) as [E|E]; [|exact E].
    exfalso. assert (t = 0%nat) by (apply Hrole; rewrite E; reflexivity). lia. }
  destruct (Nat.eq_dec (m_n s) 0) as [En|En].
  { left. intros t Ht. lia. }
  destruct (Hst 0%nat ltac:(lia)) as [E|E].
  - right. split; [exact E|]. split; [|exact Hw].
    destruct (Hne 0%nat ltac:(lia) E) as [Hb|(u & Hu & Hp)]; [exact Hb|].
    exfalso. destruct (Hst u Hu) as [E'|E']; rewrite E' in Hp; discriminate.
  - left. intros t Ht. destruct (Nat.eq_dec t 0); [subst; exact E|apply Hw; lia].
Qed.

Theorem chan_cv_no_deadlock_all n cap wl nreads wk sched :
  let s := exec msys mstep (minit n cap wl nreads wk) sched in
  (exists t, (t < n)%nat /\ m_enabled s t) \/
  (forall t, (t < n)%nat -> m_done s t) \/
  (m_pc (m_thr s 0%nat) = MRAsleep /\ m_empty s /\ forall t, (0 < t < n)%nat -> m_done s t).
Proof.
  intros s. pose proof (m_progress s (m_reachable_inv n cap wl nreads wk sched)) as H.
  unfold s in *. rewrite m_n_exec in H. exact H.
Qed.

(* No lost wake-up, per sleeper: the reader asleep on read_cv => the channel is empty, or a
   writer is between its write_cursor update and its notify (and can take a step). *)
Theorem chan_cv_no_lost_wakeup_all n cap wl nreads wk sched t :
  let s := exec msys mstep (minit n cap wl nreads wk) sched in
  (t < n)%nat -> m_pc (m_thr s t) = MRAsleep ->
  m_empty s \/ exists u, (u < n)%nat /\ m_pending (m_pc (m_thr s u)) = true /\ m_enabled s u.
Proof.
  intros s Ht Hb. pose proof (m_reachable_inv n cap wl nreads wk sched) as [Hrole Hwl Hexcl Hownr Hownw Hwait Hne].
  fold s in Hrole, Hwl, Hexcl, Hownr, Hownw, Hwait, Hne.
  assert (Hn : m_n s = n) by (unfold s; rewrite m_n_exec; reflexivity).
  rewrite Hn in Hne. destruct (Hne t Ht Hb) as [E|(u & Hu & Hp)]; [left; exact E|right].
  exists u. split; [assumption|]. split; [assumption|]. apply m_pending_enabled; [rewrite Hn|]; assumption.
Qed.

(* non-vacuity: the reader really sleeps on the condition variable while a writer, having
   published under the mutex, has not yet notified *)
Definition m_demo : msys := minit 2 4 false 1 (fun _ => 1%nat).
Example m_sleeper_with_pending_notifier :
  let s := exec msys mstep m_demo [(0,0);(0,0);(0,0);(0,0); (1,0);(1,0);(1,0);(1,0)]%nat in
  m_pc (m_thr s 0%nat) = MRAsleep /\ ~ m_empty s /\ m_pending (m_pc (m_thr s 1%nat)) = true.
Proof. vm_compute. repeat split; try reflexivity. discriminate. Qed.


(* ---------------- fair schedules and the condvar-mode channel ---------------- *)
(* The fair-termination theorem proved for the futex reader (C03/ProofsFairChanF2.v) does NOT hold
   for this mode under the same notion of fairness (rounds scheduling every thread at least once):
   a writer that bounces off a FULL channel and retries takes and releases read_mutex in every
   retry, and a schedule may give the reader its turn only while the writer holds that mutex.
   Nothing is lost -- the reader is never asleep with a message, it is enabled whenever the mutex
   is free (chan_cv_no_deadlock / chan_cv_no_lost_wakeup hold) -- but it never gets the mutex:
   pthread mutexes are not fair and the retry loop belongs to the client.  Witness: capacity 4
   (two usable slots), one writer with three messages, the reader wants three; the writer publishes
   two, then each round is  writer: plain, lock(read_mutex) | READER: lock(read_mutex) refused |
   writer: check (FULL), unlock, note, yield.  After 2000 such rounds (each schedules both threads)
   the reader still stands at its first lock and nothing has been read.  (The same happens with
   unboundedly many spurious condition-variable wake-ups of a reader on an empty channel.) *)
Definition m_starve_pre : list (nat * nat) :=
  ([(0,0)] ++ repeat (1,0) 12)%nat.
Definition m_starve_round : list (nat * nat) :=
  [(1,0);(1,0);(0,0);(1,0);(1,0);(1,0);(1,0)]%nat.
Example chan_cv_full_retry_starves_reader :
  let s0 := minit 2 4 false 3 (fun _ => 3%nat) in
  let s := exec msys mstep s0 (m_starve_pre ++ concat (repeat m_starve_round 2000)) in
  (forall t, (t < 2)%nat -> In t (map fst m_starve_round)) /\
  m_pc (m_thr s 0%nat) = MRLock /\ m_k (m_thr s 0%nat) = 3%nat /\
  m_pc (m_thr s 1%nat) = MWSeg /\ m_k (m_thr s 1%nat) = 1%nat /\
  ~ m_empty s /\ m_rm s = None.
Proof.
  split; [intros t Ht; destruct t as [|[|t]]; simpl; auto; lia|].
  vm_compute. repeat split; try reflexivity. discriminate.
Qed.
