(* C03 — the few facts about MUGGLE_IDX_IN_POW_OF_2_RING used by the accounting invariants:
   for capacity 2^k the mask is the remainder, and a remainder determines a counter that is known
   up to less than one lap. *)
From MV Require Import C03.Model.
Local Open Scope Z_scope.

Lemma ridx_mod k x : 0 <= k -> ridx x (2 ^ k) = x mod 2 ^ k.
Proof.
  intros Hk. unfold ridx. replace (2 ^ k - 1) with (Z.ones k) by (rewrite Z.ones_equiv; lia).
  apply Z.land_ones. exact Hk.
Qed.

Lemma pow2_pos k : 0 <= k -> 0 < 2 ^ k.
Proof. intros. apply Z.pow_pos_nonneg; lia. Qed.

Lemma mod_succ c a : 0 < c -> (a mod c + 1) mod c = (a + 1) mod c.
Proof. intros Hc. rewrite Z.add_mod_idemp_l by lia. reflexivity. Qed.

(* two counters less than one lap apart with equal remainders are equal *)
Lemma mod_inj c a b : 0 < c -> 0 <= a - b < c -> a mod c = b mod c -> a = b.
Proof.
  intros Hc Hab Hm.
  pose proof (Z.div_mod a c ltac:(lia)) as Ha. pose proof (Z.div_mod b c ltac:(lia)) as Hb.
  assert (a - b = c * (a / c - b / c)) by lia.
  assert (a / c - b / c = 0) by nia. lia.
Qed.

Lemma mod_shift c a : 0 < c -> (a + c) mod c = a mod c.
Proof. intros Hc. replace (a + c) with (a + 1 * c) by lia. apply Z.mod_add. lia. Qed.
