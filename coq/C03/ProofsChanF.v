(* C03 (a) — channel with a futex-waiting reader: no lost wake-up, no deadlock, for every
   schedule and any number of writers. *)
From MV Require Import C03.Model C03.ProofsCommon.
Local Open Scope Z_scope.

Definition f_is_reader (p : fpc) : bool :=
  match p with FRSeg | FRLoad | FRChk | FRStore | FRWait | FRBlocked => true | _ => false end.
(* a writer between its store of write_cursor and its wake call *)
Definition f_pending (p : fpc) : bool :=
  match p with FWSeg3 | FWUnlock | FWSeg4 | FWWake => true | _ => false end.
Definition f_inlock (p : fpc) : bool :=
  match p with FWSeg1 | FWLoadR | FWChk | FWStore | FWSeg3 | FWUnlock | FWUnlockF => true | _ => false end.
(* program points that exist only in WRITE_MUTEX mode *)
Definition f_wlonly (p : fpc) : bool :=
  match p with FWLock | FWSeg1 | FWUnlock | FWSeg4 | FWUnlockF | FWSegF => true | _ => false end.
Definition f_waiting (p : fpc) : bool :=
  match p with FRWait | FRBlocked => true | _ => false end.

Definition f_enabled (s : fsys) (t : nat) : Prop := fstep s t 0 <> None.
Definition f_done (s : fsys) (t : nat) : Prop := f_pc (f_thr s t) = FDone.

Record FInv (s : fsys) : Prop := {
  fi_role : forall t, f_is_reader (f_pc (f_thr s t)) = true -> t = 0%nat;
  fi_wl : forall t, f_wlonly (f_pc (f_thr s t)) = true -> f_wl s = true;
  fi_own : forall u, f_wm s = Some u ->
           f_wl s = true /\ (u < f_n s)%nat /\ f_inlock (f_pc (f_thr s u)) = true;
  (* the value the reader is going to wait on / is asleep on is the one it compared with rpos *)
  fi_wait : forall t, f_waiting (f_pc (f_thr s t)) = true ->
            f_reg (f_thr s t) = ridx (f_rcur s + 1) (f_cap s);
  (* THE no-lost-wake-up invariant: asleep on write_cursor expecting v  =>  write_cursor = v,
     or a writer is between its store and its wake call *)
  fi_sleep : forall t, f_pc (f_thr s t) = FRBlocked -> f_wcur s <> f_reg (f_thr s t) ->
             exists u, (u < f_n s)%nat /\ f_pending (f_pc (f_thr s u)) = true;
}.

Lemma finit_inv n cap wl nreads wk : FInv (finit n cap wl nreads wk).
Proof.
  constructor; simpl.
  - intros [|t]; simpl; [reflexivity|discriminate].
  - intros [|t]; simpl; discriminate.
  - discriminate.
  - intros [|t]; simpl; discriminate.
  - intros [|t]; simpl; discriminate.
Qed.

Lemma f_blocked_pc s u : f_blocked s u = true -> f_pc (f_thr s u) = FRBlocked.
Proof. unfold f_blocked. destruct (f_pc (f_thr s u)); congruence. Qed.

(* destruct every case distinction of the step function *)
Ltac step_cases Hs :=
  repeat match type of Hs with
  | context [match ?e with _ => _ end] => destruct e eqn:?
  end.

Ltac old_pc_contra C :=
  match goal with
  | E : f_pc (f_thr _ ?x) = _ |- _ => rewrite E in C; discriminate
  end.

Ltac norm_wl := try match goal with E : f_wl ?s = ?b |- _ => rewrite ?E in * end.

Ltac t_role Hrole :=
  intros a Ha; upd_all; try discriminate;
  first [ apply Hrole; assumption
        | match goal with E : f_pc (f_thr _ ?x) = _ |- ?x = 0%nat => apply Hrole; rewrite E; reflexivity end ].

Ltac t_wl Hwl :=
  intros a Ha; norm_wl; upd_all; try discriminate;
  first [ assumption | eapply Hwl; eassumption
        | match goal with E : f_pc (f_thr _ ?x) = _ |- _ => apply (Hwl x); rewrite E; reflexivity end ].

Ltac t_own Hown Hwl Hlt :=
  intros u Hu; norm_wl; simpl in Hu; try discriminate;
  first [ (let A := fresh "A" in let B := fresh "B" in let C := fresh "C" in
           destruct (Hown _ Hu) as (A & B & C); split; [assumption|split; [assumption|]]; upd_all;
           first [assumption | reflexivity | old_pc_contra C])
        | (inv_some Hu; upd_all; try congruence; split;
           [ match goal with E : f_pc (f_thr _ ?x) = _ |- _ => apply (Hwl x); rewrite E; reflexivity end
           | split; [assumption | reflexivity] ]) ].

Ltac t_wait Hwait :=
  intros a Ha; upd_all; try discriminate;
  first [ apply Hwait; assumption
        | match goal with E : f_pc (f_thr _ ?x) = _ |- _ => apply Hwait; rewrite E; reflexivity end
        | (apply Z.eqb_eq; assumption) ].

Ltac t_sleep Hsleep :=
  intros a Ha Hne; upd_all; try discriminate;
  let u := fresh "u" in let Hu := fresh "Hu" in let Hp := fresh "Hp" in
  destruct (Hsleep _ Ha Hne) as (u & Hu & Hp); exists u; split; [assumption|]; upd_all;
  first [assumption | reflexivity | old_pc_contra Hp].

Lemma fstep_inv s t ch s' l : FInv s -> fstep s t ch = Some (s', l) -> FInv s'.
Proof.
  intros [Hrole Hwl Hown Hwait Hsleep] Hs. unfold fstep in Hs.
  destruct (Nat.leb (f_n s) t) eqn:Hlt; [discriminate|]. apply Nat.leb_gt in Hlt.
  cbv zeta in Hs.
  destruct (f_pc (f_thr s t)) eqn:Epc; step_cases Hs; try discriminate; inv_some Hs.
  all: try match goal with
       | E : first_such (f_blocked _) _ = Some ?u |- _ =>
         let H1 := fresh "Hwk" in let H0 := fresh "Hwlt" in
         destruct (first_such_some _ _ _ E) as [H0 H1]; apply f_blocked_pc in H1
       end.
  all: constructor; simpl.
  all: try (t_role Hrole; fail).
  all: try (t_wl Hwl; fail).
  all: try (t_own Hown Hwl Hlt; fail).
  all: try (t_wait Hwait; fail).
  all: try (t_sleep Hsleep; fail).
  - (* FRStore: read_cursor moves, but the only reader is the stepping thread *)
    intros a Ha. upd_all; try discriminate. exfalso.
    assert (a = 0%nat) by (apply Hrole; destruct (f_pc (f_thr s a)); simpl in *; congruence).
    assert (t = 0%nat) by (apply Hrole; rewrite Epc; reflexivity). congruence.
  - (* FRWait blocks: compare-and-block on the checked value, so write_cursor = expected *)
    intros a Ha Hne. upd_all.
    + apply Z.eqb_eq in Heqb. congruence.
    + exfalso. assert (a = 0%nat) by (apply Hrole; rewrite Ha; reflexivity).
      assert (t = 0%nat) by (apply Hrole; rewrite Epc; reflexivity). congruence.
  - (* FWStore: the storing writer is now between its store and its wake call *)
    intros a Ha Hne. exists t. split; [assumption|]. upd_all; reflexivity.
  - (* FWWake with a sleeper: the (only) reader is woken *)
    intros a Ha Hne. upd_all; try discriminate. exfalso.
    assert (a = 0%nat) by (apply Hrole; rewrite Ha; reflexivity).
    assert (n = 0%nat) by (apply Hrole; rewrite Hwk; reflexivity). congruence.
  - (* FWWake without a sleeper: nobody is asleep *)
    intros a Ha Hne. upd_all; try discriminate. exfalso.
    assert (a = 0%nat) by (apply Hrole; rewrite Ha; reflexivity). subst a.
    assert (Hb : f_blocked s 0%nat = false) by (eapply first_such_none; [eassumption|lia]).
    unfold f_blocked in Hb. rewrite Ha in Hb. discriminate.
Qed.

(* every reachable state satisfies the invariant: all schedules, any number of writers *)
Theorem f_reachable_inv n cap wl nreads wk sched :
  FInv (exec fsys fstep (finit n cap wl nreads wk) sched).
Proof. apply inv_exec; [|apply finit_inv]. intros; eapply fstep_inv; eauto. Qed.


(* ---------------- enabledness ---------------- *)

Ltac enabled_cases :=
  repeat match goal with
  | |- context [match ?e with _ => _ end] => destruct e
  end; discriminate.

Lemma f_n_step s t ch s' l : fstep s t ch = Some (s', l) -> f_n s' = f_n s.
Proof.
  unfold fstep. destruct (Nat.leb (f_n s) t); [discriminate|]. cbv zeta.
  destruct (f_pc (f_thr s t)); intros Hs; step_cases Hs; try discriminate; inv_some Hs; reflexivity.
Qed.

Lemma f_n_exec sched s : f_n (exec fsys fstep s sched) = f_n s.
Proof.
  revert s. induction sched as [|[t c] r IH]; intros s; simpl; [reflexivity|].
  rewrite IH. unfold exec1; simpl. destruct (fstep s t c) as [[s' l]|] eqn:E; [|reflexivity].
  eapply f_n_step; eauto.
Qed.

(* the holder of the write mutex can always take a step *)
Lemma f_inlock_enabled s u : (u < f_n s)%nat -> f_inlock (f_pc (f_thr s u)) = true -> f_enabled s u.
Proof.
  intros Hu Hin. unfold f_enabled, fstep. apply Nat.leb_gt in Hu. rewrite Hu. cbv zeta.
  destruct (f_pc (f_thr s u)); try discriminate; enabled_cases.
Qed.

(* a writer between its store and its wake call can always take a step *)
Lemma f_pending_enabled s u : (u < f_n s)%nat -> f_pending (f_pc (f_thr s u)) = true -> f_enabled s u.
Proof.
  intros Hu Hin. unfold f_enabled, fstep. apply Nat.leb_gt in Hu. rewrite Hu. cbv zeta.
  destruct (f_pc (f_thr s u)); try discriminate; enabled_cases.
Qed.

(* with the write mutex free, only a sleeping reader and finished threads cannot run *)
Lemma f_enabled_unless s t :
  (t < f_n s)%nat -> f_wm s = None ->
  f_pc (f_thr s t) <> FRBlocked -> f_pc (f_thr s t) <> FDone -> f_enabled s t.
Proof.
  intros Ht Hwm Hb Hd. unfold f_enabled, fstep. apply Nat.leb_gt in Ht. rewrite Ht. cbv zeta.
  rewrite Hwm. destruct (f_pc (f_thr s t)); try congruence; enabled_cases.
Qed.

Definition f_stuck_pc (p : fpc) : bool := match p with FRBlocked | FDone => true | _ => false end.

(* Deadlock freedom in its full form: in every state satisfying the invariant, some thread can
   take a step, or every thread has finished, or the reader sleeps on a GENUINELY EMPTY channel
   (write_cursor = IDX(read_cursor+1)) and every writer has finished. *)
Lemma f_progress s : FInv s ->
  (exists t, (t < f_n s)%nat /\ f_enabled s t) \/
  (forall t, (t < f_n s)%nat -> f_done s t) \/
  (f_pc (f_thr s 0%nat) = FRBlocked /\ f_wcur s = ridx (f_rcur s + 1) (f_cap s) /\
   forall t, (0 < t < f_n s)%nat -> f_done s t).
Proof.
  intros [Hrole Hwl Hown Hwait Hsleep].
  destruct (f_wm s) as [o|] eqn:Ewm.
  { destruct (Hown o eq_refl) as (_ & B & C). left. exists o. split; [assumption|]. now apply f_inlock_enabled. }
  destruct (bounded_dec (fun t => negb (f_stuck_pc (f_pc (f_thr s t)))) (f_n s)) as [(t & Ht & Hp)|Hall].
  { left. exists t. split; [assumption|]. apply f_enabled_unless; auto;
      intros E; rewrite E in Hp; discriminate. }
  assert (Hst : forall t, (t < f_n s)%nat -> f_pc (f_thr s t) = FRBlocked \/ f_pc (f_thr s t) = FDone).
  { intros t Ht. specialize (Hall t Ht). destruct (f_pc (f_thr s t)); simpl in Hall; try discriminate; auto. }
  assert (Hw : forall t, (0 < t < f_n s)%nat -> f_done s t).
  { intros t [Ht0 Ht]. destruct (Hst t Ht) as [E|E]; [|exact E].
    exfalso. assert (t = 0%nat) by (apply Hrole; rewrite E; reflexivity). lia. }
  right.
  destruct (Nat.eq_dec (f_n s) 0) as [En|En].
  { left. intros t Ht. lia. }
  destruct (Hst 0%nat ltac:(lia)) as [E|E].
  - right. split; [exact E|]. split; [|exact Hw].
    rewrite <- (Hwait 0%nat) by (rewrite E; reflexivity).
    destruct (Z.eq_dec (f_wcur s) (f_reg (f_thr s 0%nat))) as [Eq|Ne]; [exact Eq|].
    exfalso. destruct (Hsleep 0%nat E Ne) as (u & Hu & Hp).
    destruct (Hst u Hu) as [E'|E']; rewrite E' in Hp; discriminate.
  - left. intros t Ht. destruct (Nat.eq_dec t 0); [subst; exact E|apply Hw; lia].
Qed.

Theorem chan_futex_no_deadlock_all n cap wl nreads wk sched :
  let s := exec fsys fstep (finit n cap wl nreads wk) sched in
  (exists t, (t < n)%nat /\ f_enabled s t) \/
  (forall t, (t < n)%nat -> f_done s t) \/
  (f_pc (f_thr s 0%nat) = FRBlocked /\ f_wcur s = ridx (f_rcur s + 1) (f_cap s) /\
   forall t, (0 < t < n)%nat -> f_done s t).
Proof.
  intros s. pose proof (f_progress s (f_reachable_inv n cap wl nreads wk sched)) as H.
  unfold s in *. rewrite f_n_exec in H. exact H.
Qed.

(* No lost wake-up, per sleeper: a reader asleep in the futex sleeps on the value it compared
   with its read position (the channel was empty when it checked), and either the channel is
   still empty or some writer is between its cursor store and its wake call -- and that writer
   can take a step.  Since the reader is the only sleeper, that wake call wakes it. *)
Theorem chan_futex_no_lost_wakeup_all n cap wl nreads wk sched t :
  let s := exec fsys fstep (finit n cap wl nreads wk) sched in
  f_pc (f_thr s t) = FRBlocked ->
  t = 0%nat /\
  f_reg (f_thr s t) = ridx (f_rcur s + 1) (f_cap s) /\
  (f_wcur s = f_reg (f_thr s t) \/
   exists u, (u < n)%nat /\ f_pending (f_pc (f_thr s u)) = true /\ f_enabled s u).
Proof.
  intros s Hb. pose proof (f_reachable_inv n cap wl nreads wk sched) as [Hrole Hwl Hown Hwait Hsleep].
  fold s in Hrole, Hwl, Hown, Hwait, Hsleep.
  split; [apply Hrole; rewrite Hb; reflexivity|].
  split; [apply Hwait; rewrite Hb; reflexivity|].
  destruct (Z.eq_dec (f_wcur s) (f_reg (f_thr s t))) as [Eq|Ne]; [left; exact Eq|right].
  destruct (Hsleep t Hb Ne) as (u & Hu & Hp). exists u.
  assert (Hn : f_n s = n) by (unfold s; rewrite f_n_exec; reflexivity).
  rewrite Hn in Hu. split; [assumption|]. split; [assumption|].
  apply f_pending_enabled; [rewrite Hn|]; assumption.
Qed.

(* the wake call of such a writer does wake the sleeping reader *)
Lemma f_wake_wakes s u ch s' l :
  FInv s -> f_pc (f_thr s u) = FWWake -> f_pc (f_thr s 0%nat) = FRBlocked ->
  fstep s u ch = Some (s', l) -> f_pc (f_thr s' 0%nat) = FRSeg.
Proof.
  intros [Hrole _ _ _ _] Hu Hb Hs. unfold fstep in Hs.
  destruct (Nat.leb (f_n s) u) eqn:Hlt; [discriminate|]. apply Nat.leb_gt in Hlt.
  rewrite Hu in Hs. cbv zeta in Hs.
  destruct (first_such (f_blocked s) (f_n s)) as [v|] eqn:Ef.
  - destruct (first_such_some _ _ _ Ef) as [Hv Hvb]. apply f_blocked_pc in Hvb.
    assert (v = 0%nat) by (apply Hrole; rewrite Hvb; reflexivity). subst v.
    inv_some Hs. simpl. assert (u <> 0%nat) by (intros ->; congruence).
    unfold upd. destruct (Nat.eqb_spec 0 u); [congruence|]. rewrite Nat.eqb_refl. reflexivity.
  - exfalso. assert (Hb0 : f_blocked s 0%nat = false) by (eapply first_such_none; [eassumption|lia]).
    unfold f_blocked in Hb0. rewrite Hb in Hb0. discriminate.
Qed.

(* non-vacuity: the window.  Reader checks (empty), writer stores and wakes nobody, the reader's
   compare-and-block then sees the changed word and does NOT sleep. *)
Definition f_demo : fsys := finit 2 4 false 1 (fun _ => 1%nat).
Example f_window_not_lost :
  let s := exec fsys fstep f_demo
             [(0,0);(0,0);(0,0); (1,0);(1,0);(1,0);(1,0);(1,0);(1,0); (0,0)]%nat in
  f_pc (f_thr s 0%nat) = FRSeg /\ f_wcur s = 1 /\ f_pc (f_thr s 1%nat) = FWSeg.
Proof. vm_compute. repeat split; reflexivity. Qed.
(* non-vacuity: the reader really sleeps, and a pending writer exists while the word differs *)
Example f_sleeper_with_pending_waker :
  let s := exec fsys fstep f_demo [(0,0);(0,0);(0,0);(0,0); (1,0);(1,0);(1,0);(1,0)]%nat in
  f_pc (f_thr s 0%nat) = FRBlocked /\ f_wcur s <> f_reg (f_thr s 0%nat) /\
  f_pending (f_pc (f_thr s 1%nat)) = true.
Proof. vm_compute. repeat split; try reflexivity. discriminate. Qed.

(* ---------------- futex waits that return early (EINTR / spurious wake-up) ---------------- *)

(* All theorems above quantify over the schedule choices 2 (interrupted) and 3 (spurious return)
   of a wait that would block.  What such a return does: nothing but send the reader back into its
   loop -- it does not give up (its script is unchanged), it does not consume (read_cursor is
   unchanged), and its next operation is the fresh load of write_cursor. *)
Lemma f_early_return_rechecks s t ch s' l :
  f_pc (f_thr s t) = FRWait -> f_wcur s = f_reg (f_thr s t) -> (ch = 2 \/ ch = 3)%nat ->
  fstep s t ch = Some (s', l) ->
  f_pc (f_thr s' t) = FRSeg /\ f_k (f_thr s' t) = f_k (f_thr s t) /\ f_pend (f_thr s' t) = [] /\
  f_rcur s' = f_rcur s /\ f_wcur s' = f_wcur s /\
  (forall u, u <> t -> f_thr s' u = f_thr s u).
Proof.
  intros Epc Eq Hch Hs. unfold fstep in Hs.
  destruct (Nat.leb (f_n s) t); [discriminate|]. rewrite Epc in Hs. cbv zeta in Hs.
  rewrite Eq, Z.eqb_refl in Hs.
  destruct Hch as [-> | ->]; simpl in Hs; inv_some Hs; simpl; rewrite upd_same;
    (repeat split; try reflexivity; intros u Hu; apply upd_other; assumption).
Qed.

(* the reader takes a message only on the strength of a check that found the channel non-empty *)
Definition f_take_ok (s : fsys) : Prop :=
  forall t, f_pc (f_thr s t) = FRStore -> f_reg (f_thr s t) <> ridx (f_rcur s + 1) (f_cap s).

Lemma f_take_step s t ch s' l : FInv s -> f_take_ok s -> fstep s t ch = Some (s', l) -> f_take_ok s'.
Proof.
  intros [Hrole _ _ _ _] Hok Hs. unfold fstep in Hs.
  destruct (Nat.leb (f_n s) t) eqn:Hlt; [discriminate|]. cbv zeta in Hs.
  destruct (f_pc (f_thr s t)) eqn:Epc; step_cases Hs; try discriminate; inv_some Hs;
    intros a Ha; upd_all; try discriminate;
    try (apply Hok; assumption);
    try (apply Z.eqb_neq; assumption).
  (* FRStore by the only reader: nobody else is at FRStore *)
  exfalso. assert (a = 0%nat) by (apply Hrole; rewrite Ha; reflexivity).
  assert (t = 0%nat) by (apply Hrole; rewrite Epc; reflexivity). congruence.
Qed.

Theorem chan_futex_take_only_after_nonempty_check_all n cap wl nreads wk sched :
  f_take_ok (exec fsys fstep (finit n cap wl nreads wk) sched).
Proof.
  assert (H : forall s, FInv s /\ f_take_ok s ->
              FInv (exec fsys fstep s sched) /\ f_take_ok (exec fsys fstep s sched)).
  { apply (inv_exec fsys fstep (fun s => FInv s /\ f_take_ok s)).
    intros s t c s' l [Hi Hk] Hs. split; [eapply fstep_inv; eauto|eapply f_take_step; eauto]. }
  apply H. split; [apply finit_inv|]. intros [|t]; simpl; discriminate.
Qed.

(* non-vacuity: interrupted, then spuriously returned, then really asleep, then woken by the write *)
Example f_interrupted_reader_rechecks_and_sleeps :
  let s1 := exec fsys fstep f_demo [(0,0);(0,0);(0,0);(0,2); (0,0);(0,0);(0,0);(0,3); (0,0);(0,0);(0,0);(0,0)]%nat in
  let s2 := exec fsys fstep s1 [(1,0);(1,0);(1,0);(1,0);(1,0);(1,0)]%nat in
  f_pc (f_thr s1 0%nat) = FRBlocked /\ f_k (f_thr s1 0%nat) = 1%nat /\ f_rcur s1 = 3 /\
  f_pc (f_thr s2 0%nat) = FRSeg /\ f_wcur s2 = 1.
Proof. vm_compute. repeat split; reflexivity. Qed.
