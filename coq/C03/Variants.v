(* C03 — REFUTATIONS of classic broken variants.  Nothing here is part of the faithful models:
   each [*_variant] step function overrides one program point of the faithful step function
   (C03/Model.v, C04/Model.v) with the textbook mistake, and a [vm_compute] witness shows that
   the invariant proved for the faithful model FAILS (and what it leads to).  The variants are
   coarser than the harness granularity at the overridden point (they are not used for trace
   acceptance), which is irrelevant for the witnesses. *)
From MV Require Import C03.Model C03.ProofsCommon.
From MV Require Import C03.ProofsChanF C03.ProofsChanM C03.ProofsRing C03.ProofsAbq C03.ProofsDbuf.
From MV Require C04.Model C04.ProofsLock C03.ProofsSync.
Local Open Scope Z_scope.

(* ------------------------------------------------------------------ *)
(* (a) channel, futex reader: the futex waits on a RE-LOADED cursor value instead of the checked
   one.  The re-loaded value always equals the word, so the compare-and-block always sleeps. *)
Definition fstep_reload (s : fsys) (t : nat) (ch : nat) : option (fsys * label) :=
  match f_pc (f_thr s t) with
  | FRWait =>
    if Nat.leb (f_n s) t then None
    else Some (fset s t (fpcset (f_thr s t) FRBlocked), ev OFwait fc_wcur MoNone (f_wcur s) (f_wcur s) 1)
  | _ => fstep s t ch
  end.

(* reader checks (empty) | writer publishes, wakes nobody, finishes | reader "waits on what it
   re-loads": asleep for ever with one message in the channel *)
Definition f_lost_sched : list (nat * nat) :=
  [(0,0);(0,0);(0,0); (1,0);(1,0);(1,0);(1,0);(1,0);(1,0);(1,0);(1,0); (0,0)]%nat.
Example chan_futex_reload_loses_wakeup :
  let s := exec fsys fstep_reload (finit 2 4 false 1 (fun _ => 1%nat)) f_lost_sched in
  f_pc (f_thr s 0%nat) = FRBlocked /\ f_done s 1%nat /\
  f_wcur s <> f_reg (f_thr s 0%nat) /\                       (* premise of fi_sleep holds ... *)
  (forall u, (u < 2)%nat -> f_pending (f_pc (f_thr s u)) = false) /\   (* ... its conclusion does not *)
  f_wcur s <> ridx (f_rcur s + 1) (f_cap s) /\               (* the channel is NOT empty *)
  (forall t, (t < 2)%nat -> fstep_reload s t 0 = None).      (* and nobody can ever run again *)
Proof.
  cbv zeta. repeat split;
    try (intros [|[|u]] H; [vm_compute; reflexivity|vm_compute; reflexivity|lia]);
    vm_compute; try reflexivity; discriminate.
Qed.
Example chan_futex_reload_breaks_invariant :
  ~ FInv (exec fsys fstep_reload (finit 2 4 false 1 (fun _ => 1%nat)) f_lost_sched).
Proof.
  intros [_ _ _ _ Hsleep].
  destruct (Hsleep 0%nat) as (u & Hu & Hp); [vm_compute; reflexivity|vm_compute; discriminate|].
  revert Hu Hp. vm_compute. intros Hu. destruct u as [|[|u]]; [discriminate|discriminate|lia].
Qed.

(* (a') the writer skips the wake-up when the backlog it computed from its EARLIER load of
   read_cursor is at least capacity/2 ("the reader is busy anyway").  The reader can drain the
   backlog and go to sleep between that load and the store of write_cursor: the message just
   published is never announced.  (This is the seeded change C03-5.) *)
Definition fstep_skipwake (s : fsys) (t : nat) (ch : nat) : option (fsys * label) :=
  match f_pc (f_thr s t) with
  | FWWake =>
    if Nat.leb (f_n s) t then None else
    let x := f_thr s t in
    if f_cap s / 2 <=? ridx (f_reg2 x + f_cap s - 2 - f_reg x) (f_cap s)
    then Some (fset s t {| f_pc := FWSeg; f_k := pred (f_k x); f_reg := f_reg x; f_reg2 := f_reg2 x;
                           f_pend := [(n_wrote, 0)]; f_g := f_g x |}, LPlain [])
    else fstep s t ch
  | _ => fstep s t ch
  end.
(* capacity 8, one writer with 5 messages: 4 published while the reader is away, the writer loads
   read_cursor for the 5th and is pre-empted before its store; the reader reads all 4 and sleeps;
   the writer stores, skips the wake (backlog 4 >= 4) and finishes *)
Definition f_skip_sched : list (nat * nat) :=
  (repeat (1,0) 24 ++ repeat (1,0) 3 ++ repeat (0,0) 20 ++ repeat (1,0) 5)%nat.
Example chan_futex_skipped_wake_deadlocks :
  let s := exec fsys fstep_skipwake (finit 2 8 false 5 (fun _ => 5%nat)) f_skip_sched in
  f_pc (f_thr s 0%nat) = FRBlocked /\ f_done s 1%nat /\
  f_wcur s <> f_reg (f_thr s 0%nat) /\
  (forall u, (u < 2)%nat -> f_pending (f_pc (f_thr s u)) = false) /\
  f_wcur s <> ridx (f_rcur s + 1) (f_cap s) /\
  (forall t, (t < 2)%nat -> fstep_skipwake s t 0 = None).
Proof.
  cbv zeta. repeat split;
    try (intros [|[|u]] H; [vm_compute; reflexivity|vm_compute; reflexivity|lia]);
    vm_compute; try reflexivity; discriminate.
Qed.

(* ------------------------------------------------------------------ *)
(* (c) ring buffer: the same mistake in read_wait *)
Definition gstep_reload (s : gsys) (t : nat) (ch : nat) : option (gsys * label) :=
  match g_pc (g_thr s t) with
  | GRWait =>
    if Nat.leb (g_n s) t then None
    else Some (gset s t (gpcset (g_thr s t) GRBlocked), ev OFwait gc_cursor MoNone (g_cursor s) (g_cursor s) 1)
  | _ => gstep s t ch
  end.
Example ring_reload_loses_wakeup :
  let s := exec gsys gstep_reload (ginit 2 1 4 GMWait false (fun _ => 1%nat))
             [(0,0);(0,0);(0,0); (1,0);(1,0);(1,0);(1,0);(1,0);(1,0); (0,0)]%nat in
  g_pc (g_thr s 0%nat) = GRBlocked /\ g_done s 1%nat /\
  g_cursor s <> g_reg (g_thr s 0%nat) /\
  (forall u, (u < 2)%nat -> g_pending (g_pc (g_thr s u)) = false) /\
  (forall t, (t < 2)%nat -> gstep_reload s t 0 = None).
Proof.
  cbv zeta. repeat split;
    try (intros [|[|u]] H; [vm_compute; reflexivity|vm_compute; reflexivity|lia]);
    vm_compute; try reflexivity; discriminate.
Qed.

(* ------------------------------------------------------------------ *)
(* (b) channel, condvar reader: `if` instead of the loop around the wait: after ANY wake-up the
   reader takes without re-checking.  One spurious wake-up and it reads a slot nobody wrote. *)
Definition mstep_if (s : msys) (t : nat) (ch : nat) : option (msys * label) :=
  match m_pc (m_thr s t) with
  | MRWoken =>
    if Nat.leb (m_n s) t then None else
    match m_rm s with
    | Some _ => None
    | None =>
      Some ({| m_n := m_n s; m_cap := m_cap s; m_wl := m_wl s; m_wcur := m_wcur s;
               m_rcur := ridx (m_rcur s + 1) (m_cap s); m_wm := m_wm s; m_rm := Some t;
               m_thr := upd (m_thr s) t (mpcset (m_thr s t) MRUnlock) |}, ev OCvwoke mc_rcv MoNone 0 0 0)
    end
  | _ => mstep s t ch
  end.
Example chan_cv_if_reads_empty_channel :
  let s := exec msys mstep_if (minit 2 4 false 1 (fun _ => 1%nat))
             [(0,0);(0,0);(0,0);(0,0); (0,1); (0,0);(0,0);(0,0);(0,0)]%nat in
  m_done s 0%nat /\                                   (* the reader returned a "message" ... *)
  m_wcur s = 0 /\ m_pc (m_thr s 1%nat) = MWSeg /\     (* ... although nothing was ever written *)
  m_k (m_thr s 1%nat) = 1%nat.
Proof. vm_compute. repeat split; reflexivity. Qed.

(* ------------------------------------------------------------------ *)
(* (d) array blocking queue: `if` instead of `while` around both waits *)
Definition qstep_if (s : qsys) (t : nat) (ch : nat) : option (qsys * label) :=
  match q_pc (q_thr s t) with
  | QCWoken =>
    if Nat.leb (q_n s) t then None else
    match q_m s with
    | Some _ => None
    | None => Some (qset (qset_cnt (qset_m s (Some t)) (q_cnt s - 1)) t (qpcset (q_thr s t) QCSig),
                    ev OCvwoke qc_ne MoNone 0 0 0)
    end
  | QPWoken =>
    if Nat.leb (q_n s) t then None else
    match q_m s with
    | Some _ => None
    | None => Some (qset (qset_cnt (qset_m s (Some t)) (q_cnt s + 1)) t (qpcset (q_thr s t) QPSig),
                    ev OCvwoke qc_nf MoNone 0 0 0)
    end
  | _ => qstep s t ch
  end.
(* a consumer sleeps on the empty queue, wakes spuriously and takes: count = -1 *)
Example abq_if_takes_from_empty_queue :
  let s := exec qsys qstep_if (qinit 2 1 1 (fun _ => 1%nat))
             [(0,0);(0,0);(0,0);(0,0); (0,1); (0,0)]%nat in
  q_cnt s = -1 /\ q_pc (q_thr s 0%nat) = QCSig /\ q_pc (q_thr s 1%nat) = QPSeg.
Proof. vm_compute. repeat split; reflexivity. Qed.
Example abq_if_breaks_invariant :
  ~ QInv (exec qsys qstep_if (qinit 2 1 1 (fun _ => 1%nat)) [(0,0);(0,0);(0,0);(0,0); (0,1); (0,0)]%nat).
Proof. intros [_ _ Hcnt _ _]. revert Hcnt. vm_compute. intros [H _]. apply H. reflexivity. Qed.
(* a producer sleeps on the full queue (capacity 1), wakes spuriously and puts: count = 2 *)
Example abq_if_puts_into_full_queue :
  let s := exec qsys qstep_if (qinit 2 0 1 (fun _ => 1%nat))
             [(0,0);(0,0);(0,0);(0,0);(0,0);(0,0); (1,0);(1,0);(1,0);(1,0); (1,1); (1,0)]%nat in
  q_cnt s = 2 /\ q_cap s = 1.
Proof. vm_compute. split; reflexivity. Qed.

(* (d') ONE condition variable for both directions (cv_not_empty and cv_not_full merged; put and
   take still wait in `while` loops and notify_one after every state change).  "The queue cannot
   be full and empty at once, so producers and consumers never wait together" is wrong: a woken
   producer that has not yet re-acquired the mutex and a consumer that finds the queue empty again
   do wait together, and then a notify_one can go to a waiter of the wrong kind, which re-sleeps.
   abq_cv_waiters_homogeneous fails by construction: a notify may wake ANY sleeper.  (Seeded
   change C03-8.) *)
Definition q_anyasleep (s : qsys) (u : nat) : bool :=
  match q_pc (q_thr s u) with QPAsleep | QCAsleep => true | _ => false end.
Definition q_wake_any (s : qsys) (u : nat) : qsys :=
  qset s u (qpcset (q_thr s u) (match q_pc (q_thr s u) with QPAsleep => QPWoken | _ => QCWoken end)).
Definition qstep_onecv (s : qsys) (t : nat) (ch : nat) : option (qsys * label) :=
  let x := q_thr s t in
  match q_pc x with
  | QPSig =>
    if Nat.leb (q_n s) t then None else
    let w := pick_waiter (q_anyasleep s) (q_n s) ch in
    let s1 := match w with Some u => q_wake_any s u | None => s end in
    Some (qset s1 t (qpcset x QPSeg2), ev OCvsig qc_ne MoNone (zcount w) (zfirst w) 0)
  | QCSig =>
    if Nat.leb (q_n s) t then None else
    let w := pick_waiter (q_anyasleep s) (q_n s) ch in
    let s1 := match w with Some u => q_wake_any s u | None => s end in
    Some (qset s1 t (qpcset x QCSeg2), ev OCvsig qc_ne MoNone (zcount w) (zfirst w) 0)
  | _ => qstep s t ch
  end.
(* capacity 1, consumer (tid 0, three takes), producers tid 1 (two puts) and tid 2 (one put):
   P1 fills the queue; P1 and P2 sleep on the full queue; the consumer takes, its notify wakes P1;
   the consumer comes back first, finds the queue empty and sleeps on the same condition variable;
   P1 puts, and its notify_one goes to P2 (choice 3 = thread 2), who finds the queue full and
   sleeps again.  Consumer asleep with a message queued, P2 asleep holding another, P1 finished. *)
Definition q_onecv_sched : list (nat * nat) :=
  (repeat (1,0) 6 ++ repeat (1,0) 4 ++ repeat (2,0) 4 ++
   [(0,0);(0,0);(0,0);(0,2);(0,0);(0,0)] ++ repeat (0,0) 4 ++
   [(1,0);(1,0);(1,3);(1,0);(1,0);(1,0);(1,0)] ++ repeat (2,0) 3)%nat.
Definition q_onecv_init : qsys :=
  qinit 3 1 1 (fun t => match t with O => 3%nat | 1%nat => 2%nat | _ => 1%nat end).
Example abq_single_cv_deadlocks :
  let s := exec qsys qstep_onecv q_onecv_init q_onecv_sched in
  q_pc (q_thr s 0%nat) = QCAsleep /\ q_cnt s = 1 /\                (* consumer asleep, a message queued *)
  q_pc (q_thr s 2%nat) = QPAsleep /\ q_done s 1%nat /\             (* a producer asleep, the other finished *)
  q_m s = None /\
  (forall t, (t < 3)%nat -> qstep_onecv s t 0 = None).             (* nobody can ever run again *)
Proof.
  cbv zeta. repeat split;
    try (intros [|[|[|u]]] H; [vm_compute; reflexivity|vm_compute; reflexivity|vm_compute; reflexivity|lia]);
    vm_compute; reflexivity.
Qed.
(* ... and the per-sleeper invariant of the faithful model is violated in that state: a consumer
   sleeps although the queue holds an item and no wake token is in flight *)
Example abq_single_cv_breaks_invariant :
  ~ QInv (exec qsys qstep_onecv q_onecv_init q_onecv_sched).
Proof.
  intros [_ _ _ _ Hne].
  assert (E1 : A_ne (exec qsys qstep_onecv q_onecv_init q_onecv_sched) = 1%nat) by (vm_compute; reflexivity).
  assert (E2 : T_ne (exec qsys qstep_onecv q_onecv_init q_onecv_sched) = 0%nat) by (vm_compute; reflexivity).
  assert (E3 : q_cnt (exec qsys qstep_onecv q_onecv_init q_onecv_sched) = 1) by (vm_compute; reflexivity).
  rewrite E1, E2, E3 in Hne. specialize (Hne ltac:(lia)). lia.
Qed.
(* the same schedule on the faithful model (two condition variables): put's notify can only reach
   the consumer, whatever the choice, and everybody gets on *)
Example abq_two_cvs_same_schedule_fine :
  let s := exec qsys qstep q_onecv_init q_onecv_sched in
  q_pc (q_thr s 0%nat) <> QCAsleep /\ exists t, (t < 3)%nat /\ qstep s t 0 <> None.
Proof. cbv zeta. split; [vm_compute; discriminate|exists 0%nat; split; [lia|vm_compute; discriminate]]. Qed.

(* ------------------------------------------------------------------ *)
(* (e) double buffer: `if` instead of `while` in write: a spuriously woken writer appends to the
   full back buffer (index = capacity: out of bounds in the C code) *)
Definition dstep_if (s : dsys) (t : nat) (ch : nat) : option (dsys * label) :=
  match d_pc (d_thr s t) with
  | DWWoken =>
    if Nat.leb (d_n s) t then None else
    match d_m s with
    | Some _ => None
    | None => Some (dset (dset_back (dset_m s (Some t)) (d_back s + 1)) t (dpcset (d_thr s t) DWSig),
                    ev OCvwoke dc_nf MoNone 0 0 0)
    end
  | _ => dstep s t ch
  end.
Example dbuf_if_writes_into_full_buffer :
  let s := exec dsys dstep_if (dinit 3 1 false 2 (fun _ => 1%nat))
             [(1,0);(1,0);(1,0);(1,0);(1,0);(1,0); (2,0);(2,0);(2,0);(2,0); (2,1); (2,0)]%nat in
  d_back s = 2 /\ d_cap s = 1.
Proof. vm_compute. split; reflexivity. Qed.
Example dbuf_if_breaks_invariant :
  ~ DInv (exec dsys dstep_if (dinit 3 1 false 2 (fun _ => 1%nat))
            [(1,0);(1,0);(1,0);(1,0);(1,0);(1,0); (2,0);(2,0);(2,0);(2,0); (2,1); (2,0)]%nat).
Proof. intros [_ _ _ _ Hb _ _]. revert Hb. vm_compute. intros [_ H]. apply H. reflexivity. Qed.

(* ------------------------------------------------------------------ *)
(* (e') NON-BLOCKING double buffer: the MUGGLE_ERR_FULL return path forgets the unlock (the
   refactoring slip "a non-blocking producer never sleeps: test once, outside the wait loop" that
   drops the muggle_mutex_unlock accompanying the early return).  The refused writer is back in
   client code OWNING the mutex: its own retry and the reader's next read block for ever although an
   item is waiting in the back buffer -- every participant asleep while messages remain. *)
Definition dstep_fullkeeps (s : dsys) (t : nat) (ch : nat) : option (dsys * label) :=
  match d_pc (d_thr s t) with
  | DWChk =>
    if Nat.leb (d_n s) t then None else
    if (d_back s =? d_cap s) && d_nb s then Some (dset s t (dpcset (d_thr s t) DWSegF), LPlain [])
    else dstep s t ch
  | _ => dstep s t ch
  end.
Definition d_fullkeeps_sched : list (nat * nat) :=
  List.repeat (1%nat, 0%nat) 6 ++          (* writer: first item accepted (capacity 1) *)
  List.repeat (1%nat, 0%nat) 5 ++          (* second write: lock, FULL, return WITHOUT unlock, note, yield *)
  [(0,0); (1,0)]%nat.                       (* reader goes for the mutex; writer retries: at its lock *)
Example dbuf_full_return_keeping_mutex_deadlocks :
  let s := exec dsys dstep_fullkeeps (dinit 2 1 true 2 (fun _ => 2%nat)) d_fullkeeps_sched in
  d_back s = 1 /\ d_m s = Some 1%nat /\
  d_pc (d_thr s 1%nat) = DWLock /\ d_pc (d_thr s 0%nat) = DRLock /\
  (forall t, (t < 2)%nat -> dstep_fullkeeps s t 0 = None).
Proof.
  cbv zeta. repeat split; try (vm_compute; reflexivity).
  intros [|[|u]] H; [vm_compute; reflexivity|vm_compute; reflexivity|lia].
Qed.
(* ... and it breaks the ownership invariant (owner => inside a call between lock and unlock / wait) *)
Example dbuf_full_return_keeping_mutex_breaks_invariant :
  ~ DInv (exec dsys dstep_fullkeeps (dinit 2 1 true 2 (fun _ => 2%nat)) (List.repeat (1%nat, 0%nat) 9)).
Proof.
  intros [_ _ _ Hown _ _ _].
  assert (E : d_m (exec dsys dstep_fullkeeps (dinit 2 1 true 2 (fun _ => 2%nat)) (List.repeat (1%nat, 0%nat) 9)) = Some 1%nat)
    by (vm_compute; reflexivity).
  destruct (Hown _ E) as [_ C]. revert C. vm_compute. discriminate.
Qed.
(* the faithful model on the same schedule: the refused writer has released the mutex, the reader
   gets it *)
Example dbuf_full_return_faithful_same_schedule :
  let s := exec dsys dstep (dinit 2 1 true 2 (fun _ => 2%nat)) d_fullkeeps_sched in
  d_m s = None /\ exists t, (t < 2)%nat /\ dstep s t 0 <> None.
Proof. cbv zeta. split; [vm_compute; reflexivity|exists 0%nat; split; [lia|vm_compute; discriminate]]. Qed.

(* ------------------------------------------------------------------ *)
(* (f) synclock: wake BEFORE the store of UNLOCK.  The woken thread finds the word still LOCK,
   goes back to sleep, then the store happens and nobody is left to wake it. *)
Module SyncVariant.
Import C04.Model C04.ProofsLock C03.ProofsSync.
Definition lstep_wake_first (P : params) (s : lsys) (t : nat) (ch : nat) : option (lsys * label) :=
  let x := l_thr s t in
  match l_pc x with
  | LRel =>
    if Nat.leb (l_n s) t then None else
    match first_blocked (l_thr s) (l_n s) with
    | Some u => Some (set_thr (set_thr s u (set_pc (l_thr s u) LStart)) t (set_pc x LRelSeg),
                      LEv (Ev OFwake lock_cell MoNone 1 1 0))
    | None => Some (set_thr s t (set_pc x LRelSeg), LEv (Ev OFwake lock_cell MoNone 1 0 0))
    end
  | LWake =>
    if Nat.leb (l_n s) t then None else
    Some (set_thr (set_lock s 0 (l_stamp s)) t
            {| l_pc := LStart; l_iters := pred (l_iters x); l_seen := l_seen x; l_reg := l_reg x |},
          LEv (Ev OStore lock_cell (mo_sync_store P) 0 0 0))
  | _ => lstep P true s t ch
  end.
Example synclock_wake_before_store_deadlocks :
  let s := exec lsys (lstep_wake_first any_params) (linit KSync 2 1)
             [(0,0);(0,0);(0,0);(0,0);(0,0);     (* T0 acquires and is about to unlock *)
              (1,0);(1,0);(1,0);(1,0);            (* T1 fails, sleeps on the word *)
              (0,0);                              (* T0: wake first: T1 is woken *)
              (1,0);(1,0);(1,0);(1,0);            (* T1 retries: word still LOCK: sleeps again *)
              (0,0);(0,0);(0,0);(0,0)]%nat in     (* T0: store UNLOCK, finishes *)
  l_pc (l_thr s 1%nat) = LBlocked /\ l_lock s = 0 /\ l_pc (l_thr s 0%nat) = LDone /\
  (forall t, (t < 2)%nat -> lstep_wake_first any_params s t 0 = None).
Proof.
  cbv zeta. repeat split;
    try (intros [|[|u]] H; [vm_compute; reflexivity|vm_compute; reflexivity|lia]);
    vm_compute; reflexivity.
Qed.
End SyncVariant.
