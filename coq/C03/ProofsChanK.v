(* C03 (g) — channel, every writer-lock kind (none / mutex / spinlock / synclock) x every reader mode
   (futex / condvar / busy loop): no lost wake-up (reader on write_cursor / read_cv, writers asleep
   on the synclock word), no deadlock, every return path of muggle_channel_write -- MUGGLE_ERR_FULL
   included -- leaves the writer lock and read_mutex released.  Every schedule (spurious weak-CAS
   failures, early futex returns, spurious condvar wake-ups), any number of writers.  This file:
   the invariants and their preservation; the theorems are in ProofsChanK2.v. *)
From MV Require Import C03.Model C03.ModelK C03.ProofsCommon.
Local Open Scope Z_scope.

Definition k_is_reader (p : kpc) : bool :=
  match p with
  | KRSeg | KRLoad | KRChk | KRStore | KRWait | KRBlocked
  | KMLock | KMChk | KMUnlock | KMWait | KMAsleep | KMWoken => true
  | _ => false
  end.
(* program points that exist only in some reader modes / with some writer-lock kinds *)
Definition k_notmr (p : kpc) : bool :=          (* not READ_MUTEX: futex or busy reader *)
  match p with KRLoad | KRChk | KRStore | KWLoadR | KWChk | KWStore => true | _ => false end.
Definition k_rsonly (p : kpc) : bool :=         (* READ_SYNC only *)
  match p with KRWait | KRBlocked => true | _ => false end.
Definition k_rmonly (p : kpc) : bool :=         (* READ_MUTEX only *)
  match p with
  | KMLock | KMChk | KMUnlock | KMWait | KMAsleep | KMWoken | KWRmLock | KWRmChk | KWRmUnlock => true
  | _ => false
  end.
Definition k_wakepc (p : kpc) : bool := match p with KWWake => true | _ => false end.   (* not READ_BUSY *)
Definition k_lsonly (p : kpc) : bool :=         (* WRITE_SYNC only *)
  match p with KWLWait | KWLBlocked | KWRelSeg | KWLWake => true | _ => false end.
Definition k_sponly (p : kpc) : bool := match p with KWYield => true | _ => false end.   (* WRITE_SPIN only *)
Definition k_failpc (p : kpc) : bool := match p with KWFail => true | _ => false end.    (* lock word only *)
Definition k_lockedpc (p : kpc) : bool :=       (* not WRITE_SINGLE: the lock / unlock operations and their segments *)
  match p with KWAcq | KWIn | KWRel | KWOut => true | _ => false end.
Definition lk_locked (l : klk) : bool := match l with KLSingle => false | _ => true end.
Definition rm_notmutex (m : krm) : bool := match m with KRMutex => false | _ => true end.
Definition rm_notbusy (m : krm) : bool := match m with KRBusy => false | _ => true end.
Definition lk_word (l : klk) : bool := match l with KLSpin | KLSync => true | _ => false end.
(* inside muggle_channel_write / muggle_channel_read with work in hand *)
Definition k_active (p : kpc) : bool :=
  match p with KRSeg | KWSeg | KFin | KDone => false | _ => true end.
(* holds the lock word: between the successful test-and-set / compare-exchange and the clear / store *)
Definition k_holds (p : kpc) : bool :=
  match p with
  | KWIn | KWLoadR | KWChk | KWStore | KWRmLock | KWRmChk | KWRmUnlock | KWRet | KWRel => true
  | _ => false
  end.
Definition k_rmholds (p : kpc) : bool :=
  match p with KMChk | KMUnlock | KMWait | KWRmChk | KWRmUnlock => true | _ => false end.
Definition k_waiting (p : kpc) : bool := match p with KRWait | KRBlocked => true | _ => false end.
(* a writer between making the channel non-empty and its wake / notify call *)
Definition k_pendpc (p : kpc) : bool :=
  match p with KWRmUnlock | KWRet | KWRel | KWRelSeg | KWLWake | KWOut | KWWake => true | _ => false end.
Definition k_pending (x : kthread) : bool := k_ok x && k_pendpc (k_pc x).
(* synclock: an unlocker between its store of UNLOCK and its wake call *)
Definition k_lwaker (p : kpc) : bool := match p with KWRelSeg | KWLWake => true | _ => false end.
(* a writer about to (re)try the acquire operation *)
Definition k_about (x : kthread) : bool :=
  match k_pc x with
  | KWAcq => true
  | KWSeg => negb (Nat.eqb (k_k x) 0)
  | _ => false
  end.
(* client code: outside muggle_channel_write / muggle_channel_read *)
Definition k_outside (p : kpc) : bool :=
  match p with KRSeg | KWSeg | KWYieldF | KFin | KDone => true | _ => false end.

Definition k_empty (s : ksys) : Prop := ridx (k_rcur s + 1) (k_cap s) = k_wcur s.
Definition k_enabled (s : ksys) (t : nat) : Prop := kstep s t 0 <> None.
Definition k_done (s : ksys) (t : nat) : Prop := k_pc (k_thr s t) = KDone.

(* ---------------- structural invariant ---------------- *)
Record KInv1 (s : ksys) : Prop := {
  k1_role : forall t, k_is_reader (k_pc (k_thr s t)) = true -> t = 0%nat;
  k1_nm : forall t, k_notmr (k_pc (k_thr s t)) = true -> rm_notmutex (k_rmode s) = true;
  k1_rs : forall t, k_rsonly (k_pc (k_thr s t)) = true -> k_rmode s = KRSync;
  k1_rm : forall t, k_rmonly (k_pc (k_thr s t)) = true -> k_rmode s = KRMutex;
  k1_wk : forall t, k_wakepc (k_pc (k_thr s t)) = true -> rm_notbusy (k_rmode s) = true;
  k1_ls : forall t, k_lsonly (k_pc (k_thr s t)) = true -> k_lk s = KLSync;
  k1_sp : forall t, k_sponly (k_pc (k_thr s t)) = true -> k_lk s = KLSpin;
  k1_fl : forall t, k_failpc (k_pc (k_thr s t)) = true -> lk_word (k_lk s) = true;
  k1_lp : forall t, k_lockedpc (k_pc (k_thr s t)) = true -> lk_locked (k_lk s) = true;
  k1_single : lk_locked (k_lk s) = false -> k_lock s = 0;
  k1_k : forall t, k_active (k_pc (k_thr s t)) = true -> (0 < k_k (k_thr s t))%nat;
  k1_01 : k_lock s = 0 \/ k_lock s = 1;
  k1_held : k_lock s = 1 -> exists u, (u < k_n s)%nat /\ k_holds (k_pc (k_thr s u)) = true;
  k1_rmexcl : forall t, k_rmholds (k_pc (k_thr s t)) = true -> k_rm s = Some t;
  k1_rmown : forall u, k_rm s = Some u -> (u < k_n s)%nat /\ k_rmholds (k_pc (k_thr s u)) = true;
  (* thread ids beyond the number of threads never move *)
  k1_lt : forall t, (k_n s <= t)%nat -> k_active (k_pc (k_thr s t)) = false;
}.

Lemma kinit_inv1 n cap rm lk nreads wk : KInv1 (kinit n cap rm lk nreads wk).
Proof.
  constructor; simpl.
  - intros [|t]; simpl; [reflexivity|discriminate].
  - intros [|t]; simpl; discriminate.
  - intros [|t]; simpl; discriminate.
  - intros [|t]; simpl; discriminate.
  - intros [|t]; simpl; discriminate.
  - intros [|t]; simpl; discriminate.
  - intros [|t]; simpl; discriminate.
  - intros [|t]; simpl; discriminate.
  - intros [|t]; simpl; discriminate.
  - reflexivity.
  - intros [|t]; simpl; discriminate.
  - left; reflexivity.
  - discriminate.
  - intros [|t]; simpl; discriminate.
  - discriminate.
  - intros [|t] _; reflexivity.
Qed.

Lemma k_rblocked_pc s u : k_rblocked s u = true -> k_pc (k_thr s u) = KRBlocked.
Proof. unfold k_rblocked. destruct (k_pc (k_thr s u)); congruence. Qed.
Lemma k_lblocked_pc s u : k_lblocked s u = true -> k_pc (k_thr s u) = KWLBlocked.
Proof. unfold k_lblocked. destruct (k_pc (k_thr s u)); congruence. Qed.
Lemma k_masleep_pc s u : k_masleep s u = true -> k_pc (k_thr s u) = KMAsleep.
Proof. unfold k_masleep. destruct (k_pc (k_thr s u)); congruence. Qed.

Ltac step_cases Hs :=
  repeat match type of Hs with
  | context [match ?e with _ => _ end] => destruct e eqn:?
  end.
Ltac old_pc_contra C :=
  match goal with
  | E : k_pc (k_thr _ ?x) = _ |- _ => rewrite E in C; discriminate
  end.
Ltac z_norm :=
  repeat match goal with H : Z.eqb _ _ = true |- _ => apply Z.eqb_eq in H end;
  repeat match goal with H : Z.eqb _ _ = false |- _ => apply Z.eqb_neq in H end.

(* woken threads named by first_such / pick_waiter *)
Ltac name_woken :=
  try match goal with
  | E : first_such (k_rblocked _) _ = Some ?u |- _ =>
    let H0 := fresh "Hul" in let H1 := fresh "Hwk" in
    destruct (first_such_some _ _ _ E) as [H0 H1]; apply k_rblocked_pc in H1
  | E : first_such (k_lblocked _) _ = Some ?u |- _ =>
    let H0 := fresh "Hul" in let H1 := fresh "Hwk" in
    destruct (first_such_some _ _ _ E) as [H0 H1]; apply k_lblocked_pc in H1
  | E : pick_waiter (k_masleep _) _ _ = Some ?u |- _ =>
    let H0 := fresh "Hul" in let H1 := fresh "Hwk" in
    destruct (pick_waiter_some _ _ _ _ E) as [H0 H1]; apply k_masleep_pc in H1
  end.

(* case analysis on every [upd] / thread-id comparison in sight, reducing only record projections *)
Ltac k_cbn :=
  cbn [k_thr k_pc k_k k_ok k_reg k_pend kset kset_lock kset_rm kset_wcur kset_rcur kset_cached kpcset kokset
       k_n k_cap k_rmode k_lk k_wcur k_rcur k_cached k_lock k_rm fst snd
       k_is_reader k_notmr k_rsonly k_rmonly k_wakepc k_lsonly k_sponly k_failpc k_lockedpc k_active k_holds
       k_rmholds k_waiting k_pendpc k_lwaker k_outside rm_notmutex rm_notbusy lk_word lk_locked] in *.
Ltac upd_k := k_cbn; unfold upd in *; repeat (match goal with
  | H : context [Nat.eqb ?a ?t] |- _ => destruct (Nat.eqb_spec a t); subst
  | |- context [Nat.eqb ?a ?t] => destruct (Nat.eqb_spec a t); subst
  end; k_cbn); try congruence.

(* ---- structural facts about a thread, read off its (known) program point ---- *)
Inductive Marked (n : nat) : Prop := mark.
Inductive Used {A : Type} (c : A) (n : nat) : Prop := used.

(* structural facts about thread x, read off its (known) program point: every hypothesis of the
   form [forall t, cls (k_pc (k_thr s t)) = true -> fact t] is instantiated with x *)
Ltac facts_for x :=
  repeat match goal with
  | H : forall t : nat, ?c (k_pc (k_thr ?s t)) = true -> _ |- _ =>
    lazymatch goal with | _ : Used c x |- _ => fail | _ => idtac end;
    assert (Used c x) by constructor;
    let R := fresh "F" in pose proof (H x) as R;
    repeat match goal with E : k_pc (k_thr _ x) = _ |- _ => rewrite E in R end;
    simpl in R; try specialize (R eq_refl)
  end.
Ltac facts_all :=
  repeat match goal with
  | E : k_pc (k_thr ?s ?x) = ?p |- _ =>
    lazymatch goal with | _ : Marked x |- _ => fail | _ => idtac end;
    assert (Marked x) by constructor; facts_for x
  end.
Ltac subst_modes :=
  repeat match goal with
  | E : k_rmode _ = _ |- _ => progress (rewrite E in * )
  | E : k_lk _ = _ |- _ => progress (rewrite E in * )
  end.
Ltac k_contra := exfalso; z_norm; facts_all; subst_modes; k_cbn; first [congruence | lia].


(* a per-thread classification [cls (pc t) = true -> concl]: unchanged threads keep it, the
   stepping / woken thread's new pc is either outside the class or the old pc gives the fact *)
Ltac norm_modes :=
  repeat match goal with
  | E : k_rmode ?s = ?v |- context [k_rmode ?s] => rewrite E
  | E : k_lk ?s = ?v |- context [k_lk ?s] => rewrite E
  end.

Ltac t_class H :=
  intros a Ha; upd_k; try discriminate; norm_modes; k_cbn;
  first [ assumption | reflexivity | congruence
        | (let X := fresh in pose proof (H _ Ha) as X; simpl in X; congruence)
        | match goal with E : k_pc (k_thr _ ?x) = _ |- _ =>
            let X := fresh in pose proof (H x) as X; rewrite E in X; specialize (X eq_refl); simpl in X; congruence end
        | match goal with E : k_pc (k_thr _ ?x) = _ |- _ =>
            facts_for x; norm_modes; k_cbn; first [reflexivity | congruence | (exfalso; congruence)] end ].

Ltac t_k Hk :=
  intros a Ha; upd_all; try discriminate; try lia;
  first [ (apply Hk; assumption)
        | match goal with E : k_pc (k_thr _ ?x) = _ |- _ =>
            let X := fresh in pose proof (Hk x) as X; rewrite E in X; specialize (X eq_refl); simpl; lia end
        | match goal with E : k_k _ = S _ |- _ => rewrite E; lia end ].

Ltac t_held Hheld H01 :=
  intros Hl; simpl in Hl; try discriminate; try lia;
  try (exfalso; match goal with HS : lk_locked _ = false -> k_lock _ = 0 |- _ =>
         let X := fresh in assert (X := HS eq_refl); lia end);
  first [ (let u := fresh "u" in let Hu := fresh "Hu" in let Hp := fresh "Hp" in
           destruct (Hheld Hl) as (u & Hu & Hp); exists u; split; [assumption|]; upd_all;
           first [assumption | reflexivity | old_pc_contra Hp])
        | (let u := fresh "u" in let Hu := fresh "Hu" in let Hp := fresh "Hp" in
           z_norm; destruct H01 as [H01|H01]; [congruence|];
           destruct (Hheld H01) as (u & Hu & Hp); exists u; split; [assumption|]; upd_all;
           first [assumption | reflexivity | old_pc_contra Hp]) ].

Ltac t_rmexcl Hexcl :=
  intros a Ha; upd_all; try discriminate;
  first [ reflexivity
        | (apply Hexcl; assumption)
        | match goal with E : k_pc (k_thr _ ?x) = _ |- k_rm _ = Some ?x => apply Hexcl; rewrite E; reflexivity end
        | (exfalso;
           match goal with
           | _ => let X := fresh in pose proof (Hexcl _ Ha) as X; discriminate X
           | E : k_pc (k_thr ?s ?t) = _, n : ?x <> ?t |- _ =>
             let H := fresh in
             assert (H : k_rm s = Some t) by (apply Hexcl; rewrite E; reflexivity);
             rewrite (Hexcl _ Ha) in H; congruence
           end) ].

Ltac t_rmown Hown Hlt :=
  intros u Hu; simpl in Hu; try discriminate;
  first [ (inv_some Hu; upd_all; split; [assumption|reflexivity])
        | (let B := fresh "B" in let C := fresh "C" in
           destruct (Hown _ Hu) as (B & C); (split; [assumption|]; upd_all;
           first [assumption | reflexivity | old_pc_contra C])) ].

(* unfold the step function and its plain-segment continuations, split every case *)
Ltac k_unfold_step Hs :=
  unfold kstep, k_ret, k_out, k_seg, k_in in Hs; cbv zeta in Hs.

Lemma kstep_inv1 s t ch s' l : KInv1 s -> kstep s t ch = Some (s', l) -> KInv1 s'.
Proof.
  intros [Hrole Hnm Hrs Hrm Hwk Hls Hsp Hfl Hlp Hsg Hk H01 Hheld Hexcl Hown Hltn] Hs. k_unfold_step Hs.
  destruct (Nat.leb (k_n s) t) eqn:Hlt; [discriminate|]. apply Nat.leb_gt in Hlt.
  destruct (k_pc (k_thr s t)) eqn:Epc; step_cases Hs; try discriminate; cbn [fst snd] in Hs; inv_some Hs.
  all: name_woken.
  all: constructor; simpl;
    [ try (t_class Hrole; fail) | try (t_class Hnm; fail) | try (t_class Hrs; fail) | try (t_class Hrm; fail)
    | try (t_class Hwk; fail) | try (t_class Hls; fail) | try (t_class Hsp; fail) | try (t_class Hfl; fail)
    | try (t_class Hlp; fail)
    | try (norm_modes; intros Hx; k_cbn; first [discriminate | exact (Hsg Hx) | reflexivity
            | (exfalso; match goal with E : k_pc (k_thr _ ?x) = _ |- _ => facts_for x; k_cbn; congruence end)]; fail)
    | try (t_k Hk; fail)
    | try (first [left; reflexivity | right; reflexivity | exact H01]; fail)
    | try (first [ (t_held Hheld H01; fail) | (intros _; exists t; split; [assumption|]; upd_all; reflexivity) ])
    | try (t_rmexcl Hexcl; fail)
    | try (t_rmown Hown Hlt; fail)
    | try (intros a Ha; upd_all; try lia; apply Hltn; assumption) ].
Qed.

Theorem k_reachable_inv1 n cap rm lk nreads wk sched :
  KInv1 (exec ksys kstep (kinit n cap rm lk nreads wk) sched).
Proof. apply inv_exec; [|apply kinit_inv1]. intros; eapply kstep_inv1; eauto. Qed.

(* ---------------- protocol invariant: the three kinds of sleepers ---------------- *)
Record KInv2 (s : ksys) : Prop := {
  (* READ_SYNC reader: the value it is going to wait on / is asleep on is the one it compared with rpos *)
  k2_wait : forall t, k_waiting (k_pc (k_thr s t)) = true ->
            k_reg (k_thr s t) = ridx (k_rcur s + 1) (k_cap s);
  (* asleep on write_cursor expecting v => write_cursor = v or a writer is between its store and its wake *)
  k2_sleep : forall t, k_pc (k_thr s t) = KRBlocked -> k_wcur s <> k_reg (k_thr s t) ->
             exists u, (u < k_n s)%nat /\ k_pending (k_thr s u) = true;
  (* READ_MUTEX reader: decided to wait under read_mutex => the channel is empty until it sleeps *)
  k2_mwait : forall t, k_pc (k_thr s t) = KMWait -> k_empty s;
  (* asleep on read_cv => channel empty or a writer is between its cursor update and its notify *)
  k2_msleep : forall t, k_pc (k_thr s t) = KMAsleep ->
              k_empty s \/ exists u, (u < k_n s)%nat /\ k_pending (k_thr s u) = true;
  (* writer asleep on the synclock word expecting LOCK => the word is LOCK, or an unlocker is
     between its store and its wake call, or a (woken / new) writer is about to retry *)
  k2_lsleep : forall t, k_pc (k_thr s t) = KWLBlocked ->
              k_lock s = 1 \/
              (exists u, (u < k_n s)%nat /\ k_lwaker (k_pc (k_thr s u)) = true) \/
              (exists u, (u < k_n s)%nat /\ k_about (k_thr s u) = true);
}.

Lemma kinit_inv2 n cap rm lk nreads wk : KInv2 (kinit n cap rm lk nreads wk).
Proof.
  constructor; simpl.
  - intros [|t]; simpl; discriminate.
  - intros [|t]; simpl; discriminate.
  - intros [|t]; simpl; discriminate.
  - intros [|t]; simpl; discriminate.
  - intros [|t]; simpl; discriminate.
Qed.

Ltac pend_close :=
  unfold k_pending in *; k_cbn;
  repeat match goal with E : k_pc (k_thr _ _) = _ |- _ => rewrite E in * end; k_cbn;
  repeat match goal with E : k_ok (k_thr _ _) = _ |- _ => rewrite E in * end; k_cbn;
  first [ assumption | reflexivity | congruence
        | (repeat match goal with |- context [k_ok ?x] => destruct (k_ok x) end; simpl in *; congruence)
        | (repeat match goal with H : context [k_ok ?x] |- _ => destruct (k_ok x) end; simpl in *; congruence) ].

(* a sleeper exists although the wake found nobody: impossible *)
Ltac none_contra :=
  exfalso;
  match goal with
  | Hn : first_such (k_lblocked ?s) (k_n ?s) = None, Ha : k_pc (k_thr ?s ?a) = KWLBlocked,
    HL : forall t, (k_n ?s <= t)%nat -> k_active (k_pc (k_thr ?s t)) = false |- _ =>
    let Hl := fresh in let X := fresh in
    destruct (Nat.lt_ge_cases a (k_n s)) as [Hl|Hl];
    [ pose proof (first_such_none _ _ Hn a Hl) as X; unfold k_lblocked in X; rewrite Ha in X; discriminate
    | pose proof (HL a Hl) as X; rewrite Ha in X; discriminate ]
  | Hn : first_such (k_rblocked ?s) (k_n ?s) = None, Ha : k_pc (k_thr ?s ?a) = KRBlocked,
    HL : forall t, (k_n ?s <= t)%nat -> k_active (k_pc (k_thr ?s t)) = false |- _ =>
    let Hl := fresh in let X := fresh in
    destruct (Nat.lt_ge_cases a (k_n s)) as [Hl|Hl];
    [ pose proof (first_such_none _ _ Hn a Hl) as X; unfold k_rblocked in X; rewrite Ha in X; discriminate
    | pose proof (HL a Hl) as X; rewrite Ha in X; discriminate ]
  | Hn : pick_waiter (k_masleep ?s) (k_n ?s) _ = None, Ha : k_pc (k_thr ?s ?a) = KMAsleep,
    HL : forall t, (k_n ?s <= t)%nat -> k_active (k_pc (k_thr ?s t)) = false |- _ =>
    let Hl := fresh in let X := fresh in
    destruct (Nat.lt_ge_cases a (k_n s)) as [Hl|Hl];
    [ pose proof (pick_waiter_none _ _ _ Hn a Hl) as X; unfold k_masleep in X; rewrite Ha in X; discriminate
    | pose proof (HL a Hl) as X; rewrite Ha in X; discriminate ]
  end.

Ltac t_wait Hwait :=
  intros a Ha; upd_k; try discriminate;
  first [ apply Hwait; assumption
        | match goal with E : k_pc (k_thr _ ?x) = _ |- _ => apply Hwait; rewrite E; reflexivity end
        | (apply Z.eqb_eq; assumption)
        | k_contra
        | (* read_cursor moved: the only reader is the stepping thread *)
          (match goal with |- k_reg (k_thr ?s ?a) = _ =>
             destruct (k_pc (k_thr s a)) eqn:?; try discriminate; k_contra end) ].

Ltac t_sleep Hsleep t Hlt :=
  intros a Ha Hne; upd_k; try discriminate;
  first [ (let u := fresh "u" in let Hu := fresh "Hu" in let Hp := fresh "Hp" in
           destruct (Hsleep _ Ha Hne) as (u & Hu & Hp); exists u; split; [assumption|]; upd_k; pend_close)
        | (exists t; split; [exact Hlt|]; upd_k; reflexivity)        (* the storing writer is now pending *)
        | k_contra
        | none_contra ].

Ltac t_mwait Hmwait :=
  intros a Ha; unfold k_empty in *; upd_k; try discriminate;
  first [ eapply Hmwait; eassumption | (apply Z.eqb_eq; assumption) | k_contra ].

Ltac t_msleep Hms Hmwait t Hlt :=
  intros a Ha; upd_k; try discriminate;
  first [ (left; match goal with E : k_pc (k_thr ?s ?x) = KMWait |- _ => exact (Hmwait x E) end)
        | (let u := fresh "u" in let Hu := fresh "Hu" in let Hp := fresh "Hp" in
           destruct (Hms _ Ha) as [Hb|(u & Hu & Hp)];
           [ left; unfold k_empty in *; k_cbn; assumption
           | right; exists u; split; [assumption|]; upd_k; pend_close ])
        | (right; exists t; split; [exact Hlt|]; upd_k; reflexivity)  (* the writer that just moved the cursor *)
        | k_contra
        | none_contra ].

Ltac about_close :=
  unfold k_about in *; k_cbn;
  repeat match goal with E : k_pc (k_thr _ _) = _ |- _ => rewrite E in * end; k_cbn;
  repeat match goal with E : k_k (k_thr _ _) = _ |- _ => rewrite E in * end; k_cbn;
  first [ assumption | reflexivity | discriminate
        | (match goal with
           | E : k_pc (k_thr ?s ?x) = _,
             HK : forall t : nat, k_active (k_pc (k_thr ?s t)) = true -> (0 < k_k (k_thr ?s t))%nat
             |- context [k_k (k_thr ?s ?x)] =>
             let X := fresh in pose proof (HK x) as X; rewrite E in X; specialize (X eq_refl);
             destruct (k_k (k_thr s x)); [lia|reflexivity] end) ].

Ltac t_lsleep Hls' H01 t Hlt :=
  intros a Ha; upd_k; try discriminate;
  first [ (left; first [assumption | reflexivity | (z_norm; lia)])
        | (let u := fresh "u" in let Hu := fresh "Hu" in let Hp := fresh "Hp" in
           destruct (Hls' _ Ha) as [Hl|[(u & Hu & Hp)|(u & Hu & Hp)]];
           [ left; first [assumption | reflexivity | lia]
           | right; left; exists u; split; [assumption|]; upd_k; first [assumption | reflexivity | old_pc_contra Hp]
           | right; right; exists u; split; [assumption|]; upd_k; about_close ])
        | (right; left; exists t; split; [exact Hlt|]; upd_k; reflexivity)     (* the unlocker: store done, wake to come *)
        | (* wake_one(lock word) with a sleeper: the woken writer is about to retry *)
          (match goal with
           | Hw : k_pc (k_thr ?s ?n) = KWLBlocked, Hn : (?n < k_n ?s)%nat,
             HK : forall t : nat, k_active (k_pc (k_thr ?s t)) = true -> (0 < k_k (k_thr ?s t))%nat |- _ =>
             right; right; exists n; split; [exact Hn|];
             let X := fresh in pose proof (HK n) as X; rewrite Hw in X; specialize (X eq_refl);
             unfold k_about; upd_k; destruct (k_k (k_thr s n)); [lia|reflexivity]
           end)
        | k_contra
        | none_contra ].

Lemma kstep_inv2 s t ch s' l : KInv1 s -> KInv2 s -> kstep s t ch = Some (s', l) -> KInv2 s'.
Proof.
  intros [Hrole Hnm Hrs Hrm Hwk Hls Hsp Hfl Hlp Hsg Hk H01 Hheld Hexcl Hown Hltn] [Hwait Hsleep Hmwait Hmsleep Hlsleep] Hs.
  k_unfold_step Hs.
  destruct (Nat.leb (k_n s) t) eqn:Hlt; [discriminate|]. apply Nat.leb_gt in Hlt.
  destruct (k_pc (k_thr s t)) eqn:Epc; step_cases Hs; try discriminate; cbn [fst snd] in Hs; inv_some Hs.
  all: name_woken.
  all: constructor; simpl;
    [ try (t_wait Hwait; fail) | try (t_sleep Hsleep t Hlt; fail) | try (t_mwait Hmwait; fail)
    | try (t_msleep Hmsleep Hmwait t Hlt; fail) | try (t_lsleep Hlsleep H01 t Hlt; fail) ].
  intros a Ha. upd_k; try discriminate.
  right. right. exists n. split; [exact Hul|].
  pose proof (Hk n) as X. rewrite Hwk0 in X. specialize (X eq_refl).
  unfold k_about. destruct (Nat.eqb_spec n t); [congruence|]. rewrite Nat.eqb_refl. k_cbn.
  destruct (k_k (k_thr s n)); [lia|reflexivity].
Qed.
