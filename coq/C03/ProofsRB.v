(* C03 (h) — ring buffer with busy-loop readers: spin-based waiting never blocks.  Every thread that
   has not finished can take a step in every state (there is no sleep, no mutex: the write lock is a
   test-and-set / yield loop), so no schedule ends with anybody blocked. *)
From MV Require Import C03.Model C03.ModelRB C03.ProofsCommon.
Local Open Scope Z_scope.

Definition b_enabled (s : bsys) (t : nat) : Prop := bstep s t 0 <> None.
Definition b_done (s : bsys) (t : nat) : Prop := b_pc (b_thr s t) = BDone.

Ltac step_cases Hs :=
  repeat match type of Hs with
  | context [match ?e with _ => _ end] => destruct e eqn:?
  end.

Lemma b_n_step s t ch s' l : bstep s t ch = Some (s', l) -> b_n s' = b_n s.
Proof.
  unfold bstep. destruct (Nat.leb (b_n s) t); [discriminate|]. cbv zeta.
  destruct (b_pc (b_thr s t)); intros Hs; step_cases Hs; try discriminate; inv_some Hs; reflexivity.
Qed.
Lemma b_n_exec sched s : b_n (exec bsys bstep s sched) = b_n s.
Proof.
  revert s. induction sched as [|[t c] r IH]; intros s; simpl; [reflexivity|].
  rewrite IH. unfold exec1; simpl. destruct (bstep s t c) as [[s' l]|] eqn:E; [|reflexivity].
  eapply b_n_step; eauto.
Qed.

(* in ANY state (reachable or not) a thread that has not finished can take a step *)
Lemma b_always_enabled s t : (t < b_n s)%nat -> b_pc (b_thr s t) <> BDone -> b_enabled s t.
Proof.
  intros Ht Hd. unfold b_enabled, bstep. apply Nat.leb_gt in Ht. rewrite Ht. cbv zeta.
  destruct (b_pc (b_thr s t)); try congruence;
    repeat match goal with |- context [match ?e with _ => _ end] => destruct e end; discriminate.
Qed.

Theorem ring_busy_never_blocks_all n nr cap wl ks sched t :
  let s := exec bsys bstep (binit n nr cap wl ks) sched in
  (t < n)%nat -> b_done s t \/ b_enabled s t.
Proof.
  intros s Ht. destruct (b_pc (b_thr s t)) eqn:E; try (left; exact E); right;
    (apply b_always_enabled; [unfold s; rewrite b_n_exec; exact Ht|congruence]).
Qed.

Theorem ring_busy_no_deadlock_all n nr cap wl ks sched :
  let s := exec bsys bstep (binit n nr cap wl ks) sched in
  (exists t, (t < n)%nat /\ b_enabled s t) \/ (forall t, (t < n)%nat -> b_done s t).
Proof.
  intros s.
  destruct (bounded_dec (fun t => match b_pc (b_thr s t) with BDone => false | _ => true end) n) as [(t & Ht & Hp)|Hall].
  - left. exists t. split; [exact Ht|].
    destruct (ring_busy_never_blocks_all n nr cap wl ks sched t Ht) as [D|E]; [|exact E].
    unfold b_done in D. fold s in D. rewrite D in Hp. discriminate.
  - right. intros t Ht. specialize (Hall t Ht). unfold b_done. destruct (b_pc (b_thr s t)); try discriminate. reflexivity.
Qed.

(* non-vacuity: a busy reader spins twice over an empty ring, the (locked) writer publishes, the
   reader takes the message; both finish *)
Example ring_busy_reader_spins_then_reads :
  let s0 := binit 2 1 4 true (fun _ => 1%nat) in
  let s1 := exec bsys bstep s0 (List.repeat (0%nat, 0%nat) 5) in
  let s2 := exec bsys bstep s1 (List.repeat (1%nat, 0%nat) 8 ++ List.repeat (0%nat, 0%nat) 4) in
  b_pc (b_thr s1 0%nat) = BRLoad /\ b_k (b_thr s1 0%nat) = 1%nat /\
  b_cursor s2 = 1 /\ b_spin s2 = 0 /\ (forall t, (t < 2)%nat -> b_done s2 t).
Proof.
  cbv zeta. repeat split; try (vm_compute; reflexivity).
  intros [|[|u]] H; [vm_compute; reflexivity|vm_compute; reflexivity|lia].
Qed.
