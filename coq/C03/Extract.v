From MV Require Import Lib.ExtractBase C03.Model C03.ModelK C03.ModelRB C03.Futex C04.Model.
From Coq Require Import ExtrOcamlBasic.
Extraction Language OCaml.
Extraction "c03_model" force_types
  finit fstep f_wcur f_rcur f_pc f_thr
  minit mstep m_wcur m_rcur m_pc m_thr
  ginit gstep g_cursor g_pc g_thr
  qinit qstep q_cnt q_pc q_thr
  dinit dstep d_back d_pc d_thr
  kinit kstep k_wcur k_rcur k_lock k_pc k_k k_ok k_thr
  binit bstep b_cursor b_pc b_thr
  sched_wait sched_wake_one sched_wake_all
  linit lstep l_counter l_overlaps l_pc l_thr.
