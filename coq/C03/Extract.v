From MV Require Import Lib.ExtractBase C03.Model C04.Model.
From Coq Require Import ExtrOcamlBasic.
Extraction Language OCaml.
Extraction "c03_model" force_types
  finit fstep f_wcur f_rcur f_pc f_thr
  minit mstep m_wcur m_rcur m_pc m_thr
  ginit gstep g_cursor g_pc g_thr
  qinit qstep q_cnt q_pc q_thr
  dinit dstep d_back d_pc d_thr
  linit lstep l_counter l_overlaps l_pc l_thr.
