(* C03 — the futex itself, proofs: an observation accepted by [futex_calls_ok] (C03/Futex.v) means
   that every sampled call of muggle_sync_wait / wake_one / wake_all has, under the abstract kernel
   semantics of futex(2), exactly the semantics the scheduler and the models implement (atomic
   compare-and-block on the process-private key; wake one / wake every waiter queued by that wait). *)
From MV Require Import C03.Futex.
Local Open Scope Z_scope.

(* ---- soundness: a conforming call has the scheduler's semantics ---- *)
Lemma wait_obs_ok_spec o : wait_obs_ok o = true ->
  o_nr o = ABI_SYS_futex_x86_64 /\ o_addr_ok o = true /\ futex_cmd (o_op o) = ABI_FUTEX_WAIT /\
  futex_private (o_op o) = true /\ o_val o = o_in_val o /\ tmo_faithful o = true.
Proof. unfold wait_obs_ok. rewrite !andb_true_iff, !Z.eqb_eq. tauto. Qed.
Lemma wake_obs_ok_spec n o : wake_obs_ok n o = true ->
  o_nr o = ABI_SYS_futex_x86_64 /\ o_addr_ok o = true /\ futex_cmd (o_op o) = ABI_FUTEX_WAKE /\
  futex_private (o_op o) = true /\ o_val o = n.
Proof. unfold wake_obs_ok. rewrite !andb_true_iff, !Z.eqb_eq. tauto. Qed.

(* muggle_sync_wait(addr, val, NULL) = atomic compare-and-block on the private key *)
Lemma wait_obs_sound o q word : wait_obs_ok o = true -> q_shared q = O ->
  let r := kernel_futex q word (o_op o) (o_val o) true in
  let m := sched_wait (q_priv q) word (o_in_val o) in
  q_priv (fst r) = fst m /\ q_shared (fst r) = O /\
  (snd m = true -> snd r = KBlock) /\ (snd m = false -> snd r = KRet (-1) /\ fst r = q).
Proof.
  intros H Hs. destruct (wait_obs_ok_spec o H) as (_ & _ & Hc & Hp & Hv & _).
  unfold kernel_futex, sched_wait. rewrite Hc, Z.eqb_refl, Hv, Hp.
  destruct (word =? o_in_val o); simpl; repeat split; try assumption; try reflexivity; intros; discriminate.
Qed.

(* muggle_sync_wake_one(addr) wakes one waiter queued by muggle_sync_wait, if there is one *)
Lemma wake_one_obs_sound o q word tn : wake_obs_ok 1 o = true -> q_shared q = O ->
  let r := kernel_futex q word (o_op o) (o_val o) tn in
  let m := sched_wake_one (q_priv q) in
  q_priv (fst r) = fst m /\ q_shared (fst r) = O /\ snd r = KRet (Z.of_nat (snd m)).
Proof.
  intros H Hs. destruct (wake_obs_ok_spec 1 o H) as (_ & _ & Hc & Hp & Hv).
  unfold kernel_futex, sched_wake_one. rewrite Hc, Hv, Hp.
  change (ABI_FUTEX_WAKE =? ABI_FUTEX_WAIT) with false. cbv iota.
  rewrite Z.eqb_refl. change (1 <? 0) with false. cbv iota. change (Z.to_nat 1) with 1%nat.
  destruct (q_priv q) as [|w]; simpl; repeat split; try assumption; try reflexivity.
  rewrite Nat.sub_0_r. reflexivity.
Qed.

(* muggle_sync_wake_all(addr) wakes every waiter queued by muggle_sync_wait (fewer than INT_MAX) *)
Lemma wake_all_obs_sound o q word tn : wake_obs_ok ABI_INT_MAX o = true -> q_shared q = O ->
  (Z.of_nat (q_priv q) <= ABI_INT_MAX) ->
  let r := kernel_futex q word (o_op o) (o_val o) tn in
  let m := sched_wake_all (q_priv q) in
  q_priv (fst r) = fst m /\ q_shared (fst r) = O /\ snd r = KRet (Z.of_nat (snd m)).
Proof.
  intros H Hs Hn. destruct (wake_obs_ok_spec _ o H) as (_ & _ & Hc & Hp & Hv).
  unfold kernel_futex, sched_wake_all. rewrite Hc, Hv, Hp.
  change (ABI_FUTEX_WAKE =? ABI_FUTEX_WAIT) with false. cbv iota.
  rewrite Z.eqb_refl. change (ABI_INT_MAX <? 0) with false. cbv iota.
  assert (E : Nat.min (Z.to_nat ABI_INT_MAX) (q_priv q) = q_priv q) by (apply Nat.min_r; lia).
  rewrite E. cbn [fst snd q_priv q_shared]. repeat split; try assumption; try reflexivity. lia.
Qed.

(* the whole observation: every sampled call of the three functions has the scheduler's semantics *)
Theorem futex_calls_ok_sound c : futex_calls_ok c = true ->
  (forall o, In o (fo_wait c) -> forall q word, q_shared q = O ->
     let r := kernel_futex q word (o_op o) (o_val o) true in
     let m := sched_wait (q_priv q) word (o_in_val o) in
     o_addr_ok o = true /\ q_priv (fst r) = fst m /\ q_shared (fst r) = O /\
     (snd m = true -> snd r = KBlock) /\ (snd m = false -> snd r = KRet (-1) /\ fst r = q)) /\
  (forall o, In o (fo_wake_one c) -> forall q word tn, q_shared q = O ->
     let r := kernel_futex q word (o_op o) (o_val o) tn in
     let m := sched_wake_one (q_priv q) in
     o_addr_ok o = true /\ q_priv (fst r) = fst m /\ q_shared (fst r) = O /\ snd r = KRet (Z.of_nat (snd m))) /\
  (forall o, In o (fo_wake_all c) -> forall q word tn, q_shared q = O -> Z.of_nat (q_priv q) <= ABI_INT_MAX ->
     let r := kernel_futex q word (o_op o) (o_val o) tn in
     let m := sched_wake_all (q_priv q) in
     o_addr_ok o = true /\ q_priv (fst r) = fst m /\ q_shared (fst r) = O /\ snd r = KRet (Z.of_nat (snd m))) /\
  fo_wait c <> [] /\ fo_wake_one c <> [] /\ fo_wake_all c <> [].
Proof.
  unfold futex_calls_ok. rewrite !andb_true_iff. intros ((((((_ & L1) & F1) & L2) & F2) & L3) & F3).
  rewrite forallb_forall in F1, F2, F3.
  split; [|split; [|split; [|split; [|split]]]].
  - intros o Ho q word Hs. pose proof (F1 o Ho) as H. destruct (wait_obs_ok_spec o H) as (_ & Ha & _).
    split; [exact Ha|]. exact (wait_obs_sound o q word H Hs).
  - intros o Ho q word tn Hs. pose proof (F2 o Ho) as H. destruct (wake_obs_ok_spec _ o H) as (_ & Ha & _).
    split; [exact Ha|]. exact (wake_one_obs_sound o q word tn H Hs).
  - intros o Ho q word tn Hs Hn. pose proof (F3 o Ho) as H. destruct (wake_obs_ok_spec _ o H) as (_ & Ha & _).
    split; [exact Ha|]. exact (wake_all_obs_sound o q word tn H Hs Hn).
  - destruct (fo_wait c); [discriminate|congruence].
  - destruct (fo_wake_one c); [discriminate|congruence].
  - destruct (fo_wake_all c); [discriminate|congruence].
Qed.

(* a wait WITHOUT the private flag is not found by the (private) wakes: the classic mismatch *)
Example shared_waiter_not_found_by_private_wake :
  let '(q1, o1) := kernel_futex {| q_priv := 0; q_shared := 0 |} 5 ABI_FUTEX_WAIT 5 true in
  let '(q2, o2) := kernel_futex q1 5 (Z.lor ABI_FUTEX_WAKE ABI_FUTEX_PRIVATE_FLAG) 1 true in
  o1 = KBlock /\ o2 = KRet 0 /\ q_shared q2 = 1%nat.
Proof. vm_compute. repeat split; reflexivity. Qed.
