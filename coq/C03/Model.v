(* C03 — executable models of the SLEEP/WAKE protocols of
     (a) channel.c, READ_SYNC reader   (futex wait on write_cursor / wake_one)        [f* names]
     (b) channel.c, READ_MUTEX reader  (read_mutex + read_cv, notify outside mutex)   [m* names]
     (c) ring_buffer.c, wait / single-wait / read-once readers (futex on cursor)      [g* names]
     (d) array_blocking_queue.c (one mutex, cv_not_empty / cv_not_full)               [q* names]
     (e) double_buffer.c (one mutex, cv_not_empty / cv_not_full, notify_one)          [d* names]
   at the granularity of harness/vsched: every atomic / futex / mutex / condvar / yield
   operation is one step (label LEv), every plain segment between two of them is one step
   (label LPlain with the notes the driver printed in it), thread exit is LExit.
   (f) synclock is C04's model [lstep ... KSync], imported read-only by ProofsSync.v.
   Message contents are abstracted away; cursors, counts, the order of check / sleep / store /
   wake and which value is handed to the futex are transcribed from the C code.
   Futex: wait = atomic compare-and-block, which may also return early without blocking
   (interrupted / spurious wake-up: schedule choices 2 / 3 on the waiting thread, models (a), (c));
   wake_one wakes the lowest blocked thread id
   (harness/vsched), wake_all every blocked thread.  Condition variables: Mesa; a wait releases
   the mutex and sleeps; notify_one moves ONE sleeping waiter (schedule choice) to "woken";
   a sleeping waiter may also wake spuriously (schedule choice 1 on the sleeper); a woken
   waiter needs the mutex to return.  Definitions only, no proofs. *)
From MV Require Export Lib.Conc.
Local Open Scope Z_scope.

(* ------------------------------------------------------------------ *)
(* shared helpers                                                      *)

Definition notes := list (nat * Z).
Definition n_read : nat := 10%nat.
Definition n_wrote : nat := 11%nat.
Definition n_full : nat := 12%nat.
Definition n_took : nat := 13%nat.
Definition n_put : nat := 14%nat.
Definition n_got : nat := 15%nat.

(* MUGGLE_IDX_IN_POW_OF_2_RING(idx, capacity) = idx & (capacity - 1) *)
Definition ridx (x cap : Z) : Z := Z.land x (cap - 1).

(* lowest t < n with P t *)
Fixpoint first_such (P : nat -> bool) (n : nat) : option nat :=
  match n with
  | O => None
  | S m => match first_such P m with
           | Some u => Some u
           | None => if P m then Some m else None
           end
  end.
(* number of t < n with P t *)
Fixpoint count_such (P : nat -> bool) (n : nat) : nat :=
  match n with
  | O => O
  | S m => ((if P m then 1 else 0) + count_such P m)%nat
  end.
(* notify_one: the schedule choice S u names the waiter to wake when u is a sleeping waiter;
   any other choice wakes the lowest sleeping waiter *)
Definition pick_waiter (P : nat -> bool) (n ch : nat) : option nat :=
  match ch with
  | S u => if Nat.ltb u n && P u then Some u else first_such P n
  | O => first_such P n
  end.
Definition zfirst (o : option nat) : Z := match o with Some u => Z.of_nat u | None => -1 end.
Definition zcount (o : option nat) : Z := match o with Some _ => 1 | None => 0 end.

Definition ev (o : opk) (cell : nat) (mo : memorder) (a b c : Z) : label := LEv (Ev o cell mo a b c).

(* ================================================================== *)
(* (a) channel, futex-waiting reader                                   *)
(*   reader:  rpos = IDX(read_cursor+1);  loop { wpos = load(write_cursor, acq);
              if (wpos != rpos) { ...; store(read_cursor, rpos, rel); return }
              muggle_sync_wait(&write_cursor, wpos) }          <- the CHECKED value
     writer:  fn_lock; rpos = load(read_cursor, rlx); wpos = IDX(write_cursor+1);
              if (wpos == rpos) FULL else { slot = data; store(write_cursor, wpos, rel) }
              fn_unlock; if (ok) muggle_sync_wake_one(&write_cursor)                       *)

Definition fc_wcur : nat := 0%nat.
Definition fc_rcur : nat := 1%nat.
Definition fc_wm : nat := 2%nat.

Inductive fpc :=
  | FRSeg | FRLoad | FRChk | FRStore | FRWait | FRBlocked
  | FWSeg | FWLock | FWSeg1 | FWLoadR | FWChk | FWStore | FWSeg3 | FWUnlock | FWSeg4 | FWWake
  | FWUnlockF | FWSegF | FWYield
  | FFin | FDone.

Record fthread := { f_pc : fpc; f_k : nat; f_reg : Z; f_reg2 : Z; f_pend : notes;
                     f_g : Z  (* GHOST: the unbounded counter value behind the cursor value in f_reg *) }.
Record fsys := {
  f_n : nat;                  (* threads: tid 0 is the reader, 1 .. n-1 are writers *)
  f_cap : Z;
  f_wl : bool;                (* true: WRITE_MUTEX, false: WRITE_SINGLE *)
  f_wcur : Z;
  f_rcur : Z;
  f_wm : option nat;          (* owner of the write mutex *)
  f_W : Z;                    (* GHOST: number of completed write_cursor stores (messages published) *)
  f_R : Z;                    (* GHOST: number of completed read_cursor stores (messages consumed) *)
  f_thr : nat -> fthread;
}.

Definition finit (n : nat) (cap : Z) (wl : bool) (nreads : nat) (wk : nat -> nat) : fsys :=
  {| f_n := n; f_cap := cap; f_wl := wl; f_wcur := 0; f_rcur := cap - 1; f_wm := None; f_W := 0; f_R := 0;
     f_thr := fun t => match t with
                       | O => {| f_pc := FRSeg; f_k := nreads; f_reg := 0; f_reg2 := 0; f_pend := []; f_g := 0 |}
                       | S w => {| f_pc := FWSeg; f_k := wk w; f_reg := 0; f_reg2 := 0; f_pend := []; f_g := 0 |}
                       end |}.

Definition fset (s : fsys) (t : nat) (x : fthread) : fsys :=
  {| f_n := f_n s; f_cap := f_cap s; f_wl := f_wl s; f_wcur := f_wcur s; f_rcur := f_rcur s;
     f_wm := f_wm s; f_W := f_W s; f_R := f_R s; f_thr := upd (f_thr s) t x |}.
Definition fpcset (x : fthread) (p : fpc) : fthread :=
  {| f_pc := p; f_k := f_k x; f_reg := f_reg x; f_reg2 := f_reg2 x; f_pend := []; f_g := f_g x |}.
Definition f_blocked (s : fsys) (u : nat) : bool :=
  match f_pc (f_thr s u) with FRBlocked => true | _ => false end.

Definition fstep (s : fsys) (t : nat) (ch : nat) : option (fsys * label) :=
  let x := f_thr s t in
  let go p := fset s t (fpcset x p) in
  if Nat.leb (f_n s) t then None else
  match f_pc x with
  (* ---- reader ---- *)
  | FRSeg => Some (go (match f_k x with O => FFin | S _ => FRLoad end), LPlain (f_pend x))
  | FRLoad =>
    Some (fset s t {| f_pc := FRChk; f_k := f_k x; f_reg := f_wcur s; f_reg2 := f_reg2 x; f_pend := []; f_g := f_W s |},
          ev OLoad fc_wcur Acq (f_wcur s) 0 0)
  | FRChk =>
    if f_reg x =? ridx (f_rcur s + 1) (f_cap s) then Some (go FRWait, LPlain [])
    else Some (go FRStore, LPlain [])
  | FRStore =>
    let rpos := ridx (f_rcur s + 1) (f_cap s) in
    Some ({| f_n := f_n s; f_cap := f_cap s; f_wl := f_wl s; f_wcur := f_wcur s; f_rcur := rpos;
             f_wm := f_wm s; f_W := f_W s; f_R := f_R s + 1;
             f_thr := upd (f_thr s) t {| f_pc := FRSeg; f_k := pred (f_k x); f_reg := f_reg x;
                                         f_reg2 := f_reg2 x; f_pend := [(n_read, 0)]; f_g := f_g x |} |},
          ev OStore fc_rcur Rel rpos 0 0)
  | FRWait =>
    (* expected = the CHECKED value (the register loaded before the comparison) *)
    let expected := f_reg x in
    if f_wcur s =? expected
    then
      (* the wait would block.  Schedule choice 2: the futex call is interrupted (returns -1 /
         EINTR); choice 3: it returns 0 although nobody woke it (spurious wake-up).  The code
         ignores the return value and re-checks in its loop, exactly as after a real wake-up. *)
      if Nat.eqb ch 2 then Some (go FRSeg, ev OFwait fc_wcur MoNone expected (f_wcur s) 2)
      else if Nat.eqb ch 3 then Some (go FRSeg, ev OFwait fc_wcur MoNone expected (f_wcur s) 3)
      else Some (go FRBlocked, ev OFwait fc_wcur MoNone expected (f_wcur s) 1)
    else Some (go FRSeg, ev OFwait fc_wcur MoNone expected (f_wcur s) 0)
  | FRBlocked => None
  (* ---- writer ---- *)
  | FWSeg =>
    Some (go (match f_k x with O => FFin | S _ => if f_wl s then FWLock else FWLoadR end), LPlain (f_pend x))
  | FWLock =>
    match f_wm s with
    | Some _ => None
    | None =>
      Some ({| f_n := f_n s; f_cap := f_cap s; f_wl := f_wl s; f_wcur := f_wcur s; f_rcur := f_rcur s;
               f_wm := Some t; f_W := f_W s; f_R := f_R s; f_thr := upd (f_thr s) t (fpcset x FWSeg1) |},
            ev OMlock fc_wm MoNone 0 0 0)
    end
  | FWSeg1 => Some (go FWLoadR, LPlain [])
  | FWLoadR =>
    Some (fset s t {| f_pc := FWChk; f_k := f_k x; f_reg := f_rcur s; f_reg2 := f_reg2 x; f_pend := []; f_g := f_R s |},
          ev OLoad fc_rcur Rlx (f_rcur s) 0 0)
  | FWChk =>
    let wpos := ridx (f_wcur s + 1) (f_cap s) in
    if wpos =? f_reg x then
      if f_wl s then Some (go FWUnlockF, LPlain [])
      else Some (go FWYield, LPlain [(n_full, 0)])
    else
      Some (fset s t {| f_pc := FWStore; f_k := f_k x; f_reg := f_reg x; f_reg2 := wpos; f_pend := []; f_g := f_g x |}, LPlain [])
  | FWStore =>
    Some ({| f_n := f_n s; f_cap := f_cap s; f_wl := f_wl s; f_wcur := f_reg2 x; f_rcur := f_rcur s;
             f_wm := f_wm s; f_W := f_W s + 1; f_R := f_R s; f_thr := upd (f_thr s) t (fpcset x FWSeg3) |},
          ev OStore fc_wcur Rel (f_reg2 x) 0 0)
  | FWSeg3 => Some (go (if f_wl s then FWUnlock else FWWake), LPlain [])
  | FWUnlock =>
    Some ({| f_n := f_n s; f_cap := f_cap s; f_wl := f_wl s; f_wcur := f_wcur s; f_rcur := f_rcur s;
             f_wm := None; f_W := f_W s; f_R := f_R s; f_thr := upd (f_thr s) t (fpcset x FWSeg4) |},
          ev OMunlock fc_wm MoNone 0 0 0)
  | FWSeg4 => Some (go FWWake, LPlain [])
  | FWWake =>
    let x1 := {| f_pc := FWSeg; f_k := pred (f_k x); f_reg := f_reg x; f_reg2 := f_reg2 x;
                 f_pend := [(n_wrote, 0)]; f_g := f_g x |} in
    let w := first_such (f_blocked s) (f_n s) in
    let s1 := match w with Some u => fset s u (fpcset (f_thr s u) FRSeg) | None => s end in
    Some (fset s1 t x1, ev OFwake fc_wcur MoNone 1 (zcount w) 0)
  | FWUnlockF =>
    Some ({| f_n := f_n s; f_cap := f_cap s; f_wl := f_wl s; f_wcur := f_wcur s; f_rcur := f_rcur s;
             f_wm := None; f_W := f_W s; f_R := f_R s; f_thr := upd (f_thr s) t (fpcset x FWSegF) |},
          ev OMunlock fc_wm MoNone 0 0 0)
  | FWSegF => Some (go FWYield, LPlain [(n_full, 0)])
  | FWYield => Some (go FWSeg, ev OYield 0%nat MoNone 0 0 0)
  | FFin => Some (go FDone, LExit)
  | FDone => None
  end.

(* ================================================================== *)
(* (b) channel, condvar-waiting reader (READ_MUTEX)                    *)
(*   reader:  lock(read_mutex); loop { rpos = IDX(read_cursor+1);
              if (rpos != write_cursor) { ...; read_cursor = rpos; unlock; return }
              cond_wait(read_cv, read_mutex) }
     writer:  fn_lock; lock(read_mutex); wpos = IDX(write_cursor+1);
              if (wpos == read_cursor) { unlock; FULL } else { slot = data; write_cursor = wpos; unlock }
              fn_unlock; if (ok) notify_one(read_cv)        <- after both unlocks            *)

Definition mc_wm : nat := 2%nat.
Definition mc_rm : nat := 3%nat.
Definition mc_rcv : nat := 4%nat.

Inductive mpc :=
  | MRSeg | MRLock | MRChk | MRUnlock | MRWait | MRAsleep | MRWoken
  | MWSeg | MWLockW | MWSeg1 | MWLockR | MWChk | MWUnlockR | MWSeg2 | MWUnlockW | MWSeg3 | MWSig
  | MWUnlockRF | MWSeg2F | MWUnlockWF | MWSegF | MWYield
  | MFin | MDone.

Record mthread := { m_pc : mpc; m_k : nat; m_pend : notes }.
Record msys := {
  m_n : nat; m_cap : Z; m_wl : bool;
  m_wcur : Z; m_rcur : Z;
  m_wm : option nat;          (* write mutex owner *)
  m_rm : option nat;          (* read mutex owner *)
  m_thr : nat -> mthread;
}.
Definition minit (n : nat) (cap : Z) (wl : bool) (nreads : nat) (wk : nat -> nat) : msys :=
  {| m_n := n; m_cap := cap; m_wl := wl; m_wcur := 0; m_rcur := cap - 1; m_wm := None; m_rm := None;
     m_thr := fun t => match t with
                       | O => {| m_pc := MRSeg; m_k := nreads; m_pend := [] |}
                       | S w => {| m_pc := MWSeg; m_k := wk w; m_pend := [] |}
                       end |}.
Definition mset (s : msys) (t : nat) (x : mthread) : msys :=
  {| m_n := m_n s; m_cap := m_cap s; m_wl := m_wl s; m_wcur := m_wcur s; m_rcur := m_rcur s;
     m_wm := m_wm s; m_rm := m_rm s; m_thr := upd (m_thr s) t x |}.
Definition mpcset (x : mthread) (p : mpc) : mthread := {| m_pc := p; m_k := m_k x; m_pend := [] |}.
Definition mset_rm (s : msys) (o : option nat) : msys :=
  {| m_n := m_n s; m_cap := m_cap s; m_wl := m_wl s; m_wcur := m_wcur s; m_rcur := m_rcur s;
     m_wm := m_wm s; m_rm := o; m_thr := m_thr s |}.
Definition mset_wm (s : msys) (o : option nat) : msys :=
  {| m_n := m_n s; m_cap := m_cap s; m_wl := m_wl s; m_wcur := m_wcur s; m_rcur := m_rcur s;
     m_wm := o; m_rm := m_rm s; m_thr := m_thr s |}.
Definition m_asleep (s : msys) (u : nat) : bool :=
  match m_pc (m_thr s u) with MRAsleep => true | _ => false end.

Definition mstep (s : msys) (t : nat) (ch : nat) : option (msys * label) :=
  let x := m_thr s t in
  let go p := mset s t (mpcset x p) in
  if Nat.leb (m_n s) t then None else
  match m_pc x with
  (* ---- reader ---- *)
  | MRSeg => Some (go (match m_k x with O => MFin | S _ => MRLock end), LPlain (m_pend x))
  | MRLock =>
    match m_rm s with
    | Some _ => None
    | None => Some (mset (mset_rm s (Some t)) t (mpcset x MRChk), ev OMlock mc_rm MoNone 0 0 0)
    end
  | MRChk =>
    let rpos := ridx (m_rcur s + 1) (m_cap s) in
    if rpos =? m_wcur s then Some (go MRWait, LPlain [])
    else Some ({| m_n := m_n s; m_cap := m_cap s; m_wl := m_wl s; m_wcur := m_wcur s; m_rcur := rpos;
                  m_wm := m_wm s; m_rm := m_rm s; m_thr := upd (m_thr s) t (mpcset x MRUnlock) |}, LPlain [])
  | MRUnlock =>
    Some (mset (mset_rm s None) t {| m_pc := MRSeg; m_k := pred (m_k x); m_pend := [(n_read, 0)] |},
          ev OMunlock mc_rm MoNone 0 0 0)
  | MRWait => Some (mset (mset_rm s None) t (mpcset x MRAsleep), ev OCvwait mc_rcv MoNone 0 0 0)
  | MRAsleep =>
    (* spurious wake-up (schedule choice 1); harness line "W t cvspur" *)
    if Nat.eqb ch 1 then Some (go MRWoken, ev OCvwoke mc_rcv MoNone 1 0 0) else None
  | MRWoken =>
    match m_rm s with
    | Some _ => None
    | None => Some (mset (mset_rm s (Some t)) t (mpcset x MRChk),
                    ev OCvwoke mc_rcv MoNone 0 0 0)
    end
  (* ---- writer ---- *)
  | MWSeg =>
    Some (go (match m_k x with O => MFin | S _ => if m_wl s then MWLockW else MWLockR end), LPlain (m_pend x))
  | MWLockW =>
    match m_wm s with
    | Some _ => None
    | None => Some (mset (mset_wm s (Some t)) t (mpcset x MWSeg1), ev OMlock mc_wm MoNone 0 0 0)
    end
  | MWSeg1 => Some (go MWLockR, LPlain [])
  | MWLockR =>
    match m_rm s with
    | Some _ => None
    | None => Some (mset (mset_rm s (Some t)) t (mpcset x MWChk), ev OMlock mc_rm MoNone 0 0 0)
    end
  | MWChk =>
    let wpos := ridx (m_wcur s + 1) (m_cap s) in
    if wpos =? m_rcur s then Some (go MWUnlockRF, LPlain [])
    else Some ({| m_n := m_n s; m_cap := m_cap s; m_wl := m_wl s; m_wcur := wpos; m_rcur := m_rcur s;
                  m_wm := m_wm s; m_rm := m_rm s; m_thr := upd (m_thr s) t (mpcset x MWUnlockR) |}, LPlain [])
  | MWUnlockR =>
    Some (mset (mset_rm s None) t (mpcset x (if m_wl s then MWSeg2 else MWSeg3)), ev OMunlock mc_rm MoNone 0 0 0)
  | MWSeg2 => Some (go MWUnlockW, LPlain [])
  | MWUnlockW => Some (mset (mset_wm s None) t (mpcset x MWSeg3), ev OMunlock mc_wm MoNone 0 0 0)
  | MWSeg3 => Some (go MWSig, LPlain [])
  | MWSig =>
    let x1 := {| m_pc := MWSeg; m_k := pred (m_k x); m_pend := [(n_wrote, 0)] |} in
    let w := pick_waiter (m_asleep s) (m_n s) ch in
    let s1 := match w with Some u => mset s u (mpcset (m_thr s u) MRWoken) | None => s end in
    Some (mset s1 t x1, ev OCvsig mc_rcv MoNone (zcount w) (zfirst w) 0)
  | MWUnlockRF =>
    Some (mset (mset_rm s None) t (mpcset x (if m_wl s then MWSeg2F else MWSegF)), ev OMunlock mc_rm MoNone 0 0 0)
  | MWSeg2F => Some (go MWUnlockWF, LPlain [])
  | MWUnlockWF => Some (mset (mset_wm s None) t (mpcset x MWSegF), ev OMunlock mc_wm MoNone 0 0 0)
  | MWSegF => Some (go MWYield, LPlain [(n_full, 0)])
  | MWYield => Some (go MWSeg, ev OYield 0%nat MoNone 0 0 0)
  | MFin => Some (go MDone, LExit)
  | MDone => None
  end.

(* ================================================================== *)
(* (c) ring buffer: readers waiting on the cursor futex                *)
(*   write:   [spinlock] slot = data; rpos = IDX(cursor+1); store(cursor, rpos, rel); [unlock]
              wake: READ_MODE_WAIT -> wake_all ; SINGLE_WAIT -> wake_one ; ONCE -> wake_one
     read_wait(idx): rpos = IDX(idx); loop { wpos = load(cursor, acq); if (wpos != rpos) return;
                     muggle_sync_wait(&cursor, wpos) }          <- the CHECKED value
     read_once:  lock(read_mutex); loop { wpos = load(cursor, acq);
                     if (read_cursor != wpos) { ...; read_cursor = IDX(read_cursor+1); break }
                     muggle_sync_wait(&cursor, wpos) } unlock      <- sleeps HOLDING read_mutex *)

Definition gc_cursor : nat := 0%nat.
Definition gc_spin : nat := 1%nat.
Definition gc_rm : nat := 2%nat.

Inductive gmode := GMWait | GMSingle | GMOnce.
Inductive gpc :=
  | GRSeg | GRLock | GRSeg1 | GRLoad | GRChk | GRWait | GRBlocked | GRUnlock
  | GWSeg | GWTas | GWSegT | GWYield | GWSegA | GWStore | GWSeg2 | GWClear | GWSeg3 | GWWake
  | GFin | GDone.
Record gthread := { g_pc : gpc; g_k : nat; g_i : Z; g_reg : Z; g_pend : notes }.
Record gsys := {
  g_n : nat; g_nr : nat;      (* tids < nr are readers, nr <= tid < n writers *)
  g_cap : Z; g_mode : gmode; g_wl : bool;   (* wl: true = write spinlock, false = single writer *)
  g_cursor : Z;
  g_rcur : Z;                 (* read_cursor (read-once mode) *)
  g_spin : Z;
  g_rm : option nat;          (* read mutex owner (read-once mode) *)
  g_written : nat;            (* ghost: completed cursor stores *)
  g_thr : nat -> gthread;
}.
Definition ginit (n nr : nat) (cap : Z) (md : gmode) (wl : bool) (ks : nat -> nat) : gsys :=
  {| g_n := n; g_nr := nr; g_cap := cap; g_mode := md; g_wl := wl; g_cursor := 0; g_rcur := 0;
     g_spin := 0; g_rm := None; g_written := 0;
     g_thr := fun t => {| g_pc := if Nat.ltb t nr then GRSeg else GWSeg; g_k := ks t; g_i := 0;
                          g_reg := 0; g_pend := [] |} |}.
Definition gset (s : gsys) (t : nat) (x : gthread) : gsys :=
  {| g_n := g_n s; g_nr := g_nr s; g_cap := g_cap s; g_mode := g_mode s; g_wl := g_wl s;
     g_cursor := g_cursor s; g_rcur := g_rcur s; g_spin := g_spin s; g_rm := g_rm s;
     g_written := g_written s; g_thr := upd (g_thr s) t x |}.
Definition gpcset (x : gthread) (p : gpc) : gthread :=
  {| g_pc := p; g_k := g_k x; g_i := g_i x; g_reg := g_reg x; g_pend := [] |}.
Definition gset_rm (s : gsys) (o : option nat) : gsys :=
  {| g_n := g_n s; g_nr := g_nr s; g_cap := g_cap s; g_mode := g_mode s; g_wl := g_wl s;
     g_cursor := g_cursor s; g_rcur := g_rcur s; g_spin := g_spin s; g_rm := o;
     g_written := g_written s; g_thr := g_thr s |}.
Definition gset_spin (s : gsys) (v : Z) : gsys :=
  {| g_n := g_n s; g_nr := g_nr s; g_cap := g_cap s; g_mode := g_mode s; g_wl := g_wl s;
     g_cursor := g_cursor s; g_rcur := g_rcur s; g_spin := v; g_rm := g_rm s;
     g_written := g_written s; g_thr := g_thr s |}.
Definition g_blocked_thr (thr : nat -> gthread) (u : nat) : bool :=
  match g_pc (thr u) with GRBlocked => true | _ => false end.
(* wake every blocked thread with id < n *)
Fixpoint g_wake_all (thr : nat -> gthread) (n : nat) : nat -> gthread :=
  match n with
  | O => thr
  | S m => let thr' := g_wake_all thr m in
           if g_blocked_thr thr m then upd thr' m (gpcset (thr m) GRSeg1) else thr'
  end.

Definition gstep (s : gsys) (t : nat) (ch : nat) : option (gsys * label) :=
  let x := g_thr s t in
  let go p := gset s t (gpcset x p) in
  if Nat.leb (g_n s) t then None else
  match g_pc x with
  (* ---- reader ---- *)
  | GRSeg =>
    Some (go (match g_k x with
              | O => GFin
              | S _ => match g_mode s with GMOnce => GRLock | _ => GRLoad end
              end), LPlain (g_pend x))
  | GRLock =>
    match g_rm s with
    | Some _ => None
    | None => Some (gset (gset_rm s (Some t)) t (gpcset x GRSeg1), ev OMlock gc_rm MoNone 0 0 0)
    end
  | GRSeg1 => Some (go GRLoad, LPlain [])
  | GRLoad =>
    Some (gset s t {| g_pc := GRChk; g_k := g_k x; g_i := g_i x; g_reg := g_cursor s; g_pend := [] |},
          ev OLoad gc_cursor Acq (g_cursor s) 0 0)
  | GRChk =>
    match g_mode s with
    | GMOnce =>
      if g_rcur s =? g_reg x then Some (go GRWait, LPlain [])
      else Some ({| g_n := g_n s; g_nr := g_nr s; g_cap := g_cap s; g_mode := g_mode s; g_wl := g_wl s;
                    g_cursor := g_cursor s; g_rcur := ridx (g_rcur s + 1) (g_cap s); g_spin := g_spin s;
                    g_rm := g_rm s; g_written := g_written s;
                    g_thr := upd (g_thr s) t (gpcset x GRUnlock) |}, LPlain [])
    | _ =>
      if g_reg x =? ridx (g_i x) (g_cap s) then Some (go GRWait, LPlain [])
      else
        (* message idx is there: return, note, next call up to its load (or thread end) *)
        Some (gset s t {| g_pc := match pred (g_k x) with O => GFin | S _ => GRLoad end;
                          g_k := pred (g_k x); g_i := g_i x + 1; g_reg := g_reg x; g_pend := [] |},
              LPlain [(n_read, 0)])
    end
  | GRWait =>
    let expected := g_reg x in
    if g_cursor s =? expected
    then
      (* would block: choice 2 = interrupted (EINTR), choice 3 = spurious wake-up; the return
         value is ignored and the loop re-checks (read-once: still holding read_mutex) *)
      if Nat.eqb ch 2 then Some (go GRSeg1, ev OFwait gc_cursor MoNone expected (g_cursor s) 2)
      else if Nat.eqb ch 3 then Some (go GRSeg1, ev OFwait gc_cursor MoNone expected (g_cursor s) 3)
      else Some (go GRBlocked, ev OFwait gc_cursor MoNone expected (g_cursor s) 1)
    else Some (go GRSeg1, ev OFwait gc_cursor MoNone expected (g_cursor s) 0)
  | GRBlocked => None
  | GRUnlock =>
    Some (gset (gset_rm s None) t {| g_pc := GRSeg; g_k := pred (g_k x); g_i := g_i x; g_reg := g_reg x;
                                     g_pend := [(n_read, 0)] |},
          ev OMunlock gc_rm MoNone 0 0 0)
  (* ---- writer ---- *)
  | GWSeg =>
    match g_k x with
    | O => Some (go GFin, LPlain (g_pend x))
    | S _ =>
      if g_wl s then Some (go GWTas, LPlain (g_pend x))
      else Some (gset s t {| g_pc := GWStore; g_k := g_k x; g_i := g_i x;
                             g_reg := ridx (g_cursor s + 1) (g_cap s); g_pend := [] |}, LPlain (g_pend x))
    end
  | GWTas =>
    let prev := g_spin s in
    Some (gset (gset_spin s 1) t (gpcset x (if prev =? 0 then GWSegA else GWSegT)),
          ev OTas gc_spin Acq prev 0 0)
  | GWSegT => Some (go GWYield, LPlain [])
  | GWYield => Some (go GWSeg, ev OYield 0%nat MoNone 0 0 0)
  | GWSegA =>
    Some (gset s t {| g_pc := GWStore; g_k := g_k x; g_i := g_i x;
                      g_reg := ridx (g_cursor s + 1) (g_cap s); g_pend := [] |}, LPlain [])
  | GWStore =>
    Some ({| g_n := g_n s; g_nr := g_nr s; g_cap := g_cap s; g_mode := g_mode s; g_wl := g_wl s;
             g_cursor := g_reg x; g_rcur := g_rcur s; g_spin := g_spin s; g_rm := g_rm s;
             g_written := S (g_written s); g_thr := upd (g_thr s) t (gpcset x GWSeg2) |},
          ev OStore gc_cursor Rel (g_reg x) 0 0)
  | GWSeg2 => Some (go (if g_wl s then GWClear else GWWake), LPlain [])
  | GWClear => Some (gset (gset_spin s 0) t (gpcset x GWSeg3), ev OClear gc_spin Rel 0 0 0)
  | GWSeg3 => Some (go GWWake, LPlain [])
  | GWWake =>
    let x1 := {| g_pc := GWSeg; g_k := pred (g_k x); g_i := g_i x; g_reg := g_reg x;
                 g_pend := [(n_wrote, 0)] |} in
    match g_mode s with
    | GMWait =>
      let c := count_such (g_blocked_thr (g_thr s)) (g_n s) in
      Some ({| g_n := g_n s; g_nr := g_nr s; g_cap := g_cap s; g_mode := g_mode s; g_wl := g_wl s;
               g_cursor := g_cursor s; g_rcur := g_rcur s; g_spin := g_spin s; g_rm := g_rm s;
               g_written := g_written s;
               g_thr := upd (g_wake_all (g_thr s) (g_n s)) t x1 |},
            ev OFwake gc_cursor MoNone 0 (Z.of_nat c) 0)
    | _ =>
      let w := first_such (g_blocked_thr (g_thr s)) (g_n s) in
      let s1 := match w with Some u => gset s u (gpcset (g_thr s u) GRSeg1) | None => s end in
      Some (gset s1 t x1, ev OFwake gc_cursor MoNone 1 (zcount w) 0)
    end
  | GFin => Some (go GDone, LExit)
  | GDone => None
  end.

(* ================================================================== *)
(* (d) array blocking queue                                            *)
(*   put:  lock; while (cnt == capacity) wait(cv_not_full); datas[put_idx++] = d; ++cnt;
           notify_one(cv_not_empty); unlock                 <- notify under the mutex
     take: lock; while (cnt == 0) wait(cv_not_empty); ...; --cnt; notify_one(cv_not_full); unlock *)

Definition qc_m : nat := 0%nat.
Definition qc_ne : nat := 1%nat.
Definition qc_nf : nat := 2%nat.

Inductive qpc :=
  | QPSeg | QPLock | QPChk | QPWait | QPAsleep | QPWoken | QPSig | QPSeg2 | QPUnlock
  | QCSeg | QCLock | QCChk | QCWait | QCAsleep | QCWoken | QCSig | QCSeg2 | QCUnlock
  | QFin | QDone.
Record qthread := { q_pc : qpc; q_k : nat; q_pend : notes }.
Record qsys := {
  q_n : nat; q_nc : nat;      (* tids < nc are consumers, nc <= tid < n producers *)
  q_cap : Z; q_cnt : Z;
  q_m : option nat;
  q_thr : nat -> qthread;
}.
Definition qinit (n nc : nat) (cap : Z) (ks : nat -> nat) : qsys :=
  {| q_n := n; q_nc := nc; q_cap := cap; q_cnt := 0; q_m := None;
     q_thr := fun t => {| q_pc := if Nat.ltb t nc then QCSeg else QPSeg; q_k := ks t; q_pend := [] |} |}.
Definition qset (s : qsys) (t : nat) (x : qthread) : qsys :=
  {| q_n := q_n s; q_nc := q_nc s; q_cap := q_cap s; q_cnt := q_cnt s; q_m := q_m s;
     q_thr := upd (q_thr s) t x |}.
Definition qpcset (x : qthread) (p : qpc) : qthread := {| q_pc := p; q_k := q_k x; q_pend := [] |}.
Definition qset_m (s : qsys) (o : option nat) : qsys :=
  {| q_n := q_n s; q_nc := q_nc s; q_cap := q_cap s; q_cnt := q_cnt s; q_m := o; q_thr := q_thr s |}.
Definition qset_cnt (s : qsys) (v : Z) : qsys :=
  {| q_n := q_n s; q_nc := q_nc s; q_cap := q_cap s; q_cnt := v; q_m := q_m s; q_thr := q_thr s |}.
Definition q_pasleep (s : qsys) (u : nat) : bool :=
  match q_pc (q_thr s u) with QPAsleep => true | _ => false end.
Definition q_casleep (s : qsys) (u : nat) : bool :=
  match q_pc (q_thr s u) with QCAsleep => true | _ => false end.

Definition qstep (s : qsys) (t : nat) (ch : nat) : option (qsys * label) :=
  let x := q_thr s t in
  let go p := qset s t (qpcset x p) in
  if Nat.leb (q_n s) t then None else
  match q_pc x with
  (* ---- producer ---- *)
  | QPSeg => Some (go (match q_k x with O => QFin | S _ => QPLock end), LPlain (q_pend x))
  | QPLock =>
    match q_m s with
    | Some _ => None
    | None => Some (qset (qset_m s (Some t)) t (qpcset x QPChk), ev OMlock qc_m MoNone 0 0 0)
    end
  | QPChk =>
    if q_cnt s =? q_cap s then Some (go QPWait, LPlain [])
    else Some (qset (qset_cnt s (q_cnt s + 1)) t (qpcset x QPSig), LPlain [])
  | QPWait => Some (qset (qset_m s None) t (qpcset x QPAsleep), ev OCvwait qc_nf MoNone 0 0 0)
  | QPAsleep => if Nat.eqb ch 1 then Some (go QPWoken, ev OCvwoke qc_nf MoNone 1 0 0) else None
  | QPWoken =>
    match q_m s with
    | Some _ => None
    | None =>
      Some (qset (qset_m s (Some t)) t (qpcset x QPChk), ev OCvwoke qc_nf MoNone 0 0 0)
    end
  | QPSig =>
    let w := pick_waiter (q_casleep s) (q_n s) ch in
    let s1 := match w with Some u => qset s u (qpcset (q_thr s u) QCWoken) | None => s end in
    Some (qset s1 t (qpcset x QPSeg2), ev OCvsig qc_ne MoNone (zcount w) (zfirst w) 0)
  | QPSeg2 => Some (go QPUnlock, LPlain [])
  | QPUnlock =>
    Some (qset (qset_m s None) t {| q_pc := QPSeg; q_k := pred (q_k x); q_pend := [(n_put, 0)] |},
          ev OMunlock qc_m MoNone 0 0 0)
  (* ---- consumer ---- *)
  | QCSeg => Some (go (match q_k x with O => QFin | S _ => QCLock end), LPlain (q_pend x))
  | QCLock =>
    match q_m s with
    | Some _ => None
    | None => Some (qset (qset_m s (Some t)) t (qpcset x QCChk), ev OMlock qc_m MoNone 0 0 0)
    end
  | QCChk =>
    if q_cnt s =? 0 then Some (go QCWait, LPlain [])
    else Some (qset (qset_cnt s (q_cnt s - 1)) t (qpcset x QCSig), LPlain [])
  | QCWait => Some (qset (qset_m s None) t (qpcset x QCAsleep), ev OCvwait qc_ne MoNone 0 0 0)
  | QCAsleep => if Nat.eqb ch 1 then Some (go QCWoken, ev OCvwoke qc_ne MoNone 1 0 0) else None
  | QCWoken =>
    match q_m s with
    | Some _ => None
    | None =>
      Some (qset (qset_m s (Some t)) t (qpcset x QCChk), ev OCvwoke qc_ne MoNone 0 0 0)
    end
  | QCSig =>
    let w := pick_waiter (q_pasleep s) (q_n s) ch in
    let s1 := match w with Some u => qset s u (qpcset (q_thr s u) QPWoken) | None => s end in
    Some (qset s1 t (qpcset x QCSeg2), ev OCvsig qc_nf MoNone (zcount w) (zfirst w) 0)
  | QCSeg2 => Some (go QCUnlock, LPlain [])
  | QCUnlock =>
    Some (qset (qset_m s None) t {| q_pc := QCSeg; q_k := pred (q_k x); q_pend := [(n_took, 0)] |},
          ev OMunlock qc_m MoNone 0 0 0)
  | QFin => Some (go QDone, LExit)
  | QDone => None
  end.

(* ================================================================== *)
(* (e) double buffer (blocking and non-blocking mode)                   *)
(*   write: lock; p = back;
            while (p->cnt == capacity) { if (non_blocking) { unlock; return MUGGLE_ERR_FULL; }
                                         wait(cv_not_full); p = back; }
            p->datas[p->cnt++] = d; notify_one(cv_not_empty); unlock
     read:  lock; while (back->cnt == 0) wait(cv_not_empty);
            front->cnt = 0; swap(front, back); notify_one(cv_not_full); unlock; return front
     The driver's reader reads until it has received <need> items; a writer that is refused
     (non-blocking mode, MUGGLE_ERR_FULL) notes "full", yields and retries the same item.     *)

Definition dc_m : nat := 0%nat.
Definition dc_ne : nat := 1%nat.
Definition dc_nf : nat := 2%nat.

Inductive dpc :=
  | DRSeg | DRLock | DRChk | DRWait | DRAsleep | DRWoken | DRSig | DRSeg2 | DRUnlock
  | DWSeg | DWLock | DWChk | DWWait | DWAsleep | DWWoken | DWSig | DWSeg2 | DWUnlock
  | DWUnlockF | DWSegF | DWYield      (* non-blocking mode: the FULL return path and the client's retry *)
  | DFin | DDone.
Record dthread := { d_pc : dpc; d_k : nat; d_last : Z; d_pend : notes }.
  (* reader: d_k = items still needed, d_last = size of the buffer obtained by the read in progress *)
Record dsys := {
  d_n : nat; d_cap : Z;
  d_nb : bool;                (* buf->non_blocking *)
  d_back : Z;                 (* back->cnt; after a read the new back buffer is empty *)
  d_m : option nat;
  d_thr : nat -> dthread;
}.
Definition dinit (n : nat) (cap : Z) (nb : bool) (need : nat) (wk : nat -> nat) : dsys :=
  {| d_n := n; d_cap := cap; d_nb := nb; d_back := 0; d_m := None;
     d_thr := fun t => match t with
                       | O => {| d_pc := DRSeg; d_k := need; d_last := 0; d_pend := [] |}
                       | S w => {| d_pc := DWSeg; d_k := wk w; d_last := 0; d_pend := [] |}
                       end |}.
Definition dset (s : dsys) (t : nat) (x : dthread) : dsys :=
  {| d_n := d_n s; d_cap := d_cap s; d_nb := d_nb s; d_back := d_back s; d_m := d_m s; d_thr := upd (d_thr s) t x |}.
Definition dpcset (x : dthread) (p : dpc) : dthread :=
  {| d_pc := p; d_k := d_k x; d_last := d_last x; d_pend := [] |}.
Definition dset_m (s : dsys) (o : option nat) : dsys :=
  {| d_n := d_n s; d_cap := d_cap s; d_nb := d_nb s; d_back := d_back s; d_m := o; d_thr := d_thr s |}.
Definition dset_back (s : dsys) (v : Z) : dsys :=
  {| d_n := d_n s; d_cap := d_cap s; d_nb := d_nb s; d_back := v; d_m := d_m s; d_thr := d_thr s |}.
Definition d_wasleep (s : dsys) (u : nat) : bool :=
  match d_pc (d_thr s u) with DWAsleep => true | _ => false end.
Definition d_rasleep (s : dsys) (u : nat) : bool :=
  match d_pc (d_thr s u) with DRAsleep => true | _ => false end.

Definition dstep (s : dsys) (t : nat) (ch : nat) : option (dsys * label) :=
  let x := d_thr s t in
  let go p := dset s t (dpcset x p) in
  if Nat.leb (d_n s) t then None else
  match d_pc x with
  (* ---- reader ---- *)
  | DRSeg => Some (go (match d_k x with O => DFin | S _ => DRLock end), LPlain (d_pend x))
  | DRLock =>
    match d_m s with
    | Some _ => None
    | None => Some (dset (dset_m s (Some t)) t (dpcset x DRChk), ev OMlock dc_m MoNone 0 0 0)
    end
  | DRChk =>
    if d_back s =? 0 then Some (go DRWait, LPlain [])
    else Some (dset (dset_back s 0) t {| d_pc := DRSig; d_k := d_k x; d_last := d_back s; d_pend := [] |}, LPlain [])
  | DRWait => Some (dset (dset_m s None) t (dpcset x DRAsleep), ev OCvwait dc_ne MoNone 0 0 0)
  | DRAsleep => if Nat.eqb ch 1 then Some (go DRWoken, ev OCvwoke dc_ne MoNone 1 0 0) else None
  | DRWoken =>
    match d_m s with
    | Some _ => None
    | None => Some (dset (dset_m s (Some t)) t (dpcset x DRChk), ev OCvwoke dc_ne MoNone 0 0 0)
    end
  | DRSig =>
    let w := pick_waiter (d_wasleep s) (d_n s) ch in
    let s1 := match w with Some u => dset s u (dpcset (d_thr s u) DWWoken) | None => s end in
    Some (dset s1 t (dpcset x DRSeg2), ev OCvsig dc_nf MoNone (zcount w) (zfirst w) 0)
  | DRSeg2 => Some (go DRUnlock, LPlain [])
  | DRUnlock =>
    Some (dset (dset_m s None) t {| d_pc := DRSeg; d_k := (d_k x - Z.to_nat (d_last x))%nat; d_last := d_last x;
                                    d_pend := [(n_got, d_last x)] |},
          ev OMunlock dc_m MoNone 0 0 0)
  (* ---- writer ---- *)
  | DWSeg => Some (go (match d_k x with O => DFin | S _ => DWLock end), LPlain (d_pend x))
  | DWLock =>
    match d_m s with
    | Some _ => None
    | None => Some (dset (dset_m s (Some t)) t (dpcset x DWChk), ev OMlock dc_m MoNone 0 0 0)
    end
  | DWChk =>
    if d_back s =? d_cap s then Some (go (if d_nb s then DWUnlockF else DWWait), LPlain [])
    else Some (dset (dset_back s (d_back s + 1)) t (dpcset x DWSig), LPlain [])
  | DWWait => Some (dset (dset_m s None) t (dpcset x DWAsleep), ev OCvwait dc_nf MoNone 0 0 0)
  | DWAsleep => if Nat.eqb ch 1 then Some (go DWWoken, ev OCvwoke dc_nf MoNone 1 0 0) else None
  | DWWoken =>
    match d_m s with
    | Some _ => None
    | None =>
      Some (dset (dset_m s (Some t)) t (dpcset x DWChk), ev OCvwoke dc_nf MoNone 0 0 0)
    end
  | DWSig =>
    let w := pick_waiter (d_rasleep s) (d_n s) ch in
    let s1 := match w with Some u => dset s u (dpcset (d_thr s u) DRWoken) | None => s end in
    Some (dset s1 t (dpcset x DWSeg2), ev OCvsig dc_ne MoNone (zcount w) (zfirst w) 0)
  | DWSeg2 => Some (go DWUnlock, LPlain [])
  | DWUnlock =>
    Some (dset (dset_m s None) t {| d_pc := DWSeg; d_k := pred (d_k x); d_last := d_last x; d_pend := [(n_wrote, 0)] |},
          ev OMunlock dc_m MoNone 0 0 0)
  (* non-blocking mode, back buffer full: unlock, return MUGGLE_ERR_FULL; the client retries *)
  | DWUnlockF => Some (dset (dset_m s None) t (dpcset x DWSegF), ev OMunlock dc_m MoNone 0 0 0)
  | DWSegF => Some (go DWYield, LPlain [(n_full, 0)])
  | DWYield => Some (go DWSeg, ev OYield 0%nat MoNone 0 0 0)
  | DFin => Some (go DDone, LExit)
  | DDone => None
  end.
