(* C03 (e) — double buffer (blocking and non-blocking mode): one mutex, cv_not_empty / cv_not_full, both
   notified with notify_ONE.  One reader, any number of writers, any capacity >= 1, every
   schedule, spurious wake-ups included.  Why notify_one on cv_not_full suffices although a read
   frees the WHOLE back buffer and wakes only one writer: the woken writer's write makes the back
   buffer non-empty again, which re-enables the reader, whose next read notifies again. *)
From MV Require Import C03.Model C03.ProofsCommon.
Local Open Scope Z_scope.

Definition d_is_reader (p : dpc) : bool :=
  match p with DRSeg | DRLock | DRChk | DRWait | DRAsleep | DRWoken | DRSig | DRSeg2 | DRUnlock => true | _ => false end.
Definition d_holds (p : dpc) : bool :=
  match p with
  | DRChk | DRWait | DRSig | DRSeg2 | DRUnlock | DWChk | DWWait | DWSig | DWSeg2 | DWUnlock | DWUnlockF => true
  | _ => false
  end.
(* asleep (or committed to sleep) on cv_not_full / cv_not_empty *)
Definition d_a_nf (p : dpc) : bool := match p with DWWait | DWAsleep => true | _ => false end.
Definition d_a_ne (p : dpc) : bool := match p with DRWait | DRAsleep => true | _ => false end.
(* wake tokens in flight: for cv_not_full a reader between its swap and its notify, or a woken
   writer that has not yet re-checked; for cv_not_empty a writer between its append and its notify *)
Definition d_t_nf (p : dpc) : bool := match p with DWWoken | DWChk | DRSig => true | _ => false end.
Definition d_t_ne (p : dpc) : bool := match p with DWSig => true | _ => false end.

Definition d_enabled (s : dsys) (t : nat) : Prop := dstep s t 0 <> None.
Definition d_done (s : dsys) (t : nat) : Prop := d_pc (d_thr s t) = DDone.

Record DInv (s : dsys) : Prop := {
  di_cap : 1 <= d_cap s;
  di_role : forall t, d_is_reader (d_pc (d_thr s t)) = true -> t = 0%nat;
  di_excl : forall t, d_holds (d_pc (d_thr s t)) = true -> d_m s = Some t;
  di_own : forall u, d_m s = Some u -> (u < d_n s)%nat /\ d_holds (d_pc (d_thr s u)) = true;
  di_back : 0 <= d_back s <= d_cap s;
  (* a writer asleep on cv_not_full: the back buffer is non-empty (so the reader can read and will
     notify), or a wake token for cv_not_full is in flight *)
  di_nf : forall t, (t < d_n s)%nat -> d_a_nf (d_pc (d_thr s t)) = true ->
          0 < d_back s \/ exists u, (u < d_n s)%nat /\ d_t_nf (d_pc (d_thr s u)) = true;
  (* the reader asleep on cv_not_empty: the back buffer is empty, or a writer is between its
     append and its notify *)
  di_ne : forall t, (t < d_n s)%nat -> d_a_ne (d_pc (d_thr s t)) = true ->
          d_back s = 0 \/ exists u, (u < d_n s)%nat /\ d_t_ne (d_pc (d_thr s u)) = true;
}.

Lemma dinit_inv n cap nb need wk : 1 <= cap -> DInv (dinit n cap nb need wk).
Proof.
  intros Hc. constructor; simpl.
  - exact Hc.
  - intros [|t]; simpl; [reflexivity|discriminate].
  - intros [|t]; simpl; discriminate.
  - discriminate.
  - lia.
  - intros [|t] _; simpl; discriminate.
  - intros [|t] _; simpl; discriminate.
Qed.

Lemma d_wasleep_pc s u : d_wasleep s u = true -> d_pc (d_thr s u) = DWAsleep.
Proof. unfold d_wasleep. destruct (d_pc (d_thr s u)); congruence. Qed.
Lemma d_rasleep_pc s u : d_rasleep s u = true -> d_pc (d_thr s u) = DRAsleep.
Proof. unfold d_rasleep. destruct (d_pc (d_thr s u)); congruence. Qed.

Ltac step_cases Hs :=
  repeat match type of Hs with
  | context [match ?e with _ => _ end] => destruct e eqn:?
  end.

Ltac old_pc_contra C :=
  match goal with
  | E : d_pc (d_thr _ ?x) = _ |- _ => rewrite E in C; discriminate
  end.

Ltac t_role Hrole :=
  intros a Ha; upd_all; try discriminate;
  first [ apply Hrole; assumption
        | match goal with E : d_pc (d_thr _ ?x) = _ |- ?x = 0%nat => apply Hrole; rewrite E; reflexivity end ].

Ltac t_excl Hexcl :=
  intros a Ha; upd_all; try discriminate;
  first [ reflexivity
        | (apply Hexcl; assumption)
        | match goal with E : d_pc (d_thr _ ?x) = _ |- d_m _ = Some ?x => apply Hexcl; rewrite E; reflexivity end
        | (exfalso;
           match goal with
           | _ => let X := fresh in pose proof (Hexcl _ Ha) as X; discriminate X
           | E : d_pc (d_thr ?s ?t) = _, n : ?x <> ?t |- _ =>
             let H := fresh in
             assert (H : d_m s = Some t) by (apply Hexcl; rewrite E; reflexivity);
             rewrite (Hexcl _ Ha) in H; congruence
           end) ].

Ltac t_own Hown Hlt :=
  intros u Hu; simpl in Hu; try discriminate;
  first [ (inv_some Hu; upd_all; split; [assumption|reflexivity])
        | (let B := fresh "B" in let C := fresh "C" in
           destruct (Hown _ Hu) as (B & C); (split; [assumption|]; upd_all;
           first [assumption | reflexivity | old_pc_contra C])) ].

Ltac z_norm :=
  repeat match goal with H : Z.eqb _ _ = true |- _ => apply Z.eqb_eq in H end;
  repeat match goal with H : Z.eqb _ _ = false |- _ => apply Z.eqb_neq in H end.

(* the generic closer for di_nf / di_ne: keep the old disjunct; when the old witness is the
   stepping thread it is still a token, or the new state has the arithmetic disjunct *)
Ltac t_tok H Hlt :=
  intros a Hal Ha; z_norm; upd_all; try discriminate;
  first [ (left; lia)
        | (let u := fresh "u" in let Hu := fresh "Hu" in let Hp := fresh "Hp" in
           destruct (H _ Hal Ha) as [Hb|(u & Hu & Hp)];
           [ first [ left; lia | left; assumption ]
           | right; exists u; split; [assumption|]; upd_all; first [assumption | reflexivity | old_pc_contra Hp] ])
        | (match goal with E : d_pc (d_thr _ ?x) = _ |- _ =>
             let u := fresh "u" in let Hu := fresh "Hu" in let Hp := fresh "Hp" in
             destruct (H x Hlt ltac:(rewrite E; reflexivity)) as [Hb|(u & Hu & Hp)];
             [ first [ left; lia | left; assumption ]
             | right; exists u; split; [assumption|]; upd_all; first [assumption | reflexivity | old_pc_contra Hp] ]
           end) ].

Lemma dstep_inv s t ch s' l : DInv s -> dstep s t ch = Some (s', l) -> DInv s'.
Proof.
  intros [Hcap Hrole Hexcl Hown Hback Hnf Hne] Hs. unfold dstep in Hs.
  destruct (Nat.leb (d_n s) t) eqn:Hlt; [discriminate|]. apply Nat.leb_gt in Hlt.
  cbv zeta in Hs.
  destruct (d_pc (d_thr s t)) eqn:Epc; step_cases Hs; try discriminate; inv_some Hs.
  all: try match goal with
       | E : pick_waiter (d_wasleep _) _ _ = Some ?u |- _ =>
         let H0 := fresh "Hul" in let H1 := fresh "Hwk" in
         destruct (pick_waiter_some _ _ _ _ E) as [H0 H1]; apply d_wasleep_pc in H1;
         assert (u <> t) by (intros ->; congruence)
       | E : pick_waiter (d_rasleep _) _ _ = Some ?u |- _ =>
         let H0 := fresh "Hul" in let H1 := fresh "Hwk" in
         destruct (pick_waiter_some _ _ _ _ E) as [H0 H1]; apply d_rasleep_pc in H1;
         assert (u <> t) by (intros ->; congruence)
       end.
  all: constructor; simpl.
  all: try exact Hcap.
  all: try (t_role Hrole; fail).
  all: try (t_excl Hexcl; fail).
  all: try (t_own Hown Hlt; fail).
  all: try (z_norm; lia).
  all: try (t_tok Hnf Hlt; fail).
  all: try (t_tok Hne Hlt; fail).
  - (* the read (swap): the new back buffer is empty, the reader is now between swap and notify *)
    intros a Hal Ha. right. exists t. split; [assumption|]. upd_all; reflexivity.
  - (* notify_one(cv_not_full) wakes a sleeping writer: it carries the token *)
    intros a Hal Ha. right. exists n. split; [assumption|]. upd_all; reflexivity.
  - (* notify_one(cv_not_full) finds no sleeper: nobody sleeps there *)
    intros a Hal Ha. exfalso. upd_all; try discriminate.
    destruct (d_pc (d_thr s a)) eqn:Ea; try discriminate.
    + assert (d_m s = Some a) by (apply Hexcl; rewrite Ea; reflexivity).
      assert (d_m s = Some t) by (apply Hexcl; rewrite Epc; reflexivity). congruence.
    + pose proof (pick_waiter_none _ _ _ Heqo a Hal) as X. unfold d_wasleep in X. rewrite Ea in X. discriminate.
  - (* the write: the writer is now between its append and its notify *)
    intros a Hal Ha. right. exists t. split; [assumption|]. upd_all; reflexivity.
  - (* notify_one(cv_not_empty) wakes the (only) reader *)
    intros a Hal Ha. exfalso. upd_all; try discriminate.
    assert (a = 0%nat) by (apply Hrole; destruct (d_pc (d_thr s a)); simpl in *; congruence).
    assert (n = 0%nat) by (apply Hrole; rewrite Hwk; reflexivity). congruence.
  - intros a Hal Ha. exfalso. upd_all; try discriminate.
    destruct (d_pc (d_thr s a)) eqn:Ea; try discriminate.
    + assert (d_m s = Some a) by (apply Hexcl; rewrite Ea; reflexivity).
      assert (d_m s = Some t) by (apply Hexcl; rewrite Epc; reflexivity). congruence.
    + pose proof (pick_waiter_none _ _ _ Heqo a Hal) as X. unfold d_rasleep in X. rewrite Ea in X. discriminate.
Qed.

Theorem d_reachable_inv n cap nb need wk sched : 1 <= cap ->
  DInv (exec dsys dstep (dinit n cap nb need wk) sched).
Proof. intros H. apply inv_exec; [|now apply dinit_inv]. intros; eapply dstep_inv; eauto. Qed.

Lemma d_const_step s t ch s' l : dstep s t ch = Some (s', l) -> d_n s' = d_n s /\ d_cap s' = d_cap s.
Proof.
  unfold dstep. destruct (Nat.leb (d_n s) t); [discriminate|]. cbv zeta.
  destruct (d_pc (d_thr s t)); intros Hs; step_cases Hs; try discriminate; inv_some Hs; split; reflexivity.
Qed.
Lemma d_nb_step s t ch s' l : dstep s t ch = Some (s', l) -> d_nb s' = d_nb s.
Proof.
  unfold dstep. destruct (Nat.leb (d_n s) t); [discriminate|]. cbv zeta.
  destruct (d_pc (d_thr s t)); intros Hs; step_cases Hs; try discriminate; inv_some Hs; simpl; congruence.
Qed.
Lemma d_nb_exec sched s : d_nb (exec dsys dstep s sched) = d_nb s.
Proof.
  revert s. induction sched as [|[t c] r IH]; intros s; simpl; [reflexivity|].
  rewrite IH. unfold exec1; simpl. destruct (dstep s t c) as [[s' l]|] eqn:E; [|reflexivity].
  eapply d_nb_step; eauto.
Qed.
Lemma d_const_exec sched s :
  d_n (exec dsys dstep s sched) = d_n s /\ d_cap (exec dsys dstep s sched) = d_cap s.
Proof.
  revert s. induction sched as [|[t c] r IH]; intros s; simpl; [split; reflexivity|].
  destruct (IH (exec1 dsys dstep s (t, c))) as [A B]. rewrite A, B. unfold exec1; simpl.
  destruct (dstep s t c) as [[s' l]|] eqn:E; [|split; reflexivity].
  eapply d_const_step; eauto.
Qed.

(* ---------------- enabledness ---------------- *)
Ltac enabled_cases :=
  repeat match goal with
  | |- context [match ?e with _ => _ end] => destruct e
  end; discriminate.

Lemma d_holds_enabled s u : (u < d_n s)%nat -> d_holds (d_pc (d_thr s u)) = true -> d_enabled s u.
Proof.
  intros Hu Hin. unfold d_enabled, dstep. apply Nat.leb_gt in Hu. rewrite Hu. cbv zeta.
  destruct (d_pc (d_thr s u)); try discriminate; enabled_cases.
Qed.

Definition d_stuck_pc (p : dpc) : bool := match p with DRAsleep | DWAsleep | DDone => true | _ => false end.

Lemma d_enabled_unless s t :
  (t < d_n s)%nat -> d_m s = None -> d_stuck_pc (d_pc (d_thr s t)) = false -> d_enabled s t.
Proof.
  intros Ht Hm Hp. unfold d_enabled, dstep. apply Nat.leb_gt in Ht. rewrite Ht. cbv zeta.
  rewrite Hm. destruct (d_pc (d_thr s t)); try discriminate; enabled_cases.
Qed.

(* Deadlock freedom, full form: some thread can take a step (spurious wake-ups not counted), or
   all have finished, or the reader sleeps on a genuinely EMPTY back buffer and every writer has
   finished, or the reader has FINISHED (stopped consuming) and the remaining writers sleep. *)
Lemma d_progress s : DInv s ->
  (exists t, (t < d_n s)%nat /\ d_enabled s t) \/
  (forall t, (t < d_n s)%nat -> d_done s t) \/
  (d_back s = 0 /\ forall t, (t < d_n s)%nat -> d_pc (d_thr s t) = DRAsleep \/ d_done s t) \/
  (0 < d_back s /\ forall t, (t < d_n s)%nat -> d_pc (d_thr s t) = DWAsleep \/ d_done s t).
Proof.
  intros [Hcap Hrole Hexcl Hown Hback Hnf Hne].
  destruct (d_m s) as [o|] eqn:Em.
  { destruct (Hown o eq_refl) as (B & C). left. exists o. split; [assumption|]. now apply d_holds_enabled. }
  destruct (bounded_dec (fun t => negb (d_stuck_pc (d_pc (d_thr s t)))) (d_n s)) as [(t & Ht & Hp)|Hall].
  { left. exists t. split; [assumption|]. apply d_enabled_unless; auto.
    destruct (d_stuck_pc (d_pc (d_thr s t))); [discriminate|reflexivity]. }
  right.
  assert (Hst : forall t, (t < d_n s)%nat ->
            d_pc (d_thr s t) = DRAsleep \/ d_pc (d_thr s t) = DWAsleep \/ d_pc (d_thr s t) = DDone).
  { intros t Ht. specialize (Hall t Ht). destruct (d_pc (d_thr s t)); simpl in Hall; try discriminate; auto. }
  assert (Hnotok_nf : forall u, (u < d_n s)%nat -> d_t_nf (d_pc (d_thr s u)) = false).
  { intros u Hu. destruct (Hst u Hu) as [E|[E|E]]; rewrite E; reflexivity. }
  assert (Hnotok_ne : forall u, (u < d_n s)%nat -> d_t_ne (d_pc (d_thr s u)) = false).
  { intros u Hu. destruct (Hst u Hu) as [E|[E|E]]; rewrite E; reflexivity. }
  destruct (bounded_dec (fun t => d_wasleep s t) (d_n s)) as [(w & Hw & Ew)|Nw];
  destruct (bounded_dec (fun t => d_rasleep s t) (d_n s)) as [(r & Hr & Er)|Nr].
  - exfalso. apply d_wasleep_pc in Ew. apply d_rasleep_pc in Er.
    destruct (Hnf w Hw) as [Hb|(u & Hu & Hp)]; [rewrite Ew; reflexivity| |rewrite Hnotok_nf in Hp by assumption; discriminate].
    destruct (Hne r Hr) as [Hb'|(u & Hu & Hp)]; [rewrite Er; reflexivity|lia|rewrite Hnotok_ne in Hp by assumption; discriminate].
  - right. right. apply d_wasleep_pc in Ew.
    destruct (Hnf w Hw) as [Hb|(u & Hu & Hp)]; [rewrite Ew; reflexivity| |rewrite Hnotok_nf in Hp by assumption; discriminate].
    split; [exact Hb|]. intros t Ht. destruct (Hst t Ht) as [E|[E|E]]; auto.
    exfalso. specialize (Nr t Ht). unfold d_rasleep in Nr. rewrite E in Nr. discriminate.
  - right. left. apply d_rasleep_pc in Er.
    destruct (Hne r Hr) as [Hb|(u & Hu & Hp)]; [rewrite Er; reflexivity| |rewrite Hnotok_ne in Hp by assumption; discriminate].
    split; [exact Hb|]. intros t Ht. destruct (Hst t Ht) as [E|[E|E]]; auto.
    exfalso. specialize (Nw t Ht). unfold d_wasleep in Nw. rewrite E in Nw. discriminate.
  - left. intros t Ht. destruct (Hst t Ht) as [E|[E|E]]; auto; exfalso.
    + specialize (Nr t Ht). unfold d_rasleep in Nr. rewrite E in Nr. discriminate.
    + specialize (Nw t Ht). unfold d_wasleep in Nw. rewrite E in Nw. discriminate.
Qed.

Theorem dbuf_no_deadlock_all n cap nb need wk sched : 1 <= cap ->
  let s := exec dsys dstep (dinit n cap nb need wk) sched in
  (exists t, (t < n)%nat /\ d_enabled s t) \/
  (forall t, (t < n)%nat -> d_done s t) \/
  (d_back s = 0 /\ forall t, (t < n)%nat -> d_pc (d_thr s t) = DRAsleep \/ d_done s t) \/
  (0 < d_back s /\ forall t, (t < n)%nat -> d_pc (d_thr s t) = DWAsleep \/ d_done s t).
Proof.
  intros Hc s. pose proof (d_progress s (d_reachable_inv n cap nb need wk sched Hc)) as H.
  destruct (d_const_exec sched (dinit n cap nb need wk)) as [En _]. fold s in En. simpl in En.
  rewrite En in H. exact H.
Qed.

(* notify_ONE on cv_not_full suffices: as long as the reader has not finished (it keeps
   consuming), a writer asleep on cv_not_full never means that everybody is stuck. *)
Theorem dbuf_notify_one_suffices_all n cap nb need wk sched w r : 1 <= cap ->
  let s := exec dsys dstep (dinit n cap nb need wk) sched in
  (w < n)%nat -> d_pc (d_thr s w) = DWAsleep ->
  (r < n)%nat -> d_is_reader (d_pc (d_thr s r)) = true ->
  exists t, (t < n)%nat /\ d_enabled s t.
Proof.
  intros Hc s Hw Ew Hr Er.
  destruct (dbuf_no_deadlock_all n cap nb need wk sched Hc) as [H|[H|[[_ H]|[_ H]]]]; fold s in H.
  - exact H.
  - exfalso. specialize (H w Hw). unfold d_done in H. congruence.
  - exfalso. destruct (H w Hw) as [E|E]; [congruence|unfold d_done in E; congruence].
  - exfalso. destruct (H r Hr) as [E|E]; [|unfold d_done in E]; rewrite E in Er; discriminate.
Qed.

(* No lost wake-up, per sleeper *)
Theorem dbuf_no_lost_wakeup_all n cap nb need wk sched t : 1 <= cap ->
  let s := exec dsys dstep (dinit n cap nb need wk) sched in
  (t < n)%nat ->
  (d_pc (d_thr s t) = DRAsleep ->
     d_back s = 0 \/ exists u, (u < n)%nat /\ d_t_ne (d_pc (d_thr s u)) = true) /\
  (d_pc (d_thr s t) = DWAsleep ->
     0 < d_back s \/ exists u, (u < n)%nat /\ d_t_nf (d_pc (d_thr s u)) = true).
Proof.
  intros Hc s Ht. pose proof (d_reachable_inv n cap nb need wk sched Hc) as [Hcap Hrole Hexcl Hown Hback Hnf Hne].
  fold s in Hcap, Hrole, Hexcl, Hown, Hback, Hnf, Hne.
  destruct (d_const_exec sched (dinit n cap nb need wk)) as [En _]. fold s in En. simpl in En.
  rewrite En in Hnf, Hne. split; intros E.
  - apply (Hne t Ht). rewrite E. reflexivity.
  - apply (Hnf t Ht). rewrite E. reflexivity.
Qed.

(* non-vacuity: capacity 2, three writers; two writers asleep on cv_not_full, the read frees the
   whole back buffer but wakes only ONE of them; the other stays asleep with room available *)
Definition d_demo : dsys := dinit 5 2 false 4 (fun _ => 1%nat).
Example d_one_of_two_sleepers_woken :
  let s := exec dsys dstep d_demo
    [(1,0);(1,0);(1,0);(1,0);(1,0);(1,0); (2,0);(2,0);(2,0);(2,0);(2,0);(2,0);
     (3,0);(3,0);(3,0);(3,0); (4,0);(4,0);(4,0);(4,0);
     (0,0);(0,0);(0,0);(0,0)]%nat in
  d_back s = 0 /\ d_pc (d_thr s 3%nat) = DWWoken /\ d_pc (d_thr s 4%nat) = DWAsleep.
Proof. vm_compute. repeat split; reflexivity. Qed.


(* the progress measure behind "notify_one suffices": the notify of a read wakes ONE sleeping
   writer whenever there is one -- the number of writers asleep on cv_not_full decreases by one
   with each completed read *)
Lemma d_read_wakes_one s t ch s' l :
  (t < d_n s)%nat -> d_pc (d_thr s t) = DRSig -> dstep s t ch = Some (s', l) ->
  let asleep := fun (x : dthread) => match d_pc x with DWAsleep => true | _ => false end in
  (0 < tcount asleep (d_thr s) (d_n s))%nat ->
  (tcount asleep (d_thr s') (d_n s') + 1 = tcount asleep (d_thr s) (d_n s))%nat.
Proof.
  intros Ht Epc Hs asleep Hpos. unfold dstep in Hs.
  apply Nat.leb_gt in Ht. rewrite Ht, Epc in Hs. cbv zeta in Hs. apply Nat.leb_gt in Ht.
  destruct (pick_waiter (d_wasleep s) (d_n s) ch) as [u|] eqn:Ep; inv_some Hs.
  - destruct (pick_waiter_some _ _ _ _ Ep) as [Hu Hw]. apply d_wasleep_pc in Hw.
    assert (Hne : u <> t) by (intros ->; congruence).
    unfold dset; cbn [d_thr d_n].
    pose proof (tcount_upd2 asleep (d_thr s) u (dpcset (d_thr s u) DWWoken) t (dpcset (d_thr s t) DRSeg2) (d_n s) Hu Ht Hne) as X.
    assert (A1 : asleep (d_thr s u) = true) by (unfold asleep; rewrite Hw; reflexivity).
    assert (A2 : asleep (d_thr s t) = false) by (unfold asleep; rewrite Epc; reflexivity).
    assert (A3 : asleep (dpcset (d_thr s u) DWWoken) = false) by reflexivity.
    assert (A4 : asleep (dpcset (d_thr s t) DRSeg2) = false) by reflexivity.
    rewrite A1, A2, A3, A4 in X. unfold b2n in X. lia.
  - exfalso. destruct (tcount_pos_inv asleep (d_thr s) (d_n s) Hpos) as (w & Hw & Ew).
    pose proof (pick_waiter_none _ _ _ Ep w Hw) as X. unfold d_wasleep in X. unfold asleep in Ew.
    destruct (d_pc (d_thr s w)); congruence.
Qed.
