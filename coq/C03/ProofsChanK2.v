(* C03 (g) — channel, every writer-lock kind x every reader mode, continued: the theorems.  Invariants and
   their preservation are in ProofsChanK.v. *)
From MV Require Import C03.Model C03.ModelK C03.ProofsCommon C03.ProofsChanK.
Local Open Scope Z_scope.

Ltac step_cases Hs :=
  repeat match type of Hs with
  | context [match ?e with _ => _ end] => destruct e eqn:?
  end.

(* every reachable state satisfies both invariants: all schedules, any number of writers *)
Theorem k_reachable_inv n cap rm lk nreads wk sched :
  KInv1 (exec ksys kstep (kinit n cap rm lk nreads wk) sched) /\
  KInv2 (exec ksys kstep (kinit n cap rm lk nreads wk) sched).
Proof.
  apply (inv_exec ksys kstep (fun s => KInv1 s /\ KInv2 s)).
  - intros s t c s' l [H1 H2] Hs. split; [eapply kstep_inv1; eauto|eapply kstep_inv2; eauto].
  - split; [apply kinit_inv1|apply kinit_inv2].
Qed.

(* ---------------- enabledness ---------------- *)
Ltac enabled_cases :=
  repeat match goal with
  | |- context [match ?e with _ => _ end] => destruct e
  end; discriminate.

Lemma k_n_step s t ch s' l : kstep s t ch = Some (s', l) -> k_n s' = k_n s.
Proof.
  unfold kstep. destruct (Nat.leb (k_n s) t); [discriminate|]. cbv zeta.
  destruct (k_pc (k_thr s t)); intros Hs; step_cases Hs; try discriminate; inv_some Hs; reflexivity.
Qed.
Lemma k_modes_step s t ch s' l : kstep s t ch = Some (s', l) -> k_rmode s' = k_rmode s /\ k_lk s' = k_lk s.
Proof.
  unfold kstep. destruct (Nat.leb (k_n s) t); [discriminate|]. cbv zeta.
  destruct (k_pc (k_thr s t)); intros Hs; step_cases Hs; try discriminate; inv_some Hs; simpl; split; congruence.
Qed.
Lemma k_modes_exec sched s :
  k_rmode (exec ksys kstep s sched) = k_rmode s /\ k_lk (exec ksys kstep s sched) = k_lk s.
Proof.
  revert s. induction sched as [|[t c] r IH]; intros s; simpl; [split; reflexivity|].
  destruct (IH (exec1 ksys kstep s (t, c))) as [A B]. rewrite A, B. unfold exec1; simpl.
  destruct (kstep s t c) as [[s' l]|] eqn:E; [|split; reflexivity]. eapply k_modes_step; eauto.
Qed.
Lemma k_n_exec sched s : k_n (exec ksys kstep s sched) = k_n s.
Proof.
  revert s. induction sched as [|[t c] r IH]; intros s; simpl; [reflexivity|].
  rewrite IH. unfold exec1; simpl. destruct (kstep s t c) as [[s' l]|] eqn:E; [|reflexivity].
  eapply k_n_step; eauto.
Qed.

(* the owner of read_mutex can always take a step *)
Lemma k_rmholds_enabled s u : (u < k_n s)%nat -> k_rmholds (k_pc (k_thr s u)) = true -> k_enabled s u.
Proof.
  intros Hu Hin. unfold k_enabled, kstep. apply Nat.leb_gt in Hu. rewrite Hu. cbv zeta.
  destruct (k_pc (k_thr s u)); try discriminate; enabled_cases.
Qed.

Definition k_stuck_pc (p : kpc) : bool :=
  match p with KRBlocked | KMAsleep | KWLBlocked | KDone => true | _ => false end.

(* with read_mutex and the writer lock free, only the three kinds of sleepers and finished threads cannot run *)
Lemma k_enabled_unless s t :
  (t < k_n s)%nat -> k_rm s = None -> k_lock s = 0 -> k_stuck_pc (k_pc (k_thr s t)) = false -> k_enabled s t.
Proof.
  intros Ht Hm Hl Hp. unfold k_enabled, kstep. apply Nat.leb_gt in Ht. rewrite Ht. cbv zeta.
  rewrite Hm, Hl. change (0 =? 0) with true. destruct (k_pc (k_thr s t)); try discriminate; enabled_cases.
Qed.
(* ... and whoever is not at the acquire operation does not care about the writer lock *)
Lemma k_enabled_notacq s t :
  (t < k_n s)%nat -> k_rm s = None -> k_pc (k_thr s t) <> KWAcq ->
  k_stuck_pc (k_pc (k_thr s t)) = false -> k_enabled s t.
Proof.
  intros Ht Hm Ha Hp. unfold k_enabled, kstep. apply Nat.leb_gt in Ht. rewrite Ht. cbv zeta.
  rewrite Hm. destruct (k_pc (k_thr s t)); try discriminate; try congruence; enabled_cases.
Qed.
(* the holder of the writer lock can always take a step once read_mutex is free *)
Lemma k_holds_enabled s u : (u < k_n s)%nat -> k_rm s = None -> k_holds (k_pc (k_thr s u)) = true -> k_enabled s u.
Proof.
  intros Hu Hm Hin. unfold k_enabled, kstep. apply Nat.leb_gt in Hu. rewrite Hu. cbv zeta.
  rewrite Hm. destruct (k_pc (k_thr s u)); try discriminate; enabled_cases.
Qed.

(* whoever is not stuck can run, or the owner of read_mutex / of the writer lock can *)
Lemma k_someone_enabled s u : KInv1 s ->
  (u < k_n s)%nat -> k_stuck_pc (k_pc (k_thr s u)) = false -> exists t, (t < k_n s)%nat /\ k_enabled s t.
Proof.
  intros [_ _ _ _ _ _ _ _ _ _ _ H01 Hheld _ Hown _] Hu Hp.
  destruct (k_rm s) as [o|] eqn:Em.
  { destruct (Hown o eq_refl) as (B & C). exists o. split; [assumption|]. now apply k_rmholds_enabled. }
  destruct H01 as [L|L].
  - exists u. split; [assumption|]. now apply k_enabled_unless.
  - destruct (Hheld L) as (h & Hh & Hp'). exists h. split; [assumption|]. now apply k_holds_enabled.
Qed.

Lemma k_holds_not_stuck p : k_holds p = true -> k_stuck_pc p = false.
Proof. destruct p; simpl; congruence. Qed.
Lemma k_pending_not_stuck x : k_pending x = true -> k_stuck_pc (k_pc x) = false.
Proof. unfold k_pending. destruct (k_ok x); simpl; [|discriminate]. destruct (k_pc x); simpl; congruence. Qed.
Lemma k_lwaker_not_stuck p : k_lwaker p = true -> k_stuck_pc p = false.
Proof. destruct p; simpl; congruence. Qed.
Lemma k_about_not_stuck x : k_about x = true -> k_stuck_pc (k_pc x) = false.
Proof. unfold k_about. destruct (k_pc x); simpl; congruence. Qed.

(* Deadlock freedom, full form: some thread can take a step, or every thread has finished, or the
   reader sleeps (futex on write_cursor / read_cv) on a GENUINELY EMPTY channel and every writer has
   finished.  In particular no state has every unfinished writer asleep on the lock word. *)
Lemma k_progress s : KInv1 s -> KInv2 s ->
  (exists t, (t < k_n s)%nat /\ k_enabled s t) \/
  (forall t, (t < k_n s)%nat -> k_done s t) \/
  ((k_pc (k_thr s 0%nat) = KRBlocked \/ k_pc (k_thr s 0%nat) = KMAsleep) /\ k_empty s /\
   forall t, (0 < t < k_n s)%nat -> k_done s t).
Proof.
  intros H1 [Hwait Hsleep Hmwait Hmsleep Hlsleep].
  pose proof H1 as [Hrole Hnm Hrs Hrm Hwk Hls Hsp Hfl Hlp Hsg Hk H01 Hheld Hexcl Hown Hltn].
  destruct (bounded_dec (fun t => negb (k_stuck_pc (k_pc (k_thr s t)))) (k_n s)) as [(t & Ht & Hp)|Hall].
  { left. apply (k_someone_enabled s t H1 Ht). destruct (k_stuck_pc (k_pc (k_thr s t))); [discriminate|reflexivity]. }
  assert (Hst : forall t, (t < k_n s)%nat -> k_stuck_pc (k_pc (k_thr s t)) = true).
  { intros t Ht. specialize (Hall t Ht). destruct (k_stuck_pc (k_pc (k_thr s t))); [reflexivity|discriminate]. }
  (* nobody sleeps on the lock word *)
  assert (Hnl : forall t, (t < k_n s)%nat -> k_pc (k_thr s t) <> KWLBlocked).
  { intros t Ht E. destruct (Hlsleep t E) as [Hl|[(u & Hu & Hp)|(u & Hu & Hp)]].
    - destruct (Hheld Hl) as (u & Hu & Hp). pose proof (Hst u Hu) as X. rewrite (k_holds_not_stuck _ Hp) in X. discriminate.
    - pose proof (Hst u Hu) as X. rewrite (k_lwaker_not_stuck _ Hp) in X. discriminate.
    - pose proof (Hst u Hu) as X. rewrite (k_about_not_stuck _ Hp) in X. discriminate. }
  assert (Hw : forall t, (0 < t < k_n s)%nat -> k_done s t).
  { intros t [Ht0 Ht]. pose proof (Hst t Ht) as X. pose proof (Hnl t Ht) as Y. unfold k_done.
    destruct (k_pc (k_thr s t)) eqn:E; simpl in X; try discriminate; try congruence;
      (exfalso; assert (t = 0%nat) by (apply Hrole; rewrite E; reflexivity); lia). }
  right.
  destruct (Nat.eq_dec (k_n s) 0) as [En|En].
  { left. intros t Ht. lia. }
  assert (H0 : (0 < k_n s)%nat) by lia.
  pose proof (Hst 0%nat H0) as X. pose proof (Hnl 0%nat H0) as Y.
  destruct (k_pc (k_thr s 0%nat)) eqn:E; simpl in X; try discriminate; try congruence.
  - (* reader asleep in the futex *)
    right. split; [left; reflexivity|]. split; [|exact Hw]. unfold k_empty.
    rewrite <- (Hwait 0%nat) by (rewrite E; reflexivity).
    destruct (Z.eq_dec (k_wcur s) (k_reg (k_thr s 0%nat))) as [Eq|Ne]; [symmetry; exact Eq|].
    exfalso. destruct (Hsleep 0%nat E Ne) as (u & Hu & Hp).
    pose proof (Hst u Hu) as Z. rewrite (k_pending_not_stuck _ Hp) in Z. discriminate.
  - (* reader asleep on read_cv *)
    right. split; [right; reflexivity|]. split; [|exact Hw].
    destruct (Hmsleep 0%nat E) as [He|(u & Hu & Hp)]; [exact He|].
    exfalso. pose proof (Hst u Hu) as Z. rewrite (k_pending_not_stuck _ Hp) in Z. discriminate.
  - left. intros t Ht. destruct (Nat.eq_dec t 0); [subst; exact E|apply Hw; lia].
Qed.

Theorem chan_wordlock_no_deadlock_all n cap rm lk nreads wk sched :
  let s := exec ksys kstep (kinit n cap rm lk nreads wk) sched in
  (exists t, (t < n)%nat /\ k_enabled s t) \/
  (forall t, (t < n)%nat -> k_done s t) \/
  ((k_pc (k_thr s 0%nat) = KRBlocked \/ k_pc (k_thr s 0%nat) = KMAsleep) /\ k_empty s /\
   forall t, (0 < t < n)%nat -> k_done s t).
Proof.
  intros s. destruct (k_reachable_inv n cap rm lk nreads wk sched) as [H1 H2].
  pose proof (k_progress s H1 H2) as H. unfold s in *. rewrite k_n_exec in H. exact H.
Qed.

(* No lost wake-up, per sleeper, with a thread that can run behind every token *)
Theorem chan_wordlock_no_lost_wakeup_all n cap rm lk nreads wk sched t :
  let s := exec ksys kstep (kinit n cap rm lk nreads wk) sched in
  (k_pc (k_thr s t) = KRBlocked ->
     t = 0%nat /\ k_reg (k_thr s t) = ridx (k_rcur s + 1) (k_cap s) /\
     (k_wcur s = k_reg (k_thr s t) \/ exists u, (u < n)%nat /\ k_pending (k_thr s u) = true)) /\
  (k_pc (k_thr s t) = KMAsleep ->
     t = 0%nat /\ (k_empty s \/ exists u, (u < n)%nat /\ k_pending (k_thr s u) = true)) /\
  (k_pc (k_thr s t) = KWLBlocked ->
     (k_lock s = 1 /\ exists u, (u < n)%nat /\ k_holds (k_pc (k_thr s u)) = true) \/
     (exists u, (u < n)%nat /\ k_lwaker (k_pc (k_thr s u)) = true) \/
     (exists u, (u < n)%nat /\ k_about (k_thr s u) = true)) /\
  ((k_pc (k_thr s t) = KRBlocked \/ k_pc (k_thr s t) = KMAsleep \/ k_pc (k_thr s t) = KWLBlocked) ->
     ~ k_empty s \/ k_pc (k_thr s t) = KWLBlocked -> exists u, (u < n)%nat /\ k_enabled s u).
Proof.
  intros s. destruct (k_reachable_inv n cap rm lk nreads wk sched) as [H1 H2]. fold s in H1, H2.
  pose proof H1 as [Hrole Hnm Hrs Hrm Hwk Hls Hsp Hfl Hlp Hsg Hk H01 Hheld Hexcl Hown Hltn].
  pose proof H2 as [Hwait Hsleep Hmwait Hmsleep Hlsleep].
  assert (Hn : k_n s = n) by (unfold s; rewrite k_n_exec; reflexivity). rewrite Hn in *.
  split; [|split; [|split]].
  - intros Hb. split; [apply Hrole; rewrite Hb; reflexivity|].
    split; [apply Hwait; rewrite Hb; reflexivity|].
    destruct (Z.eq_dec (k_wcur s) (k_reg (k_thr s t))) as [Eq|Ne]; [left; exact Eq|right].
    exact (Hsleep t Hb Ne).
  - intros Hb. split; [apply Hrole; rewrite Hb; reflexivity|]. exact (Hmsleep t Hb).
  - intros Hb. destruct (Hlsleep t Hb) as [Hl|[H|H]]; [left|right; left; exact H|right; right; exact H].
    split; [exact Hl|exact (Hheld Hl)].
  - intros Hb Hwork.
    destruct (k_progress s H1 H2) as [H|[H|[Hr [He Hw]]]]; rewrite Hn in *.
    + exact H.
    + exfalso. destruct (Nat.lt_ge_cases t n) as [Hl|Hl].
      * specialize (H t Hl). unfold k_done in H. destruct Hb as [E|[E|E]]; congruence.
      * pose proof (Hltn t Hl) as X. destruct Hb as [E|[E|E]]; rewrite E in X; discriminate.
    + exfalso. destruct Hwork as [Hne|E]; [exact (Hne He)|].
      destruct (Nat.lt_ge_cases t n) as [Hl|Hl].
      * destruct (Nat.eq_dec t 0) as [->|Hne]; [destruct Hr as [R|R]; congruence|].
        assert (D : k_done s t) by (apply Hw; lia). unfold k_done in D. congruence.
      * pose proof (Hltn t Hl) as X. rewrite E in X. discriminate.
Qed.

(* ---------------- every return path releases what the call acquired ---------------- *)

(* the lock word is LOCK only while some writer is inside muggle_channel_write between its
   acquire and its release, and read_mutex is owned only by a thread inside a call between its
   lock and its unlock / wait; both can always take a step or wait for somebody who can *)
Theorem chan_wordlock_held_only_inside_all n cap rm lk nreads wk sched :
  let s := exec ksys kstep (kinit n cap rm lk nreads wk) sched in
  (k_lock s = 1 -> exists u, (u < n)%nat /\ k_holds (k_pc (k_thr s u)) = true) /\
  (forall u, k_rm s = Some u -> (u < n)%nat /\ k_rmholds (k_pc (k_thr s u)) = true /\ k_enabled s u) /\
  (k_lock s = 0 \/ k_lock s = 1).
Proof.
  intros s. destruct (k_reachable_inv n cap rm lk nreads wk sched) as [H1 _]. fold s in H1.
  destruct H1 as [_ _ _ _ _ _ _ _ _ _ _ H01 Hheld _ Hown _].
  assert (Hn : k_n s = n) by (unfold s; rewrite k_n_exec; reflexivity). rewrite Hn in *.
  split; [exact Hheld|]. split; [|exact H01].
  intros u Hu. destruct (Hown u Hu) as [A B]. split; [exact A|]. split; [exact B|].
  apply k_rmholds_enabled; [rewrite Hn; exact A|exact B].
Qed.

Lemma k_outside_not_holds p : k_outside p = true -> k_holds p = false /\ k_rmholds p = false.
Proof. destruct p; simpl; intros; split; congruence. Qed.

(* when every thread is outside its call (client code: before a call, after an OK or a FULL
   return, in the retry yield, finished) the lock word is UNLOCK and read_mutex is free *)
Theorem chan_wordlock_calls_release_locks_all n cap rm lk nreads wk sched :
  let s := exec ksys kstep (kinit n cap rm lk nreads wk) sched in
  (forall t, (t < n)%nat -> k_outside (k_pc (k_thr s t)) = true) -> k_lock s = 0 /\ k_rm s = None.
Proof.
  intros s Hout.
  destruct (chan_wordlock_held_only_inside_all n cap rm lk nreads wk sched) as (Hh & Hr & H01). fold s in Hh, Hr, H01.
  split.
  - destruct H01 as [E|E]; [exact E|]. destruct (Hh E) as (u & Hu & Hp).
    destruct (k_outside_not_holds _ (Hout u Hu)) as [X _]. congruence.
  - destruct (k_rm s) as [u|] eqn:E; [|reflexivity]. destruct (Hr u eq_refl) as (Hu & Hp & _).
    destruct (k_outside_not_holds _ (Hout u Hu)) as [_ X]. congruence.
Qed.

(* a thread that is outside its call never owns read_mutex *)
Theorem chan_wordlock_outside_not_owner_all n cap rm lk nreads wk sched t :
  let s := exec ksys kstep (kinit n cap rm lk nreads wk) sched in
  k_outside (k_pc (k_thr s t)) = true -> k_rm s <> Some t.
Proof.
  intros s Ho Hm.
  destruct (chan_wordlock_held_only_inside_all n cap rm lk nreads wk sched) as (_ & Hr & _). fold s in Hr.
  destruct (Hr t Hm) as (_ & Hp & _). destruct (k_outside_not_holds _ Ho) as [_ X]. congruence.
Qed.

(* the release executed on EVERY path (ret is looked at only afterwards): after it the lock is free,
   whatever fn_write returned, and nothing else changes *)
Lemma k_release_unlocks s t ch s' l :
  k_pc (k_thr s t) = KWRel -> kstep s t ch = Some (s', l) ->
  k_lock s' = 0 /\ k_ok (k_thr s' t) = k_ok (k_thr s t) /\ k_k (k_thr s' t) = k_k (k_thr s t) /\
  k_wcur s' = k_wcur s /\ k_rcur s' = k_rcur s /\ k_rm s' = k_rm s /\
  (forall u, u <> t -> k_thr s' u = k_thr s u).
Proof.
  intros Epc Hs. unfold kstep in Hs. destruct (Nat.leb (k_n s) t); [discriminate|].
  rewrite Epc in Hs. cbv zeta in Hs.
  destruct (k_lk s); inv_some Hs; simpl; rewrite upd_same;
    (repeat split; try reflexivity; intros u Hu; apply upd_other; assumption).
Qed.

(* a write is refused only on a channel that is full by the code's own test; the refusal changes
   neither the cursors nor the lock, and goes straight to the release (to the client when there is
   no writer lock) *)
Lemma k_full_goes_to_release s t ch s' l :
  k_pc (k_thr s t) = KWChk -> kstep s t ch = Some (s', l) -> k_ok (k_thr s' t) = false ->
  k_pc (k_thr s' t) = (if lk_locked (k_lk s) then KWRel else KWYieldF) /\
  ridx (k_wcur s + 1) (k_cap s) = k_reg (k_thr s t) /\
  k_lock s' = k_lock s /\ k_wcur s' = k_wcur s /\ k_rcur s' = k_rcur s.
Proof.
  intros Epc Hs Hok. unfold kstep, k_ret, k_out in Hs. destruct (Nat.leb (k_n s) t); [discriminate|].
  rewrite Epc in Hs. cbv zeta in Hs.
  destruct (ridx (k_wcur s + 1) (k_cap s) =? k_reg (k_thr s t)) eqn:E.
  - destruct (k_lk s); cbn [kokset k_ok fst snd] in Hs; inv_some Hs; cbn in *; rewrite upd_same; cbn;
      (split; [reflexivity|]; split; [apply Z.eqb_eq; exact E|repeat split; reflexivity]).
  - inv_some Hs. cbn in Hok. rewrite upd_same in Hok. discriminate.
Qed.

(* ---------------- busy (spin-based) reader ---------------- *)
(* READ_BUSY: a thread at a reader program point can always take a step -- spin-based waiting
   never blocks *)
Lemma k_busy_reader_enabled s t : KInv1 s -> k_rmode s = KRBusy ->
  (t < k_n s)%nat -> k_is_reader (k_pc (k_thr s t)) = true -> k_enabled s t.
Proof.
  intros [_ _ Hrs Hrm _ _ _ _ _ _ _ _ _ _ _ _] Hb Ht Hr.
  unfold k_enabled, kstep. apply Nat.leb_gt in Ht. rewrite Ht. cbv zeta.
  pose proof (Hrs t) as A. pose proof (Hrm t) as B.
  destruct (k_pc (k_thr s t)); try discriminate; simpl in A, B;
    try (specialize (A eq_refl); congruence); try (specialize (B eq_refl); congruence); enabled_cases.
Qed.

Theorem chan_busy_reader_never_blocks_all n cap lk nreads wk sched t :
  let s := exec ksys kstep (kinit n cap KRBusy lk nreads wk) sched in
  (t < n)%nat -> k_is_reader (k_pc (k_thr s t)) = true -> k_enabled s t.
Proof.
  intros s Ht Hr. destruct (k_reachable_inv n cap KRBusy lk nreads wk sched) as [H1 _]. fold s in H1.
  assert (Hn : k_n s = n) by (unfold s; rewrite k_n_exec; reflexivity).
  destruct (k_modes_exec sched (kinit n cap KRBusy lk nreads wk)) as [Hm _]. fold s in Hm. simpl in Hm.
  apply k_busy_reader_enabled; try assumption. rewrite Hn. exact Ht.
Qed.

(* READ_BUSY, every writer-lock kind: some thread can run or all have finished -- there is no blocked
   end state at all *)
Theorem chan_busy_no_deadlock_all n cap lk nreads wk sched :
  let s := exec ksys kstep (kinit n cap KRBusy lk nreads wk) sched in
  (exists t, (t < n)%nat /\ k_enabled s t) \/ (forall t, (t < n)%nat -> k_done s t).
Proof.
  intros s.
  destruct (chan_wordlock_no_deadlock_all n cap KRBusy lk nreads wk sched) as [H|[H|[Hr _]]]; fold s in H || fold s in Hr.
  - left. exact H.
  - right. exact H.
  - exfalso. destruct (k_reachable_inv n cap KRBusy lk nreads wk sched) as [[_ _ Hrs Hrm _ _ _ _ _ _ _ _ _ _ _ _] _].
    fold s in Hrs, Hrm.
    destruct (k_modes_exec sched (kinit n cap KRBusy lk nreads wk)) as [Hm _]. fold s in Hm. simpl in Hm.
    destruct Hr as [E|E].
    + pose proof (Hrs 0%nat) as X. rewrite E in X. specialize (X eq_refl). congruence.
    + pose proof (Hrm 0%nat) as X. rewrite E in X. specialize (X eq_refl). congruence.
Qed.

(* ---------------- non-vacuity ---------------- *)
Definition k_w (k : nat) : list (nat * nat) := List.repeat (1%nat, 0%nat) k.
Definition k_r (k : nat) : list (nat * nat) := List.repeat (0%nat, 0%nat) k.

(* spinlock writer, futex reader, capacity 4 (two slots usable): the third write is refused.
   The refusing call holds the lock word at its release point and has released it when it is
   back in the client (about to yield); the reader then reads and the retry is accepted. *)
Definition k_spin_demo : ksys := kinit 2 4 KRSync KLSpin 3 (fun _ => 3%nat).
Example k_spin_full_return_releases :
  let s1 := exec ksys kstep k_spin_demo (k_w 25) in
  let s2 := exec ksys kstep s1 (k_w 2) in
  let s3 := exec ksys kstep s2 (k_w 1 ++ k_r 5 ++ k_w 10 ++ k_r 30 ++ k_w 2) in
  k_pc (k_thr s1 1%nat) = KWRel /\ k_ok (k_thr s1 1%nat) = false /\ k_lock s1 = 1 /\
  k_pc (k_thr s2 1%nat) = KWYieldF /\ k_lock s2 = 0 /\ k_k (k_thr s2 1%nat) = 1%nat /\
  k_lock s3 = 0 /\ (forall t, (t < 2)%nat -> k_done s3 t).
Proof.
  cbv zeta. repeat split; try (vm_compute; reflexivity).
  intros [|[|u]] H; [vm_compute; reflexivity|vm_compute; reflexivity|lia].
Qed.

(* synclock writers, condvar reader: writer 2 really sleeps on the lock word behind writer 1 and is
   woken by writer 1's unlock (store + wake_one) *)
Definition k_sync_demo : ksys := kinit 3 4 KRMutex KLSync 2 (fun _ => 1%nat).
Example k_sync_sleeper_is_woken :
  let s1 := exec ksys kstep k_sync_demo [(1,0);(1,0); (2,0);(2,0);(2,0);(2,0)]%nat in
  let s2 := exec ksys kstep s1 (k_w 8) in
  k_pc (k_thr s1 2%nat) = KWLBlocked /\ k_lock s1 = 1 /\ k_holds (k_pc (k_thr s1 1%nat)) = true /\
  k_pc (k_thr s2 2%nat) = KWSeg /\ k_lock s2 = 0 /\ k_pc (k_thr s2 1%nat) = KWOut.
Proof. vm_compute. repeat split; reflexivity. Qed.

(* busy reader, single writer (no lock, no wake call): the reader spins through an empty channel
   (two failed checks), the writer publishes, the reader takes the message; everybody finishes *)
Definition k_busy_demo : ksys := kinit 2 4 KRBusy KLSingle 1 (fun _ => 1%nat).
Example k_busy_reader_spins_then_reads :
  let s1 := exec ksys kstep k_busy_demo (k_r 5) in
  let s2 := exec ksys kstep s1 (k_w 4 ++ k_r 6) in
  k_pc (k_thr s1 0%nat) = KRLoad /\ k_k (k_thr s1 0%nat) = 1%nat /\
  k_wcur s2 = 1 /\ (forall t, (t < 2)%nat -> k_done s2 t).
Proof.
  cbv zeta. repeat split; try (vm_compute; reflexivity).
  intros [|[|u]] H; [vm_compute; reflexivity|vm_compute; reflexivity|lia].
Qed.
