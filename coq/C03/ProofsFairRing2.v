(* C03 (c), temporal step, part 2: the measure, spinning, productivity and the theorem for the
   ring buffer with futex-waiting readers. *)
From MV Require Import C03.Model C03.ProofsCommon C03.ProofsRing C03.ModArith C03.FairGen C03.ProofsFairRing.
Local Open Scope Z_scope.

Ltac step_cases Hs :=
  repeat match type of Hs with
  | context [match ?e with _ => _ end] => destruct e eqn:?
  end.

(* [gG]: four times the remaining script, minus the stages of the operation in flight that have
   already changed shared state (cursor stored / lock released; read-once: message taken) *)
Definition gG (x : gthread) : nat :=
  match g_pc x with
  | GRSeg | GRLock | GRSeg1 | GRLoad | GRChk | GRWait | GRBlocked => 4 * g_k x
  | GRUnlock => 4 * g_k x - 1
  | GWSeg | GWTas | GWSegT | GWYield | GWSegA | GWStore => 4 * g_k x
  | GWSeg2 | GWClear => 4 * g_k x - 1
  | GWSeg3 | GWWake => 4 * g_k x - 2
  | _ => 0
  end%nat.

(* [gD]: distance of a thread to its next [gG]-decreasing step; 0 while it cannot get there by
   itself: a reader while there is no message for it (it re-checks, waits, is interrupted ...),
   a writer while another writer holds the spin lock (test-and-set, yield, retry ...) *)
Definition gD (md : gmode) (wl : bool) (cap cursor rcur spin : Z) (x : gthread) : nat :=
  let free := Z.eqb spin 0 in
  let empty := match md with GMOnce => Z.eqb cursor rcur | _ => Z.eqb cursor (ridx (g_i x) cap) end in
  let wloop (d : nat) := if free then d else 0%nat in
  let rloop (d : nat) := if empty then 0%nat else d in
  match g_pc x with
  | GRSeg => match g_k x with O => 2 | S _ => match md with GMOnce => rloop 8 | _ => rloop 4 end end
  | GRLock => rloop 7
  | GRSeg1 => rloop 4
  | GRLoad => rloop 3
  | GRChk => match md with
             | GMOnce => if Z.eqb rcur (g_reg x) then rloop 6 else 2
             | _ => if Z.eqb (g_reg x) (ridx (g_i x) cap) then rloop 6 else 1
             end
  | GRWait => rloop 5
  | GRBlocked => rloop 5
  | GRUnlock => 1
  | GWSeg => match g_k x with O => 2 | S _ => if wl then wloop 4 else 2 end
  | GWTas => wloop 3
  | GWSegT => wloop 6
  | GWYield => wloop 5
  | GWSegA => 2
  | GWStore => 1
  | GWSeg2 => 2
  | GWClear => 1
  | GWSeg3 => 2
  | GWWake => 1
  | GFin => 1
  | GDone => 0
  end%nat.

Definition gDs (s : gsys) : gthread -> nat :=
  gD (g_mode s) (g_wl s) (g_cap s) (g_cursor s) (g_rcur s) (g_spin s).
Definition gM (s : gsys) : nat :=
  ((8 * g_n s + 1) * tsum gG (g_thr s) (g_n s) + tsum (gDs s) (g_thr s) (g_n s))%nat.

Lemma gD_le md wl cap cursor rcur spin x : (gD md wl cap cursor rcur spin x <= 8)%nat.
Proof.
  unfold gD. destruct (g_pc x); destruct md;
    repeat match goal with |- context [if ?b then _ else _] => destruct b end;
    try destruct (g_k x); lia.
Qed.

Lemma gM_drop (n G1 G0 D1 D0 : nat) :
  (G1 + 1 <= G0)%nat -> (D1 <= 8 * n)%nat ->
  ((8 * n + 1) * G1 + D1 < (8 * n + 1) * G0 + D0)%nat.
Proof. intros H1 H2. pose proof (Nat.mul_le_mono_l _ _ (8 * n + 1) H1). lia. Qed.

Definition g_spinning (s : gsys) (t : nat) : Prop :=
  gDs s (g_thr s t) = 0%nat /\ g_pc (g_thr s t) <> GDone.
Definition g_productive (s : gsys) (u : nat) : Prop := gstep s u 0 <> None /\ ~ g_spinning s u.

Lemma g_enabled_cong s s' u :
  g_n s' = g_n s -> g_mode s' = g_mode s -> g_wl s' = g_wl s -> g_thr s' u = g_thr s u ->
  (g_pc (g_thr s u) = GRLock -> g_rm s' = None) ->
  gstep s u 0 <> None -> gstep s' u 0 <> None.
Proof.
  intros Hn Hm Hw Ht Hl Hen. unfold gstep in *. rewrite Hn, Ht, Hm, Hw.
  destruct (Nat.leb (g_n s) u); [exact Hen|]. cbv zeta in *.
  destruct (g_pc (g_thr s u)) eqn:Epc; try exact Hen;
    try (repeat match goal with |- context [match ?e with _ => _ end] => destruct e end; discriminate).
  rewrite (Hl eq_refl). discriminate.
Qed.

(* a productive thread waiting for read_mutex sees messages (read-once mode) *)
Lemma g_lock_prod s u : g_productive s u -> g_pc (g_thr s u) = GRLock ->
  g_rm s = None /\
  (match g_mode s with GMOnce => g_cursor s =? g_rcur s | _ => g_cursor s =? ridx (g_i (g_thr s u)) (g_cap s) end) = false.
Proof.
  intros [Hen Hns] Epc. split.
  - unfold gstep in Hen. destruct (Nat.leb (g_n s) u); [congruence|]. rewrite Epc in Hen. cbv zeta in Hen.
    destruct (g_rm s); [congruence|reflexivity].
  - match goal with |- ?b = false => destruct b eqn:E; [|reflexivity] end.
    exfalso. apply Hns. split; [|rewrite Epc; discriminate].
    unfold gDs, gD. rewrite Epc. cbv zeta. rewrite E. reflexivity.
Qed.

Lemma g_prod_gset s t x u : u <> t -> g_productive s u -> g_productive (gset s t x) u.
Proof.
  intros Hu Hp. pose proof Hp as [Hen Hns]. split.
  - apply (g_enabled_cong s); cbn [gset g_n g_thr g_rm g_mode g_wl]; try reflexivity; [apply upd_other; exact Hu| |exact Hen].
    intros E. apply (g_lock_prod s u Hp E).
  - unfold g_spinning, gDs in *. cbn [gset g_n g_thr g_mode g_wl g_cap g_cursor g_rcur g_spin]. rewrite upd_other by exact Hu. exact Hns.
Qed.

(* read_mutex taken by a reader that has nothing to read: the readers that are productive do not
   need read_mutex (read-once mode: a productive reader at the lock sees a message) *)
Lemma g_prod_lock s t x u :
  g_mode s = GMOnce -> g_spinning s t -> g_pc (g_thr s t) = GRLock -> u <> t ->
  g_productive s u -> g_productive (gset (gset_rm s (Some t)) t x) u.
Proof.
  intros Hm [Hd _] Epc Hu Hp. pose proof Hp as [Hen Hns]. split.
  - apply (g_enabled_cong s); cbn [gset gset_rm g_n g_thr g_rm g_mode g_wl]; try reflexivity; [apply upd_other; exact Hu| |exact Hen].
    intros E. exfalso. destruct (g_lock_prod s u Hp E) as [_ X]. rewrite Hm in X.
    unfold gDs, gD in Hd. rewrite Epc, Hm in Hd. cbv zeta in Hd. rewrite X in Hd. discriminate.
  - unfold g_spinning, gDs in *. cbn [gset gset_rm g_n g_thr g_mode g_wl g_cap g_cursor g_rcur g_spin].
    rewrite upd_other by exact Hu. exact Hns.
Qed.

Lemma gD_spin_mono md wl cap cursor rcur x :
  (gD md wl cap cursor rcur 1 x <= gD md wl cap cursor rcur 0 x)%nat.
Proof.
  unfold gD. simpl. destruct (g_pc x); destruct md;
    repeat match goal with |- context [if ?b then _ else _] => destruct b end;
    try destruct (g_k x); lia.
Qed.

Section Measure.
Variable k : Z.
Hypothesis Hk : 0 <= k.
Variable T : nat.
Hypothesis HT : Z.of_nat T < 2 ^ k.

Definition GGood (s : gsys) : Prop := GInv s /\ GData k T s.

Lemma ggood_step s t c s' l : GGood s -> gstep s t c = Some (s', l) -> GGood s'.
Proof.
  intros (A & B) Hs. split; [eapply gstep_inv; eauto|eapply gstep_data; eauto].
Qed.

Lemma g_step_measure s t ch s' l : GGood s -> gstep s t ch = Some (s', l) ->
  (gM s' < gM s)%nat \/
  (g_spinning s t /\ gM s' = gM s /\ forall u, u <> t -> g_productive s u -> g_productive s' u).
Proof.
  intros (GI & GD) Hs.
  pose proof GI as [Hrole Hltn Hsingle Honce Hexcl Hown Hwait Hsleep].
  pose proof GD as [Hcap Hwm Hwr Hk0 HTs Hcur Hwlo Hnospin H01 Hspin Huniq Hheld Hwreg Hri Hrreg Horc Horeg].
  pose proof (Hk0 t) as Hkt.
  unfold gstep in Hs.
  destruct (Nat.leb (g_n s) t) eqn:Hlt; [discriminate|]. apply Nat.leb_gt in Hlt.
  cbv zeta in Hs.
  destruct (g_pc (g_thr s t)) eqn:Epc; step_cases Hs; try discriminate; inv_some Hs.
  all: try match goal with
       | E : first_such (g_blocked_thr _) _ = Some ?u |- _ =>
         let H1 := fresh "Hwk" in let H0 := fresh "Hul" in
         destruct (first_such_some _ _ _ E) as [H0 H1]; apply g_blocked_pc in H1;
         assert (u <> t) by (intros ->; congruence)
       end.
  all: try (destruct (g_k (g_thr s t)) as [|kk] eqn:Ek0; [exfalso; specialize (Hkt eq_refl); lia|]).
  (* the value a reader waits on is its own position *)
  all: try (assert (Hrp : g_reg (g_thr s t) = match g_mode s with GMOnce => g_rcur s | _ => ridx (g_i (g_thr s t)) (g_cap s) end)
              by (apply Hwait; rewrite Epc; reflexivity)).
  all: try (assert (Hwl1 : g_wl s = true) by (apply (Hwlo t); rewrite Epc; reflexivity)).
  (* the measure does not look at read_mutex *)
  all: try (match goal with
            | |- context [gM ?s1] =>
              match s1 with
              | gset (gset_rm _ _) _ ?x => change (gM s1) with (gM (gset s t x))
              end
            end).
  (* steps that leave cursor, read_cursor and the spin lock alone *)
  all: try (
    match goal with |- context [gM (gset _ _ ?x)] =>
      pose proof (tsum_upd gG (g_thr s) t x (g_n s) Hlt) as HG;
      pose proof (tsum_upd (gDs s) (g_thr s) t x (g_n s) Hlt) as HD;
      assert (EM : gM (gset s t x) = ((8 * g_n s + 1) * tsum gG (upd (g_thr s) t x) (g_n s)
                                      + tsum (gDs s) (upd (g_thr s) t x) (g_n s))%nat) by reflexivity;
      rewrite EM; clear EM
    end;
    unfold gM;
    set (G0 := tsum gG (g_thr s) (g_n s)) in *;
    set (D0 := tsum (gDs s) (g_thr s) (g_n s)) in *;
    match goal with |- context [tsum gG (upd ?a ?b ?c) ?d] => set (G1 := tsum gG (upd a b c) d) in * end;
    match goal with |- context [tsum (gDs ?z) (upd ?a ?b ?c) ?d] => set (D1 := tsum (gDs z) (upd a b c) d) in * end;
    destruct (g_mode s) eqn:Emd; try congruence;
    destruct (g_spin s =? 0) eqn:Efr; try discriminate;
    destruct (g_cursor s =? g_rcur s) eqn:Eeo; try discriminate;
    destruct (g_cursor s =? ridx (g_i (g_thr s t)) (g_cap s)) eqn:Eem; try discriminate;
    try (rewrite Z.eqb_sym in Eeo);
    unfold gG, gDs, gD, gpcset in HG, HD; cbn [g_pc g_k g_reg g_i g_pend] in HG, HD;
    rewrite ?Epc in HG; rewrite ?Epc in HD;
    repeat match goal with E : g_k _ = _ |- _ => progress (rewrite ?E in HG; rewrite ?E in HD) end;
    repeat match goal with E : g_wl _ = _ |- _ => progress (rewrite ?E in HD) end;
    cbv iota beta zeta in HG, HD;
    rewrite ?Emd in HD; cbv iota beta zeta in HD;
    try (rewrite Hrp in * );
    rewrite ?Efr, ?Eeo, ?Eem in HD;
    try (rewrite Z.eqb_sym in Eeo; rewrite ?Eeo in HD);
    repeat match goal with E : (_ =? _) = _ |- _ => progress (rewrite ?E in HD) end;
    cbv iota beta zeta in HG, HD;
    first [ (assert (EG : G1 = G0) by lia; rewrite EG;
             first [ left; lia
                   | right; split;
                     [ split; [unfold gDs, gD; rewrite ?Epc;
                               repeat match goal with E : g_k _ = _ |- _ => progress (rewrite ?E) end;
                               repeat match goal with E : g_wl _ = _ |- _ => progress (rewrite ?E) end;
                               cbv iota beta zeta; rewrite ?Emd; cbv iota beta zeta;
                               rewrite ?Efr, ?Eeo, ?Eem;
                               try (rewrite Z.eqb_sym in Eeo; rewrite ?Eeo);
                               repeat match goal with E : (_ =? _) = _ |- _ => progress (rewrite ?E) end; reflexivity
                              | rewrite Epc; discriminate]
                     | split; [lia|] ] ])
          | (left; apply gM_drop; [lia|apply tsum_le_const; intros; apply gD_le]) ]).
  all: try (intros u Hu Hp; apply g_prod_gset; assumption).
  all: try (intros u Hu Hp;
            pose proof (Honce t) as HmO; rewrite Epc in HmO; specialize (HmO eq_refl);
            try discriminate HmO; try congruence;
            assert (HmO' : g_mode s = GMOnce) by (first [exact HmO | exact Emd | congruence]);
            apply g_prod_lock; try assumption;
            (split; [unfold gDs, gD; rewrite Epc, HmO'; cbv zeta;
                    first [ rewrite Eeo; reflexivity | rewrite Z.eqb_sym, Eeo; reflexivity ]
                   | rewrite Epc; discriminate]); fail).
  - (* read-once take: read_cursor moves *)
    left. unfold gM. cbn [g_n g_thr].
    match goal with |- context [upd (g_thr s) t ?x] => pose proof (tsum_upd gG (g_thr s) t x (g_n s) Hlt) as HG end.
    set (G0 := tsum gG (g_thr s) (g_n s)) in *.
    match goal with |- context [tsum gG (upd ?a ?b ?c) ?d] => set (G1 := tsum gG (upd a b c) d) in * end.
    unfold gG, gpcset in HG. cbn [g_pc g_k] in HG. rewrite Epc, Ek0 in HG.
    apply gM_drop; [lia|apply tsum_le_const; intros; apply gD_le].
  - (* test-and-set succeeds: the other writers now see the lock held (their distance drops to 0) *)
    left. apply Z.eqb_eq in Heqb.
    match goal with |- context [gM (gset (gset_spin s 1) t ?x)] =>
      pose proof (tsum_upd gG (g_thr s) t x (g_n s) Hlt) as HG;
      pose proof (tsum_upd (gDs s) (g_thr s) t x (g_n s) Hlt) as HD;
      assert (HL : (tsum (gDs (gset (gset_spin s 1) t x)) (upd (g_thr s) t x) (g_n s)
                    <= tsum (gDs s) (upd (g_thr s) t x) (g_n s))%nat)
        by (apply tsum_le_pointwise; intros; unfold gDs; cbn [g_mode g_wl g_cap g_cursor g_rcur g_spin gset gset_spin];
            rewrite Heqb; apply gD_spin_mono);
      assert (EM : gM (gset (gset_spin s 1) t x) =
                   ((8 * g_n s + 1) * tsum gG (upd (g_thr s) t x) (g_n s)
                    + tsum (gDs (gset (gset_spin s 1) t x)) (upd (g_thr s) t x) (g_n s))%nat) by reflexivity;
      rewrite EM; clear EM
    end.
    unfold gM.
    set (G0 := tsum gG (g_thr s) (g_n s)) in *.
    set (D0 := tsum (gDs s) (g_thr s) (g_n s)) in *.
    match goal with |- context [tsum gG (upd ?a ?b ?c) ?d] => set (G1 := tsum gG (upd a b c) d) in * end.
    match type of HL with (?a <= ?b)%nat => set (DB := a) in *; set (DA := b) in * end.
    unfold gG, gDs, gD, gpcset in HG, HD. cbn [g_pc g_k] in HG, HD. rewrite Epc in HG, HD. rewrite Heqb in HD. simpl in HD.
    lia.
  - (* test-and-set fails: the lock is held by somebody else; the writer spins *)
    apply Z.eqb_neq in Heqb. destruct H01 as [X|X]; [contradiction|].
    right.
    assert (Hsp : g_spinning s t).
    { split; [|rewrite Epc; discriminate]. unfold gDs, gD. rewrite Epc, X. reflexivity. }
    split; [exact Hsp|]. split.
    + match goal with |- context [gM (gset (gset_spin s 1) t ?x)] =>
        pose proof (tsum_upd gG (g_thr s) t x (g_n s) Hlt) as HG;
        pose proof (tsum_upd (gDs s) (g_thr s) t x (g_n s) Hlt) as HD;
        assert (EM : gM (gset (gset_spin s 1) t x) =
                     ((8 * g_n s + 1) * tsum gG (upd (g_thr s) t x) (g_n s)
                      + tsum (gDs s) (upd (g_thr s) t x) (g_n s))%nat)
          by (unfold gM, gDs; cbn [g_mode g_wl g_cap g_cursor g_rcur g_spin gset gset_spin g_n g_thr]; rewrite X; reflexivity);
        rewrite EM; clear EM
      end.
      unfold gM.
      set (G0 := tsum gG (g_thr s) (g_n s)) in *.
      set (D0 := tsum (gDs s) (g_thr s) (g_n s)) in *.
      match goal with |- context [tsum gG (upd ?a ?b ?c) ?d] => set (G1 := tsum gG (upd a b c) d) in * end.
      match goal with |- context [tsum (gDs ?z) (upd ?a ?b ?c) ?d] => set (D1 := tsum (gDs z) (upd a b c) d) in * end.
      unfold gG, gDs, gD, gpcset in HG, HD. cbn [g_pc g_k] in HG, HD. rewrite Epc in HG, HD. rewrite X in HD. simpl in HD.
      lia.
    + intros u Hu Hp. pose proof Hp as [Hen Hns]. split.
      * apply (g_enabled_cong s); cbn [gset gset_spin g_n g_thr g_rm g_mode g_wl]; try reflexivity; [apply upd_other; exact Hu| |exact Hen].
        intros E. apply (g_lock_prod s u Hp E).
      * unfold g_spinning, gDs in *. cbn [gset gset_spin g_n g_thr g_mode g_wl g_cap g_cursor g_rcur g_spin].
        rewrite upd_other by exact Hu. rewrite X in Hns. exact Hns.
  - (* cursor store *)
    left. unfold gM. cbn [g_n g_thr].
    match goal with |- context [upd (g_thr s) t ?x] => pose proof (tsum_upd gG (g_thr s) t x (g_n s) Hlt) as HG end.
    set (G0 := tsum gG (g_thr s) (g_n s)) in *.
    match goal with |- context [tsum gG (upd ?a ?b ?c) ?d] => set (G1 := tsum gG (upd a b c) d) in * end.
    unfold gG, gpcset in HG. cbn [g_pc g_k] in HG. rewrite Epc, Ek0 in HG.
    apply gM_drop; [lia|apply tsum_le_const; intros; apply gD_le].
  - (* the spin lock is released *)
    left. unfold gM. cbn [g_n g_thr gset gset_spin].
    match goal with |- context [upd (g_thr s) t ?x] => pose proof (tsum_upd gG (g_thr s) t x (g_n s) Hlt) as HG end.
    set (G0 := tsum gG (g_thr s) (g_n s)) in *.
    match goal with |- context [tsum gG (upd ?a ?b ?c) ?d] => set (G1 := tsum gG (upd a b c) d) in * end.
    unfold gG, gpcset in HG. cbn [g_pc g_k] in HG. rewrite Epc, Ek0 in HG.
    apply gM_drop; [lia|apply tsum_le_const; intros; apply gD_le].
  - (* wake_all *)
    left. unfold gM. cbn [g_n g_thr].
    match goal with |- context [upd (g_wake_all (g_thr s) (g_n s)) t ?x] =>
      pose proof (tsum_upd gG (g_wake_all (g_thr s) (g_n s)) t x (g_n s) Hlt) as HG end.
    assert (Y : tsum gG (g_wake_all (g_thr s) (g_n s)) (g_n s) = tsum gG (g_thr s) (g_n s)).
    { apply tsum_ext. intros u _. destruct (g_wake_all_cases (g_thr s) (g_n s) u) as [E|[E1 E2]]; [rewrite E; reflexivity|].
      rewrite E2. unfold gG, gpcset. simpl. rewrite E1. reflexivity. }
    assert (Z0 : g_wake_all (g_thr s) (g_n s) t = g_thr s t).
    { destruct (g_wake_all_cases (g_thr s) (g_n s) t) as [E|[E1 E2]]; [exact E|congruence]. }
    rewrite Z0, Y in HG.
    set (G0 := tsum gG (g_thr s) (g_n s)) in *.
    match goal with |- context [tsum gG (upd ?a ?b ?c) ?d] => set (G1 := tsum gG (upd a b c) d) in * end.
    unfold gG in HG. cbn [g_pc g_k] in HG. rewrite Epc, Ek0 in HG. cbn [pred] in HG.
    apply gM_drop; [lia|apply tsum_le_const; intros; apply gD_le].
  - (* wake_one with a sleeper *)
    left. unfold gM. cbn [g_n g_thr gset].
    match goal with |- context [upd (upd (g_thr s) ?u ?xu) t ?x] =>
      pose proof (tsum_upd2 gG (g_thr s) u xu t x (g_n s) Hul Hlt H) as HG end.
    set (G0 := tsum gG (g_thr s) (g_n s)) in *.
    match goal with |- context [tsum gG (upd ?a ?b ?c) ?d] => set (G1 := tsum gG (upd a b c) d) in * end.
    unfold gG, gpcset in HG. cbn [g_pc g_k] in HG. rewrite Epc, Hwk, Ek0 in HG. cbn [pred] in HG.
    apply gM_drop; [lia|apply tsum_le_const; intros; apply gD_le].
  - left. unfold gM. cbn [g_n g_thr gset].
    match goal with |- context [upd (upd (g_thr s) ?u ?xu) t ?x] =>
      pose proof (tsum_upd2 gG (g_thr s) u xu t x (g_n s) Hul Hlt H) as HG end.
    set (G0 := tsum gG (g_thr s) (g_n s)) in *.
    match goal with |- context [tsum gG (upd ?a ?b ?c) ?d] => set (G1 := tsum gG (upd a b c) d) in * end.
    unfold gG, gpcset in HG. cbn [g_pc g_k] in HG. rewrite Epc, Hwk, Ek0 in HG. cbn [pred] in HG.
    apply gM_drop; [lia|apply tsum_le_const; intros; apply gD_le].
Qed.
End Measure.

(* ------------------------------------------------------------------ *)
(* who is productive *)

Lemma g_nospin_reader s u :
  g_is_reader (g_pc (g_thr s u)) = true ->
  (match g_mode s with GMOnce => g_cursor s =? g_rcur s | _ => g_cursor s =? ridx (g_i (g_thr s u)) (g_cap s) end) = false ->
  ~ g_spinning s u.
Proof.
  intros Hr Ee [Hd _]. unfold gDs, gD in Hd. cbv zeta in Hd.
  destruct (g_pc (g_thr s u)); simpl in Hr; try discriminate; destruct (g_mode s); rewrite ?Ee in Hd;
    repeat match type of Hd with context [match ?e with _ => _ end] => destruct e end; discriminate.
Qed.

Lemma g_nospin_writer s u :
  g_is_writer (g_pc (g_thr s u)) = true -> g_spin s = 0 -> ~ g_spinning s u.
Proof.
  intros Hw Hs0 [Hd _]. unfold gDs, gD in Hd. rewrite Hs0 in Hd. cbv zeta in Hd. simpl in Hd.
  destruct (g_pc (g_thr s u)); simpl in Hw; try discriminate;
    repeat match type of Hd with context [match ?e with _ => _ end] => destruct e end; discriminate.
Qed.

Lemma g_enabled_any s u c : gstep s u 0 <> None -> gstep s u c <> None.
Proof.
  unfold gstep. destruct (Nat.leb (g_n s) u); [auto|]. cbv zeta.
  destruct (g_pc (g_thr s u)); auto;
    repeat match goal with |- context [match ?e with _ => _ end] => destruct e end; auto; discriminate.
Qed.

Lemma g_enabled_lt s u : gstep s u 0 <> None -> (u < g_n s)%nat.
Proof.
  unfold gstep. destruct (Nat.leb (g_n s) u) eqn:E; [congruence|]. intros _. now apply Nat.leb_gt.
Qed.

Lemma g_writer_enabled s u : (u < g_n s)%nat -> g_is_writer (g_pc (g_thr s u)) = true -> gstep s u 0 <> None.
Proof.
  intros Hu Hw. apply g_enabled_unless; [exact Hu|]. destruct (g_pc (g_thr s u)); simpl in *; congruence.
Qed.

Section Prod.
Variable k : Z.
Hypothesis Hk : 0 <= k.
Variable T : nat.
Hypothesis HT : Z.of_nat T < 2 ^ k.

Lemma g_exists_productive s : GInv s -> GData k T s ->
  ~ (forall t, (t < g_n s)%nat -> g_done s t) -> exists u, g_productive s u.
Proof.
  intros GI GD Hnd.
  pose proof GI as [Hrole Hltn Hsingle Honce Hexcl Hown Hwait Hsleep].
  pose proof GD as [Hcap Hwm Hwr Hk0 HTs Hcur Hwlo Hnospin H01 Hspin Huniq Hheld Hwreg Hri Hrreg Horc Horeg].
  assert (Hcpos : 0 < 2 ^ k) by (apply pow2_pos; lia).
  (* 1. a writer between its store and its wake *)
  destruct (bounded_dec (fun u => g_pending (g_pc (g_thr s u))) (g_n s)) as [(u & Hu & Hp)|Hnp].
  { exists u. split; [apply g_pending_enabled; assumption|].
    intros [Hd _]. unfold gDs, gD in Hd. destruct (g_pc (g_thr s u)); simpl in Hp; discriminate. }
  (* 2. a thread about to exit *)
  destruct (bounded_dec (fun u => match g_pc (g_thr s u) with GFin => true | _ => false end) (g_n s))
    as [(u & Hu & Hp)|Hnf].
  { exists u. destruct (g_pc (g_thr s u)) eqn:E; try discriminate. split.
    - unfold gstep. apply Nat.leb_gt in Hu. rewrite Hu, E. discriminate.
    - intros [Hd _]. unfold gDs, gD in Hd. rewrite E in Hd. discriminate. }
  (* 3. a writer: the lock holder, or anybody if the lock is free *)
  destruct (bounded_dec (fun u => g_is_writer (g_pc (g_thr s u))) (g_n s)) as [(u & Hu & Hw)|Hnw].
  { destruct H01 as [S0|S1].
    - exists u. split; [now apply g_writer_enabled|now apply g_nospin_writer].
    - destruct (Hheld S1) as (o & Ho & Hr). exists o.
      assert (Hwo : g_is_writer (g_pc (g_thr s o)) = true) by (destruct (g_pc (g_thr s o)); simpl in *; congruence).
      split; [now apply g_writer_enabled|].
      intros [Hd _]. unfold gDs, gD in Hd. destruct (g_pc (g_thr s o)); simpl in Hr; discriminate. }
  (* 4. every writer has finished: everything has been written *)
  assert (Zw : tsum g_ww (g_thr s) (g_n s) = 0%nat).
  { apply tsum_zero. intros v Hv. unfold g_ww. specialize (Hnw v Hv).
    destruct (g_pc (g_thr s v)); simpl in Hnw; try discriminate; reflexivity. }
  assert (HwT : g_written s = T) by lia.
  assert (Hcls : forall u, (u < g_n s)%nat -> g_is_reader (g_pc (g_thr s u)) = true \/ g_done s u).
  { intros u Hu. specialize (Hnw u Hu). specialize (Hnf u Hu). unfold g_done.
    destruct (g_pc (g_thr s u)); simpl in *; try discriminate; auto. }
  (* a sleeper whose word has changed would have a pending writer *)
  assert (Hblk : forall u, (u < g_n s)%nat -> g_pc (g_thr s u) = GRBlocked ->
                 g_cursor s <> g_reg (g_thr s u) -> False).
  { intros u Hu E Hne. destruct (Hsleep u E Hne) as (v & Hv & Hp). rewrite (Hnp v Hv) in Hp. discriminate. }
  destruct (bounded_dec (fun u => g_is_reader (g_pc (g_thr s u))) (g_n s)) as [(u & Hu & Hr)|Hnr].
  2:{ exfalso. apply Hnd. intros t Ht. destruct (Hcls t Ht) as [E|E]; [|exact E].
      rewrite Hnr in E by exact Ht. discriminate. }
  destruct (g_mode s) eqn:Emd.
  1,2: (* wait / single-wait *)
    assert (Hm : g_mode s <> GMOnce) by congruence;
    rewrite <- Emd in Hri, Hrreg;
    destruct (Hri Hm u Hr) as [[A B] C];
    destruct (g_k (g_thr s u)) as [|kk] eqn:Ek;
    [ (* nothing more to read: the reader is at its last segment *)
      assert (Epc : g_pc (g_thr s u) = GRSeg)
        by (pose proof (Hk0 u) as K; destruct (g_pc (g_thr s u)); simpl in Hr; try discriminate; try reflexivity;
            specialize (K eq_refl); lia);
      exists u; split;
      [ unfold gstep; pose proof Hu as Hu'; apply Nat.leb_gt in Hu'; rewrite Hu', Epc; discriminate
      | intros [Hd _]; unfold gDs, gD in Hd; rewrite Epc, Ek in Hd; discriminate ]
    | (* its message is there *)
      assert (Ene : (g_cursor s =? ridx (g_i (g_thr s u)) (g_cap s)) = false)
        by (apply Z.eqb_neq; rewrite Hcap, (ridx_small k Hk) by lia; lia);
      exists u; split; [|apply g_nospin_reader; [exact Hr|rewrite Emd; exact Ene]];
      apply g_enabled_unless; [exact Hu|];
      destruct (g_pc (g_thr s u)) eqn:Epc; simpl in Hr; try discriminate; try reflexivity;
      [ (* GRLock does not exist in these modes *)
        exfalso; pose proof (Honce u) as X; rewrite Epc in X; specialize (X eq_refl); first [discriminate X | congruence]
      | exfalso; apply (Hblk u Hu Epc);
        rewrite (Hwait u) by (rewrite Epc; reflexivity); rewrite ?Emd;
        apply Z.eqb_neq; exact Ene ] ].
  (* read-once *)
  destruct (Horc eq_refl) as [[A B] C].
  assert (Hne : forall v, (v < g_n s)%nat -> (0 < g_rr (g_thr s v))%nat -> (g_cursor s =? g_rcur s) = false).
  { intros v Hv Hp. pose proof (tsum_ge g_rr (g_thr s) (g_n s) v Hv). apply Z.eqb_neq. lia. }
  destruct (g_rm s) as [o|] eqn:Erm.
  - destruct (Hown o eq_refl) as (_ & Ho & Hin).
    assert (Hro : g_is_reader (g_pc (g_thr s o)) = true) by (destruct (g_pc (g_thr s o)); simpl in *; congruence).
    destruct (g_pc (g_thr s o)) eqn:Epc; simpl in Hin; try discriminate.
    all: try (assert (Ene : (g_cursor s =? g_rcur s) = false)
                by (apply (Hne o Ho); unfold g_rr; rewrite Epc; apply Hk0; rewrite Epc; reflexivity)).
    all: exists o; split.
    all: try (unfold gstep; pose proof Ho as Ho'; apply Nat.leb_gt in Ho'; rewrite Ho', Epc; cbv zeta;
              repeat match goal with |- context [match ?e with _ => _ end] => destruct e end; discriminate).
    all: try (apply g_nospin_reader; [rewrite Epc; reflexivity|rewrite Emd; exact Ene]).
    + (* asleep holding read_mutex although there is a message: a writer would be pending *)
      exfalso. apply (Hblk o Ho Epc). rewrite (Hwait o) by (rewrite Epc; reflexivity). rewrite ?Emd.
      apply Z.eqb_neq. exact Ene.
    + intros [Hd _]. unfold gDs, gD in Hd. rewrite Epc in Hd. discriminate.
  - (* nobody holds read_mutex *)
    assert (Hpcs : g_pc (g_thr s u) = GRSeg \/ g_pc (g_thr s u) = GRLock).
    { destruct (g_pc (g_thr s u)) eqn:Epc; simpl in Hr; try discriminate; auto; exfalso;
        pose proof (Hexcl eq_refl u) as X; rewrite Epc in X; specialize (X eq_refl); discriminate X. }
    exists u. split.
    + destruct Hpcs as [E|E]; [apply g_enabled_unless; [exact Hu|rewrite E; reflexivity]|].
      (* GRLock is enabled when the mutex is free *)
      apply g_lock_enabled; auto.
    + destruct (g_k (g_thr s u)) as [|kk] eqn:Ek.
      * destruct Hpcs as [E|E].
        -- intros [Hd _]. unfold gDs, gD in Hd. rewrite E, Ek in Hd. discriminate.
        -- exfalso. pose proof (Hk0 u) as K. rewrite E in K. specialize (K eq_refl). lia.
      * apply g_nospin_reader; [exact Hr|]. rewrite Emd. apply (Hne u Hu).
        unfold g_rr. destruct Hpcs as [E|E]; rewrite E, Ek; lia.
Qed.
End Prod.

(* ------------------------------------------------------------------ *)
(* the theorem *)

Lemma g_done_step s t c s' l u : gstep s t c = Some (s', l) -> g_done s u -> g_done s' u.
Proof.
  unfold g_done. intros Hs Hd. unfold gstep in Hs.
  destruct (Nat.leb (g_n s) t); [discriminate|]. cbv zeta in Hs.
  destruct (Nat.eq_dec u t) as [->|Hne]; [rewrite Hd in Hs; discriminate|].
  destruct (g_pc (g_thr s t)) eqn:Epc; step_cases Hs; try discriminate; inv_some Hs;
    cbn [g_thr gset gset_rm gset_spin]; rewrite ?upd_other by exact Hne; try exact Hd.
  - destruct (g_wake_all_cases (g_thr s) (g_n s) u) as [E|[E1 E2]]; [rewrite E; exact Hd|congruence].
  - destruct (first_such_some _ _ _ Heqo) as [_ Hb]. apply g_blocked_pc in Hb.
    unfold upd. destruct (Nat.eqb_spec u n); [subst; congruence|exact Hd].
  - destruct (first_such_some _ _ _ Heqo) as [_ Hb]. apply g_blocked_pc in Hb.
    unfold upd. destruct (Nat.eqb_spec u n); [subst; congruence|exact Hd].
Qed.

Lemma ginit_data k n nr md wl ks :
  0 <= k ->
  let T := tsum g_ww (g_thr (ginit n nr (2 ^ k) md wl ks)) n in
  (wl = true \/ (n <= nr + 1)%nat) ->
  (md <> GMOnce -> forall t, (t < nr)%nat -> (ks t <= T)%nat) ->
  (md = GMOnce -> (tsum g_rr (g_thr (ginit n nr (2 ^ k) md wl ks)) n <= T)%nat) ->
  GData k T (ginit n nr (2 ^ k) md wl ks).
Proof.
  intros Hk T Hw Hr Ho. constructor; simpl; auto; try discriminate; try lia.
  - intros t. destruct (Nat.ltb_spec t nr); [discriminate|intros _; assumption].
  - intros t. destruct (Nat.ltb t nr); discriminate.
  - intros t. destruct (Nat.ltb t nr); discriminate.
  - intros _ t. destruct (Nat.ltb t nr); discriminate.
  - intros t u. destruct (Nat.ltb t nr); discriminate.
  - intros t. destruct (Nat.ltb t nr); discriminate.
  - intros Hm t. destruct (Nat.ltb_spec t nr); [|discriminate]. intros _. specialize (Hr Hm t H). lia.
  - intros Hm. specialize (Ho Hm). split; [lia|]. simpl in Ho. lia.
Qed.

Section Thm.
Variable k : Z.
Hypothesis Hk : 0 <= k.
Variable T : nat.
Hypothesis HT : Z.of_nat T < 2 ^ k.
Variable n : nat.

Definition GGoodN (s : gsys) : Prop := GGood k T s /\ g_n s = n.
Definition g_all_done (s : gsys) : Prop := forall t, (t < n)%nat -> g_done s t.

Lemma ggoodn_step s t c s' l : GGoodN s -> gstep s t c = Some (s', l) -> GGoodN s'.
Proof.
  intros [G N] Hs. split; [apply (ggood_step k Hk T HT s t c s' l G Hs)|].
  rewrite <- N. apply (g_const_step s t c s' l Hs).
Qed.

Theorem ring_fair_core rounds s :
  GGoodN s -> Forall (fair_round n) rounds -> (gM s < length rounds)%nat ->
  g_all_done (exec gsys gstep s (concat rounds)).
Proof.
  apply (fair_goal gsys gstep n GGoodN gM g_spinning).
  - exact ggoodn_step.
  - intros s0 u [_ N] H. rewrite <- N. now apply g_enabled_lt.
  - intros s0 u c _ H. now apply g_enabled_any.
  - intros s0 t c s' l [G _] Hs. apply (g_step_measure k Hk T HT s0 t c s' l G Hs).
  - intros s0. unfold g_all_done.
    destruct (bounded_dec (fun t => match g_pc (g_thr s0 t) with GDone => false | _ => true end) n) as [(t & Ht & Hp)|Hall].
    + right. intros H. specialize (H t Ht). unfold g_done in H. rewrite H in Hp. discriminate.
    + left. intros t Ht. specialize (Hall t Ht). unfold g_done. destruct (g_pc (g_thr s0 t)); try discriminate; reflexivity.
  - intros s0 t c s' l _ Hg Hs u Hu. eapply g_done_step; eauto.
  - intros s0 [(GI & GD) N] Hng. unfold g_all_done in Hng. rewrite <- N in Hng. now apply (g_exists_productive k Hk T HT).
Qed.
End Thm.

(* FAIR TERMINATION, ring buffer with futex-waiting readers (wait: any number of readers,
   wake_all; single-wait: one reader; read-once: readers serialised by read_mutex).  Capacity 2^k,
   any number of writers with the write spin lock (one if SINGLE_WRITER), T messages in all with
   T < capacity (no reader is lapped), every reader asks for at most T messages (read-once: the
   readers together), any reachable state [pre], and then ANY fair continuation of more than [gM]
   rounds, with any schedule choices (futex waits interrupted or returning spuriously as often as
   the schedule likes, writers spinning on the lock): every thread has finished. *)
Theorem ring_no_lost_wakeup_fair_all k n nr md wl ks pre rounds :
  0 <= k ->
  let s0 := ginit n nr (2 ^ k) md wl ks in
  let T := tsum g_ww (g_thr s0) n in
  Z.of_nat T < 2 ^ k ->
  (md = GMSingle -> (nr <= 1)%nat) ->
  (wl = true \/ (n <= nr + 1)%nat) ->
  (md <> GMOnce -> forall t, (t < nr)%nat -> (ks t <= T)%nat) ->
  (md = GMOnce -> (tsum g_rr (g_thr s0) n <= T)%nat) ->
  let s := exec gsys gstep s0 pre in
  Forall (fair_round n) rounds -> (gM s < length rounds)%nat ->
  forall t, (t < n)%nat -> g_done (exec gsys gstep s0 (pre ++ concat rounds)) t.
Proof.
  intros Hk s0 T HT Hs1 Hw Hr Ho s Hf Hlt. rewrite exec_app. apply (ring_fair_core k Hk T HT n); auto.
  assert (H : forall x, GGoodN k T n x -> GGoodN k T n (exec gsys gstep x pre)).
  { apply (inv_exec gsys gstep (GGoodN k T n)). intros; eapply ggoodn_step; eauto. }
  apply H. split; [|reflexivity]. split; [apply ginit_inv; exact Hs1|apply ginit_data; assumption].
Qed.

(* non-vacuity: two readers (wait mode), one writer with the spin lock, capacity 4, two messages;
   round-robin rounds are fair; both readers really sleep in the futex (rounds 4..7) and are
   really woken by the wake_all (round 8); after 650 rounds (more than the measure of the initial
   state) everybody has finished *)
Definition g_fair_demo : gsys := ginit 3 2 (2 ^ 2) GMWait true (fun _ => 2%nat).
Example ring_fair_example :
  let rr := [(0,0);(1,0);(2,0)]%nat in
  fair_round 3 rr /\
  (Z.of_nat (tsum g_ww (g_thr g_fair_demo) 3) < 2 ^ 2)%Z /\
  (gM g_fair_demo < 650)%nat /\
  (let s := exec gsys gstep g_fair_demo (concat (repeat rr 4)) in
   g_pc (g_thr s 0%nat) = GRBlocked /\ g_pc (g_thr s 1%nat) = GRBlocked) /\
  (let s := exec gsys gstep g_fair_demo (concat (repeat rr 7)) in
   g_pc (g_thr s 0%nat) = GRBlocked /\ g_pc (g_thr s 1%nat) = GRBlocked) /\
  (let s := exec gsys gstep g_fair_demo (concat (repeat rr 8)) in
   g_pc (g_thr s 0%nat) = GRSeg1 /\ g_pc (g_thr s 1%nat) = GRSeg1) /\
  (forall t, (t < 3)%nat -> g_done (exec gsys gstep g_fair_demo (concat (repeat rr 650))) t).
Proof.
  split; [intros t Ht; destruct t as [|[|[|t]]]; simpl; auto; lia|].
  split; [vm_compute; reflexivity|].
  split; [vm_compute; lia|].
  split; [vm_compute; split; reflexivity|].
  split; [vm_compute; split; reflexivity|].
  split; [vm_compute; split; reflexivity|].
  intros t Ht. destruct t as [|[|[|t]]]; [vm_compute; reflexivity..|lia].
Qed.
