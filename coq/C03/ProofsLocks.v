(* C03 — every return path releases what the call acquired, models (a) channel / futex reader,
   (b) channel / condvar reader, (d) array blocking queue: a thread that is in CLIENT code (before
   its call, after an OK or a MUGGLE_ERR_FULL return, in its retry yield, finished) never owns a
   mutex of the conduit.  Corollaries of the ownership invariants (owner => inside a call, between
   lock and unlock / wait).  The double buffer's is in ProofsDbufNb.v, the word-lock channel's in
   ProofsChanK2.v. *)
From MV Require Import C03.Model C03.ProofsCommon C03.ProofsChanF C03.ProofsChanM C03.ProofsAbq.
Local Open Scope Z_scope.

(* (a): outside muggle_channel_write / muggle_channel_read.  FWSeg4 / FWWake (after the unlock, before
   and at the wake call) are still inside the call and not listed; FWSegF is the segment in which
   the FULL return reaches the client *)
Definition f_outside (p : fpc) : bool :=
  match p with FRSeg | FWSeg | FWSegF | FWYield | FFin | FDone => true | _ => false end.
Lemma f_outside_not_inlock p : f_outside p = true -> f_inlock p = false.
Proof. destruct p; simpl; congruence. Qed.

Theorem chan_futex_calls_release_write_mutex_all n cap wl nreads wk sched t :
  let s := exec fsys fstep (finit n cap wl nreads wk) sched in
  f_outside (f_pc (f_thr s t)) = true -> f_wm s <> Some t.
Proof.
  intros s Ho Hm. destruct (f_reachable_inv n cap wl nreads wk sched) as [_ _ Hown _ _]. fold s in Hown.
  destruct (Hown t Hm) as (_ & _ & C). rewrite (f_outside_not_inlock _ Ho) in C. discriminate.
Qed.

(* (b) *)
Definition m_outside (p : mpc) : bool :=
  match p with MRSeg | MWSeg | MWSegF | MWYield | MFin | MDone => true | _ => false end.
Lemma m_outside_not_in p : m_outside p = true -> m_inrm p = false /\ m_inwm p = false.
Proof. destruct p; simpl; intros; split; congruence. Qed.

Theorem chan_cv_calls_release_mutexes_all n cap wl nreads wk sched t :
  let s := exec msys mstep (minit n cap wl nreads wk) sched in
  m_outside (m_pc (m_thr s t)) = true -> m_wm s <> Some t /\ m_rm s <> Some t.
Proof.
  intros s Ho. destruct (m_reachable_inv n cap wl nreads wk sched) as [_ _ _ Hownr Hownw _ _].
  fold s in Hownr, Hownw. destruct (m_outside_not_in _ Ho) as [A B]. split; intros Hm.
  - destruct (Hownw t Hm) as (_ & _ & C). rewrite B in C. discriminate.
  - destruct (Hownr t Hm) as (_ & C). rewrite A in C. discriminate.
Qed.

(* (d) *)
Definition q_outside (p : qpc) : bool :=
  match p with QPSeg | QCSeg | QFin | QDone => true | _ => false end.
Lemma q_outside_not_holds p : q_outside p = true -> q_holds p = false.
Proof. destruct p; simpl; congruence. Qed.

Theorem abq_calls_release_mutex_all n nc cap ks sched t : 1 <= cap ->
  let s := exec qsys qstep (qinit n nc cap ks) sched in
  q_outside (q_pc (q_thr s t)) = true -> q_m s <> Some t.
Proof.
  intros Hc s Ho Hm. assert (Hi : QInv s) by (apply q_reachable_inv; lia).
  destruct Hi as [_ Hown _ _ _]. destruct (Hown t Hm) as (_ & C).
  rewrite (q_outside_not_holds _ Ho) in C. discriminate.
Qed.

(* non-vacuity: a writer of the futex-reader channel really is in client code after a FULL return
   (capacity 4, two usable slots, third write refused) with the write mutex free *)
Example f_full_return_leaves_write_mutex_free :
  let s := exec fsys fstep (finit 2 4 true 3 (fun _ => 3%nat)) (List.repeat (1%nat, 0%nat) 27) in
  f_pc (f_thr s 1%nat) = FWYield /\ f_wm s = None /\ f_k (f_thr s 1%nat) = 1%nat.
Proof. vm_compute. repeat split; reflexivity. Qed.
