(* C01 — property theorems only (proved in C01/Proofs*.v), instantiated with the memory orders
   re-extracted from the code on this run (gen/Params_C01.v).
   Model: C01/Model.v (channel: 4 writer-lock kinds x 3 reader modes, any number of writers, any
   capacity) and C01/ModelQ.v (array blocking queue, double buffer).  [reach P g nread ks sched]
   is the state after the schedule [sched] (any list of (thread, choice)); [mk_cfg] rounds the
   requested capacity as muggle_channel_init does; hypothesis [wk = WSingle -> nw <= 1] is the
   documented usage of MUGGLE_CHANNEL_FLAG_WRITE_SINGLE. *)
From MV Require Import C01.Model C01.ModelQ C01.ProofsArith C01.ProofsSC C01.ProofsView C01.ProofsViewM C01.ProofsOrder C01.ProofsQ C01.ProofsQV C01.ProofsDV C01.Dispatch C01.ProofsDispatch C01.ProofsFlags C01.ProofsVal C01.ModelRC C01.ProofsRC C01.Slice C01.ProofsSlice gen.Params_C01 C01.ProofsGen.
Local Open Scope Z_scope.

(* side condition on the code's memory orders: release on every store of write_cursor, acquire
   on the reader's load of it, acquire/release on spinlock and synclock *)
Theorem c01_memory_orders_sufficient : mo_sufficient code_params = true.
Proof. vm_compute. reflexivity. Qed.
Print Assumptions c01_memory_orders_sufficient.

(* DESIGN.md A.5: the channel invariant holds in every reachable state of every schedule, for
   any number of writers, any capacity (1 and 2 included), all 4 x 3 flag combinations *)
Theorem chan_inv_reachable : forall wk rm reqcap nw maxtry nread ks sched,
  (wk = WSingle -> (nw <= 1)%nat) ->
  let g := mk_cfg wk rm reqcap nw maxtry in
  SInv g (reach code_params g nread ks sched).
Proof.
  intros wk rm reqcap nw maxtry nread ks sched H g.
  exact (chan_sc_invariant code_params g nread ks sched (mk_cfg_ok wk rm reqcap nw maxtry H)).
Qed.
Print Assumptions chan_inv_reachable.

(* side conditions instantiated for every mode *)
Theorem code_chan_mo_ok : forall rm, chan_mo_ok code_params rm = true.
Proof. intros rm. destruct rm; vm_compute; reflexivity. Qed.
Print Assumptions code_chan_mo_ok.
Theorem code_lock_mo_ok : forall wk, lock_mo_ok code_params wk = true.
Proof. intros wk. destruct wk; vm_compute; reflexivity. Qed.
Print Assumptions code_lock_mo_ok.

Theorem code_chan_rd_mo_ok : forall rm, chan_rd_mo_ok code_params rm = true.
Proof. intros rm. destruct rm; vm_compute; reflexivity. Qed.
Print Assumptions code_chan_rd_mo_ok.

(* READ BEFORE OVERWRITE (the consumer side of the hand-over; C01/ModelRC.v): the channel model
   observed by a ghost that gives every slot read of the reader an epoch, lets a store with memory
   order >= release publish the storer's knowledge of completed reads on the atomic cell (mutex
   unlock: on the mutex), and counts in r_unc the slot stores of a writer that are not ordered
   after every earlier read of the same slot.  With the memory orders of the code (release store
   of read_cursor by the reader, acquire / release on the writer locks; the writer's load of
   read_cursor is taken as the acquiring side whatever its order) no such store exists, for every
   schedule, any number of writers, any capacity, all 12 modes; the observer does not change the
   channel (second conjunct).  chan_read_release_necessary (ProofsRC.v): with a relaxed store of
   read_cursor a schedule with an uncovered overwrite exists *)
Theorem chan_no_overwrite_before_read_completes : forall wk rm reqcap nw maxtry nread ks sched,
  (wk = WSingle -> (nw <= 1)%nat) ->
  let g := mk_cfg wk rm reqcap nw maxtry in
  r_unc (x_r (xreach code_params g nread ks sched)) = 0%nat /\
  x_s (xreach code_params g nread ks sched) = reach code_params g nread ks sched.
Proof.
  intros wk rm reqcap nw maxtry nread ks sched H g. split.
  - exact (chan_read_covered_all code_params g nread ks sched (mk_cfg_ok wk rm reqcap nw maxtry H)
             (code_chan_rd_mo_ok _) (code_lock_mo_ok _)).
  - exact (xreach_proj code_params g nread ks sched).
Qed.
Print Assumptions chan_no_overwrite_before_read_completes.

(* ... together with the visibility invariants (views, stamps): through write_cursor in the sync and
   busy reader modes, through read_mutex in the mutex reader mode *)
Theorem chan_inv_views_reachable : forall wk rm reqcap nw maxtry nread ks sched,
  (wk = WSingle -> (nw <= 1)%nat) ->
  let g := mk_cfg wk rm reqcap nw maxtry in
  (rm <> RMutex -> CInv g (reach code_params g nread ks sched)) /\
  (rm = RMutex -> CMInv g (reach code_params g nread ks sched)).
Proof.
  intros wk rm reqcap nw maxtry nread ks sched H g. split; intros Hrm.
  - exact (chan_full_invariant code_params g nread ks sched (mk_cfg_ok wk rm reqcap nw maxtry H) Hrm
             (code_chan_mo_ok _) (code_lock_mo_ok _)).
  - exact (chan_mutex_invariant code_params g nread ks sched (mk_cfg_ok wk rm reqcap nw maxtry H) Hrm).
Qed.
Print Assumptions chan_inv_views_reachable.

(* delivered is a prefix of accepted (every read returns the next accepted message, nothing else,
   in the order the writes took effect; hence each writer's messages keep that writer's order) and
   equals it when the channel is drained; all 12 modes *)
Theorem chan_exactly_once_in_order : forall wk rm reqcap nw maxtry nread ks sched,
  (wk = WSingle -> (nw <= 1)%nat) ->
  let s := reach code_params (mk_cfg wk rm reqcap nw maxtry) nread ks sched in
  c_del s = map Some (firstn (length (c_del s)) (c_acc s)) /\ (length (c_del s) <= length (c_acc s))%nat /\
  (length (c_del s) = length (c_acc s) -> c_del s = map Some (c_acc s)).
Proof.
  intros wk rm reqcap nw maxtry nread ks sched H.
  exact (chan_exactly_once_all code_params _ nread ks sched (mk_cfg_ok wk rm reqcap nw maxtry H)
           (code_chan_mo_ok _) (code_lock_mo_ok _)).
Qed.
Print Assumptions chan_exactly_once_in_order.

(* each writer's messages keep that writer's order: in the accepted history, and hence in the
   delivered one, the messages (w, i) of one writer w appear with increasing sequence numbers i *)
Theorem chan_per_writer_order : forall wk rm reqcap nw maxtry nread ks sched,
  (wk = WSingle -> (nw <= 1)%nat) ->
  let s := reach code_params (mk_cfg wk rm reqcap nw maxtry) nread ks sched in
  wsorted (c_acc s) /\
  exists l, c_del s = map Some l /\ l = firstn (length (c_del s)) (c_acc s) /\ wsorted l.
Proof.
  intros wk rm reqcap nw maxtry nread ks sched H.
  exact (chan_writer_order_all code_params _ nread ks sched (mk_cfg_ok wk rm reqcap nw maxtry H)
           (code_chan_mo_ok _) (code_lock_mo_ok _)).
Qed.
Print Assumptions chan_per_writer_order.

(* a write is refused as FULL only if the ring held capacity-2 unread messages at the instant of
   the writer's cursor load (the ghost check at every FULL result never fails); all modes *)
Theorem chan_full_only_if_full : forall wk rm reqcap nw maxtry nread ks sched,
  (wk = WSingle -> (nw <= 1)%nat) ->
  c_badfull (reach code_params (mk_cfg wk rm reqcap nw maxtry) nread ks sched) = 0%nat.
Proof.
  intros wk rm reqcap nw maxtry nread ks sched H.
  exact (chan_full_only_if_full_all code_params _ nread ks sched (mk_cfg_ok wk rm reqcap nw maxtry H)).
Qed.
Print Assumptions chan_full_only_if_full.

(* an accepted message is never overwritten before it has been read; all modes *)
Theorem chan_no_overwrite : forall wk rm reqcap nw maxtry nread ks sched,
  (wk = WSingle -> (nw <= 1)%nat) ->
  c_overw (reach code_params (mk_cfg wk rm reqcap nw maxtry) nread ks sched) = 0%nat.
Proof.
  intros wk rm reqcap nw maxtry nread ks sched H.
  exact (chan_no_overwrite_all code_params _ nread ks sched (mk_cfg_ok wk rm reqcap nw maxtry H)).
Qed.
Print Assumptions chan_no_overwrite.

(* the hand-over is a happens-before edge: every plain read of the reader (slot, then payload) is
   covered by its view, and the message about to be returned is an accepted one whose payload
   write is visible to the reader; all 12 modes *)
Theorem chan_payload_visible : forall wk rm reqcap nw maxtry nread ks sched m,
  (wk = WSingle -> (nw <= 1)%nat) ->
  let s := reach code_params (mk_cfg wk rm reqcap nw maxtry) nread ks sched in
  c_uncov s = 0%nat /\
  ((t_pc (c_thr s 0%nat) = RStoreR \/ t_pc (c_thr s 0%nat) = RMUnlock \/ t_pc (c_thr s 0%nat) = RRet) ->
   t_d (c_thr s 0%nat) = Some m ->
   In m (c_acc s) /\ vget (t_view (c_thr s 0%nat)) (CPay m) = c_pver s m).
Proof.
  intros wk rm reqcap nw maxtry nread ks sched m H s. split.
  - exact (chan_reads_covered_all code_params _ nread ks sched (mk_cfg_ok wk rm reqcap nw maxtry H)
             (code_chan_mo_ok _) (code_lock_mo_ok _)).
  - exact (chan_payload_visible_all code_params _ nread ks sched m (mk_cfg_ok wk rm reqcap nw maxtry H)
             (code_chan_mo_ok _) (code_lock_mo_ok _)).
Qed.
Print Assumptions chan_payload_visible.

(* array blocking queue: taken is a prefix of put in lock order, at most capacity items in flight,
   a producer sleeps only when cnt = capacity and a consumer only when cnt = 0 *)
Theorem abq_fifo : forall cap np n ks sched, 0 < cap ->
  let s := qreach cap np n ks sched in
  q_taken s = map Some (firstn (length (q_taken s)) (q_putl s)) /\
  (length (q_taken s) <= length (q_putl s))%nat /\
  Z.of_nat (length (q_putl s)) - Z.of_nat (length (q_taken s)) <= cap /\
  q_badwait s = 0%nat.
Proof. exact abq_fifo_all. Qed.
Print Assumptions abq_fifo.

(* double buffer: the batches handed to the reader, concatenated, followed by the content of the
   back buffer, are the accepted items in lock order *)
Theorem dbuf_batches_in_order : forall cap nb mt nw total ks sched,
  let s := dreach cap nb mt nw total ks sched in
  map Some (d_written s) =
  d_read s ++ batch (d_datas s (negb (d_front s))) (Z.to_nat (d_cnt s (negb (d_front s)))).
Proof. exact dbuf_batches_in_order_all. Qed.
Print Assumptions dbuf_batches_in_order.

(* array blocking queue, hand-over: no plain read of a consumer (array slot under the mutex, payload
   after the take) is uncovered; the item a consumer is about to return was put and the payload its
   producer wrote before the put is in the consumer's view *)
Theorem abq_payload_visible : forall cap np n ks sched t m, 0 < cap ->
  let s := qreach cap np n ks sched in
  q_uncov s = 0%nat /\
  (q_is_prod s t = false -> qafter (q_pc (q_thr s t)) = true -> q_d (q_thr s t) = Some m ->
   In m (q_putl s) /\ vget (q_view (q_thr s t)) (CPay m) = q_pver s m).
Proof. exact abq_payload_visible_all. Qed.
Print Assumptions abq_payload_visible.

(* double buffer, hand-over: no plain read of the reader (batch entries and payloads, outside the
   mutex) is uncovered; every entry of the batch it holds was written and its payload is visible *)
Theorem dbuf_payload_visible : forall cap nb mt nw total ks sched k m,
  let s := dreach cap nb mt nw total ks sched in
  d_uncov s = 0%nat /\
  (dbatch_pc (d_pc (d_thr s 0%nat)) = true -> Z.of_nat k < d_cnt s (d_front s) ->
   d_datas s (d_front s) (Z.of_nat k) = Some m ->
   In m (d_written s) /\ vget (d_view (d_thr s 0%nat)) (CPay m) = d_pver s m).
Proof. exact dbuf_payload_visible_all. Qed.
Print Assumptions dbuf_payload_visible.

(* double buffer: a write is refused (non-blocking) or put to sleep (blocking) only when the back
   buffer really holds capacity items, the reader sleeps only when it is empty; the back buffer's
   count always equals accepted minus handed-over *)
Theorem dbuf_full_only_if_full : forall cap nb mt nw total ks sched,
  let s := dreach cap nb mt nw total ks sched in
  d_badwait s = 0%nat /\ d_cnt s (negb (d_front s)) = d_pending s.
Proof. exact dbuf_full_only_if_full_all. Qed.
Print Assumptions dbuf_full_only_if_full.

(* muggle_channel_init, re-extracted by running it (as compiled from the working tree) for EVERY
   flags value in [0, 512) -- all combinations of the writer-lock and reader-mode bits, valid,
   invalid and one out-of-range bit: the return value, the normalised chan->flags, init_flags, the
   mutexes / condition variable created and the five installed functions are exactly the model's
   mode table (flag_wk / flag_rm select the lock sub-automaton and the writer / wake / reader
   program points of coq/C01/Model.v).  Complete finite sweep by vm_compute; bound: 512 flag values *)
Theorem chan_dispatch_matches_model : code_dispatch_table = map model_dispatch (flag_domain 512).
Proof. vm_compute. reflexivity. Qed.
Print Assumptions chan_dispatch_matches_model.

(* ... and the configuration the flags theorems below quantify over is the one the code installs:
   for every flags value in [0, 512) the installed lock / unlock / write / wake / read functions are
   those of mk_cfg_flags (the lock sub-automaton and reader mode the model runs), the mutexes and the
   condition variable exist exactly when that configuration uses them, the capacity is the model's,
   and no writer selector other than MUGGLE_CHANNEL_FLAG_WRITE_SINGLE (flags & 15 = 3) installs the
   no-op lock.  Complete finite sweep; bound: 512 flag values (the model looks at the low byte only:
   chan_flag_byte_exhaustive) *)
Theorem chan_dispatch_selects_flags_cfg :
  forallb row_selects_cfg code_dispatch_table = true /\ map row_flags code_dispatch_table = flag_domain 512.
Proof. vm_compute. split; reflexivity. Qed.
Print Assumptions chan_dispatch_selects_flags_cfg.

(* the mode table looks at the low byte of flags only (so the 256 flag bytes are all there is),
   selects the no-op writer lock exactly for writer selector 3, and sends every out-of-range
   selector to the mutex *)
Theorem chan_flag_byte_exhaustive : forall f reqcap nw maxtry,
  (mk_cfg_flags (f mod 256) reqcap nw maxtry = mk_cfg_flags f reqcap nw maxtry /\ 0 <= f mod 256 < 256) /\
  (flag_wk f = WSingle <-> Z.land f 15 = 3) /\
  (3 < Z.land f 15 -> flag_wk f = WMutex) /\
  (Z.land f 240 <> 0 -> Z.land f 240 <> 32 -> flag_rm f = RMutex).
Proof.
  intros f reqcap nw maxtry.
  exact (conj (mk_cfg_flags_byte f reqcap nw maxtry)
           (conj (flag_wk_single_iff f) (conj (flag_wk_out_of_range f) (flag_rm_out_of_range f)))).
Qed.
Print Assumptions chan_flag_byte_exhaustive.

(* the property for EVERY flags value muggle_channel_init can be given (valid, invalid and
   out-of-range selectors, any higher bits), any number of writers unless the writer selector is
   MUGGLE_CHANNEL_FLAG_WRITE_SINGLE (documented usage: one writer), any capacity, every schedule:
   delivered is a prefix of accepted and equal when drained, per-writer order, FULL only if full,
   no overwrite of an unread message, every plain read of the reader covered by its view *)
Theorem chan_flags_exactly_once_in_order : forall f reqcap nw maxtry nread ks sched,
  (Z.land f 15 = 3 -> (nw <= 1)%nat) ->
  let s := reach code_params (mk_cfg_flags f reqcap nw maxtry) nread ks sched in
  (c_del s = map Some (firstn (length (c_del s)) (c_acc s)) /\ (length (c_del s) <= length (c_acc s))%nat /\
   (length (c_del s) = length (c_acc s) -> c_del s = map Some (c_acc s))) /\
  (wsorted (c_acc s) /\
   exists l, c_del s = map Some l /\ l = firstn (length (c_del s)) (c_acc s) /\ wsorted l) /\
  c_badfull s = 0%nat /\ c_overw s = 0%nat /\ c_uncov s = 0%nat.
Proof. exact (chan_flags_delivery_all code_params code_chan_mo_ok code_lock_mo_ok). Qed.
Print Assumptions chan_flags_exactly_once_in_order.

Theorem chan_flags_payload_visible : forall f reqcap nw maxtry nread ks sched m,
  (Z.land f 15 = 3 -> (nw <= 1)%nat) ->
  let s := reach code_params (mk_cfg_flags f reqcap nw maxtry) nread ks sched in
  (t_pc (c_thr s 0%nat) = RStoreR \/ t_pc (c_thr s 0%nat) = RMUnlock \/ t_pc (c_thr s 0%nat) = RRet) ->
  t_d (c_thr s 0%nat) = Some m ->
  In m (c_acc s) /\ vget (t_view (c_thr s 0%nat)) (CPay m) = c_pver s m.
Proof. exact (chan_flags_payload_visible_all code_params code_chan_mo_ok code_lock_mo_ok). Qed.
Print Assumptions chan_flags_payload_visible.

(* a writer selector other than WRITE_SINGLE -- 0, 1, 2 and every out-of-range value 4 .. 15 -- is
   a real lock for ANY number of concurrent writers: the selected kind is not the no-op lock, at
   most one writer is between fn_lock and fn_unlock, nobody is while the lock word is free, and at
   most capacity - 2 accepted messages are unread *)
Theorem chan_flags_writers_excluded : forall f reqcap nw maxtry nread ks sched,
  Z.land f 15 <> 3 ->
  let g := mk_cfg_flags f reqcap nw maxtry in
  let s := reach code_params g nread ks sched in
  g_wk g <> WSingle /\
  (forall t u, hold (t_pc (c_thr s t)) = true -> hold (t_pc (c_thr s u)) = true -> t = u) /\
  (c_lock s = 0 -> forall t, hold (t_pc (c_thr s t)) = false) /\
  Z.of_nat (length (c_acc s)) - Z.of_nat (c_R s) <= usable (g_cap g).
Proof. exact (chan_flags_writers_excluded_all code_params). Qed.
Print Assumptions chan_flags_writers_excluded.

(* capacity: for every requested capacity in [0, 1025] (and three requests whose rounding does not
   fit muggle_sync_t) init refuses exactly when the model does, and otherwise capacity and the three
   initial cursors are those of the model's initial state; muggle_next_pow_of_2 as used by init
   agrees with round_cap around every power of two up to 2^32 *)
Theorem chan_capacity_matches_model :
  forallb cap_row_ok code_capacity_table = true /\
  map (fun r => fst (fst (fst (fst (fst r))))) (firstn 1026 code_capacity_table) = flag_domain 1026 /\
  forallb pow2_row_ok code_pow2_table = true /\ Nat.leb 90 (length code_pow2_table) = true.
Proof. vm_compute. repeat split; reflexivity. Qed.
Print Assumptions chan_capacity_matches_model.

(* MESSAGE VALUES.  A message is an opaque void* for the channel: in the model a scenario assigns to
   message (writer, seq) the pointer value val (writer, seq) -- ANY function: the address of its
   own payload, NULL, (void* )-1, small integers, one address carried by several messages -- and
   the model moves the identities without ever inspecting the values.  The delivery theorems for
   every value assignment: the values returned by the reads are, in order, the values carried by
   the accepted messages (a NULL message is delivered like any other, the NULL of a never-written
   slot is never returned as data), FULL only if full, no overwrite, no uncovered read *)
Theorem chan_delivery_any_values : forall wk rm reqcap nw maxtry val nread ks sched,
  (wk = WSingle -> (nw <= 1)%nat) ->
  let g := mk_cfg_val wk rm reqcap nw maxtry val in
  let s := reach code_params g nread ks sched in
  (map (valopt g) (c_del s) = map val (firstn (length (c_del s)) (c_acc s)) /\
   (length (c_del s) <= length (c_acc s))%nat) /\
  (length (c_del s) = length (c_acc s) -> c_del s = map Some (c_acc s)) /\
  c_badfull s = 0%nat /\ c_overw s = 0%nat /\ c_uncov s = 0%nat.
Proof.
  intros wk rm reqcap nw maxtry val nread ks sched H g s.
  pose proof (mk_cfg_val_ok wk rm reqcap nw maxtry val H) as Hg.
  exact (conj (chan_delivered_values_all code_params g nread ks sched Hg (code_chan_mo_ok _) (code_lock_mo_ok _))
        (conj (proj2 (proj2 (chan_exactly_once_all code_params g nread ks sched Hg (code_chan_mo_ok _) (code_lock_mo_ok _))))
        (conj (chan_full_only_if_full_all code_params g nread ks sched Hg)
        (conj (chan_no_overwrite_all code_params g nread ks sched Hg)
              (chan_reads_covered_all code_params g nread ks sched Hg (code_chan_mo_ok _) (code_lock_mo_ok _)))))).
Qed.
Print Assumptions chan_delivery_any_values.

(* parametricity: the same schedule under ANY other value assignment reaches the SAME state
   (program points, cursors, slots, accepted / delivered identities, ghost counters) ... *)
Theorem chan_state_value_independent : forall g val nread ks sched,
  reach code_params (with_val g val) nread ks sched = reach code_params g nread ks sched.
Proof. exact (chan_state_value_independent_all code_params). Qed.
Print Assumptions chan_state_value_independent.

(* ... and performs the same operations in the same order (labels up to the values shown in the
   reader's "got" / "fld" harness notes) *)
Theorem chan_trace_value_independent : forall g val nread ks sched,
  map (fun tl => (fst tl, shape (snd tl))) (trace csys (cstep code_params (with_val g val)) (cinit (with_val g val) nread ks) sched) =
  map (fun tl => (fst tl, shape (snd tl))) (trace csys (cstep code_params g) (cinit g nread ks) sched).
Proof. exact (chan_trace_value_independent_all code_params). Qed.
Print Assumptions chan_trace_value_independent.

(* additional obligation, from an AST SCAN of the code re-done on every run (lib/props/c01_scan.py;
   not a proof about C): channel.c, array_blocking_queue.c and double_buffer.c nowhere compare a
   payload value, test it for truth, convert it to an integer, dereference it, use it in
   arithmetic or hand it to a function outside these files -- which is what would make NULL or
   other special values meaningful and the value-independence above false for the code *)
Theorem chan_code_never_tests_payload : code_payload_tests = 0%nat.
Proof. vm_compute. reflexivity. Qed.
Print Assumptions chan_code_never_tests_payload.

(* the struct fields the model treats as 32-bit unsigned cursors (capacity, write_cursor,
   read_cursor, cached_r_cur, the synclock word), the int counters of the array blocking queue and
   the double buffer, and the pointer-sized slot elements have exactly the width and signedness
   the model assumes (re-extracted with sizeof / typeof by the probe compiled from the working tree) *)
Theorem chan_field_widths_match_model : code_field_widths = model_field_widths.
Proof. vm_compute. reflexivity. Qed.
Print Assumptions chan_field_widths_match_model.

(* ... and for ALL requests: round_cap is the least power of two >= the request, and in the range
   the channel accepts (1 .. 2^31) the model's init_cap is that rounding *)
Theorem chan_capacity_rounding : forall req, 1 <= req ->
  (exists k, 0 <= k /\ round_cap req = 2 ^ k /\ req <= round_cap req /\ (1 < req -> round_cap req < 2 * req)) /\
  (req <= 2 ^ 31 -> init_cap req = Some (round_cap req)).
Proof.
  intros req H. split; [exact (round_cap_spec req H)|]. intros H2. apply init_cap_round. split; assumption.
Qed.
Print Assumptions chan_capacity_rounding.

(* SECOND TIE (translator kind, DESIGN.md 4.4) for channel.c.  lib/props/c01_slice.py slices the
   bodies of the write / wake / read function variants and of the public wrappers out of the clang
   AST of the C text of THIS run -- every synchronisation operation becomes a labelled step (an
   entry of the event word: operation, object, memory order, in program order on each path), the
   index arithmetic and the conditions between them become integer arithmetic with explicit
   32-bit wrap, a message is an opaque 64-bit value, a loop is one iteration -- and
   lib/leaftrans.py translates them (gen_chan_* in gen/Params_C01.v).  Each theorem has two
   halves: the generated function equals the reference function of C01/Slice.v on the WHOLE domain
   (capacity any power of two up to 2^31, cursors inside the ring, any slot contents, any message
   value; decided by a tactic that does not look at the shape of the generated term), and the
   model's steps through the same function (Model.v) compute the same reference: result, cursor
   update, slot index, and the sequence of synchronisation operations with their memory orders.
   An edit of a value, condition, memory order or synchronisation step on ANY path -- also one no
   scenario reaches -- breaks the first half *)
Theorem chan_write_sync_text_matches_model :
  (forall cap ev rcur slot wcur data, cdom cap wcur rcur -> evdom ev ->
     gen_chan_write_sync cap ev rcur slot wcur data = ref_write_sync code_params cap ev rcur slot wcur data) /\
  write_sync_model_stmt code_params.
Proof. exact (conj gen_write_sync_ref (model_write_sync code_params)). Qed.
Print Assumptions chan_write_sync_text_matches_model.

Theorem chan_write_busy_text_matches_model :
  (forall cached cap ev rcur slot wcur data, cdom cap wcur rcur -> evdom ev -> 0 <= cached < cap ->
     gen_chan_write_busy cached cap ev rcur slot wcur data = ref_write_busy code_params cached cap ev rcur slot wcur data) /\
  write_busy_model_stmt code_params.
Proof. exact (conj gen_write_busy_ref (model_write_busy code_params)). Qed.
Print Assumptions chan_write_busy_text_matches_model.

Theorem chan_write_mutex_text_matches_model :
  (forall cap ev rcur slot wcur data, cdom cap wcur rcur -> evdom ev ->
     gen_chan_write_mutex cap ev rcur slot wcur data = ref_write_mutex cap ev rcur slot wcur data) /\
  write_mutex_model_stmt code_params.
Proof. exact (conj gen_write_mutex_ref (model_write_mutex code_params)). Qed.
Print Assumptions chan_write_mutex_text_matches_model.

Theorem chan_read_sync_text_matches_model :
  (forall again cap ev rcur slot waited waitv wcur, cdom cap wcur rcur -> evdom ev ->
     gen_chan_read_sync again cap ev rcur slot waited waitv wcur =
     ref_read_sync code_params again cap ev rcur slot waited waitv wcur) /\
  read_sync_model_stmt code_params.
Proof. exact (conj gen_read_sync_ref (model_read_sync code_params)). Qed.
Print Assumptions chan_read_sync_text_matches_model.

Theorem chan_read_busy_text_matches_model :
  (forall again cap ev rcur slot wcur, cdom cap wcur rcur -> evdom ev ->
     gen_chan_read_busy again cap ev rcur slot wcur = ref_read_busy code_params again cap ev rcur slot wcur) /\
  read_busy_model_stmt code_params.
Proof. exact (conj gen_read_busy_ref (model_read_busy code_params)). Qed.
Print Assumptions chan_read_busy_text_matches_model.

Theorem chan_read_mutex_text_matches_model :
  (forall again cap ev rcur slot waited wcur, cdom cap wcur rcur -> evdom ev ->
     gen_chan_read_mutex again cap ev rcur slot waited wcur = ref_read_mutex again cap ev rcur slot waited wcur) /\
  read_mutex_model_stmt code_params.
Proof. exact (conj gen_read_mutex_ref (model_read_mutex code_params)). Qed.
Print Assumptions chan_read_mutex_text_matches_model.

Theorem chan_wake_text_matches_model :
  (forall ev, evdom ev ->
     gen_chan_wake_sync ev = ref_wake_sync ev /\ gen_chan_wake_mutex ev = ref_wake_mutex ev /\ gen_chan_wake_busy = tt) /\
  wakes_model_stmt code_params.
Proof. exact (conj gen_wakes_ref (model_wakes code_params)). Qed.
Print Assumptions chan_wake_text_matches_model.

Theorem chan_wrappers_text_match_model :
  (forall ev ret v data, evdom ev ->
     gen_chan_write ev ret data = ref_chan_write ev ret /\ gen_chan_read ev v = ref_chan_read ev v) /\
  wrapper_model_stmt.
Proof. exact (conj gen_wrappers_ref model_wrapper). Qed.
Print Assumptions chan_wrappers_text_match_model.

(* the same tie for array_blocking_queue.c: put / take up to the end of the first loop iteration with
   the file-local helpers inlined (lock, the full / empty test, the wait on the right condition
   variable, the slot index, the ring successor of put_idx / take_idx, the count, the notification
   of the other condition variable, unlock), against the model's plain step under the mutex
   (ModelQ.v) and the labels of its operations *)
Theorem abq_text_matches_model :
  (forall again cap cnt datas ev put waited data, evdom ev -> 1 <= cap < 2147483648 -> 0 <= put < cap -> 0 <= cnt <= cap ->
     gen_abq_put again cap cnt datas ev put waited data = ref_abq_put again cap cnt datas ev put waited data) /\
  (forall again cap cnt datas ev take waited, evdom ev -> 1 <= cap < 2147483648 -> 0 <= take < cap -> 0 <= cnt <= cap ->
     gen_abq_take again cap cnt datas ev take waited = ref_abq_take again cap cnt datas ev take waited) /\
  abq_put_model_stmt /\ abq_take_model_stmt /\ abq_labels_model_stmt.
Proof.
  exact (conj gen_abq_put_ref (conj gen_abq_take_ref (conj model_abq_put (conj model_abq_take model_abq_labels)))).
Qed.
Print Assumptions abq_text_matches_model.
