From MV Require Import C06.Model C06.Proofs.
Local Open Scope Z_scope.
Theorem mp_ensure_fail_unchanged : forall fx mo s n s',
  ensure_space fx mo s n = (s', false) -> s' = s.
Proof. exact ensure_space_fail_unchanged. Qed.
Print Assumptions mp_ensure_fail_unchanged.
