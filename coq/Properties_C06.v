(* C06 — property theorems only.  Each is closed by [exact] of a lemma proved in
   C06/Proofs*.v and followed by Print Assumptions.  fx = true is the repaired
   code (fixes/C06-*.patch), fx = false the code as found.  [live] is the
   caller's list of blocks handed out and not yet freed (ghost state of [run]).
   Non-vacuity: C06/Proofs3.v Examples demo_reaches_growth, demo_init_refused,
   demo_constant. *)
From MV Require Import Lib.Leaf C06.GenLib C06.Model C06.Proofs C06.Proofs2 C06.Proofs3 gen.Params_C06 C06.ProofsGen.
Local Open Scope Z_scope.

(* Ring invariant A.2 for every reachable state: for every malloc oracle, every
   init capacity / block size and every history of alloc / free (of a live
   block) / ensure_space / set_flag / set_max_delta_cap: cursors in range,
   free_index = (alloc_index + capacity - used) mod capacity, used = |live|,
   and the capacity - used ring entries from alloc_index on together with
   [live] are a permutation of the blocks of all slabs. *)
Theorem mp_inv_reachable : forall mo c bs s0 ops, uint32 c -> uint32 bs ->
  init true mo c bs = Some s0 -> Forall op_ok ops ->
  Inv (fst (run true (s0, []) ops)) (snd (run true (s0, []) ops)).
Proof. exact inv_reachable. Qed.
Print Assumptions mp_inv_reachable.

(* ... hence free part and live set partition the blocks of all slabs without
   duplicates, used + |free part| = capacity = number of blocks. *)
Theorem mp_ring_partition : forall s live, Inv s live ->
  NoDup (free_part s ++ live) /\ NoDup (all_blocks s) /\
  (forall b, In b (all_blocks s) <-> In b (free_part s) \/ In b live) /\
  zlen (free_part s) + used s = capacity s /\ zlen (all_blocks s) = capacity s /\ used s = zlen live.
Proof. exact ring_partition. Qed.
Print Assumptions mp_ring_partition.

(* A block returned by alloc is not live at that moment (never handed out
   twice), belongs to a slab of the pool, and the invariant continues with it
   added to the live set; slabs are only ever appended. *)
Theorem mp_alloc_fresh : forall mo s live s' b, Inv s live -> alloc true mo s = (s', Some b) ->
  ~ In b live /\ In b (all_blocks s') /\ Inv s' (live ++ [b]) /\ (exists extra, slabs s' = slabs s ++ extra).
Proof. exact alloc_fresh. Qed.
Print Assumptions mp_alloc_fresh.

(* Live blocks lie wholly inside the slab they name and their byte ranges are
   pairwise disjoint (size products are computed in size_t in the repaired
   code, so no overflow hypothesis is left). *)
Theorem mp_live_disjoint_inside : forall s live, Inv s live ->
  (forall b, In b live -> inside s b) /\
  (forall i j b1 b2, i <> j -> nth_error live i = Some b1 -> nth_error live j = Some b2 ->
     disjoint (block_size s) b1 b2).
Proof. exact live_disjoint_inside. Qed.
Print Assumptions mp_live_disjoint_inside.

(* Growth keeps every slab where it is (slabs only appended: none freed, moved
   or reallocated, so addresses and contents of live blocks are untouched),
   keeps the live set out of the free part, and keeps the free blocks in order. *)
Theorem mp_growth_preserves_live : forall mo s live n s', Inv s live -> uint32 n ->
  ensure_space true mo s n = (s', true) ->
  Inv s' live /\
  (exists extra, slabs s' = slabs s ++ extra) /\
  (forall k x, nth_error (slabs s) k = Some x -> nth_error (slabs s') k = Some x) /\
  block_size s' = block_size s /\ used s' = used s /\
  (exists nb, free_part s' = free_part s ++ nb) /\
  (forall b, In b live -> ~ In b (free_part s') /\ inside s' b).
Proof. exact growth_preserves_live. Qed.
Print Assumptions mp_growth_preserves_live.

(* used / capacity / number of slabs follow the reference counter model
   (a machine without rings or blocks), and used = |live| throughout. *)
Theorem mp_counters_refine : forall ops s live, Inv s live -> Forall op_ok ops ->
  abs (fst (run true (s, live) ops)) = fold_left ref_step ops (abs s) /\
  used (fst (run true (s, live) ops)) = zlen (snd (run true (s, live) ops)).
Proof. exact counters_refine. Qed.
Print Assumptions mp_counters_refine.

(* A pool flagged constant-size never grows (no history without set_flag
   changes capacity or slabs) ... *)
Theorem mp_constant_never_grows : forall ops s live, Z.land (flag s) 1 <> 0 -> Forall not_set_flag ops ->
  capacity (fst (run true (s, live) ops)) = capacity s /\ slabs (fst (run true (s, live) ops)) = slabs s.
Proof. exact constant_never_grows. Qed.
Print Assumptions mp_constant_never_grows.

(* ... and reports exhaustion instead. *)
Theorem mp_constant_reports_exhaustion : forall mo s, Z.land (flag s) 1 <> 0 -> used s = capacity s ->
  alloc true mo s = (s, None).
Proof. exact constant_alloc_exhausted. Qed.
Print Assumptions mp_constant_reports_exhaustion.

(* Automatic growth never exceeds max_delta_cap (when set), never more than
   doubles, and happens only when the pool is full and not constant-size. *)
Theorem mp_delta_bounded : forall mo s live s' r, Inv s live -> alloc true mo s = (s', r) ->
  capacity s <= capacity s' <= 2 * capacity s /\
  (0 < max_delta_cap s -> capacity s' - capacity s <= max_delta_cap s) /\
  (capacity s' <> capacity s -> used s = capacity s /\ Z.land (flag s) 1 = 0).
Proof. exact delta_bounded. Qed.
Print Assumptions mp_delta_bounded.

(* init is total: for every capacity and block size (uint32) and every malloc
   behaviour it fails, or yields eff_cap = (capacity or 8) distinct blocks,
   pairwise disjoint and inside the slab, which eff_cap successive allocs hand
   out without growth. *)
Theorem mp_init_total : forall mo c bs, uint32 c -> uint32 bs ->
  init true mo c bs = None \/
  exists s, init true mo c bs = Some s /\ Inv s [] /\ capacity s = eff_cap c /\ used s = 0 /\
    zlen (free_part s) = eff_cap c /\ NoDup (free_part s) /\
    (forall b, In b (free_part s) -> inside s b) /\
    (forall b1 b2, In b1 (free_part s) -> In b2 (free_part s) -> b1 <> b2 -> disjoint (block_size s) b1 b2) /\
    (forall mo', let st := run true (s, []) (repeat (OAlloc mo') (Z.to_nat (eff_cap c))) in
       zlen (snd st) = eff_cap c /\ NoDup (snd st) /\ slabs (fst st) = slabs s /\
       forall b, In b (snd st) -> inside s b).
Proof. exact init_total. Qed.
Print Assumptions mp_init_total.

(* Allocation failure (malloc refusal, constant size, uint32 limit) leaves the
   pool unchanged and returns NULL / false — both code variants. *)
Theorem mp_alloc_fail_unchanged : forall fx mo s s', alloc fx mo s = (s', None) -> s' = s.
Proof. exact alloc_fail_unchanged. Qed.
Print Assumptions mp_alloc_fail_unchanged.

Theorem mp_ensure_fail_unchanged : forall fx mo s n s', ensure_space fx mo s n = (s', false) -> s' = s.
Proof. exact ensure_space_fail_unchanged. Qed.
Print Assumptions mp_ensure_fail_unchanged.

(* destroy frees each slab exactly once. *)
Theorem mp_destroy_each_slab_once : forall s,
  NoDup (destroy s) /\ (forall k, In k (destroy s) <-> 0 <= k < zlen (slabs s)).
Proof. exact destroy_each_slab_once. Qed.
Print Assumptions mp_destroy_each_slab_once.

(* ---- the code as found violates the property (witnesses) ---- *)
(* ensure_space on a completely free pool: a live block is handed out twice. *)
Theorem mp_orig_inv_refuted : exists s0,
  init false ok_oracle 1 16 = Some s0 /\ Forall op_ok grow_empty_history /\
  ~ NoDup (snd (run false (s0, []) grow_empty_history)) /\
  (forall s1, init true ok_oracle 1 16 = Some s1 -> NoDup (snd (run true (s1, []) grow_empty_history))).
Proof. exact orig_inv_refuted. Qed.
Print Assumptions mp_orig_inv_refuted.

(* uint32 size product: init succeeds with a 0 byte slab and a block outside it. *)
Theorem mp_orig_init_refuted : exists s,
  uint32 2 /\ uint32 (2 ^ 31) /\ init false ok_oracle 2 (2 ^ 31) = Some s /\
  slabs s = [(0, 2)] /\ In (0, 2 ^ 31) (ring s) /\ ~ inside s (0, 2 ^ 31) /\
  (forall s1, init true ok_oracle 2 (2 ^ 31) = Some s1 -> slabs s1 = [(2 ^ 32, 2)]).
Proof. exact orig_init_refuted. Qed.
Print Assumptions mp_orig_init_refuted.

(* capacity + delta wrapping in uint32: alloc on a full pool leaves used = capacity + 1. *)
Theorem mp_orig_alloc_cap_wrap_refuted : forall mo s,
  0 < capacity s < two32 -> used s = capacity s -> two32 <= capacity s + delta_of s ->
  alloc false mo s = take s /\ used (fst (alloc false mo s)) = capacity (fst (alloc false mo s)) + 1.
Proof. exact orig_alloc_cap_wrap_refuted. Qed.
Print Assumptions mp_orig_alloc_cap_wrap_refuted.

(* ---- second tie (DESIGN.md 4.4): the C text of this run, sliced and translated into the gen_
   functions of gen/Params_C06.v by lib/props/c06_slice.py, computes what the model computes.
   [code] maps the model's block ids to the integers held by the cells of the C pointer ring;
   a_r / a_b / a_h are arbitrary addresses, bc an arbitrary slab table, h1 h2 h3 the (arbitrary)
   initial contents of the objects returned by the 1st/2nd/3rd malloc of the call and m1 m2 m3
   their addresses (0 = failure, tied to the model's oracle at exactly the requested sizes).
   [core] drops addresses, slab table and malloc sizes (the sizes appear in the oracle hypotheses);
   [menc code ret s oa] = (ret, fields of s, map code (ring s), argument passed to ensure_space). *)
Theorem gen_free_matches_model : forall (code : blk -> Z) s live b a_r bc a_b h1 m1 h2 m2 h3 m3,
  Inv s live -> 1 <= used s ->
  core (gen_free (alloc_index s) (block_size s) (capacity s) (flag s) (free_index s) (max_delta_cap s)
                 (zlen (slabs s)) (used s) (map code (ring s)) a_r bc a_b h1 m1 h2 m2 h3 m3 (code b)) =
  menc code 0 (free s b) 0.
Proof. exact gen_free_model. Qed.
Print Assumptions gen_free_matches_model.

(* alloc: growth step (clamp by max_delta_cap, uint32 sum, overflow guard), the argument handed to
   ensure_space, ++used, the cell returned and the cursor step with wrap; ensure_space itself is
   the opaque call whose result / resulting fields are those of the model's ensure_space. *)
Theorem gen_alloc_matches_model : forall (code : blk -> Z) mo s live a_r bc a_b a_h h1 m1 h2 m2 h3 m3,
  Inv s live -> u32 (max_delta_cap s) ->
  let nc := (capacity s + delta_of s) mod two32 in
  let s1 := fst (ensure_space true mo s nc) in
  let ok := snd (ensure_space true mo s nc) in
  core (gen_alloc (alloc_index s) (block_size s) (capacity s) (flag s) (free_index s) (max_delta_cap s)
                  (zlen (slabs s)) (used s) (map code (ring s)) a_r bc a_b h1 m1 h2 m2 h3 m3
                  (if ok then 1 else 0) (alloc_index s1) (capacity s1) (free_index s1) (zlen (slabs s1))
                  (map code (ring s1)) a_h) =
  menc code (match snd (alloc true mo s) with Some b => code b | None => 0 end) (fst (alloc true mo s))
       (if used s =? capacity s then (if nc <=? capacity s then -1 else nc) else -1).
Proof. exact gen_alloc_model. Qed.
Print Assumptions gen_alloc_matches_model.

(* init: default capacity, the three size products (size_t), every failure path, the block
   addresses written into the ring (m3 + i * block_size), max_delta_cap. *)
Theorem gen_init_matches_model : forall mo c bs ai bs0 cap0 fl fi mdc nb us ring0 a_ring0 bufs0 a_bufs0 h1 m1 h2 m2 h3 m3,
  uint32 c -> uint32 bs ->
  zlenZ h1 = 1 -> zlenZ h2 = eff_cap c ->
  (m1 =? 0) = negb (mo 0%nat 8) -> (m2 =? 0) = negb (mo 1%nat (8 * eff_cap c)) ->
  (m3 =? 0) = negb (mo 2%nat (bs * eff_cap c)) ->
  core (obs (gen_init ai bs0 cap0 fl fi mdc nb us ring0 a_ring0 bufs0 a_bufs0 h1 m1 h2 m2 h3 m3 c bs)) =
  match init true mo c bs with
  | Some s => menc (fun b => m3 + snd b) 1 s 0
  | None => (0, 0, 0, 0, 0, 0, 0, 0, 0, [], 0)
  end.
Proof. exact gen_init_model. Qed.
Print Assumptions gen_init_matches_model.

(* ensure_space: guards, sizes, failure paths, and the new pointer ring cell by cell = the
   model's re-linearisation (three layouts, four runs of the old ring, then the new blocks at
   m2 + i * block_size), new alloc_index / free_index / capacity / num_buf. *)
Theorem gen_ensure_space_matches_model : forall (code : blk -> Z) mo s live m1 m2 m3 n a_r bc a_b h1 h2 h3,
  Inv s live -> uint32 n ->
  let nb := zlen (slabs s) in
  nb < 4294967295 -> zlenZ bc = nb -> zlenZ h1 = nb + 1 -> zlenZ h3 = n ->
  (forall off, code (nb, off) = m2 + off) ->
  (m1 =? 0) = negb (mo 0%nat (8 * (nb + 1))) ->
  (m2 =? 0) = negb (mo 1%nat (block_size s * (n - capacity s))) ->
  (m3 =? 0) = negb (mo 2%nat (8 * n)) ->
  core (gen_ensure_space (alloc_index s) (block_size s) (capacity s) (flag s) (free_index s) (max_delta_cap s)
                         nb (used s) (map code (ring s)) a_r bc a_b h1 m1 h2 m2 h3 m3 n) =
  menc code (if snd (ensure_space true mo s n) then 1 else 0) (fst (ensure_space true mo s n)) 0.
Proof. exact gen_ensure_model. Qed.
Print Assumptions gen_ensure_space_matches_model.

(* ... and on the whole arithmetic domain (not only reachable states) the generated functions equal
   the hand-written references of C06/ProofsGen.v, including addresses, slab table and malloc sizes. *)
Theorem gen_ensure_space_matches_reference : forall ai bs cap fl fi mdc nb us ring0 a_ring0 bufs0 a_bufs0 h1 m1 h2 m2 h3 m3 n,
  dom ai cap fi us -> 0 < bs < 4294967296 -> u32 n -> 0 <= nb < 4294967295 ->
  zlenZ ring0 = cap -> zlenZ bufs0 = nb -> zlenZ h1 = nb + 1 -> zlenZ h3 = n ->
  gen_ensure_space ai bs cap fl fi mdc nb us ring0 a_ring0 bufs0 a_bufs0 h1 m1 h2 m2 h3 m3 n =
  ref_ensure ai bs cap fl fi mdc nb us ring0 a_ring0 bufs0 a_bufs0 h1 m1 m2 m3 n.
Proof. exact gen_ensure_ref. Qed.
Print Assumptions gen_ensure_space_matches_reference.
