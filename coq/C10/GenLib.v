(* C10 — support for the step functions that lib/props/c10_slice.py regenerates from heap.c / sort.c
   on every run (coq/gen/Params_C10.v): the abstract array state and the result of a loop-free
   segment.  Definitions only; no dependency on the model (the model imports the parameters). *)
From Coq Require Export ZArith List Bool Lia.
From MV Require Export Lib.Leaf.
Export ListNotations.
Local Open Scope Z_scope.

(* a C array of pointers / one field of the node array: index -> element id (0 = NULL) *)
Definition aset (a : Z -> Z) (i v : Z) : Z -> Z := fun j => if j =? i then v else a j.

(* where a segment ends and in what state:
     g_tag    0 = return; 10 + k = head of the k-th named loop of the function (k as in the slicer's
              table); 50 + k = exit of that loop; 99 / 98 = head / exit of a loop the table does not name
     g_a g_b  the two arrays (heap: key and value field of nodes[]; sorts: ptr and the scratch array)
     g_vals   return: [return value; out-parameter fields; heap fields]; loop head reached from outside:
              the loop's whole state vector; back edge / exit: the loop-carried variables
     g_evs    calls of library functions on the way: (function id, integer arguments)
     g_snaps  the arrays as they were when handed to those calls *)
Record gres := mkres {
  g_tag : Z; g_a : Z -> Z; g_b : Z -> Z; g_vals : list Z;
  g_evs : list (Z * list Z); g_snaps : list (Z -> Z) }.

Definition arr_eq (f g : Z -> Z) : Prop := forall j, f j = g j.

(* equality of results, the arrays compared pointwise (no functional extensionality) *)
Definition res_eq (r1 r2 : gres) : Prop :=
  g_tag r1 = g_tag r2 /\ arr_eq (g_a r1) (g_a r2) /\ arr_eq (g_b r1) (g_b r2) /\
  g_vals r1 = g_vals r2 /\ g_evs r1 = g_evs r2 /\ Forall2 arr_eq (g_snaps r1) (g_snaps r2).

(* the comparator callback: any function whose SIGN follows the keys (magnitudes are not specified) *)
Definition cmp_ok (cmp : Z -> Z -> Z) (kf : Z -> Z) : Prop :=
  forall a b, (cmp a b < 0 <-> kf a < kf b) /\ (cmp a b = 0 <-> kf a = kf b).
