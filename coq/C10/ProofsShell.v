(* C10 — shell sort (gaps count/2, /2, ...): every pass permutes, the last pass
   (gap 1) is the insertion sort, hence sorted + permutation. *)
From MV Require Import C10.Model C10.Arr C10.ProofsIns.
From Coq Require Import Permutation Sorted.

Section Shell.
Variable kf : nat -> Z.
Local Open Scope Z_scope.
Notation srt := (srt kf).

Lemma shell_inner_one : forall j fuel tmp a, (j < fuel)%nat ->
  shell_inner kf fuel tmp 1 j a = Some (ins_inner kf tmp 0 j a).
Proof.
  induction j; intros fuel tmp a Hf; destruct fuel as [| f]; try lia; cbn [shell_inner ins_inner].
  - reflexivity.
  - cbn [Nat.leb]. replace (S j - 1)%nat with j by lia. cbn [Nat.add].
    rewrite Z.gtb_ltb.
    destruct (kf tmp <? kf (get a j)).
    + apply IHj. lia.
    + reflexivity.
Qed.

Lemma shell_mid_one : forall n i a,
  shell_mid kf n 1 i a = Some (ins_outer kf n 0 i a).
Proof.
  induction n; intros; cbn [shell_mid ins_outer]. reflexivity.
  rewrite shell_inner_one by lia. cbn [Nat.add]. apply IHn.
Qed.

Lemma shell_inner_perm : forall fuel tmp inc j a,
  (1 <= inc)%nat -> (j < fuel)%nat -> (j < length a)%nat ->
  exists a', shell_inner kf fuel tmp inc j a = Some a' /\ length a' = length a /\
    forall x, (cntA a' x + nind (get a j) x = cntA a x + nind tmp x)%nat.
Proof.
  induction fuel; intros tmp inc j a Hinc Hf Hl. lia.
  cbn [shell_inner].
  assert (FILL : exists a', Some (upd j tmp a) = Some a' /\ length a' = length a /\
            forall x, (cntA a' x + nind (get a j) x = cntA a x + nind tmp x)%nat).
  { eexists. split. reflexivity. split. apply length_upd. intros. apply cntA_upd. lia. }
  destruct (Nat.leb_spec inc j); auto.
  destruct (kf tmp <? kf (get a (j - inc))); auto.
  destruct (IHfuel tmp inc (j - inc)%nat (upd j (get a (j - inc)) a)) as [a' [E [L C]]]; try lia.
  - rewrite length_upd. lia.
  - exists a'. split; auto. rewrite length_upd in L. split; auto.
    intros x. specialize (C x). gu_in C.
    pose proof (cntA_upd a j (get a (j - inc)) x Hl). lia.
Qed.

Lemma shell_mid_perm : forall n inc i a,
  (1 <= inc)%nat -> (i + n <= length a)%nat ->
  exists a', shell_mid kf n inc i a = Some a' /\ length a' = length a /\
    forall x, cntA a' x = cntA a x.
Proof.
  induction n; intros inc i a Hinc Hl; cbn [shell_mid].
  - exists a. auto.
  - destruct (shell_inner_perm (S i) (get a i) inc i a) as [a1 [E [L C]]]; try lia.
    rewrite E.
    destruct (IHn inc (S i) a1) as [a' [E' [L' C']]]; try lia.
    exists a'. split; auto. split. lia. intros x. rewrite C'. specialize (C x). lia.
Qed.

Lemma shell_outer_spec : forall fuel inc a,
  (inc < fuel)%nat -> (inc <= length a)%nat ->
  exists a', shell_outer kf fuel (length a) inc a = Some a' /\ length a' = length a /\
    (forall x, cntA a' x = cntA a x) /\ ((1 <= inc)%nat -> srt a' 0 (length a)).
Proof.
  induction fuel; intros inc a Hf Hl. lia.
  cbn [shell_outer].
  destruct (Nat.ltb_spec 0 inc) as [Hpos | Hz].
  - destruct (Nat.eq_dec inc 1) as [E1 | N1].
    + subst inc. rewrite shell_mid_one.
      destruct (insertion_sort_range_spec kf a 0 (length a)) as [L [S [_ C]]]. lia.
      unfold insertion_sort_range in *.
      set (a1 := ins_outer kf (length a - 1) 0 1 a) in *.
      destruct fuel as [| f]. lia. cbn [shell_outer Nat.div Nat.divmod fst Nat.ltb Nat.leb].
      exists a1. repeat split; auto.
    + destruct (shell_mid_perm (length a - inc) inc inc a) as [a1 [E [L C]]]; try lia.
      rewrite E.
      destruct (IHfuel (inc / 2)%nat a1) as [a' [E' [L' [C' S']]]]; try dlia.
      rewrite <- L. rewrite E'. exists a'. split; auto. split. lia. split.
      * intros x. rewrite C'. apply C.
      * intros _. apply S'. dlia.
  - exists a. split; auto. split; auto. split; auto. intros. lia.
Qed.

Theorem shell_sort_ok : forall a, exists p, shell_sort kf a = Some p /\
  Sorted (kle kf) p /\ Permutation a p.
Proof.
  intros. unfold shell_sort.
  destruct (shell_outer_spec (S (length a)) (length a / 2)%nat a) as [p [E [L [C S]]]]; try dlia.
  exists p. split; auto. split.
  - apply srt_Sorted. rewrite L.
    destruct (Nat.le_gt_cases 2 (length a)).
    + apply S. dlia.
    + intros i j ? ? ?. replace j with i by lia. lia.
  - apply cntA_perm. intros. symmetry. apply C.
Qed.

End Shell.
