(* C10 — the segments re-translated from heap.c / sort.c on this run (gen/Params_C10.v, the gen_ functions) equal
   the model's segments (C10/Steps.v, the ref_ functions).  The proofs do not look at the SHAPE of the generated
   terms: everything is unfolded, every conditional is split, the comparator is replaced by its sign
   specification, array reads at provably equal indices are merged, and linear arithmetic decides.
   A behaviour-preserving rewrite of the C text keeps them; a semantic change breaks them (every
   arithmetic call is time-limited so that a false goal fails instead of searching). *)
From MV Require Import C10.GenLib C10.Steps gen.Params_C10.
From Coq Require Import ZifyBool.
Local Open Scope Z_scope.
Ltac Zify.zify_post_hook ::= Z.to_euclidean_division_equations.

Notation B62 := 4611686018427387904.
(* a false goal (changed C text) must fail, not search for ever *)
Set Default Timeout 900.

Lemma aset_eq a i v j : j = i -> aset a i v j = v.
Proof. intros ->. unfold aset. now rewrite Z.eqb_refl. Qed.
Lemma aset_neq a i v j : j <> i -> aset a i v j = a j.
Proof. intros N. unfold aset. destruct (Z.eqb_spec j i); [contradiction | reflexivity]. Qed.

(* comparator tests in the usual forms become key tests (a fast path only: whatever is left is handled
   through the sign specification by [pose_cmp]) *)
Lemma cmp_ltb cmp kf : cmp_ok cmp kf -> forall a b, (cmp a b <? 0) = (kf a <? kf b).
Proof. intros H a b. destruct (H a b). destruct (Z.ltb_spec (cmp a b) 0), (Z.ltb_spec (kf a) (kf b)); auto; lia. Qed.
Lemma cmp_leb cmp kf : cmp_ok cmp kf -> forall a b, (cmp a b <=? 0) = (kf a <=? kf b).
Proof. intros H a b. destruct (H a b). destruct (Z.leb_spec (cmp a b) 0), (Z.leb_spec (kf a) (kf b)); auto; lia. Qed.
Lemma cmp_gtb cmp kf : cmp_ok cmp kf -> forall a b, (cmp a b >? 0) = (kf a >? kf b).
Proof. intros H a b. destruct (H a b). rewrite !Z.gtb_ltb.
  destruct (Z.ltb_spec 0 (cmp a b)), (Z.ltb_spec (kf b) (kf a)); auto; lia. Qed.
Lemma cmp_geb cmp kf : cmp_ok cmp kf -> forall a b, (cmp a b >=? 0) = (kf a >=? kf b).
Proof. intros H a b. destruct (H a b). rewrite !Z.geb_leb.
  destruct (Z.leb_spec 0 (cmp a b)), (Z.leb_spec (kf b) (kf a)); auto; lia. Qed.
Lemma cmp_eqb cmp kf : cmp_ok cmp kf -> forall a b, (cmp a b =? 0) = (kf a =? kf b).
Proof. intros H a b. destruct (H a b). destruct (Z.eqb_spec (cmp a b) 0), (Z.eqb_spec (kf a) (kf b)); auto; lia. Qed.

Ltac arith := timeout 30 lia.
Ltac quick := timeout 5 lia.

(* a wrap that the hypotheses (bounds + the conditions of the current path) prove to be the identity goes *)
Ltac unwrap_g :=
  repeat match goal with
  | |- context [?e mod 18446744073709551616] => rewrite (Z.mod_small e 18446744073709551616) by quick
  | |- context [?e mod 4294967296] => rewrite (Z.mod_small e 4294967296) by quick
  end.
Ltac unwrap_h :=
  repeat match goal with
  | H : context [?e mod 18446744073709551616] |- _ => rewrite (Z.mod_small e 18446744073709551616) in H by quick
  | H : context [?e mod 4294967296] |- _ => rewrite (Z.mod_small e 4294967296) in H by quick
  end.
(* a read through an update at an index that arithmetic proves equal / different is resolved *)
Ltac reads_g :=
  repeat match goal with
  | |- context [aset ?a ?i ?v ?j] =>
    first [ rewrite (aset_eq a i v j) by quick | rewrite (aset_neq a i v j) by quick ]
  end.
Ltac reads_h :=
  repeat match goal with
  | H : context [aset ?a ?i ?v ?j] |- _ =>
    first [ rewrite (aset_eq a i v j) in H by quick | rewrite (aset_neq a i v j) in H by quick ]
  end.
Ltac cmp_g Hc :=
  rewrite ?(cmp_ltb _ _ Hc), ?(cmp_leb _ _ Hc), ?(cmp_gtb _ _ Hc), ?(cmp_geb _ _ Hc), ?(cmp_eqb _ _ Hc).
Ltac norm Hc := unwrap_g; reads_g; cmp_g Hc.

Ltac split_all_ifs :=
  repeat match goal with
  | |- context [if ?c then _ else _] => destruct c eqn:?
  | H : context [if ?c then _ else _] |- _ => destruct c eqn:?
  end.

(* the sign specification of every comparator call in sight *)
Ltac pose_cmp Hc :=
  repeat match goal with
  | H : context [?f ?a ?b] |- _ =>
    match type of Hc with cmp_ok f _ => idtac end;
    lazymatch goal with
    | _ : (f a b < 0 <-> _) /\ _ |- _ => fail
    | _ => pose proof (Hc a b)
    end
  end.

(* two reads of the same array at indices that linear arithmetic proves equal become one term *)
Ltac find_read f k :=
  match goal with
  | |- context [f ?a] => k a
  | _ : context [f ?a] |- _ => k a
  end.
Ltac merge_reads :=
  repeat match goal with
  | f : Z -> Z |- _ =>
    find_read f ltac:(fun a => find_read f ltac:(fun b =>
      tryif constr_eq a b then fail else
      (let E := fresh "E" in assert (E : a = b) by (timeout 10 lia); rewrite E in *; clear E)))
  end.

(* a goal of integer / element equalities under boolean hypotheses *)
Ltac finish Hc :=
  first [ reflexivity
        | unwrap_h; reads_h; unwrap_g; reads_g;
          first [ reflexivity | arith
                | unfold aset in *; cbv beta in *; split_all_ifs; unwrap_h; unwrap_g;
                  first [ arith
                        | pose_cmp Hc; first [ arith | merge_reads; first [ arith | f_equal; arith ] ] ] ] ].

(* equality of lists of integers / of events, component by component *)
Ltac list_eq Hc :=
  repeat match goal with
  | |- (_ :: _) = (_ :: _) => apply f_equal2
  | |- (_, _) = (_, _) => apply f_equal2
  end;
  finish Hc.

Ltac leaf_proof Hc :=
  split; [ finish Hc
         | split; [ intro; finish Hc
                  | split; [ intro; finish Hc
                           | split; [ list_eq Hc
                                    | split; [ list_eq Hc
                                             | repeat constructor; intro; finish Hc ]]]]].

(* every conditional is split, normalising with the conditions of the path after each split (so that
   equal conditions of the two sides are split once); then per pair of leaves: either the results
   agree, or the pair of paths is contradictory *)
Ltac slice_decide Hc :=
  cbv zeta; unfold wrapu, cdiv, crem, b2z, z2b;
  change (2 ^ 64) with 18446744073709551616; change (2 ^ 32) with 4294967296;
  (* shifts by a literal are multiplications / divisions by a power of two *)
  repeat (rewrite Z.shiftr_div_pow2 by (timeout 5 lia)); repeat (rewrite Z.shiftl_mul_pow2 by (timeout 5 lia));
  change (2 ^ 1) with 2; change (2 ^ 2) with 4; change (2 ^ 3) with 8;
  unwrap_g; cmp_g Hc;      (* reads are resolved only under path conditions: before the first split most are undecidable *)
  repeat (match goal with |- context [if ?c then _ else _] => destruct c eqn:? end; norm Hc);
  unfold res_eq, arr_eq; cbn [g_tag g_a g_b g_vals g_evs g_snaps];
  first [ solve [ leaf_proof Hc ] | solve [ exfalso; finish Hc ] ].

(* non-vacuity: comparators that satisfy the sign specification - the difference of the keys, twice it, -1/0/1 *)
Example ex_cmp_ok_diff : cmp_ok (fun a b => a - b) (fun x => x).
Proof. intros a b. lia. Qed.
Example ex_cmp_ok_big : cmp_ok (fun a b => 2 * (a - b)) (fun x => x).
Proof. intros a b. lia. Qed.
Example ex_cmp_ok_sign : cmp_ok (fun a b => if a <? b then -1 else if a =? b then 0 else 1) (fun x => x).
Proof. intros a b. destruct (Z.ltb_spec a b), (Z.eqb_spec a b); lia. Qed.
(* and a concrete iteration: the generated sift-up step on the heap keys 0 5 3 4 moving key 1 up from slot 3 *)
Example ex_gen_insert_step :
  let nk := fun j => nth (Z.to_nat j) [0; 5; 3; 4] 0 in
  g_tag (gen_insert_step (fun a b => a - b) nk nk 3 1) = 10 /\ g_vals (gen_insert_step (fun a b => a - b) nk nk 3 1) = [1].
Proof. vm_compute. auto. Qed.

Section Gen.
Variables (cmp : Z -> Z -> Z) (kf : Z -> Z).
Hypothesis Hc : cmp_ok cmp kf.

(* ------------------------------------------------------------------ heap *)
Lemma gen_insert_pre_eq nk nv cap size r1 nk1 nv1 size1 cap1 :
  0 <= cap < B62 -> 0 <= size < B62 -> 0 <= size1 < B62 ->
  res_eq (gen_insert_pre cmp nk nv cap size r1 nk1 nv1 size1 cap1) (ref_insert_pre nk nv cap size r1 nk1 nv1 size1 cap1).
Proof. intros. unfold gen_insert_pre, ref_insert_pre. slice_decide Hc. Qed.

Lemma gen_insert_step_eq nk nv idx key : 0 <= idx < B62 ->
  res_eq (gen_insert_step cmp nk nv idx key) (ref_insert_step kf nk nv idx key).
Proof. intros. unfold gen_insert_step, ref_insert_step. slice_decide Hc. Qed.

Lemma gen_insert_post_eq nk nv idx cap size key value :
  res_eq (gen_insert_post cmp nk nv idx cap size key value) (ref_insert_post nk nv idx cap size key value).
Proof. intros. unfold gen_insert_post, ref_insert_post. slice_decide Hc. Qed.

Lemma gen_extract_pre_eq nk nv size okey ovalue : 0 <= size < B62 ->
  res_eq (gen_extract_pre cmp nk nv size okey ovalue) (ref_extract_pre nk nv size okey ovalue).
Proof. intros. unfold gen_extract_pre, ref_extract_pre. slice_decide Hc. Qed.

Lemma gen_extract_step_eq nk nv i last size : 0 <= i < B62 -> 0 <= size < B62 -> 0 <= last < B62 ->
  res_eq (gen_extract_step cmp nk nv i last size) (ref_extract_step kf nk nv i last size).
Proof. intros. unfold gen_extract_step, ref_extract_step. slice_decide Hc. Qed.

Lemma gen_extract_post_eq nk nv i last size okey ovalue :
  res_eq (gen_extract_post cmp nk nv i last size okey ovalue) (ref_extract_post nk nv i last size okey ovalue).
Proof. intros. unfold gen_extract_post, ref_extract_post. slice_decide Hc. Qed.

Lemma gen_remove_pre_eq nk nv node size : - B62 < node < B62 -> 0 <= size < B62 ->
  res_eq (gen_remove_pre cmp nk nv node size) (ref_remove_pre nk nv node size).
Proof. intros. unfold gen_remove_pre, ref_remove_pre. slice_decide Hc. Qed.

Lemma gen_remove_step_eq nk nv idx last size : 0 <= idx < B62 -> 0 <= size < B62 -> 0 <= last < B62 ->
  res_eq (gen_remove_step cmp nk nv idx last size) (ref_remove_step kf nk nv idx last size).
Proof. intros. unfold gen_remove_step, ref_remove_step. slice_decide Hc. Qed.

Lemma gen_remove_post_eq nk nv idx last size :
  res_eq (gen_remove_post cmp nk nv idx last size) (ref_remove_post nk nv idx last size).
Proof. intros. unfold gen_remove_post, ref_remove_post. slice_decide Hc. Qed.

Lemma gen_find_pre_eq nk nv : res_eq (gen_find_pre cmp nk nv) (ref_find_pre nk nv).
Proof. intros. unfold gen_find_pre, ref_find_pre. slice_decide Hc. Qed.

Lemma gen_find_step_eq nk nv i data size : 0 <= i < B62 -> 0 <= size < B62 ->
  res_eq (gen_find_step cmp nk nv i data size) (ref_find_step kf nk nv i data size).
Proof. intros. unfold gen_find_step, ref_find_step. slice_decide Hc. Qed.

Lemma gen_find_post_eq nk nv i : res_eq (gen_find_post cmp nk nv i) (ref_find_post nk nv i).
Proof. intros. unfold gen_find_post, ref_find_post. slice_decide Hc. Qed.

Lemma gen_clear_pre_eq nk nv size : res_eq (gen_clear_pre cmp nk nv size) (ref_clear_pre nk nv size).
Proof. intros. unfold gen_clear_pre, ref_clear_pre. slice_decide Hc. Qed.

Lemma gen_clear_step_eq nk nv i size : 0 <= i < B62 -> 0 <= size < B62 ->
  res_eq (gen_clear_step cmp nk nv i size) (ref_clear_step nk nv i size).
Proof. intros. unfold gen_clear_step, ref_clear_step. slice_decide Hc. Qed.

Lemma gen_clear_post_eq nk nv i : res_eq (gen_clear_post cmp nk nv i) (ref_clear_post nk nv i).
Proof. intros. unfold gen_clear_post, ref_clear_post. slice_decide Hc. Qed.

End Gen.
