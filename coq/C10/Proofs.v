(* C10 — final statements (one lemma per property theorem) and non-vacuity examples.
   The proofs live in ProofsIns / ProofsShell / ProofsHeap / ProofsMerge / ProofsQuick. *)
From MV Require Export C10.Model C10.Arr C10.ProofsIns C10.ProofsShell C10.ProofsHeap C10.ProofsMerge C10.ProofsQuick.
From Coq Require Export Permutation Sorted.

(* side condition on the constant re-extracted from sort.c (coq/gen/Params_C10.v) *)
Lemma cutoff_ok : 3 <= quick_sort_cutoff.
Proof. unfold quick_sort_cutoff. lia. Qed.

(* ---------------- sorts: total, sorted, permutation ---------------- *)

Lemma insertion_sorted_l : forall kf a, Sorted (kle kf) (insertion_sort kf a).
Proof. exact insertion_sorted. Qed.
Lemma insertion_permutation_l : forall kf a, Permutation a (insertion_sort kf a).
Proof. exact insertion_perm. Qed.

Lemma shell_total_l : forall kf a, shell_sort kf a <> None.
Proof. intros. destruct (shell_sort_ok kf a) as [p [E _]]. congruence. Qed.
Lemma shell_sorted_l : forall kf a p, shell_sort kf a = Some p -> Sorted (kle kf) p.
Proof. intros. destruct (shell_sort_ok kf a) as [p' [E [S _]]]. congruence. Qed.
Lemma shell_permutation_l : forall kf a p, shell_sort kf a = Some p -> Permutation a p.
Proof. intros. destruct (shell_sort_ok kf a) as [p' [E [_ P]]]. congruence. Qed.

Lemma heap_sort_total_l : forall kf a, cap_is_valid (length a + 1) = true ->
  exists p, heap_sort kf true a = Some (p, true).
Proof. intros. destruct (heap_sort_ok kf a H) as [p [E _]]. eauto. Qed.
Lemma heap_sort_sorted_l : forall kf a p, cap_is_valid (length a + 1) = true ->
  heap_sort kf true a = Some (p, true) -> Sorted (kle kf) p.
Proof. intros. destruct (heap_sort_ok kf a H) as [p' [E [S _]]]. congruence. Qed.
Lemma heap_sort_permutation_l : forall kf a p, cap_is_valid (length a + 1) = true ->
  heap_sort kf true a = Some (p, true) -> Permutation a p.
Proof. intros. destruct (heap_sort_ok kf a H) as [p' [E [_ P]]]. congruence. Qed.

Lemma merge_total_l : forall kf a, exists p, merge_sort kf true a = Some (p, true).
Proof. intros. destruct (merge_sort_ok kf a) as [p [E _]]. eauto. Qed.
Lemma merge_sorted_l : forall kf a p, merge_sort kf true a = Some (p, true) -> Sorted (kle kf) p.
Proof. intros. destruct (merge_sort_ok kf a) as [p' [E [S _]]]. congruence. Qed.
Lemma merge_permutation_l : forall kf a p, merge_sort kf true a = Some (p, true) -> Permutation a p.
Proof. intros. destruct (merge_sort_ok kf a) as [p' [E [_ P]]]. congruence. Qed.

(* for every cutoff >= 3; instantiated with the extracted constant below *)
Lemma quick_total_c : forall cutoff, 3 <= cutoff -> forall kf a, quick_sort_c kf cutoff a <> None.
Proof. intros. destruct (quick_sort_c_ok kf cutoff a H) as [p [E _]]. congruence. Qed.
Lemma quick_total_l : forall kf a, quick_sort kf a <> None.
Proof. intros. apply quick_total_c. exact cutoff_ok. Qed.
Lemma quick_sorted_l : forall kf a p, quick_sort kf a = Some p -> Sorted (kle kf) p.
Proof. intros. destruct (quick_sort_c_ok kf quick_sort_cutoff a cutoff_ok) as [p' [E [S _]]].
  unfold quick_sort in H. congruence. Qed.
Lemma quick_permutation_l : forall kf a p, quick_sort kf a = Some p -> Permutation a p.
Proof. intros. destruct (quick_sort_c_ok kf quick_sort_cutoff a cutoff_ok) as [p' [E [_ P]]].
  unfold quick_sort in H. congruence. Qed.

(* ---------------- non-vacuity examples ---------------- *)

(* element ids 0..5 with keys 2 0 2 1 0 2 (equal keys present) *)
Definition ex_kf (id : nat) : Z := nth id [2; 0; 2; 1; 0; 2]%Z 9%Z.
Definition ex_a : list nat := iota 6.

Example ex_insertion : insertion_sort ex_kf ex_a = [1; 4; 3; 0; 2; 5].
Proof. vm_compute. reflexivity. Qed.
Example ex_shell : shell_sort ex_kf ex_a = Some [1; 4; 3; 2; 0; 5].   (* not stable *)
Proof. vm_compute. reflexivity. Qed.
Example ex_heap_sort : heap_sort ex_kf true ex_a = Some ([1; 4; 3; 0; 5; 2], true).
Proof. vm_compute. reflexivity. Qed.
Example ex_merge : merge_sort ex_kf true ex_a = Some ([1; 4; 3; 0; 2; 5], true).
Proof. vm_compute. reflexivity. Qed.
Example ex_merge_empty : merge_sort ex_kf true [] = Some ([], true).
Proof. reflexivity. Qed.
Example ex_quick_empty : quick_sort ex_kf [] = Some [].
Proof. reflexivity. Qed.
(* 14 elements: above the cutoff, so the partition path runs *)
Definition ex_kf14 (id : nat) : Z := nth id [5; 3; 9; 1; 5; 0; 7; 3; 3; 8; 2; 5; 6; 1]%Z 0%Z.
Example ex_quick : quick_sort ex_kf14 (iota 14) = Some [5; 13; 3; 10; 1; 8; 7; 11; 0; 4; 12; 6; 9; 2].
Proof. vm_compute. reflexivity. Qed.
Example ex_cap_valid : cap_is_valid (length ex_a + 1) = true.
Proof. reflexivity. Qed.

(* a heap of three entries (key ids 1 2 3 with keys 5 3 4) built by insert, then
   the entry in the LAST slot removed *)
Definition ex_hkf (id : nat) : Z := nth id [0; 5; 3; 4]%Z 0%Z.
Definition ex_heap : option heap :=
  match heap_init true 1 with
  | Some h0 =>
    match heap_insert ex_hkf true h0 1 11 with
    | Some (h1, _) =>
      match heap_insert ex_hkf true h1 2 12 with
      | Some (h2, _) => match heap_insert ex_hkf true h2 3 13 with Some (h3, _) => Some h3 | None => None end
      | None => None
      end
    | None => None
    end
  | None => None
  end.
Example ex_heap_built : ex_heap = Some (mkheap [(0, 0); (2, 12); (1, 11); (3, 13); (0, 0)]%nat 3 4).
Proof. vm_compute. reflexivity. Qed.
Example ex_heap_ok : heap_ok ex_hkf (mkheap [(0, 0); (2, 12); (1, 11); (3, 13); (0, 0)]%nat 3 4).
Proof.
  unfold heap_ok. cbn [nodes hsize hcap]. repeat split; try (simpl; lia).
  intros i Hi. assert (i = 2 \/ i = 3) by lia. destruct H; subst; vm_compute; discriminate.
Qed.
Example ex_heap_remove_last :
  heap_remove ex_hkf (mkheap [(0, 0); (2, 12); (1, 11); (3, 13); (0, 0)]%nat 3 4) 3 =
  Some (mkheap [(0, 0); (2, 12); (1, 11); (0, 0); (0, 0)]%nat 2 4, Some (3, 13)%nat).
Proof. vm_compute. reflexivity. Qed.
Example ex_heap_remove_root :
  heap_remove ex_hkf (mkheap [(0, 0); (2, 12); (1, 11); (3, 13); (0, 0)]%nat 3 4) 1 =
  Some (mkheap [(0, 0); (3, 13); (1, 11); (3, 13); (0, 0)]%nat 2 4, Some (2, 12)%nat).
Proof. vm_compute. reflexivity. Qed.
(* clear of that non-empty heap: empty heap of the same capacity, every slot NULL, the three entries
   released in slot order; an insert afterwards sees none of the old content *)
Example ex_heap_clear :
  heap_clear (mkheap [(0, 0); (2, 12); (1, 11); (3, 13); (0, 0)]%nat 3 4) =
  (mkheap [(0, 0); (0, 0); (0, 0); (0, 0); (0, 0)]%nat 0 4, [(2, 12); (1, 11); (3, 13)]%nat).
Proof. vm_compute. reflexivity. Qed.
Example ex_heap_clear_reuse :
  heap_insert ex_hkf true (fst (heap_clear (mkheap [(0, 0); (2, 12); (1, 11); (3, 13); (0, 0)]%nat 3 4))) 1 7 =
  Some (mkheap [(0, 0); (1, 7); (0, 0); (0, 0); (0, 0)]%nat 1 4, true).
Proof. vm_compute. reflexivity. Qed.
Example ex_drain :
  drain ex_hkf 3 (mkheap [(0, 0); (2, 12); (1, 11); (3, 13); (0, 0)]%nat 3 4) =
  Some [(2, 12); (3, 13); (1, 11)]%nat.
Proof. vm_compute. reflexivity. Qed.
