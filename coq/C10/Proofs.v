From MV Require Import C10.Model.
Lemma cutoff_ok : 3 <= quick_sort_cutoff.
Proof. unfold quick_sort_cutoff. lia. Qed.
