(* C10 — array library for the proofs: nth/upd, range counting (multisets as
   counting functions), conversion to Permutation / Sorted. *)
From MV Require Import C10.Model.
From Coq Require Import Permutation Sorted.

Lemma div2_spec : forall i, 2 * (i / 2) <= i < 2 * (i / 2) + 2.
Proof. intros. pose proof (Nat.div_mod i 2). pose proof (Nat.mod_upper_bound i 2). lia. Qed.

(* pose the defining inequalities of every [_ / 2] in sight, then lia *)
Ltac d2 :=
  repeat match goal with
  | |- context [?i / 2] =>
    lazymatch goal with
    | _ : 2 * (i / 2) <= i < 2 * (i / 2) + 2 |- _ => fail
    | _ => pose proof (div2_spec i)
    end
  | _ : context [?i / 2] |- _ =>
    lazymatch goal with
    | _ : 2 * (i / 2) <= i < 2 * (i / 2) + 2 |- _ => fail
    | _ => pose proof (div2_spec i)
    end
  end.
Ltac dlia := d2; lia.

Section Gen.
Context {A : Type}.
Variable eqd : forall x y : A, {x = y} + {x <> y}.
Variable d : A.

Lemma length_upd : forall (l : list A) i x, length (upd i x l) = length l.
Proof. induction l; destruct i; simpl; intros; auto. Qed.

Lemma nth_upd_eq : forall (l : list A) i x, i < length l -> nth i (upd i x l) d = x.
Proof. induction l; destruct i; simpl; intros; try lia; auto. apply IHl. lia. Qed.

Lemma nth_upd_neq : forall (l : list A) i j x, j <> i -> nth j (upd i x l) d = nth j l d.
Proof. induction l; destruct i, j; simpl; intros; try lia; auto. Qed.

Lemma upd_oob : forall (l : list A) i x, length l <= i -> upd i x l = l.
Proof. induction l; destruct i; simpl; intros; try lia; auto. f_equal. apply IHl. lia. Qed.

Definition ind (u x : A) : nat := if eqd u x then 1 else 0.

Fixpoint cnt (g : nat -> A) (lo n : nat) (x : A) : nat :=
  match n with
  | O => 0
  | S n' => ind (g lo) x + cnt g (S lo) n' x
  end.

Lemma cnt_ext : forall n g g' lo x,
  (forall i, lo <= i < lo + n -> g i = g' i) -> cnt g lo n x = cnt g' lo n x.
Proof.
  induction n; simpl; intros; auto.
  rewrite (H lo) by lia. f_equal. apply IHn. intros. apply H. lia.
Qed.

Lemma cnt_split : forall n m g lo x, cnt g lo (n + m) x = cnt g lo n x + cnt g (lo + n) m x.
Proof.
  induction n; simpl; intros.
  - rewrite Nat.add_0_r. auto.
  - rewrite IHn. replace (S lo + n) with (lo + S n) by lia. lia.
Qed.

Lemma cnt_snoc : forall n g lo x, cnt g lo (S n) x = cnt g lo n x + ind (g (lo + n)) x.
Proof.
  intros. replace (S n) with (n + 1) by lia. rewrite cnt_split. simpl. lia.
Qed.

Lemma cnt_point : forall n g g' lo x i v,
  lo <= i < lo + n -> g' i = v -> (forall k, k <> i -> g' k = g k) ->
  cnt g' lo n x + ind (g i) x = cnt g lo n x + ind v x.
Proof.
  induction n; simpl; intros. lia.
  destruct (Nat.eq_dec lo i).
  - subst. rewrite (cnt_ext n g' g). lia. intros. apply H1. lia.
  - rewrite (H1 lo) by auto.
    pose proof (IHn g g' (S lo) x i v). rewrite <- Nat.add_assoc, H2; auto; lia.
Qed.

Definition gt (a : list A) (i : nat) : A := nth i a d.

Lemma cnt_upd_in : forall a lo n i v x,
  lo <= i < lo + n -> i < length a ->
  cnt (gt (upd i v a)) lo n x + ind (gt a i) x = cnt (gt a) lo n x + ind v x.
Proof.
  intros. apply cnt_point; auto. apply nth_upd_eq; auto.
  intros. apply nth_upd_neq; auto.
Qed.

Lemma cnt_upd_out : forall a lo n i v x,
  (i < lo \/ lo + n <= i) -> cnt (gt (upd i v a)) lo n x = cnt (gt a) lo n x.
Proof. intros. apply cnt_ext. intros. apply nth_upd_neq. lia. Qed.

Lemma cnt_count_occ_gen : forall (a : list A) lo x,
  cnt (fun i => nth (i - lo) a d) lo (length a) x = count_occ eqd a x.
Proof.
  induction a; simpl; intros; auto.
  rewrite Nat.sub_diag. rewrite <- (IHa (S lo)).
  match goal with |- _ + cnt ?f _ _ _ = _ =>
    assert (E : cnt f (S lo) (length a0) x = cnt (fun i => nth (i - S lo) a0 d) (S lo) (length a0) x) end.
  { apply cnt_ext. intros. replace (i - lo) with (S (i - S lo)) by lia. auto. }
  rewrite E. unfold ind. destruct (eqd a x); simpl; auto.
Qed.

Lemma cnt_count_occ : forall (a : list A) x, cnt (gt a) 0 (length a) x = count_occ eqd a x.
Proof.
  intros. rewrite <- (cnt_count_occ_gen a 0). apply cnt_ext. intros. unfold gt. f_equal. lia.
Qed.

Lemma cnt_perm : forall a b : list A,
  (forall x, cnt (gt a) 0 (length a) x = cnt (gt b) 0 (length b) x) -> Permutation a b.
Proof.
  intros. apply (Permutation_count_occ eqd). intros. rewrite <- !cnt_count_occ. auto.
Qed.

Lemma cnt_shift : forall n g g' lo lo' x,
  (forall i, i < n -> g (lo + i) = g' (lo' + i)) -> cnt g lo n x = cnt g' lo' n x.
Proof.
  induction n; simpl; intros; auto.
  assert (E0 : g lo = g' lo') by (pose proof (H 0) as H1; rewrite !Nat.add_0_r in H1; apply H1; lia).
  rewrite E0. f_equal.
  apply IHn. intros. replace (S lo + i) with (lo + S i) by lia. replace (S lo' + i) with (lo' + S i) by lia.
  apply H. lia.
Qed.

Lemma nth_firstn_lt : forall (l : list A) n i, i < n -> nth i (firstn n l) d = nth i l d.
Proof. induction l; destruct n, i; simpl; intros; try lia; auto. apply IHl. lia. Qed.

Lemma nth_skipn_add : forall (l : list A) lo i, nth i (skipn lo l) d = nth (lo + i) l d.
Proof. induction l; destruct lo; simpl; intros; auto. destruct i; auto. Qed.

Lemma cnt_sub : forall (a : list A) lo n x, lo + n <= length a ->
  cnt (gt a) lo n x = count_occ eqd (firstn n (skipn lo a)) x.
Proof.
  intros. rewrite <- cnt_count_occ.
  assert (length (firstn n (skipn lo a)) = n) by (rewrite firstn_length, skipn_length; lia).
  rewrite H0. apply cnt_shift. intros. unfold gt. simpl.
  rewrite nth_firstn_lt by lia. rewrite nth_skipn_add. auto.
Qed.

Lemma cnt_pos_ex : forall n g lo x, 0 < cnt g lo n x -> exists i, lo <= i < lo + n /\ g i = x.
Proof.
  induction n; simpl; intros. lia.
  unfold ind in H. destruct (eqd (g lo) x).
  - exists lo. split; auto. lia.
  - destruct (IHn g (S lo) x) as [i [? ?]]. lia. exists i. split; auto. lia.
Qed.

Lemma cnt_ex_pos : forall n g lo x i, lo <= i < lo + n -> g i = x -> 0 < cnt g lo n x.
Proof.
  induction n; simpl; intros. lia.
  destruct (Nat.eq_dec lo i).
  - subst. unfold ind. destruct (eqd (g i) (g i)); try congruence. lia.
  - assert (0 < cnt g (S lo) n x) by (apply (IHn g (S lo) x i); auto; lia). lia.
Qed.

(* a property of all elements of a range transfers along equal counts *)
Lemma cnt_transfer : forall (P : A -> Prop) g g' lo n,
  (forall x, cnt g lo n x = cnt g' lo n x) ->
  (forall i, lo <= i < lo + n -> P (g i)) -> forall i, lo <= i < lo + n -> P (g' i).
Proof.
  intros. pose proof (cnt_ex_pos n g' lo (g' i) i H1 eq_refl).
  rewrite <- H in H2. apply cnt_pos_ex in H2. destruct H2 as [j [? ?]]. rewrite <- H3. auto.
Qed.

Lemma ind_refl : forall x, ind x x = 1.
Proof. intros. unfold ind. destruct (eqd x x); congruence. Qed.

End Gen.

Arguments ind {A} eqd u x.
Arguments cnt {A} eqd g lo n x.
Arguments gt {A} d a i.

(* ---------- nat arrays ---------- *)

Lemma get_upd_eq : forall l i x, i < length l -> get (upd i x l) i = x.
Proof. intros. apply nth_upd_eq; auto. Qed.
Lemma get_upd_neq : forall l i j x, j <> i -> get (upd i x l) j = get l j.
Proof. intros. apply nth_upd_neq; auto. Qed.
Lemma getn_upd_eq : forall l i x, i < length l -> getn (upd i x l) i = x.
Proof. intros. apply nth_upd_eq; auto. Qed.
Lemma getn_upd_neq : forall l i j x, j <> i -> getn (upd i x l) j = getn l j.
Proof. intros. apply nth_upd_neq; auto. Qed.

Notation ncnt := (cnt Nat.eq_dec).
Notation nind := (ind Nat.eq_dec).

(* whole-array count *)
Definition cntA (a : list nat) (x : nat) : nat := ncnt (get a) 0 (length a) x.

Lemma cntA_upd : forall a i v x, i < length a ->
  cntA (upd i v a) x + nind (get a i) x = cntA a x + nind v x.
Proof.
  intros. unfold cntA. rewrite length_upd. apply (cnt_upd_in Nat.eq_dec 0); auto. lia.
Qed.

Lemma cntA_perm : forall a b, (forall x, cntA a x = cntA b x) -> Permutation a b.
Proof. intros. apply (cnt_perm Nat.eq_dec 0). exact H. Qed.

(* range count from whole count + frame *)
Lemma cnt_range_of_whole : forall a b lo n x,
  length a = length b -> lo + n <= length a ->
  (forall i, i < lo \/ lo + n <= i -> get b i = get a i) ->
  cntA a x = cntA b x -> ncnt (get a) lo n x = ncnt (get b) lo n x.
Proof.
  intros. unfold cntA in H2. rewrite <- H in H2.
  replace (length a) with (lo + (n + (length a - lo - n))) in H2 by lia.
  rewrite !(cnt_split Nat.eq_dec), !Nat.add_0_l in H2.
  rewrite (cnt_ext Nat.eq_dec lo (get a) (get b)) in H2 by (intros; symmetry; apply H1; lia).
  rewrite (cnt_ext Nat.eq_dec (length a - lo - n) (get a) (get b)) in H2 by (intros; symmetry; apply H1; lia).
  lia.
Qed.

Lemma cnt_whole_of_range : forall a b lo n x,
  length a = length b -> lo + n <= length a ->
  (forall i, i < lo \/ lo + n <= i -> get b i = get a i) ->
  ncnt (get a) lo n x = ncnt (get b) lo n x -> cntA a x = cntA b x.
Proof.
  intros. unfold cntA. rewrite <- H.
  replace (length a) with (lo + (n + (length a - lo - n))) by lia.
  rewrite !(cnt_split Nat.eq_dec), !Nat.add_0_l.
  rewrite (cnt_ext Nat.eq_dec lo (get a) (get b)) by (intros; symmetry; apply H1; lia).
  rewrite (cnt_ext Nat.eq_dec (length a - lo - n) (get a) (get b)) by (intros; symmetry; apply H1; lia).
  lia.
Qed.

(* ---------- sortedness ---------- *)
Section Srt.
Variable kf : nat -> Z.
Local Open Scope Z_scope.

Definition kle (x y : nat) : Prop := kf x <= kf y.

(* a[lo..hi) is in non-decreasing key order *)
Definition srt (a : list nat) (lo hi : nat) : Prop :=
  forall i j, (lo <= i)%nat -> (i <= j)%nat -> (j < hi)%nat -> kf (get a i) <= kf (get a j).

Lemma srt_Sorted : forall a, srt a 0 (length a) -> Sorted kle a.
Proof.
  induction a; intros. constructor.
  constructor.
  - apply IHa. intros i j ? ? ?. apply (H (S i) (S j)); simpl in *; lia.
  - destruct a0; constructor. apply (H 0%nat 1%nat); simpl; lia.
Qed.

Lemma srt_StronglySorted : forall a, srt a 0 (length a) -> StronglySorted kle a.
Proof.
  induction a; intros. constructor.
  constructor.
  - apply IHa. intros i j ? ? ?. apply (H (S i) (S j)); simpl in *; lia.
  - apply Forall_forall. intros x Hx. apply (In_nth _ _ 0%nat) in Hx. destruct Hx as [n [? ?]].
    subst x. apply (H 0%nat (S n)); simpl; lia.
Qed.

Lemma Sorted_srt : forall a, Sorted kle a -> srt a 0 (length a).
Proof.
  intros a H. apply Sorted_StronglySorted in H.
  2:{ unfold Relations_1.Transitive, kle. intros. lia. }
  induction H; intros i j ? ? ?. simpl in *; lia.
  unfold srt, get in *. destruct i, j; simpl in *; try lia.
  - rewrite Forall_forall in H0. apply H0. apply nth_In. lia.
  - apply IHStronglySorted; lia.
Qed.

End Srt.
