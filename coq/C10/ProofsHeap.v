(* C10 — heap: order + multiset invariant under insert / extract / remove at any
   position, extract returns a minimum, draining yields sorted order; heap sort. *)
From MV Require Import C10.Model C10.Arr C10.ProofsIns.
From Coq Require Import Permutation Sorted.

Definition node_eq_dec : forall x y : node, {x = y} + {x <> y}.
Proof. decide equality; apply Nat.eq_dec. Defined.

Notation hind := (ind node_eq_dec).
Definition hcnt (ns : list node) (sz : nat) (x : node) : nat := cnt node_eq_dec (getn ns) 1 sz x.

Ltac gn := repeat first [ rewrite getn_upd_eq by (rewrite ?length_upd; dlia)
                        | rewrite getn_upd_neq by dlia ].

Lemma hcnt_upd_in : forall ns sz i v x, 1 <= i <= sz -> i < length ns ->
  hcnt (upd i v ns) sz x + hind (getn ns i) x = hcnt ns sz x + hind v x.
Proof. intros. apply (cnt_upd_in node_eq_dec null_node); auto. lia. Qed.

Lemma hcnt_upd_out : forall ns sz i v x, (i = 0 \/ sz < i) -> hcnt (upd i v ns) sz x = hcnt ns sz x.
Proof. intros. apply (cnt_upd_out node_eq_dec null_node). lia. Qed.

Lemma hcnt_snoc : forall ns sz x, hcnt ns (S sz) x = hcnt ns sz x + hind (getn ns (S sz)) x.
Proof. intros. unfold hcnt. rewrite cnt_snoc. auto. Qed.

Lemma hcnt_last : forall ns s x, 1 <= s -> hcnt ns s x = hcnt ns (s - 1) x + hind (getn ns s) x.
Proof. intros. replace s with (S (s - 1)) at 1 3 by lia. apply hcnt_snoc. Qed.

Lemma hcnt_frame : forall ns ns' sz x, (forall j, 1 <= j <= sz -> getn ns' j = getn ns j) ->
  hcnt ns' sz x = hcnt ns sz x.
Proof. intros. apply cnt_ext. intros. apply H. lia. Qed.

Section Heap.
Variable kf : nat -> Z.
Local Open Scope Z_scope.

Definition nkey (nd : node) : Z := kf (fst nd).

Definition hord (ns : list node) (sz : nat) : Prop :=
  forall i, (2 <= i <= sz)%nat -> nkey (getn ns (i / 2)) <= nkey (getn ns i).

(* heap order everywhere except on the links that touch the hole [idx] *)
Definition holeA (ns : list node) (sz idx : nat) : Prop :=
  forall j, (2 <= j <= sz)%nat -> j <> idx -> (j / 2)%nat <> idx ->
            nkey (getn ns (j / 2)) <= nkey (getn ns j).
(* parent of the hole <= children of the hole *)
Definition holeB (ns : list node) (sz idx : nat) : Prop :=
  forall c, (2 <= c <= sz)%nat -> (c / 2)%nat = idx -> (2 <= idx)%nat ->
            nkey (getn ns (idx / 2)) <= nkey (getn ns c).

Lemma hole_fill : forall ns sz idx x,
  holeA ns sz idx -> (1 <= idx)%nat -> (idx < length ns)%nat ->
  ((2 <= idx)%nat -> nkey (getn ns (idx / 2)) <= nkey x) ->
  (forall c, (2 <= c <= sz)%nat -> (c / 2)%nat = idx -> nkey x <= nkey (getn ns c)) ->
  hord (upd idx x ns) sz.
Proof.
  intros ns sz idx x HA H1 HL HP HC j Hj.
  destruct (Nat.eq_dec j idx).
  - subst. gn. apply HP. lia.
  - destruct (Nat.eq_dec (j / 2) idx).
    + rewrite e. gn. apply HC; auto.
    + gn. apply HA; auto.
Qed.

Lemma hole_up : forall ns sz idx,
  holeA ns sz idx -> holeB ns sz idx -> (2 <= idx <= sz)%nat -> (idx < length ns)%nat ->
  let ns1 := upd idx (getn ns (idx / 2)) ns in
  holeA ns1 sz (idx / 2) /\ holeB ns1 sz (idx / 2).
Proof.
  intros ns sz idx HA HB Hi HL. cbv zeta. split.
  - intros j Hj Hjp Hj2.
    destruct (Nat.eq_dec j idx). subst; lia.
    destruct (Nat.eq_dec (j / 2) idx).
    + rewrite e. gn. apply HB; auto. lia.
    + gn. apply HA; auto.
  - intros c Hc Hcp Hp2.
    assert (P : nkey (getn ns (idx / 2 / 2)) <= nkey (getn ns (idx / 2))) by (apply HA; dlia).
    destruct (Nat.eq_dec c idx).
    + subst. gn. exact P.
    + gn. assert (nkey (getn ns (c / 2)) <= nkey (getn ns c)) by (apply HA; dlia).
      rewrite Hcp in H. lia.
Qed.

Lemma hole_down : forall ns sz idx c,
  holeA ns sz idx -> holeB ns sz idx -> (1 <= idx)%nat -> (idx < length ns)%nat ->
  (2 <= c <= sz)%nat -> (c / 2)%nat = idx ->
  (forall j, (2 <= j <= sz)%nat -> (j / 2)%nat = idx -> nkey (getn ns c) <= nkey (getn ns j)) ->
  let ns1 := upd idx (getn ns c) ns in
  holeA ns1 sz c /\ holeB ns1 sz c.
Proof.
  intros ns sz idx c HA HB H1 HL Hc Hcp Hmin. cbv zeta. split.
  - intros j Hj Hjc Hj2.
    destruct (Nat.eq_dec j idx).
    + subst j. gn. apply HB; auto. lia.
    + destruct (Nat.eq_dec (j / 2) idx).
      * rewrite e. gn. apply Hmin; auto.
      * gn. apply HA; auto.
  - intros c' Hc' Hcp' _. rewrite Hcp. gn.
    assert (nkey (getn ns (c' / 2)) <= nkey (getn ns c')) by (apply HA; dlia).
    rewrite Hcp' in H. exact H.
Qed.

(* the smaller child chosen by extract / remove *)
Lemma min_child : forall ns sz idx (b : bool),
  (1 <= idx)%nat -> (idx * 2 <= sz)%nat -> (b = true <-> (idx * 2 < sz)%nat) ->
  let c := if b && (kf (fst (getn ns (idx * 2 + 1))) <? kf (fst (getn ns (idx * 2)))) then (idx * 2 + 1)%nat else (idx * 2)%nat in
  (2 <= c <= sz)%nat /\ (c / 2)%nat = idx /\
  (forall j, (2 <= j <= sz)%nat -> (j / 2)%nat = idx -> nkey (getn ns c) <= nkey (getn ns j)).
Proof.
  intros ns sz idx b H1 H2 Hb. cbv zeta.
  destruct b; cbn [andb].
  - assert (idx * 2 < sz)%nat by (apply Hb; auto).
    destruct (Z.ltb_spec (kf (fst (getn ns (idx * 2 + 1)))) (kf (fst (getn ns (idx * 2))))); unfold nkey.
    + split. lia. split. dlia. intros j Hj Hj2.
      assert (j = idx * 2 \/ j = idx * 2 + 1)%nat by dlia. destruct H3; subst j; lia.
    + split. lia. split. dlia. intros j Hj Hj2.
      assert (j = idx * 2 \/ j = idx * 2 + 1)%nat by dlia. destruct H3; subst j; lia.
  - assert (~ (idx * 2 < sz)%nat) by (intro; apply Hb in H; discriminate).
    split. lia. split. dlia. intros j Hj Hj2.
    assert (j = idx * 2)%nat by dlia. subst j. lia.
Qed.

Definition loop_post (ns : list node) (sz idx : nat) (filler : node) (ns' : list node) : Prop :=
  length ns' = length ns /\ hord ns' sz /\
  (forall j, (j = 0 \/ sz < j)%nat -> getn ns' j = getn ns j) /\
  (forall x, (hcnt ns' sz x + hind (getn ns idx) x = hcnt ns sz x + hind filler x)%nat).

Lemma fill_post : forall ns sz idx x,
  holeA ns sz idx -> (1 <= idx <= sz)%nat -> (sz < length ns)%nat ->
  ((2 <= idx)%nat -> nkey (getn ns (idx / 2)) <= nkey x) ->
  (forall c, (2 <= c <= sz)%nat -> (c / 2)%nat = idx -> nkey x <= nkey (getn ns c)) ->
  loop_post ns sz idx x (upd idx x ns).
Proof.
  intros. unfold loop_post. split. apply length_upd. split.
  apply hole_fill; auto; lia. split.
  - intros. gn. auto.
  - intros. apply hcnt_upd_in; lia.
Qed.

Lemma step_post : forall ns sz idx idx' filler ns',
  (1 <= idx <= sz)%nat -> (1 <= idx' <= sz)%nat -> idx' <> idx -> (sz < length ns)%nat ->
  loop_post (upd idx (getn ns idx') ns) sz idx' filler ns' ->
  loop_post ns sz idx filler ns'.
Proof.
  intros ns sz idx idx' filler ns' H1 H2 Hne HL [L [O [F C]]].
  rewrite length_upd in L. unfold loop_post. repeat split; auto.
  - intros. rewrite F by auto. gn. auto.
  - intros x. specialize (C x). rewrite getn_upd_neq in C by auto.
    pose proof (hcnt_upd_in ns sz idx (getn ns idx') x H1 ltac:(lia)). lia.
Qed.

(* ---------------- insert ---------------- *)

Lemma sift_up_spec : forall fuel ns idx k v sz,
  (idx < fuel)%nat -> (1 <= idx <= sz)%nat -> (sz < length ns)%nat ->
  holeA ns sz idx -> holeB ns sz idx ->
  (forall c, (2 <= c <= sz)%nat -> (c / 2)%nat = idx -> kf k <= nkey (getn ns c)) ->
  exists ns', sift_up kf fuel ns idx k v = Some ns' /\ loop_post ns sz idx (k, v) ns'.
Proof.
  induction fuel; intros ns idx k v sz Hf Hi HL HA HB HC. lia.
  cbn [sift_up]. cbv zeta.
  destruct (Nat.eqb_spec (idx / 2) 0) as [Hp | Hp].
  - eexists. split. reflexivity. apply fill_post; auto. dlia.
  - destruct (Z.leb_spec (kf (fst (getn ns (idx / 2)))) (kf k)) as [Hle | Hgt].
    + eexists. split. reflexivity. apply fill_post; auto.
    + destruct (hole_up ns sz idx HA HB) as [HA1 HB1]; try dlia.
      destruct (IHfuel (upd idx (getn ns (idx / 2)) ns) (idx / 2)%nat k v sz) as [ns' [E P]]; auto; try dlia.
      * rewrite length_upd. lia.
      * intros c Hc Hc2.
        destruct (Nat.eq_dec c idx).
        -- subst. gn. unfold nkey. lia.
        -- gn. assert (nkey (getn ns (c / 2)) <= nkey (getn ns c)) by (apply HA; dlia).
           rewrite Hc2 in H. unfold nkey in *. lia.
      * exists ns'. split; auto. apply (step_post ns sz idx (idx / 2)%nat); auto; dlia.
Qed.

(* ---------------- extract ---------------- *)

Lemma sift_down_spec : forall fuel ns i last sz,
  (sz + 1 - i < fuel)%nat -> (1 <= i <= sz)%nat -> (sz < length ns)%nat ->
  holeA ns sz i -> holeB ns sz i ->
  ((2 <= i)%nat -> nkey (getn ns (i / 2)) <= nkey last) ->
  exists ns', sift_down kf fuel ns i last sz = Some ns' /\ loop_post ns sz i last ns'.
Proof.
  induction fuel; intros ns i last sz Hf Hi HL HA HB HD. lia.
  cbn [sift_down]. cbv zeta.
  destruct (Nat.leb_spec (i * 2) sz) as [Hc | Hc].
  - pose proof (min_child ns sz i (negb (i * 2 =? sz)%nat) ltac:(lia) Hc) as MC.
    cbv zeta in MC.
    set (c := if negb (i * 2 =? sz)%nat && (kf (fst (getn ns (i * 2 + 1))) <? kf (fst (getn ns (i * 2))))
              then (i * 2 + 1)%nat else (i * 2)%nat) in *.
    destruct MC as [Hc1 [Hc2 Hmin]].
    { destruct (Nat.eqb_spec (i * 2) sz); cbn [negb]; split; intros; try lia; try discriminate. }
    destruct (Z.geb_spec (kf (fst last)) (kf (fst (getn ns c)))) as [Hge | Hlt].
    + destruct (hole_down ns sz i c HA HB) as [HA1 HB1]; auto; try lia.
      destruct (IHfuel (upd i (getn ns c) ns) c last sz) as [ns' [E P]]; auto; try dlia.
      * rewrite length_upd. lia.
      * intros _. rewrite Hc2. gn. unfold nkey. lia.
      * exists ns'. split; auto. apply (step_post ns sz i c); auto; dlia.
    + eexists. split. reflexivity. apply fill_post; auto.
      intros j Hj Hj2. specialize (Hmin j Hj Hj2). unfold nkey in *. lia.
  - eexists. split. reflexivity. apply fill_post; auto. intros; dlia.
Qed.

(* ---------------- remove ---------------- *)

Lemma remove_loop_spec : forall fuel ns idx last sz,
  (sz + 1 - idx < fuel)%nat ->
  ((idx / 2)%nat <> 0%nat -> nkey last < nkey (getn ns (idx / 2)) -> (idx + sz + 1 < fuel)%nat) ->
  (1 <= idx <= sz)%nat -> (sz < length ns)%nat ->
  holeA ns sz idx -> holeB ns sz idx ->
  exists ns', remove_loop kf fuel ns idx last sz = Some ns' /\ loop_post ns sz idx last ns'.
Proof.
  induction fuel; intros ns idx last sz Hf Hfu Hi HL HA HB. lia.
  cbn [remove_loop]. cbv zeta.
  destruct (Nat.eqb_spec (idx / 2) 0) as [Hp | Hp]; cbn [negb andb].
  2: destruct (Z.ltb_spec (kf (fst last)) (kf (fst (getn ns (idx / 2))))) as [Hup | Hnup].
  2:{ (* move up *)
    destruct (hole_up ns sz idx HA HB) as [HA1 HB1]; try dlia.
    assert (Hfu' : (idx + sz + 1 < S fuel)%nat) by (apply Hfu; auto).
    destruct (IHfuel (upd idx (getn ns (idx / 2)) ns) (idx / 2)%nat last sz) as [ns' [E P]]; auto; try dlia.
    - rewrite length_upd. lia.
    - exists ns'. split; auto. apply (step_post ns sz idx (idx / 2)%nat); auto; dlia. }
  all: assert (HD : (2 <= idx)%nat -> nkey (getn ns (idx / 2)) <= nkey last) by
      (intros; unfold nkey; first [ dlia | lia ]).
  all: destruct (Nat.leb_spec (idx * 2) sz) as [Hc | Hc];
    [ | eexists; split; [reflexivity | apply fill_post; auto; intros; dlia] ].
  all: pose proof (min_child ns sz idx (idx * 2 <? sz)%nat ltac:(lia) Hc) as MC;
    cbv zeta in MC;
    set (c := if (idx * 2 <? sz)%nat && (kf (fst (getn ns (idx * 2 + 1))) <? kf (fst (getn ns (idx * 2))))
              then (idx * 2 + 1)%nat else (idx * 2)%nat) in *;
    destruct MC as [Hc1 [Hc2 Hmin]];
    [ destruct (Nat.ltb_spec (idx * 2) sz); split; intros; try lia; try discriminate; auto | ].
  all: destruct (Z.geb_spec (kf (fst last)) (kf (fst (getn ns c)))) as [Hge | Hlt];
    [ | eexists; split; [reflexivity | apply fill_post; auto;
          intros j Hj Hj2; specialize (Hmin j Hj Hj2); unfold nkey in *; lia] ].
  all: destruct (hole_down ns sz idx c HA HB) as [HA1 HB1]; auto; try lia.
  all: destruct (IHfuel (upd idx (getn ns c) ns) c last sz) as [ns' [E P]]; auto; try dlia;
    [ intros _; rewrite Hc2; gn; unfold nkey; lia
    | rewrite length_upd; lia
    | exists ns'; split; auto; apply (step_post ns sz idx c); auto; dlia ].
Qed.

(* ---------------- the heap record ---------------- *)

Definition heap_ok (h : heap) : Prop :=
  length (nodes h) = (hcap h + 1)%nat /\ (hsize h <= hcap h)%nat /\ (1 <= hcap h)%nat /\
  hord (nodes h) (hsize h).

(* the entries: nodes[1..size] *)
Definition contents (h : heap) : list node := firstn (hsize h) (skipn 1 (nodes h)).

Lemma hcnt_contents : forall h x, (hsize h < length (nodes h))%nat ->
  hcnt (nodes h) (hsize h) x = count_occ node_eq_dec (contents h) x.
Proof. intros. unfold hcnt, contents. apply (cnt_sub node_eq_dec null_node). lia. Qed.

Lemma count_occ_cons_ind : forall (r : node) l x,
  count_occ node_eq_dec (r :: l) x = (hind r x + count_occ node_eq_dec l x)%nat.
Proof. intros. simpl. unfold ind. destruct (node_eq_dec r x); auto. Qed.

Lemma contents_perm_add : forall h h' r,
  (hsize h < length (nodes h))%nat -> (hsize h' < length (nodes h'))%nat ->
  (forall x, (hcnt (nodes h') (hsize h') x = hcnt (nodes h) (hsize h) x + hind r x)%nat) ->
  Permutation (contents h') (r :: contents h).
Proof.
  intros. apply (Permutation_count_occ node_eq_dec). intros.
  rewrite count_occ_cons_ind, <- !hcnt_contents by auto. rewrite H1. lia.
Qed.

Lemma In_contents : forall h x, (hsize h < length (nodes h))%nat ->
  In x (contents h) -> exists j, (1 <= j <= hsize h)%nat /\ getn (nodes h) j = x.
Proof.
  intros h x HL HI. apply (count_occ_In node_eq_dec) in HI.
  rewrite <- hcnt_contents in HI by auto. unfold hcnt in HI.
  apply cnt_pos_ex in HI. destruct HI as [j [? ?]]. exists j. split; auto. lia.
Qed.

Lemma hord_root_min : forall ns sz j, hord ns sz -> (1 <= j <= sz)%nat ->
  nkey (getn ns 1) <= nkey (getn ns j).
Proof.
  intros ns sz j H. induction j as [j IH] using (well_founded_induction lt_wf). intros Hj.
  destruct (Nat.eq_dec j 1). subst; lia.
  assert (nkey (getn ns 1) <= nkey (getn ns (j / 2))) by (apply IH; dlia).
  assert (nkey (getn ns (j / 2)) <= nkey (getn ns j)) by (apply H; lia). lia.
Qed.

Lemma heap_init_ok : forall c h, heap_init true c = Some h ->
  heap_ok h /\ hsize h = 0%nat /\ hcap h = (if (c =? 0)%nat then 8%nat else c).
Proof.
  unfold heap_init. intros c h H.
  destruct (cap_is_valid (if (c =? 0)%nat then 8%nat else c)); cbn [negb] in H; try discriminate.
  inversion H; subst; clear H. unfold heap_ok. cbn [hsize hcap nodes]. repeat split; auto.
  - rewrite repeat_length. auto.
  - lia.
  - destruct (Nat.eqb_spec c 0); lia.
  - intros i ?. lia.
Qed.

(* explicit muggle_heap_ensure_capacity: a refusal (invalid capacity or failed allocation) changes
   nothing; a grant keeps every entry in its slot and provides the requested capacity *)
Theorem heap_ensure_capacity_ok : forall alloc h c, heap_ok h ->
  let '(h', ok) := heap_ensure_capacity alloc h c in
  (ok = false -> h' = h) /\
  (ok = true -> heap_ok h' /\ hsize h' = hsize h /\ (c <= hcap h')%nat /\ contents h' = contents h) /\
  (alloc = false -> (hcap h < c)%nat -> ok = false).
Proof.
  intros alloc h c [HL [HS [HC HO]]]. unfold heap_ensure_capacity.
  destruct (Nat.leb_spec c (hcap h)).
  - split. discriminate. split; [| intros; lia]. intros _. repeat split; auto.
  - destruct (cap_is_valid c); cbn [negb].
    2:{ split; auto. split; [discriminate | auto]. }
    destruct alloc; cbn [negb].
    2:{ split; auto. split; [discriminate | auto]. }
    split. discriminate. split; [| discriminate]. intros _.
    assert (F : forall j, (j <= hsize h)%nat ->
              getn (firstn (S (hsize h)) (nodes h) ++ repeat null_node (c - hsize h)) j = getn (nodes h) j).
    { intros. unfold getn. rewrite app_nth1 by (rewrite firstn_length; lia).
      apply (nth_firstn_lt null_node). lia. }
    split; [| split; [| split]]; cbn [nodes hsize hcap]; auto; try lia.
    + unfold heap_ok. cbn [nodes hsize hcap]. repeat split; try lia.
      * rewrite app_length, firstn_length, repeat_length. lia.
      * intros i Hi. rewrite !F by dlia. apply HO. lia.
    + unfold contents. cbn [nodes hsize].
      destruct (nodes h) as [| n0 ns] eqn:EN. simpl in HL; lia.
      cbn [firstn app skipn]. rewrite firstn_app, firstn_firstn, Nat.min_id.
      rewrite firstn_length. simpl in HL.
      replace (hsize h - Nat.min (hsize h) (length ns))%nat with 0%nat by lia.
      cbn [firstn]. rewrite app_nil_r. reflexivity.
Qed.

Theorem heap_insert_ok : forall alloc h k v, heap_ok h ->
  exists h' b, heap_insert kf alloc h k v = Some (h', b) /\
    (b = false -> h' = h) /\
    (b = true -> heap_ok h' /\ hsize h' = S (hsize h) /\ Permutation (contents h') ((k, v) :: contents h)) /\
    ((hsize h < hcap h)%nat -> b = true /\ hcap h' = hcap h).
Proof.
  intros alloc h k v [HL [HS [HC HO]]]. unfold heap_insert.
  (* the heap after the optional growth *)
  assert (G : exists h1 ok,
    (if (hcap h =? hsize h)%nat then heap_ensure_capacity alloc h (hcap h * 2) else (h, true)) = (h1, ok) /\
    (ok = true -> length (nodes h1) = (hcap h1 + 1)%nat /\ (hsize h < hcap h1)%nat /\ hsize h1 = hsize h /\
                  (forall j, (j <= hsize h)%nat -> getn (nodes h1) j = getn (nodes h) j)) /\
    ((hsize h < hcap h)%nat -> ok = true /\ h1 = h)).
  { destruct (Nat.eqb_spec (hcap h) (hsize h)) as [E | E].
    - unfold heap_ensure_capacity.
      destruct (Nat.leb_spec (hcap h * 2) (hcap h)). lia.
      destruct (cap_is_valid (hcap h * 2)); cbn [negb].
      + destruct alloc; cbn [negb].
        * eexists _, true. split. reflexivity. split; [| lia]. intros _. cbn [nodes hsize hcap].
          repeat split; try lia.
          -- rewrite app_length, firstn_length, repeat_length. lia.
          -- intros. unfold getn. rewrite app_nth1 by (rewrite firstn_length; lia).
             apply (nth_firstn_lt null_node). lia.
        * eexists h, false. split. reflexivity. split; [discriminate | lia].
      + eexists h, false. split. reflexivity. split; [discriminate | lia].
    - eexists h, true. split. reflexivity. split; [| auto]. intros _. repeat split; auto. lia. }
  destruct G as [h1 [ok [E [G1 G2]]]]. rewrite E.
  destruct ok; cbn [negb].
  2:{ exists h, false. split; auto. split; auto. split. discriminate. intros. destruct (G2 H). discriminate. }
  destruct (G1 eq_refl) as [L1 [S1 [Z1 F1]]]. rewrite Z1.
  set (sz := S (hsize h)).
  destruct (sift_up_spec (S sz) (nodes h1) sz k v sz) as [ns' [E' [L' [O' [F' C']]]]]; try lia.
  - intros j Hj Hj1 Hj2. rewrite !F1 by (unfold sz in *; dlia). apply HO. unfold sz in *. lia.
  - intros c Hc Hc2 _. unfold sz in *. dlia.
  - intros c Hc Hc2. unfold sz in *. dlia.
  - rewrite E'. eexists _, true. split. reflexivity. split. discriminate. split.
    + intros _. cbn [nodes hsize hcap]. split; [| split]; auto.
      * unfold heap_ok. cbn [nodes hsize hcap]. repeat split; auto; try lia.
      * apply contents_perm_add; cbn [nodes hsize]; try lia.
        intros x. specialize (C' x). fold sz. unfold sz in C' at 2 3. rewrite hcnt_snoc in C'. fold sz in C'.
        rewrite (hcnt_frame (nodes h) (nodes h1)) in C' by (intros; apply F1; lia). lia.
    + intros Hlt. destruct (G2 Hlt). subst. auto.
Qed.

Theorem heap_extract_ok : forall h, heap_ok h -> (1 <= hsize h)%nat ->
  exists h', heap_extract kf h = Some (h', Some (getn (nodes h) 1)) /\
    heap_ok h' /\ hsize h' = (hsize h - 1)%nat /\ hcap h' = hcap h /\
    Permutation (contents h) (getn (nodes h) 1 :: contents h') /\
    (forall x, In x (contents h) -> nkey (getn (nodes h) 1) <= nkey x).
Proof.
  intros h [HL [HS [HC HO]]] H1. unfold heap_extract, heap_is_empty.
  destruct (Nat.eqb_spec (hsize h) 0). lia.
  assert (MIN : forall x, In x (contents h) -> nkey (getn (nodes h) 1) <= nkey x).
  { intros x HI. apply In_contents in HI; try lia. destruct HI as [j [? ?]]. subst x.
    apply (hord_root_min _ (hsize h)); auto. }
  set (sz := (hsize h - 1)%nat).
  destruct (Nat.eq_dec sz 0) as [Z | NZ].
  - (* a single entry *)
    rewrite Z. cbn [sift_down Nat.mul Nat.leb].
    eexists. split. reflexivity. cbn [nodes hsize hcap].
    split; [| split; [| split; [| split]]]; auto.
    + unfold heap_ok. cbn [nodes hsize hcap]. rewrite length_upd. repeat split; auto; try lia.
      intros i ?. lia.
    + apply contents_perm_add; cbn [nodes hsize]; rewrite ?length_upd; try lia.
      intros x. replace (hsize h) with 1%nat by lia. unfold hcnt. cbn [cnt]. lia.
  - destruct (sift_down_spec (S sz) (nodes h) 1 (getn (nodes h) (hsize h)) sz)
      as [ns' [E' [L' [O' [F' C']]]]]; unfold sz in *; try lia.
    + intros j Hj Hj1 Hj2. apply HO. lia.
    + intros c Hc Hc2 ?. lia.
    + rewrite E'. eexists. split. reflexivity. cbn [nodes hsize hcap].
      split; [| split; [| split; [| split]]]; auto.
      * unfold heap_ok. cbn [nodes hsize hcap]. repeat split; auto; lia.
      * apply contents_perm_add; cbn [nodes hsize]; try lia.
        intros x. specialize (C' x).
        replace (hsize h) with (S (hsize h - 1)) at 1 by lia. rewrite hcnt_snoc.
        replace (S (hsize h - 1)) with (hsize h) by lia. lia.
Qed.

Theorem heap_remove_ok : forall h idx, heap_ok h -> (1 <= idx <= hsize h)%nat ->
  exists h', heap_remove kf h idx = Some (h', Some (getn (nodes h) idx)) /\
    heap_ok h' /\ hsize h' = (hsize h - 1)%nat /\ hcap h' = hcap h /\
    Permutation (contents h) (getn (nodes h) idx :: contents h').
Proof.
  intros h idx [HL [HS [HC HO]]] Hi. unfold heap_remove, heap_is_empty.
  destruct (Nat.eqb_spec (hsize h) 0). lia.
  destruct (Nat.leb_spec idx 0). lia. destruct (Nat.ltb_spec (hsize h) idx). lia. cbn [orb].
  destruct (Nat.eqb_spec idx (hsize h)) as [EL | NL].
  - (* the last slot *)
    eexists. split. reflexivity. cbn [nodes hsize hcap].
    split; [| split; [| split]]; auto.
    + unfold heap_ok. cbn [nodes hsize hcap]. rewrite length_upd. repeat split; auto; try lia.
      intros i ?. gn. apply HO. lia.
    + apply contents_perm_add; cbn [nodes hsize]; rewrite ?length_upd; try lia.
      intros x. rewrite hcnt_upd_out by lia.
      rewrite (hcnt_last (nodes h) (hsize h) x) by lia. subst idx. lia.
  - set (ns1 := upd idx null_node (nodes h)).
    assert (EQ : getn ns1 (hsize h) = getn (nodes h) (hsize h)) by (unfold ns1; gn; auto).
    rewrite EQ.
    destruct (remove_loop_spec (2 * hsize h + 2) ns1 idx (getn (nodes h) (hsize h)) (hsize h - 1))
      as [ns' [E' [L' [O' [F' C']]]]]; try lia.
    + unfold ns1. rewrite length_upd. lia.
    + intros j Hj Hj1 Hj2. unfold ns1. gn. apply HO. lia.
    + intros c Hc Hc2 H2. unfold ns1. gn.
      assert (Q1 : nkey (getn (nodes h) (idx / 2)) <= nkey (getn (nodes h) idx)) by (apply HO; lia).
      assert (Q2 : nkey (getn (nodes h) (c / 2)) <= nkey (getn (nodes h) c)) by (apply HO; lia).
      rewrite Hc2 in Q2. lia.
    + rewrite E'. eexists. split. reflexivity. cbn [nodes hsize hcap].
      unfold ns1 in L'. rewrite length_upd in L'.
      split; [| split; [| split]]; auto.
      * unfold heap_ok. cbn [nodes hsize hcap]. repeat split; auto; lia.
      * apply contents_perm_add; cbn [nodes hsize]; try lia.
        intros x. specialize (C' x). unfold ns1 in C'. rewrite getn_upd_eq in C' by lia.
        pose proof (hcnt_upd_in (nodes h) (hsize h - 1) idx null_node x ltac:(lia) ltac:(lia)).
        rewrite (hcnt_last (nodes h) (hsize h) x) by lia. lia.
Qed.

Theorem heap_remove_outside : forall h idx, (idx = 0 \/ hsize h < idx)%nat ->
  heap_remove kf h idx = Some (h, None).
Proof.
  intros. unfold heap_remove, heap_is_empty.
  destruct (Nat.eqb_spec (hsize h) 0); auto.
  destruct (Nat.leb_spec idx 0), (Nat.ltb_spec (hsize h) idx); cbn [orb]; auto; lia.
Qed.

Theorem heap_root_min : forall h, heap_ok h -> (1 <= hsize h)%nat ->
  heap_root h = Some (getn (nodes h) 1) /\ In (getn (nodes h) 1) (contents h) /\
  forall x, In x (contents h) -> nkey (getn (nodes h) 1) <= nkey x.
Proof.
  intros h [HL [HS [HC HO]]] H1. unfold heap_root, heap_is_empty.
  destruct (Nat.eqb_spec (hsize h) 0). lia. split; auto. split.
  - apply (count_occ_In node_eq_dec). rewrite <- hcnt_contents by lia. unfold hcnt.
    apply (cnt_ex_pos node_eq_dec (hsize h) _ 1 _ 1); auto. lia.
  - intros x HI. apply In_contents in HI; try lia. destruct HI as [j [? ?]]. subst x.
    apply (hord_root_min _ (hsize h)); auto.
Qed.

Theorem heap_root_empty : forall h, hsize h = 0%nat ->
  heap_root h = None /\ heap_extract kf h = Some (h, None).
Proof. intros. unfold heap_root, heap_extract, heap_is_empty. rewrite H. auto. Qed.

(* ---------------- clear / destroy ---------------- *)

Lemma clear_loop_length : forall n ns i, length (clear_loop n ns i) = length ns.
Proof. induction n; intros; cbn [clear_loop]; auto. rewrite IHn, length_upd. auto. Qed.

Lemma clear_loop_getn : forall n ns i j, (i + n <= length ns)%nat ->
  getn (clear_loop n ns i) j = if ((i <=? j) && (j <? i + n))%nat then null_node else getn ns j.
Proof.
  induction n; intros ns i j HL; cbn [clear_loop].
  - destruct (Nat.leb_spec i j), (Nat.ltb_spec j (i + 0)); cbn [andb]; auto; lia.
  - rewrite IHn by (rewrite length_upd; lia).
    destruct (Nat.eq_dec j i) as [-> | N].
    + rewrite getn_upd_eq by lia.
      destruct (Nat.leb_spec (S i) i), (Nat.ltb_spec i (S i + n)), (Nat.leb_spec i i), (Nat.ltb_spec i (i + S n));
        cbn [andb]; auto; lia.
    + rewrite getn_upd_neq by auto.
      destruct (Nat.leb_spec (S i) j), (Nat.ltb_spec j (S i + n)), (Nat.leb_spec i j), (Nat.ltb_spec j (i + S n));
        cbn [andb]; auto; lia.
Qed.

(* clear — WHATEVER the free callbacks are — leaves the valid EMPTY heap of the same capacity (so every
   theorem above applies to any later use: the next inserts / extracts / removes see exactly what is
   inserted from then on, nothing of the old content); the nodes handed to the free callbacks are
   exactly the old entries nodes[1..size], each once, in slot order; the released slots hold NULL *)
Theorem heap_clear_ok : forall h, heap_ok h ->
  let '(h', freed) := heap_clear h in
  heap_ok h' /\ hsize h' = 0%nat /\ hcap h' = hcap h /\ length (nodes h') = length (nodes h) /\
  contents h' = [] /\ freed = contents h /\
  (forall j, (1 <= j <= hsize h)%nat -> getn (nodes h') j = null_node) /\
  heap_root h' = None /\ heap_extract kf h' = Some (h', None).
Proof.
  intros h [HL [HS [HC HO]]]. unfold heap_clear.
  set (h' := mkheap (clear_loop (hsize h) (nodes h) 1) 0 (hcap h)).
  assert (OK : heap_ok h').
  { unfold heap_ok, h'. cbn [nodes hsize hcap]. rewrite clear_loop_length.
    split; [auto | split; [lia | split; [auto |]]]. intros i ?. lia. }
  assert (LEN : length (nodes h') = length (nodes h)) by (unfold h'; cbn [nodes]; apply clear_loop_length).
  assert (NUL : forall j, (1 <= j <= hsize h)%nat -> getn (nodes h') j = null_node).
  { intros j Hj. unfold h'. cbn [nodes]. rewrite clear_loop_getn by lia.
    destruct (Nat.leb_spec 1 j), (Nat.ltb_spec j (1 + hsize h)); cbn [andb]; auto; lia. }
  assert (EMP : heap_root h' = None /\ heap_extract kf h' = Some (h', None)) by (apply heap_root_empty; reflexivity).
  destruct EMP as [E1 E2].
  split; [exact OK |]. split; [reflexivity |]. split; [reflexivity |]. split; [exact LEN |].
  split; [reflexivity |]. split; [reflexivity |]. split; [exact NUL |]. split; [exact E1 | exact E2].
Qed.

(* the free callbacks are a per-call choice (each may be NULL): for EVERY choice the heap that results
   is the one of the theorems above, and each callback that is passed is handed exactly the key /
   value of the entry that leaves (remove) / of every entry, once, in slot order (clear); a callback
   that is not passed is handed nothing *)
Theorem heap_remove_cb_ok : forall cbk cbv h idx, heap_ok h -> (1 <= idx <= hsize h)%nat ->
  exists h', heap_remove_cb kf cbk cbv h idx = Some (h', Some (handed cbk cbv (getn (nodes h) idx))) /\
    heap_remove kf h idx = Some (h', Some (getn (nodes h) idx)) /\
    heap_ok h' /\ hsize h' = (hsize h - 1)%nat /\ hcap h' = hcap h /\
    Permutation (contents h) (getn (nodes h) idx :: contents h').
Proof.
  intros cbk cbv h idx OK Hi. destruct (heap_remove_ok h idx OK Hi) as [h' [E R]].
  exists h'. unfold heap_remove_cb. rewrite E. auto.
Qed.

Theorem heap_remove_cb_outside : forall cbk cbv h idx, (idx = 0 \/ hsize h < idx)%nat ->
  heap_remove_cb kf cbk cbv h idx = Some (h, None).
Proof. intros. unfold heap_remove_cb. rewrite heap_remove_outside by auto. reflexivity. Qed.

Theorem heap_clear_cb_ok : forall cbk cbv h, heap_ok h ->
  fst (heap_clear_cb cbk cbv h) = fst (heap_clear h) /\
  snd (heap_clear_cb cbk cbv h) = map (handed cbk cbv) (contents h) /\
  heap_ok (fst (heap_clear_cb cbk cbv h)) /\ hsize (fst (heap_clear_cb cbk cbv h)) = 0%nat /\
  hcap (fst (heap_clear_cb cbk cbv h)) = hcap h /\ contents (fst (heap_clear_cb cbk cbv h)) = [].
Proof.
  intros cbk cbv h OK. pose proof (heap_clear_ok h OK) as C. unfold heap_clear_cb.
  destruct (heap_clear h) as [h' freed] eqn:E. cbn [fst snd].
  destruct C as [C1 [C2 [C3 [_ [C5 [C6 _]]]]]]. subst freed.
  split; [reflexivity |]. split; [reflexivity |]. split; [exact C1 |]. split; [exact C2 |]. split; [exact C3 | exact C5].
Qed.

(* destroy releases exactly the entries, each once *)
Theorem heap_destroy_ok : forall h, heap_destroy h = contents h.
Proof. reflexivity. Qed.

(* find: first node whose key compares equal *)
Lemma find_loop_spec : forall n ns i data,
  let r := find_loop kf n ns i data in
  (r = 0%nat /\ (1 <= i -> forall j, (i <= j < i + n)%nat -> nkey (getn ns j) <> kf data)%nat) \/
  ((i <= r < i + n)%nat /\ nkey (getn ns r) = kf data).
Proof.
  induction n; intros; cbn [find_loop] in *.
  - left. split; auto. intros; lia.
  - subst r. destruct (Z.eqb_spec (kf (fst (getn ns i))) (kf data)).
    + right. split; auto. lia.
    + destruct (IHn ns (S i) data) as [[E N] | [R K]].
      * left. split; auto. intros ? j ?. destruct (Nat.eq_dec j i). subst; auto. apply N; lia.
      * right. split; auto. lia.
Qed.

Theorem heap_find_ok : forall h data,
  let r := heap_find kf h data in
  (r = 0%nat /\ forall x, In x (contents h) -> (hsize h < length (nodes h))%nat -> nkey x <> kf data) \/
  ((1 <= r <= hsize h)%nat /\ nkey (getn (nodes h) r) = kf data).
Proof.
  intros. unfold heap_find in r. destruct (find_loop_spec (hsize h) (nodes h) 1 data) as [[E N] | [R K]].
  - left. split; auto. intros x HI HL. apply In_contents in HI; auto. destruct HI as [j [? ?]]. subst x.
    apply N; lia.
  - right. split; auto. fold r in R. lia.
Qed.

(* ---------------- draining ---------------- *)

Fixpoint drain (n : nat) (h : heap) : option (list node) :=
  match n with
  | O => Some []
  | S n' =>
    match heap_extract kf h with
    | Some (h', Some r) => match drain n' h' with Some l => Some (r :: l) | None => None end
    | _ => None
    end
  end.

Definition nle (x y : node) : Prop := nkey x <= nkey y.

Theorem drain_sorted : forall n h, heap_ok h -> hsize h = n ->
  exists l, drain n h = Some l /\ length l = n /\ StronglySorted nle l /\ Permutation l (contents h).
Proof.
  induction n; intros h OK SZ.
  - exists []. cbn [drain]. repeat split; auto. constructor.
    unfold contents. rewrite SZ. simpl. constructor.
  - destruct (heap_extract_ok h OK) as [h' [E [OK' [SZ' [CP' [P M]]]]]]. lia.
    destruct (IHn h' OK') as [l [D [LL [SS PP]]]]. lia.
    cbn [drain]. rewrite E, D. eexists. split. reflexivity. repeat split.
    + simpl. lia.
    + constructor; auto. apply Forall_forall. intros x HI. apply M.
      apply (Permutation_in _ (Permutation_sym P)). right. apply (Permutation_in _ PP). auto.
    + apply Permutation_sym. eapply Permutation_trans. exact P. constructor. apply Permutation_sym. auto.
Qed.

(* ---------------- heap sort ---------------- *)

Lemma firstn_S_get : forall (a : list nat) i, (i < length a)%nat -> firstn (S i) a = firstn i a ++ [get a i].
Proof.
  induction a; intros; simpl in *. lia.
  destruct i; simpl. auto. f_equal. apply IHa. lia.
Qed.

Lemma firstn_upd_snoc : forall (a : list nat) i x, (i < length a)%nat ->
  firstn (S i) (upd i x a) = firstn i a ++ [x].
Proof.
  induction a; intros; simpl in *. lia.
  destruct i; simpl. auto. f_equal. apply IHa. lia.
Qed.

Lemma skipn_upd_after : forall (a : list nat) i x n, (i < n)%nat -> skipn n (upd i x a) = skipn n a.
Proof.
  induction a; intros.
  - destruct i, n; simpl; auto; lia.
  - destruct i, n; simpl; try lia; auto. apply IHa. lia.
Qed.

Lemma hs_insert_spec : forall n a i h,
  heap_ok h -> hsize h = i -> (i + n <= length a)%nat -> (i + n <= hcap h)%nat ->
  exists h', hs_insert_loop kf n true a i h = Some h' /\ heap_ok h' /\ hsize h' = (i + n)%nat /\
    Permutation (map fst (contents h')) (firstn n (skipn i a) ++ map fst (contents h)).
Proof.
  induction n; intros a i h OK SZ HA HCp.
  - exists h. cbn [hs_insert_loop]. split. reflexivity. split. exact OK. split. lia.
    simpl. apply Permutation_refl.
  - cbn [hs_insert_loop].
    destruct (heap_insert_ok true h (get a i) 0%nat OK) as [h1 [b [E [_ [T G]]]]].
    destruct G as [Bt Cp]. lia. subst b. destruct (T eq_refl) as [OK1 [SZ1 P1]].
    rewrite E.
    destruct (IHn a (S i) h1 OK1) as [h' [E' [OK' [SZ'' P']]]]; try lia.
    exists h'. split; auto. split; auto. split. lia.
    eapply Permutation_trans. exact P'.
    assert (PM : Permutation (map fst (contents h1)) (get a i :: map fst (contents h))).
    { apply (Permutation_map fst) in P1. exact P1. }
    assert (SK : skipn i a = get a i :: skipn (S i) a).
    { clear - HA. revert i HA. induction a; intros; simpl in *. lia.
      destruct i; auto. simpl. rewrite IHa by lia. auto. }
    rewrite SK. simpl.
    eapply Permutation_trans. apply Permutation_app_head. exact PM.
    apply Permutation_sym. apply Permutation_middle.
Qed.

Lemma hs_extract_drain : forall n a i h nd l,
  drain n h = Some l -> (i + n <= length a)%nat ->
  hs_extract_loop kf n a i h nd = Some (firstn i a ++ map fst l ++ skipn (i + n) a).
Proof.
  induction n; intros a i h nd l D HA; cbn [drain hs_extract_loop] in *.
  - inversion D; subst. simpl. rewrite Nat.add_0_r, firstn_skipn. auto.
  - destruct (heap_extract kf h) as [[h' [r |]] |]; try discriminate.
    destruct (drain n h') as [l' |] eqn:D'; try discriminate. inversion D; subst; clear D.
    rewrite (IHn (upd i (fst r) a) (S i) h' r l' D') by (rewrite length_upd; lia).
    f_equal. rewrite firstn_upd_snoc by lia. rewrite skipn_upd_after by lia.
    replace (S i + n)%nat with (i + S n)%nat by lia. rewrite <- app_assoc. reflexivity.
Qed.

Theorem heap_sort_ok : forall a, cap_is_valid (length a + 1) = true ->
  exists p, heap_sort kf true a = Some (p, true) /\ Sorted (kle kf) p /\ Permutation a p.
Proof.
  intros a V. unfold heap_sort.
  destruct (heap_init true (length a + 1)) as [h |] eqn:I.
  2:{ unfold heap_init in I. replace (length a + 1 =? 0)%nat with false in I by (symmetry; apply Nat.eqb_neq; lia).
      rewrite V in I. discriminate. }
  destruct (heap_init_ok _ _ I) as [OK [SZ CP]].
  replace (length a + 1 =? 0)%nat with false in CP by (symmetry; apply Nat.eqb_neq; lia).
  destruct (hs_insert_spec (length a) a 0 h OK SZ) as [h1 [E1 [OK1 [SZ1 P1]]]]; try lia.
  rewrite E1.
  destruct (drain_sorted (length a) h1 OK1) as [l [D [LL [SS PP]]]]. lia.
  rewrite (hs_extract_drain (length a) a 0 h1 null_node l D) by lia.
  eexists. split. reflexivity.
  cbn [firstn app Nat.add]. rewrite skipn_all, app_nil_r.
  assert (PA : Permutation (map fst l) a).
  { eapply Permutation_trans. apply Permutation_map. exact PP.
    eapply Permutation_trans. exact P1.
    unfold contents at 1. rewrite SZ. cbn [firstn map]. rewrite app_nil_r. cbn [skipn].
    rewrite firstn_all. auto. }
  split.
  - apply StronglySorted_Sorted. clear - SS. induction SS; simpl; constructor; auto.
    rewrite Forall_forall in *. intros x HI. apply in_map_iff in HI. destruct HI as [y [? ?]]. subst x.
    apply H. auto.
  - apply Permutation_sym. exact PA.
Qed.

End Heap.
