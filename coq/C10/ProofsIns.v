(* C10 — insertion sort (on any sub-range ptr + base, count): sorted + permutation *)
From MV Require Import C10.Model C10.Arr.
From Coq Require Import Permutation Sorted.

Ltac gu := repeat first [ rewrite get_upd_eq by (rewrite ?length_upd; lia)
                        | rewrite get_upd_neq by lia ].
Ltac gu_in H := repeat first [ rewrite get_upd_eq in H by (rewrite ?length_upd; lia)
                             | rewrite get_upd_neq in H by lia ].

Section Ins.
Variable kf : nat -> Z.
Local Open Scope Z_scope.
Notation srt := (srt kf).

(* sorted on [b, b+i] when position h is ignored *)
Definition hsrt (a : list nat) (b i h : nat) : Prop :=
  forall x y, (b <= x)%nat -> (x <= y)%nat -> (y <= b + i)%nat -> x <> h -> y <> h ->
              kf (get a x) <= kf (get a y).

Lemma ins_inner_spec : forall j tmp b i a,
  (j <= i)%nat -> (b + i < length a)%nat ->
  hsrt a b i (b + j) ->
  (forall y, (b + j < y)%nat -> (y <= b + i)%nat -> kf tmp < kf (get a y)) ->
  let a' := ins_inner kf tmp b j a in
  length a' = length a /\ srt a' b (b + i + 1) /\
  (forall k, (k < b \/ b + i < k)%nat -> get a' k = get a k) /\
  (forall x, (cntA a' x + nind (get a (b + j)) x = cntA a x + nind tmp x)%nat).
Proof.
  induction j; intros tmp b i a Hji Hlen HS HP; cbn [ins_inner].
  - rewrite Nat.add_0_r in *. cbv zeta. repeat split.
    + apply length_upd.
    + intros x y Hx Hxy Hy.
      destruct (Nat.eq_dec x b), (Nat.eq_dec y b); subst; gu; try lia.
      * assert (kf tmp < kf (get a y)) by (apply HP; lia). lia.
      * apply HS; lia.
    + intros. gu. auto.
    + intros. apply cntA_upd. lia.
  - destruct (Z.gtb_spec (kf (get a (b + j))) (kf tmp)) as [Hgt | Hle].
    + set (a1 := upd (b + S j) (get a (b + j)) a).
      assert (L1 : length a1 = length a) by apply length_upd.
      destruct (IHj tmp b i a1) as [Hl [Hs [Hf Hc]]]; try lia.
      * intros x y Hx Hxy Hy Hxh Hyh. unfold a1.
        destruct (Nat.eq_dec x (b + S j)), (Nat.eq_dec y (b + S j)); subst; gu; try lia.
        -- apply HS; lia.
        -- apply HS; lia.
        -- apply HS; lia.
      * intros y Hy1 Hy2. unfold a1.
        destruct (Nat.eq_dec y (b + S j)); subst; gu; try lia. apply HP; lia.
      * cbv zeta. repeat split.
        -- lia.
        -- exact Hs.
        -- intros. rewrite Hf by lia. unfold a1. gu. auto.
        -- intros x. specialize (Hc x). unfold a1 in Hc. gu_in Hc.
           pose proof (cntA_upd a (b + S j) (get a (b + j)) x). fold a1 in H. fold a1 in Hc. lia.
    + cbv zeta. repeat split.
      * apply length_upd.
      * intros x y Hx Hxy Hy.
        destruct (Nat.eq_dec x (b + S j)), (Nat.eq_dec y (b + S j)); subst; gu; try lia.
        -- assert (kf tmp < kf (get a y)) by (apply HP; lia). lia.
        -- destruct (Nat.eq_dec x (b + j)); subst; try lia.
           assert (kf (get a x) <= kf (get a (b + j))) by (apply HS; lia). lia.
        -- apply HS; lia.
      * intros. gu. auto.
      * intros. apply cntA_upd. lia.
Qed.

(* outer loop: prefix [b, b+i) sorted, i + n = count *)
Lemma ins_outer_spec : forall n b i a,
  (1 <= i)%nat -> (b + i + n <= length a)%nat -> srt a b (b + i) ->
  let a' := ins_outer kf n b i a in
  length a' = length a /\ srt a' b (b + i + n) /\
  (forall k, (k < b \/ b + i + n <= k)%nat -> get a' k = get a k) /\
  (forall x, cntA a' x = cntA a x).
Proof.
  induction n; intros b i a Hi Hlen Hs; cbn [ins_outer].
  - cbv zeta. rewrite Nat.add_0_r. repeat split; auto.
  - destruct (ins_inner_spec i (get a (b + i)) b i a) as [Hl [Hs1 [Hf Hc]]]; try lia.
    + intros x y Hx Hxy Hy Hxh Hyh. apply Hs; lia.
    + set (a1 := ins_inner kf (get a (b + i)) b i a) in *.
      destruct (IHn b (S i) a1) as [Hl2 [Hs2 [Hf2 Hc2]]]; try lia.
      * replace (b + S i)%nat with (b + i + 1)%nat by lia. exact Hs1.
      * cbv zeta. repeat split.
        -- lia.
        -- replace (b + i + S n)%nat with (b + S i + n)%nat by lia. exact Hs2.
        -- intros. rewrite Hf2 by lia. apply Hf. lia.
        -- intros x. rewrite Hc2. specialize (Hc x). lia.
Qed.

Lemma insertion_sort_range_spec : forall a b count,
  (b + count <= length a)%nat ->
  let a' := insertion_sort_range kf a b count in
  length a' = length a /\ srt a' b (b + count) /\
  (forall k, (k < b \/ b + count <= k)%nat -> get a' k = get a k) /\
  (forall x, cntA a' x = cntA a x).
Proof.
  intros a b count H. unfold insertion_sort_range.
  destruct count as [| c].
  - cbn [Nat.sub ins_outer]. cbv zeta. repeat split; auto. intros i j ? ? ?. lia.
  - replace (S c - 1)%nat with c by lia.
    destruct (ins_outer_spec c b 1 a) as [Hl [Hs [Hf Hc]]]; try lia.
    + intros i j ? ? ?. replace j with i by lia. lia.
    + cbv zeta. repeat split; auto.
      * replace (b + S c)%nat with (b + 1 + c)%nat by lia. exact Hs.
      * intros. apply Hf. lia.
Qed.

Theorem insertion_sorted : forall a, Sorted (kle kf) (insertion_sort kf a).
Proof.
  intros. destruct (insertion_sort_range_spec a 0 (length a)) as [Hl [Hs _]]. lia.
  apply srt_Sorted. unfold insertion_sort. rewrite Hl. exact Hs.
Qed.

Theorem insertion_perm : forall a, Permutation a (insertion_sort kf a).
Proof.
  intros. destruct (insertion_sort_range_spec a 0 (length a)) as [_ [_ [_ Hc]]]. lia.
  apply cntA_perm. intros. symmetry. apply Hc.
Qed.

End Ins.
