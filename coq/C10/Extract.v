From MV Require Import Lib.ExtractBase C10.Model.
From Coq Require Import ExtrOcamlBasic.
Extraction Language OCaml.
Extraction "c10_model" force_types upd get getn heap_init heap_ensure_capacity heap_insert heap_root
  heap_extract heap_find heap_remove heap_remove_cb heap_clear heap_clear_cb heap_destroy insertion_sort shell_sort heap_sort merge_sort quick_sort quick_sort_c
  quick_sort_cutoff iota.
