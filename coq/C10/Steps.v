(* C10 — the model's loop-free SEGMENTS over the abstract array state (definitions only).

   Each function is the hand-written counterpart of one segment that lib/props/c10_slice.py
   regenerates from the C text on every run (coq/gen/Params_C10.v, the gen_ functions): entry -> first loop head
   (pre), ONE ITERATION of a loop (step), loop exit -> next cut / return (post).  C10/ProofsGen.v
   proves each gen_ function equal to its ref_ function by a decision tactic that does not look at the shape of the generated term;
   C10/ProofsSteps.v proves that the fuelled fixpoints of C10/Model.v (sift_up, sift_down,
   remove_loop, find_loop, clear_loop, ins_inner, shell_inner, merge_loop, scan_up, scan_down, ...)
   are exactly the iterations of these steps under the representation of a list by a function.

   Conventions: arrays are functions Z -> Z (index -> element id, 0 = NULL); [kf] maps an element id
   to its key (the comparator is any [cmp] with cmp_ok cmp kf); machine arithmetic is exact here, the
   generated terms carry the 64-bit wraps and the equalities are proved for indices below 2^62.
   Tags: 0 return, 10+k head of the function's k-th named loop, 50+k its exit (see GenLib.v). *)
From MV Require Export C10.GenLib gen.Params_C10.
Local Open Scope Z_scope.

Section Steps.
Variable kf : Z -> Z.

(* ------------------------------------------------------------------ heap insert *)
(* r1 / nk1 nv1 size1 cap1: what muggle_heap_ensure_capacity (event 1) returns / leaves behind *)
Definition ref_insert_pre (nk nv : Z -> Z) (cap size r1 : Z) (nk1 nv1 : Z -> Z) (size1 cap1 : Z) : gres :=
  if cap =? size then
    if r1 =? 0 then mkres 0 nk1 nv1 [0; cap1; size1] [(1, [cap * 2])] [nk; nv]
    else mkres 10 nk1 nv1 [size1 + 1; cap1; size1 + 1] [(1, [cap * 2])] [nk; nv]
  else mkres 10 nk nv [size + 1; cap; size + 1] [] [].

Definition ref_insert_step (nk nv : Z -> Z) (idx key : Z) : gres :=
  let p := idx / 2 in
  if p =? 0 then mkres 50 nk nv [idx] [] []
  else if kf (nk p) <=? kf key then mkres 50 nk nv [idx] [] []
  else mkres 10 (aset nk idx (nk p)) (aset nv idx (nv p)) [p] [] [].

Definition ref_insert_post (nk nv : Z -> Z) (idx cap size key value : Z) : gres :=
  mkres 0 (aset nk idx key) (aset nv idx value) [1; cap; size] [] [].

(* ------------------------------------------------------------------ heap extract *)
Definition ref_extract_pre (nk nv : Z -> Z) (size okey ovalue : Z) : gres :=
  if size =? 0 then mkres 0 nk nv [0; okey; ovalue; size] [] []
  else mkres 10 nk nv [1; size; size - 1; nk 1; nv 1] [] [].      (* i, last_node, size, out.key, out.value *)

(* [last] = index of *last_node (the old size) *)
Definition ref_extract_step (nk nv : Z -> Z) (i last size : Z) : gres :=
  if i * 2 <=? size then
    let c := i * 2 in
    let c := if negb (c =? size) && (kf (nk (c + 1)) <? kf (nk c)) then c + 1 else c in
    if kf (nk last) >=? kf (nk c) then mkres 10 (aset nk i (nk c)) (aset nv i (nv c)) [c] [] []
    else mkres 50 nk nv [i] [] []
  else mkres 50 nk nv [i] [] [].

Definition ref_extract_post (nk nv : Z -> Z) (i last size okey ovalue : Z) : gres :=
  mkres 0 (aset nk i (nk last)) (aset nv i (nv last)) [1; okey; ovalue; size] [] [].

(* ------------------------------------------------------------------ heap remove *)
(* [node] = index of the node pointer in the node array *)
Definition ref_remove_pre (nk nv : Z -> Z) (node size : Z) : gres :=
  if size =? 0 then mkres 0 nk nv [0; size] [] []
  else if (node <=? 0) || (node >? size) then mkres 0 nk nv [0; size] [] []
  else
    let nk1 := aset nk node 0 in
    let nv1 := aset nv node 0 in
    if node =? size then mkres 0 nk1 nv1 [1; size - 1] [] []
    else mkres 10 nk1 nv1 [node; size; size - 1] [] [].

Definition ref_remove_step (nk nv : Z -> Z) (idx last size : Z) : gres :=
  let p := idx / 2 in
  if negb (p =? 0) && (kf (nk last) <? kf (nk p))
  then mkres 10 (aset nk idx (nk p)) (aset nv idx (nv p)) [p] [] []
  else
    let c := idx * 2 in
    if c <=? size then
      let c := if (c <? size) && (kf (nk (c + 1)) <? kf (nk c)) then c + 1 else c in
      if kf (nk last) >=? kf (nk c) then mkres 10 (aset nk idx (nk c)) (aset nv idx (nv c)) [c] [] []
      else mkres 50 nk nv [idx] [] []
    else mkres 50 nk nv [idx] [] [].

Definition ref_remove_post (nk nv : Z -> Z) (idx last size : Z) : gres :=
  mkres 0 (aset nk idx (nk last)) (aset nv idx (nv last)) [1; size] [] [].

(* ------------------------------------------------------------------ heap find / clear *)
Definition ref_find_pre (nk nv : Z -> Z) : gres := mkres 10 nk nv [1] [] [].
Definition ref_find_step (nk nv : Z -> Z) (i data size : Z) : gres :=
  if i <=? size then
    if kf (nk i) =? kf data then mkres 0 nk nv [i] [] [] else mkres 10 nk nv [i + 1] [] []
  else mkres 50 nk nv [i] [] [].
Definition ref_find_post (nk nv : Z -> Z) (i : Z) : gres := mkres 0 nk nv [0] [] [].

Definition ref_clear_pre (nk nv : Z -> Z) (size : Z) : gres := mkres 10 nk nv [1; size] [] [].
Definition ref_clear_step (nk nv : Z -> Z) (i size : Z) : gres :=
  if i <=? size then mkres 10 (aset nk i 0) (aset nv i 0) [i + 1] [] []
  else mkres 50 nk nv [i] [] [].
(* return payload of a void function: [0; size] with size = 0 after the loop *)
Definition ref_clear_post (nk nv : Z -> Z) (i : Z) : gres := mkres 0 nk nv [0; 0] [] [].

(* ------------------------------------------------------------------ insertion sort *)
(* loops: 10 = outer (i), 11 = inner (j) *)
Definition ref_ins_pre (pa pb : Z -> Z) : gres := mkres 10 pa pb [1] [] [].
Definition ref_ins_outer_step (pa pb : Z -> Z) (i count : Z) : gres :=
  if i <? count then mkres 11 pa pb [i; pa i; i] [] []          (* j = i, tmp = ptr[i], i *)
  else mkres 50 pa pb [i] [] [].
Definition ref_ins_inner_step (pa pb : Z -> Z) (j tmp : Z) : gres :=
  if j >? 0 then
    if kf (pa (j - 1)) >? kf tmp then mkres 11 (aset pa j (pa (j - 1))) pb [j - 1] [] []
    else mkres 51 pa pb [j] [] []
  else mkres 51 pa pb [j] [] [].
Definition ref_ins_inner_post (pa pb : Z -> Z) (j i tmp : Z) : gres := mkres 10 (aset pa j tmp) pb [i + 1] [] [].
Definition ref_ins_outer_post (pa pb : Z -> Z) (i : Z) : gres := mkres 0 pa pb [1] [] [].

(* ------------------------------------------------------------------ shell sort *)
(* loops: 10 = gap sequence (increment), 11 = middle (i), 12 = inner (j) *)
Definition ref_shell_pre (pa pb : Z -> Z) (count : Z) : gres := mkres 10 pa pb [count / 2] [] [].
Definition ref_shell_gap_step (pa pb : Z -> Z) (inc : Z) : gres :=
  if inc >? 0 then mkres 11 pa pb [inc; inc] [] [] else mkres 50 pa pb [inc] [] [].
Definition ref_shell_mid_step (pa pb : Z -> Z) (i inc count : Z) : gres :=
  if i <? count then mkres 12 pa pb [i; inc; pa i; i] [] [] else mkres 51 pa pb [i] [] [].
Definition ref_shell_inner_step (pa pb : Z -> Z) (j inc tmp : Z) : gres :=
  if j >=? inc then
    if kf tmp <? kf (pa (j - inc)) then mkres 12 (aset pa j (pa (j - inc))) pb [j - inc] [] []
    else mkres 52 pa pb [j] [] []
  else mkres 52 pa pb [j] [] [].
Definition ref_shell_inner_post (pa pb : Z -> Z) (j i tmp : Z) : gres := mkres 11 (aset pa j tmp) pb [i + 1] [] [].
Definition ref_shell_mid_post (pa pb : Z -> Z) (i inc : Z) : gres := mkres 10 pa pb [inc / 2] [] [].
Definition ref_shell_gap_post (pa pb : Z -> Z) (inc : Z) : gres := mkres 0 pa pb [1] [] [].

(* ------------------------------------------------------------------ heap sort *)
(* loops: 10 = fill (heap_insert, event 5), 11 = drain (heap_extract, event 6); init = 7, destroy = 8;
   r1 = result of heap_init, key = the key heap_extract stored in the local node *)
Definition ref_hsort_pre (pa pb : Z -> Z) (count r1 : Z) : gres :=
  let c := wrapu 32 (wrapu 32 count + 1) in
  if r1 =? 0 then mkres 0 pa pb [0] [(7, [c])] [] else mkres 10 pa pb [0] [(7, [c])] [].
Definition ref_hsort_fill_step (pa pb : Z -> Z) (i count : Z) : gres :=
  if i <? count then mkres 10 pa pb [i + 1] [(5, [pa i; 0])] [] else mkres 50 pa pb [i] [] [].
Definition ref_hsort_fill_post (pa pb : Z -> Z) (i : Z) : gres := mkres 11 pa pb [0] [] [].
(* key / value: what heap_extract stored in the local node (only the key is used) *)
Definition ref_hsort_drain_step (pa pb : Z -> Z) (i count key value : Z) : gres :=
  if i <? count then mkres 11 (aset pa i key) pb [i + 1] [(6, [])] [] else mkres 51 pa pb [i] [] [].
Definition ref_hsort_drain_post (pa pb : Z -> Z) (i : Z) : gres := mkres 0 pa pb [1] [(8, [0; 0; 0; 0])] [].

(* ------------------------------------------------------------------ merge sort *)
(* recursive calls = event 4 (ptr base, arr base, left, right); a1 b1 / a2 b2 = ptr, arr after the 1st / 2nd call *)
Definition ref_mrec_pre (pa pb : Z -> Z) (left right : Z) (a1 b1 a2 b2 : Z -> Z) : gres :=
  if left <? right then
    let center := (left + right) / 2 in
    mkres 10 a2 b2 [left; center + 1; left; center]        (* l, r, idx, center *)
          [(4, [0; 0; left; center]); (4, [0; 0; center + 1; right])] [pa; pb; a1; b1]
  else mkres 0 pa pb [0] [] [].
(* one iteration of the merge loop WHILE BOTH RUNS HAVE ELEMENTS (l <= center, r <= right, idx <= right): this is what
   the three-loop form and the fused one-loop form of the C text have in common; the exit of the loop, the tail
   loops / block copies and the copy-back are outside the tie *)
Definition ref_mrec_merge_step (pa pb : Z -> Z) (l r idx center right : Z) : gres :=
  if (l <=? center) && (r <=? right) then
    if kf (pa l) <=? kf (pa r) then mkres 10 pa (aset pb idx (pa l)) [l + 1; r; idx + 1] [] []
    else mkres 10 pa (aset pb idx (pa r)) [l; r + 1; idx + 1] [] []
  else mkres 50 pa pb [l; r; idx] [] [].
(* ok = the scratch allocation (event 20) succeeded; a2 = ptr after the recursive call; m = the scratch block *)
Definition ref_msort_pre (pa pb : Z -> Z) (count ok : Z) (m a2 : Z -> Z) : gres :=
  if count =? 0 then mkres 0 pa pb [1] [] []
  else if ok =? 0 then mkres 0 pa pb [0] [(20, [])] []
  else mkres 0 a2 pb [1] [(20, []); (4, [0; 0; 0; count - 1])] [pa; m].

(* ------------------------------------------------------------------ quick sort *)
(* loops: 10 = partition, 11 = scan up (++i), 12 = scan down (--j); insertion sort = event 2,
   recursive call = event 3 *)
Definition aswap (a : Z -> Z) (i j : Z) : Z -> Z := aset (aset a i (a j)) j (a i).

Definition ref_qrec_pre (cutoff : Z) (pa pb : Z -> Z) (left right : Z) (ains : Z -> Z) : gres :=
  if left + cutoff <=? right then
    let c := (left + right) / 2 in
    let a1 := if kf (pa left) >? kf (pa c) then aswap pa left c else pa in
    let a2 := if kf (a1 left) >? kf (a1 right) then aswap a1 left right else a1 in
    let a3 := if kf (a2 c) >? kf (a2 right) then aswap a2 c right else a2 in
    let a4 := aswap a3 c (right - 1) in
    mkres 10 a4 pb [left; right - 1; a4 (right - 1)] [] []       (* i, j, pivot *)
  else mkres 0 ains pb [0] [(2, [left; right + 1 - left])] [pa].
Definition ref_qrec_part_step (pa pb : Z -> Z) (i j pivot : Z) : gres := mkres 11 pa pb [i; pivot; j] [] [].
Definition ref_qrec_up_step (pa pb : Z -> Z) (i pivot : Z) : gres :=
  if kf (pa (i + 1)) <? kf pivot then mkres 11 pa pb [i + 1] [] [] else mkres 51 pa pb [i + 1] [] [].
Definition ref_qrec_up_post (pa pb : Z -> Z) (i pivot j : Z) : gres := mkres 12 pa pb [j; pivot; i] [] [].
Definition ref_qrec_down_step (pa pb : Z -> Z) (j pivot : Z) : gres :=
  if kf (pa (j - 1)) >? kf pivot then mkres 12 pa pb [j - 1] [] [] else mkres 52 pa pb [j - 1] [] [].
Definition ref_qrec_down_post (pa pb : Z -> Z) (j i : Z) : gres :=
  if i <? j then mkres 10 (aswap pa i j) pb [i; j] [] [] else mkres 50 pa pb [i; j] [] [].
(* restore the pivot, then the two recursive calls; a5 / a4 = ptr after the 2nd / 1st call *)
Definition ref_qrec_part_post (pa pb : Z -> Z) (i j left right : Z) (a4 a5 : Z -> Z) : gres :=
  mkres 0 a5 pb [0] [(3, [0; left; i - 1]); (3, [0; i + 1; right])] [aswap pa i (right - 1); a4].
Definition ref_qsort_pre (pa pb : Z -> Z) (count : Z) (a1 : Z -> Z) : gres :=
  if count =? 0 then mkres 0 pa pb [1] [] [] else mkres 0 a1 pb [1] [(3, [0; 0; count - 1])] [pa].

End Steps.
