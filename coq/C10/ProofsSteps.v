(* C10 — the fuelled loops of C10/Model.v ARE the iterations of the segments of C10/Steps.v.

   A list of nodes [ns] is represented by two functions nk nv : Z -> Z (key ids, value ids by index):
   [rep ns nk nv].  For each loop of the model, one unfolding of the fixpoint is one application of
   the corresponding ref_..._step: when the step continues (tag 10 + k) the fixpoint continues on a
   list that the step's arrays represent, with the step's new loop variables; when the step exits
   (tag 50 + k) the fixpoint returns the list that the ref_..._post segment's arrays represent.
   Together with gen_..._matches_model (the generated segments equal the ref_ segments) this ties the
   C text of the loops to the objects the theorems of Properties_C10.v are about. *)
From MV Require Import C10.Model C10.Arr C10.Steps.
From Coq Require Import ZifyBool.
Local Open Scope Z_scope.

Definition kfz (kf : nat -> Z) (z : Z) : Z := kf (Z.to_nat z).

Lemma kfz_of_nat kf n : kfz kf (Z.of_nat n) = kf n.
Proof. unfold kfz. now rewrite Nat2Z.id. Qed.

(* ------------------------------------------------------------------ node arrays *)
Definition rep (ns : list node) (nk nv : Z -> Z) : Prop :=
  forall j : nat, (j < length ns)%nat ->
    nk (Z.of_nat j) = Z.of_nat (fst (getn ns j)) /\ nv (Z.of_nat j) = Z.of_nat (snd (getn ns j)).

Lemma rep_key ns nk nv j : rep ns nk nv -> (j < length ns)%nat -> nk (Z.of_nat j) = Z.of_nat (fst (getn ns j)).
Proof. intros R H. apply R; auto. Qed.
Lemma rep_val ns nk nv j : rep ns nk nv -> (j < length ns)%nat -> nv (Z.of_nat j) = Z.of_nat (snd (getn ns j)).
Proof. intros R H. apply R; auto. Qed.

Lemma rep_upd ns nk nv i x : rep ns nk nv -> (i < length ns)%nat ->
  rep (upd i x ns) (aset nk (Z.of_nat i) (Z.of_nat (fst x))) (aset nv (Z.of_nat i) (Z.of_nat (snd x))).
Proof.
  intros R Hi j Hj. rewrite length_upd in Hj. unfold aset.
  destruct (Z.eqb_spec (Z.of_nat j) (Z.of_nat i)) as [E | N].
  - apply Nat2Z.inj in E. subst j. rewrite getn_upd_eq by auto. auto.
  - rewrite getn_upd_neq by (intro; subst; auto). apply R; auto.
Qed.

Lemma rep_ext ns nk nv nk' nv' : rep ns nk nv -> (forall j, nk' j = nk j) -> (forall j, nv' j = nv j) -> rep ns nk' nv'.
Proof. intros R A B j Hj. rewrite A, B. apply R; auto. Qed.

Lemma div2_Z n : Z.of_nat (n / 2) = Z.of_nat n / 2.
Proof. rewrite Nat2Z.inj_div. reflexivity. Qed.

Lemma of_nat_leb a b : (Z.of_nat a <=? Z.of_nat b) = (a <=? b)%nat.
Proof. destruct (Z.leb_spec (Z.of_nat a) (Z.of_nat b)), (Nat.leb_spec a b); auto; lia. Qed.
Lemma of_nat_ltb a b : (Z.of_nat a <? Z.of_nat b) = (a <? b)%nat.
Proof. destruct (Z.ltb_spec (Z.of_nat a) (Z.of_nat b)), (Nat.ltb_spec a b); auto; lia. Qed.
Lemma of_nat_eqb a b : (Z.of_nat a =? Z.of_nat b) = (a =? b)%nat.
Proof. destruct (Z.eqb_spec (Z.of_nat a) (Z.of_nat b)), (Nat.eqb_spec a b); auto; lia. Qed.
Lemma of_nat_mul2 a : Z.of_nat a * 2 = Z.of_nat (a * 2).
Proof. lia. Qed.
Lemma of_nat_succ a : Z.of_nat a + 1 = Z.of_nat (a + 1).
Proof. lia. Qed.

Ltac proj := cbn [g_tag g_a g_b g_vals g_evs g_snaps].

Section Sim.
Variable kf : nat -> Z.

(* ------------------------------------------------------------------ sift-up (muggle_heap_insert) *)
Lemma sift_up_is_insert_step : forall f ns idx k v nk nv cap size, rep ns nk nv -> (idx < length ns)%nat ->
  let r := ref_insert_step (kfz kf) nk nv (Z.of_nat idx) (Z.of_nat k) in
  (g_tag r = 10 /\ exists idx', g_vals r = [Z.of_nat idx'] /\ (idx' < length ns)%nat /\
     exists ns', rep ns' (g_a r) (g_b r) /\ length ns' = length ns /\
                 sift_up kf (S f) ns idx k v = sift_up kf f ns' idx' k v)
  \/ (g_tag r = 50 /\ g_vals r = [Z.of_nat idx] /\
      let p := ref_insert_post (g_a r) (g_b r) (Z.of_nat idx) cap size (Z.of_nat k) (Z.of_nat v) in
      g_tag p = 0 /\ exists ns', rep ns' (g_a p) (g_b p) /\ sift_up kf (S f) ns idx k v = Some ns').
Proof.
  intros f ns idx k v nk nv cap size R Hi. unfold ref_insert_step. cbn [sift_up]. cbv zeta.
  rewrite <- div2_Z.
  assert (Hp : (idx / 2 < length ns)%nat) by (pose proof (div2_spec idx); lia).
  destruct (Nat.eqb_spec (idx / 2) 0) as [E0 | N0].
  - destruct (Z.eqb_spec (Z.of_nat (idx / 2)) 0); [| lia]. right. unfold ref_insert_post. proj. repeat split.
    exists (upd idx (k, v) ns). split; auto. apply (rep_upd ns nk nv idx (k, v)); auto.
  - destruct (Z.eqb_spec (Z.of_nat (idx / 2)) 0); [lia |].
    rewrite (rep_key ns nk nv (idx / 2) R Hp), !kfz_of_nat.
    destruct (Z.leb_spec (kf (fst (getn ns (idx / 2)))) (kf k)).
    + right. unfold ref_insert_post. proj. repeat split.
      exists (upd idx (k, v) ns). split; auto. apply (rep_upd ns nk nv idx (k, v)); auto.
    + left. proj. split; auto. exists (idx / 2)%nat. split; auto. split; auto.
      exists (upd idx (getn ns (idx / 2)) ns). rewrite length_upd. split; [| split; auto].
      rewrite (rep_val ns nk nv (idx / 2) R Hp).
      apply (rep_upd ns nk nv idx (getn ns (idx / 2))); auto.
Qed.

(* ------------------------------------------------------------------ sift-down (muggle_heap_extract) *)
(* [last] is read through last_node = &nodes[lidx], a slot above the shrunk size that the loop never writes *)
Lemma sift_down_is_extract_step : forall f ns i lidx sz nk nv ok ov, rep ns nk nv ->
  (lidx < length ns)%nat -> (sz < lidx)%nat -> (i < length ns)%nat ->
  let last := getn ns lidx in
  let r := ref_extract_step (kfz kf) nk nv (Z.of_nat i) (Z.of_nat lidx) (Z.of_nat sz) in
  (g_tag r = 10 /\ exists c, g_vals r = [Z.of_nat c] /\ (c < length ns)%nat /\
     exists ns', rep ns' (g_a r) (g_b r) /\ length ns' = length ns /\ getn ns' lidx = last /\
                 sift_down kf (S f) ns i last sz = sift_down kf f ns' c last sz)
  \/ (g_tag r = 50 /\ g_vals r = [Z.of_nat i] /\
      let p := ref_extract_post (g_a r) (g_b r) (Z.of_nat i) (Z.of_nat lidx) (Z.of_nat sz) ok ov in
      g_tag p = 0 /\ exists ns', rep ns' (g_a p) (g_b p) /\ sift_down kf (S f) ns i last sz = Some ns').
Proof.
  intros f ns i lidx sz nk nv ok ov R Hl Hs Hi last. unfold ref_extract_step. cbn [sift_down]. cbv zeta.
  rewrite of_nat_mul2, of_nat_leb.
  assert (EXIT : forall A, A \/ (50 = 50 /\ [Z.of_nat i] = [Z.of_nat i] /\ 0 = 0 /\
            exists ns', rep ns' (aset nk (Z.of_nat i) (nk (Z.of_nat lidx))) (aset nv (Z.of_nat i) (nv (Z.of_nat lidx))) /\
                        Some (upd i last ns) = Some ns')).
  { intros A. right. repeat split. exists (upd i last ns). split; auto.
    rewrite (rep_key ns nk nv lidx R Hl), (rep_val ns nk nv lidx R Hl). apply (rep_upd ns nk nv i last); auto. }
  destruct (Nat.leb_spec (i * 2) sz) as [L | L]; [| unfold ref_extract_post; proj; apply EXIT].
  rewrite of_nat_eqb, of_nat_succ.
  (* the child chosen: the same on both sides *)
  set (cn := if negb (i * 2 =? sz)%nat && (kf (fst (getn ns (i * 2 + 1))) <? kf (fst (getn ns (i * 2))))
             then (i * 2 + 1)%nat else (i * 2)%nat).
  assert (Hc : (if negb (i * 2 =? sz)%nat &&
                   (kfz kf (nk (Z.of_nat (i * 2 + 1))) <? kfz kf (nk (Z.of_nat (i * 2))))
                then Z.of_nat (i * 2 + 1) else Z.of_nat (i * 2)) = Z.of_nat cn).
  { unfold cn. destruct (Nat.eqb_spec (i * 2) sz); cbn [negb andb]; auto.
    rewrite (rep_key ns nk nv (i * 2 + 1) R), (rep_key ns nk nv (i * 2) R), !kfz_of_nat by lia.
    destruct (_ <? _); lia. }
  rewrite Hc. fold cn.
  assert (Hcn : (cn <= sz)%nat).
  { unfold cn. destruct (Nat.eqb_spec (i * 2) sz); cbn [negb andb]; [lia |]. destruct (_ <? _); lia. }
  rewrite (rep_key ns nk nv lidx R Hl), (rep_key ns nk nv cn R), !kfz_of_nat by lia. fold last.
  destruct (kf (fst last) >=? kf (fst (getn ns cn))); [| unfold ref_extract_post; proj; apply EXIT].
  left. proj. split; auto. exists cn. split; auto. split; [lia |].
  exists (upd i (getn ns cn) ns). rewrite length_upd. split; [| split; [auto | split; auto]].
  - rewrite (rep_val ns nk nv cn R) by lia. apply (rep_upd ns nk nv i (getn ns cn)); auto.
  - unfold last. apply getn_upd_neq. lia.
Qed.

(* ------------------------------------------------------------------ the combined loop of muggle_heap_remove *)
Lemma remove_loop_is_remove_step : forall f ns idx lidx sz nk nv, rep ns nk nv ->
  (lidx < length ns)%nat -> (sz < lidx)%nat -> (1 <= idx <= sz)%nat ->
  let last := getn ns lidx in
  let r := ref_remove_step (kfz kf) nk nv (Z.of_nat idx) (Z.of_nat lidx) (Z.of_nat sz) in
  (g_tag r = 10 /\ exists c, g_vals r = [Z.of_nat c] /\ (1 <= c <= sz)%nat /\
     exists ns', rep ns' (g_a r) (g_b r) /\ length ns' = length ns /\ getn ns' lidx = last /\
                 remove_loop kf (S f) ns idx last sz = remove_loop kf f ns' c last sz)
  \/ (g_tag r = 50 /\ g_vals r = [Z.of_nat idx] /\
      let p := ref_remove_post (g_a r) (g_b r) (Z.of_nat idx) (Z.of_nat lidx) (Z.of_nat sz) in
      g_tag p = 0 /\ exists ns', rep ns' (g_a p) (g_b p) /\ remove_loop kf (S f) ns idx last sz = Some ns').
Proof.
  intros f ns idx lidx sz nk nv R Hl Hs Hi last. unfold ref_remove_step. cbn [remove_loop]. cbv zeta.
  rewrite <- div2_Z. pose proof (div2_spec idx) as D.
  assert (EXIT : forall A, A \/ (50 = 50 /\ [Z.of_nat idx] = [Z.of_nat idx] /\ 0 = 0 /\
            exists ns', rep ns' (aset nk (Z.of_nat idx) (nk (Z.of_nat lidx))) (aset nv (Z.of_nat idx) (nv (Z.of_nat lidx))) /\
                        Some (upd idx last ns) = Some ns')).
  { intros A. right. repeat split. exists (upd idx last ns). split; auto.
    rewrite (rep_key ns nk nv lidx R Hl), (rep_val ns nk nv lidx R Hl). apply (rep_upd ns nk nv idx last); [exact R | lia]. }
  assert (CONT : forall c, (1 <= c <= sz)%nat -> forall B,
            (10 = 10 /\ exists c', [Z.of_nat c] = [Z.of_nat c'] /\ (1 <= c' <= sz)%nat /\
              exists ns', rep ns' (aset nk (Z.of_nat idx) (nk (Z.of_nat c))) (aset nv (Z.of_nat idx) (nv (Z.of_nat c))) /\
                length ns' = length ns /\ getn ns' lidx = last /\
                remove_loop kf f (upd idx (getn ns c) ns) c last sz = remove_loop kf f ns' c' last sz) \/ B).
  { intros c Hc B. left. split; auto. exists c. split; auto. split; auto.
    exists (upd idx (getn ns c) ns). rewrite length_upd. split; [| split; [auto | split; auto]].
    - rewrite (rep_key ns nk nv c R), (rep_val ns nk nv c R) by lia. apply (rep_upd ns nk nv idx (getn ns c)); [exact R | lia].
    - unfold last. apply getn_upd_neq. lia. }
  replace (Z.of_nat (idx / 2) =? 0) with (idx / 2 =? 0)%nat by (symmetry; apply (of_nat_eqb (idx / 2) 0)).
  rewrite (rep_key ns nk nv lidx R Hl), kfz_of_nat. fold last.
  assert (UP : (negb (idx / 2 =? 0)%nat && (kf (fst last) <? kfz kf (nk (Z.of_nat (idx / 2))))) =
               (negb (idx / 2 =? 0)%nat && (kf (fst last) <? kf (fst (getn ns (idx / 2)))))).
  { destruct (Nat.eqb_spec (idx / 2) 0); cbn [negb andb]; auto.
    rewrite (rep_key ns nk nv (idx / 2) R), kfz_of_nat by lia. auto. }
  rewrite UP. clear UP.
  destruct (negb (idx / 2 =? 0)%nat && (kf (fst last) <? kf (fst (getn ns (idx / 2))))) eqn:EU.
  - proj. apply andb_prop in EU. destruct EU as [EU _]. apply negb_true_iff in EU. apply Nat.eqb_neq in EU.
    apply CONT. lia.
  - rewrite of_nat_mul2, of_nat_leb.
    destruct (Nat.leb_spec (idx * 2) sz) as [L | L]; [| unfold ref_remove_post; proj; apply EXIT].
    rewrite of_nat_ltb, of_nat_succ.
    set (cn := if (idx * 2 <? sz)%nat && (kf (fst (getn ns (idx * 2 + 1))) <? kf (fst (getn ns (idx * 2))))
               then (idx * 2 + 1)%nat else (idx * 2)%nat).
    assert (Hc : (if (idx * 2 <? sz)%nat &&
                     (kfz kf (nk (Z.of_nat (idx * 2 + 1))) <? kfz kf (nk (Z.of_nat (idx * 2))))
                  then Z.of_nat (idx * 2 + 1) else Z.of_nat (idx * 2)) = Z.of_nat cn).
    { unfold cn. destruct (Nat.ltb_spec (idx * 2) sz); cbn [andb]; auto.
      rewrite (rep_key ns nk nv (idx * 2 + 1) R), (rep_key ns nk nv (idx * 2) R), !kfz_of_nat by lia.
      destruct (kf (fst (getn ns (idx * 2 + 1))) <? kf (fst (getn ns (idx * 2)))); lia. }
    rewrite Hc. fold cn.
    assert (Hcn : (1 <= cn <= sz)%nat).
    { unfold cn. destruct (Nat.ltb_spec (idx * 2) sz); cbn [andb]; [| lia]. destruct (kf (fst (getn ns (idx * 2 + 1))) <? kf (fst (getn ns (idx * 2)))); lia. }
    replace (kfz kf (nk (Z.of_nat cn))) with (kf (fst (getn ns cn)))
      by (rewrite (rep_key ns nk nv cn R), kfz_of_nat by lia; reflexivity).
    destruct (kf (fst last) >=? kf (fst (getn ns cn))); [| unfold ref_remove_post; proj; apply EXIT].
    proj. apply CONT. auto.
Qed.

(* ------------------------------------------------------------------ pointer arrays (sorts) *)
(* the C function sees ptr + base: index j of the function is element base + j of the model's list *)
Definition repa (base : nat) (a : list nat) (pa : Z -> Z) : Prop :=
  forall j : nat, (base + j < length a)%nat -> pa (Z.of_nat j) = Z.of_nat (get a (base + j)).

Lemma repa_upd base a pa j x : repa base a pa -> (base + j < length a)%nat ->
  repa base (upd (base + j) x a) (aset pa (Z.of_nat j) (Z.of_nat x)).
Proof.
  intros R Hj i Hi. rewrite length_upd in Hi. unfold aset, get.
  destruct (Z.eqb_spec (Z.of_nat i) (Z.of_nat j)) as [E | N].
  - apply Nat2Z.inj in E. subst i. rewrite (nth_upd_eq 0%nat) by auto. auto.
  - rewrite (nth_upd_neq 0%nat) by (intro; assert (i = j) by lia; subst; auto). apply R; auto.
Qed.

(* inner loop of muggle_insertion_sort: j counts down *)
Lemma ins_inner_is_inner_step : forall tmp base j a pa pb i, repa base a pa -> (base + j < length a)%nat ->
  let r := ref_ins_inner_step (kfz kf) pa pb (Z.of_nat j) (Z.of_nat tmp) in
  (g_tag r = 11 /\ exists j', j = S j' /\ g_vals r = [Z.of_nat j'] /\
     exists a', repa base a' (g_a r) /\ length a' = length a /\
                ins_inner kf tmp base j a = ins_inner kf tmp base j' a')
  \/ (g_tag r = 51 /\ g_vals r = [Z.of_nat j] /\
      let p := ref_ins_inner_post (g_a r) (g_b r) (Z.of_nat j) i (Z.of_nat tmp) in
      g_tag p = 10 /\ exists a', repa base a' (g_a p) /\ ins_inner kf tmp base j a = a').
Proof.
  intros tmp base j a pa pb i R Hj. unfold ref_ins_inner_step.
  assert (EXIT : forall A, A \/ (51 = 51 /\ [Z.of_nat j] = [Z.of_nat j] /\ 10 = 10 /\
            exists a', repa base a' (aset pa (Z.of_nat j) (Z.of_nat tmp)) /\ upd (base + j) tmp a = a')).
  { intros A. right. repeat split. exists (upd (base + j) tmp a). split; auto. apply repa_upd; auto. }
  destruct j as [| j'].
  - cbn [ins_inner]. change (Z.of_nat 0 >? 0) with false. cbv iota. unfold ref_ins_inner_post. proj.
    pose proof (repa_upd base a pa 0 tmp R Hj) as U. rewrite Nat.add_0_r in U.
    right. repeat split. exists (upd base tmp a). split; [exact U | reflexivity].
  - cbn [ins_inner]. replace (Z.of_nat (S j') >? 0) with true by (symmetry; apply Z.gtb_lt; lia).
    replace (Z.of_nat (S j') - 1) with (Z.of_nat j') by lia.
    rewrite (R j') by lia. rewrite !kfz_of_nat.
    destruct (kf (get a (base + j')) >? kf tmp); [| unfold ref_ins_inner_post; proj; apply EXIT].
    left. proj. split; auto. exists j'. split; auto. split; auto.
    exists (upd (base + S j') (get a (base + j')) a). rewrite length_upd. split; [| split; auto].
    apply repa_upd; auto.
Qed.

(* the two scans of the partition loop: [++i] while smaller, [--j] while greater; the model returns None
   when a scan leaves the array, here the index stays inside by hypothesis *)
Lemma scan_up_is_up_step : forall f a pa pb pivot i, repa 0 a pa -> (S i < length a)%nat ->
  let r := ref_qrec_up_step (kfz kf) pa pb (Z.of_nat i) (Z.of_nat pivot) in
  g_vals r = [Z.of_nat (S i)] /\ g_a r = pa /\
  ((g_tag r = 11 /\ scan_up kf (S f) a pivot i = scan_up kf f a pivot (S i)) \/
   (g_tag r = 51 /\ scan_up kf (S f) a pivot i = Some (S i))).
Proof.
  intros f a pa pb pivot i R Hi. unfold ref_qrec_up_step. cbn [scan_up].
  destruct (Nat.ltb_spec (S i) (length a)); [| lia].
  replace (Z.of_nat i + 1) with (Z.of_nat (S i)) by lia.
  rewrite (R (S i)) by (simpl; lia). rewrite !kfz_of_nat. change (0 + S i)%nat with (S i).
  destruct (kf (get a (S i)) <? kf pivot); proj; auto.
Qed.

Lemma scan_down_is_down_step : forall a pa pb pivot j, repa 0 a pa -> (S j <= length a)%nat ->
  let r := ref_qrec_down_step (kfz kf) pa pb (Z.of_nat (S j)) (Z.of_nat pivot) in
  g_vals r = [Z.of_nat j] /\ g_a r = pa /\
  ((g_tag r = 12 /\ scan_down kf a pivot (S j) = scan_down kf a pivot j) \/
   (g_tag r = 52 /\ scan_down kf a pivot (S j) = Some j)).
Proof.
  intros a pa pb pivot j R Hj. unfold ref_qrec_down_step. cbn [scan_down].
  replace (Z.of_nat (S j) - 1) with (Z.of_nat j) by lia.
  rewrite (R j) by (simpl; lia). rewrite !kfz_of_nat. change (0 + j)%nat with j.
  destruct (kf (get a j) >? kf pivot); proj; auto.
Qed.

End Sim.

(* non-vacuity of the representation hypotheses *)
Example ex_rep : rep [(0, 0); (2, 12); (1, 11)]%nat
  (fun j => nth (Z.to_nat j) [0; 2; 1] 0) (fun j => nth (Z.to_nat j) [0; 12; 11] 0).
Proof. intros j Hj. simpl in Hj. assert (j = 0 \/ j = 1 \/ j = 2)%nat as [-> | [-> | ->]] by lia; split; reflexivity. Qed.
Example ex_repa : repa 1 [7; 4; 9]%nat (fun j => nth (Z.to_nat j) [4; 9] 0).
Proof. intros j Hj. simpl in Hj. assert (j = 0 \/ j = 1)%nat as [-> | ->] by lia; reflexivity. Qed.
