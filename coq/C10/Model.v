(* C10 — heap and sorts: executable, index-faithful model transcribing
   muggle/c/dsaa/heap.c and muggle/c/dsaa/sort.c (REPAIRED behaviour, see
   fixes/C10-*.patch: empty-array guard in merge/quick sort, early return in
   heap_remove when the removed node occupies the last slot).

   Conventions (DESIGN.md 4.1):
   * pointers are natural-number ids; id 0 is NULL; the comparator is a total
     preorder, represented by a key function [kf : nat -> Z] (cmp(a,b) < 0 iff
     kf a < kf b, etc.);
   * a C array is a [list] accessed with [get]/[upd] (an out-of-range [upd] is a
     no-op and an out-of-range [get] yields 0; the scanning loops of the quick
     sort partition, which rely on sentinels, return None when they leave the
     array);
   * loops whose trip count is not syntactically bounded recurse on fuel and
     return None on exhaustion; the theorems state the result is not None;
   * malloc is an oracle argument [alloc_ok];
   * machine-integer wrap-around is not modelled: sizes are far below 2^31
     (MUGGLE_DS_CAP_IS_VALID is modelled, it is what refuses larger heaps). *)
From Coq Require Export List ZArith NArith Lia Bool Arith.
From MV Require Export gen.Params_C10.
Export ListNotations.

Fixpoint upd {A : Type} (i : nat) (x : A) (l : list A) : list A :=
  match l, i with
  | [], _ => []
  | _ :: r, O => x :: r
  | a :: r, S j => a :: upd j x r
  end.

Definition get (a : list nat) (i : nat) : nat := nth i a 0.

(* heap node: (key pointer id, value pointer id) *)
Definition node := (nat * nat)%type.
Definition null_node : node := (0, 0).
Definition getn (a : list node) (i : nat) : node := nth i a null_node.

Record heap := mkheap { nodes : list node; hsize : nat; hcap : nat }.

(* MUGGLE_DS_CAP_IS_VALID *)
Definition cap_is_valid (c : nat) : bool := (N.of_nat c <? 2147483648)%N.

Section WithKey.
Variable kf : nat -> Z.
Local Open Scope Z_scope.

(* ------------------------------------------------------------------ heap *)

(* muggle_heap_init; nodes[0] and the slots above size hold malloc garbage,
   represented by null_node (never read) *)
Definition heap_init (alloc_ok : bool) (capacity : nat) : option heap :=
  let capacity := if (capacity =? 0)%nat then 8%nat else capacity in
  if negb (cap_is_valid capacity) then None
  else if negb alloc_ok then None
  else Some (mkheap (repeat null_node (capacity + 1)) 0 capacity).

Definition heap_is_empty (h : heap) : bool := (hsize h =? 0)%nat.

(* muggle_heap_ensure_capacity: nodes[1..size] are copied *)
Definition heap_ensure_capacity (alloc_ok : bool) (h : heap) (capacity : nat) : heap * bool :=
  if (capacity <=? hcap h)%nat then (h, true)
  else if negb (cap_is_valid capacity) then (h, false)
  else if negb alloc_ok then (h, false)
  else (mkheap (firstn (S (hsize h)) (nodes h) ++ repeat null_node (capacity - hsize h))
               (hsize h) capacity, true).

(* the while(true) loop of muggle_heap_insert *)
Fixpoint sift_up (fuel : nat) (ns : list node) (idx : nat) (k v : nat) : option (list node) :=
  match fuel with
  | O => None
  | S f =>
    let p := (idx / 2)%nat in
    if (p =? 0)%nat then Some (upd idx (k, v) ns)
    else
      let par := getn ns p in
      if kf (fst par) <=? kf k then Some (upd idx (k, v) ns)
      else sift_up f (upd idx par ns) p k v
  end.

Definition heap_insert (alloc_ok : bool) (h : heap) (k v : nat) : option (heap * bool) :=
  let '(h1, ok) := if (hcap h =? hsize h)%nat
                   then heap_ensure_capacity alloc_ok h (hcap h * 2) else (h, true) in
  if negb ok then Some (h, false)
  else
    let sz := S (hsize h1) in
    match sift_up (S sz) (nodes h1) sz k v with
    | None => None
    | Some ns => Some (mkheap ns sz (hcap h1), true)
    end.

Definition heap_root (h : heap) : option node :=
  if heap_is_empty h then None else Some (getn (nodes h) 1).

(* the for loop of muggle_heap_extract; [last] is *last_node = nodes[old size],
   a slot the loop never writes (it writes only i with 2i <= size) *)
Fixpoint sift_down (fuel : nat) (ns : list node) (i : nat) (last : node) (sz : nat) : option (list node) :=
  match fuel with
  | O => None
  | S f =>
    if (i * 2 <=? sz)%nat then
      let c := (i * 2)%nat in
      let c := if negb (c =? sz)%nat && (kf (fst (getn ns (c + 1))) <? kf (fst (getn ns c)))
               then (c + 1)%nat else c in
      if kf (fst last) >=? kf (fst (getn ns c))
      then sift_down f (upd i (getn ns c) ns) c last sz
      else Some (upd i last ns)
    else Some (upd i last ns)
  end.

Definition heap_extract (h : heap) : option (heap * option node) :=
  if heap_is_empty h then Some (h, None)
  else
    let root := getn (nodes h) 1 in
    let last := getn (nodes h) (hsize h) in
    let sz := (hsize h - 1)%nat in
    match sift_down (S sz) (nodes h) 1 last sz with
    | None => None
    | Some ns => Some (mkheap ns sz (hcap h), Some root)
    end.

(* muggle_heap_find: index of the first node whose key compares equal, 0 = NULL *)
Fixpoint find_loop (n : nat) (ns : list node) (i : nat) (data : nat) : nat :=
  match n with
  | O => 0%nat
  | S n' => if kf (fst (getn ns i)) =? kf data then i else find_loop n' ns (S i) data
  end.
Definition heap_find (h : heap) (data : nat) : nat := find_loop (hsize h) (nodes h) 1 data.

(* the while(true) loop of muggle_heap_remove *)
Fixpoint remove_loop (fuel : nat) (ns : list node) (idx : nat) (last : node) (sz : nat) : option (list node) :=
  match fuel with
  | O => None
  | S f =>
    let p := (idx / 2)%nat in
    if negb (p =? 0)%nat && (kf (fst last) <? kf (fst (getn ns p)))
    then remove_loop f (upd idx (getn ns p) ns) p last sz
    else
      let c := (idx * 2)%nat in
      if (c <=? sz)%nat then
        let c := if (c <? sz)%nat && (kf (fst (getn ns (c + 1))) <? kf (fst (getn ns c)))
                 then (c + 1)%nat else c in
        if kf (fst last) >=? kf (fst (getn ns c))
        then remove_loop f (upd idx (getn ns c) ns) c last sz
        else Some (upd idx last ns)
      else Some (upd idx last ns)
  end.

(* muggle_heap_remove with node = &nodes[idx]; returns the node handed to the
   free callbacks.  REPAIRED: when node is the last slot the function returns
   after shrinking (the unrepaired code went on to compare last_node->key,
   which it had just set to NULL). *)
Definition heap_remove (h : heap) (idx : nat) : option (heap * option node) :=
  if heap_is_empty h then Some (h, None)
  else if (idx <=? 0)%nat || (hsize h <? idx)%nat then Some (h, None)
  else
    let removed := getn (nodes h) idx in
    let ns1 := upd idx null_node (nodes h) in          (* node->key = node->value = NULL *)
    let last := getn ns1 (hsize h) in                   (* read through last_node after the NULLing *)
    let sz := (hsize h - 1)%nat in
    if (idx =? hsize h)%nat then Some (mkheap ns1 sz (hcap h), Some removed)
    else
      match remove_loop (2 * hsize h + 2) ns1 idx last sz with
      | None => None
      | Some ns => Some (mkheap ns sz (hcap h), Some removed)
      end.

(* the for loop of muggle_heap_clear: nodes[i].key = nodes[i].value = NULL for i = 1 .. size
   (a non-NULL key / value is first handed to its free callback, when there is one) *)
Fixpoint clear_loop (n : nat) (ns : list node) (i : nat) : list node :=
  match n with
  | O => ns
  | S n' => clear_loop n' (upd i null_node ns) (S i)
  end.

(* muggle_heap_clear: every slot 1..size is released and NULLed, size becomes 0, the storage and the
   capacity stay - whatever the free callbacks are (NULL ones included).  Second component: the nodes
   whose key / value are handed to the free callbacks, in call order (nodes[1], nodes[2], ...). *)
Definition heap_clear (h : heap) : heap * list node :=
  (mkheap (clear_loop (hsize h) (nodes h) 1) 0 (hcap h), firstn (hsize h) (skipn 1 (nodes h))).

(* WHICH of the two free callbacks are passed (cbk / cbv = false: NULL) never changes what the heap
   operation does to the heap; it only decides what is handed out: a callback that is not passed sees
   nothing (id 0).  muggle_heap_remove / muggle_heap_clear with that per-call choice: *)
Definition handed (cbk cbv : bool) (nd : node) : node :=
  ((if cbk then fst nd else 0%nat), (if cbv then snd nd else 0%nat)).

Definition heap_remove_cb (cbk cbv : bool) (h : heap) (idx : nat) : option (heap * option node) :=
  match heap_remove h idx with
  | Some (h', Some nd) => Some (h', Some (handed cbk cbv nd))
  | r => r
  end.

Definition heap_clear_cb (cbk cbv : bool) (h : heap) : heap * list node :=
  (fst (heap_clear h), map (handed cbk cbv) (snd (heap_clear h))).

(* muggle_heap_destroy = clear, then the node array is freed (the heap object is dead until the next
   init): only the released nodes remain observable *)
Definition heap_destroy (h : heap) : list node := snd (heap_clear h).

(* ------------------------------------------------------------- insertion *)

(* inner loop of muggle_insertion_sort on ptr + base; j counts down *)
Fixpoint ins_inner (tmp : nat) (base j : nat) (a : list nat) : list nat :=
  match j with
  | O => upd base tmp a
  | S j' =>
    if kf (get a (base + j')) >? kf tmp
    then ins_inner tmp base j' (upd (base + j) (get a (base + j')) a)
    else upd (base + j) tmp a
  end.

Fixpoint ins_outer (n : nat) (base i : nat) (a : list nat) : list nat :=
  match n with
  | O => a
  | S n' => ins_outer n' base (S i) (ins_inner (get a (base + i)) base i a)
  end.

(* muggle_insertion_sort(ptr + base, count, cmp) *)
Definition insertion_sort_range (a : list nat) (base count : nat) : list nat :=
  ins_outer (count - 1) base 1 a.
Definition insertion_sort (a : list nat) : list nat := insertion_sort_range a 0 (length a).

(* ----------------------------------------------------------------- shell *)

Fixpoint shell_inner (fuel : nat) (tmp inc j : nat) (a : list nat) : option (list nat) :=
  match fuel with
  | O => None
  | S f =>
    if (inc <=? j)%nat then
      if kf tmp <? kf (get a (j - inc))
      then shell_inner f tmp inc (j - inc) (upd j (get a (j - inc)) a)
      else Some (upd j tmp a)
    else Some (upd j tmp a)
  end.

Fixpoint shell_mid (n : nat) (inc i : nat) (a : list nat) : option (list nat) :=
  match n with
  | O => Some a
  | S n' =>
    match shell_inner (S i) (get a i) inc i a with
    | None => None
    | Some a' => shell_mid n' inc (S i) a'
    end
  end.

Fixpoint shell_outer (fuel : nat) (count inc : nat) (a : list nat) : option (list nat) :=
  match fuel with
  | O => None
  | S f =>
    if (0 <? inc)%nat then
      match shell_mid (count - inc) inc inc a with
      | None => None
      | Some a' => shell_outer f count (inc / 2) a'
      end
    else Some a
  end.

Definition shell_sort (a : list nat) : option (list nat) :=
  shell_outer (S (length a)) (length a) (length a / 2) a.

(* ------------------------------------------------------------- heap sort *)

Fixpoint hs_insert_loop (n : nat) (alloc_ok : bool) (a : list nat) (i : nat) (h : heap) : option heap :=
  match n with
  | O => Some h
  | S n' =>
    match heap_insert alloc_ok h (get a i) 0 with   (* return value ignored by the code *)
    | None => None
    | Some (h', _) => hs_insert_loop n' alloc_ok a (S i) h'
    end
  end.

(* [nd] is the local variable `node`, which keeps its previous contents when
   extract fails *)
Fixpoint hs_extract_loop (n : nat) (a : list nat) (i : nat) (h : heap) (nd : node) : option (list nat) :=
  match n with
  | O => Some a
  | S n' =>
    match heap_extract h with
    | None => None
    | Some (h', r) =>
      let nd' := match r with Some x => x | None => nd end in
      hs_extract_loop n' (upd i (fst nd') a) (S i) h' nd'
    end
  end.

Definition heap_sort (alloc_ok : bool) (a : list nat) : option (list nat * bool) :=
  let count := length a in
  match heap_init alloc_ok (count + 1) with
  | None => Some (a, false)
  | Some h =>
    match hs_insert_loop count alloc_ok a 0 h with
    | None => None
    | Some h1 =>
      match hs_extract_loop count a 0 h1 null_node with
      | None => None
      | Some a' => Some (a', true)
      end
    end
  end.

(* ----------------------------------------------------------------- merge *)

(* the three merging while loops (both sides / left rest / right rest), one
   output element per iteration *)
Fixpoint merge_loop (n : nat) (ptr arr : list nat) (l r idx center right : nat) : list nat :=
  match n with
  | O => arr
  | S n' =>
    if (l <=? center)%nat && (r <=? right)%nat then
      if kf (get ptr l) <=? kf (get ptr r)
      then merge_loop n' ptr (upd idx (get ptr l) arr) (S l) r (S idx) center right
      else merge_loop n' ptr (upd idx (get ptr r) arr) l (S r) (S idx) center right
    else if (l <=? center)%nat
    then merge_loop n' ptr (upd idx (get ptr l) arr) (S l) r (S idx) center right
    else if (r <=? right)%nat
    then merge_loop n' ptr (upd idx (get ptr r) arr) l (S r) (S idx) center right
    else arr
  end.

Fixpoint copy_back (n : nat) (ptr arr : list nat) (idx : nat) : list nat :=
  match n with
  | O => ptr
  | S n' => copy_back n' (upd idx (get arr idx) ptr) arr (S idx)
  end.

(* muggle_merge_sort_recursive; returns (ptr, scratch) *)
Fixpoint merge_rec (fuel : nat) (ptr arr : list nat) (left right : nat) : option (list nat * list nat) :=
  match fuel with
  | O => None
  | S f =>
    if (left <? right)%nat then
      let center := ((left + right) / 2)%nat in
      match merge_rec f ptr arr left center with
      | None => None
      | Some (p1, a1) =>
        match merge_rec f p1 a1 (center + 1) right with
        | None => None
        | Some (p2, a2) =>
          let a3 := merge_loop (right + 1 - left) p2 a2 left (center + 1) left center right in
          Some (copy_back (right + 1 - left) p2 a3 left, a3)
        end
      end
    else Some (ptr, arr)
  end.

(* muggle_merge_sort.  REPAIRED: count == 0 returns before count - 1 is formed. *)
Definition merge_sort (alloc_ok : bool) (a : list nat) : option (list nat * bool) :=
  let count := length a in
  if (count =? 0)%nat then Some (a, true)
  else if negb alloc_ok then Some (a, false)
  else
    match merge_rec count a (repeat 0%nat count) 0 (count - 1) with
    | None => None
    | Some (p, _) => Some (p, true)
    end.

(* ----------------------------------------------------------------- quick *)

(* tmp = ptr[i]; ptr[i] = ptr[j]; ptr[j] = tmp *)
Definition swap (a : list nat) (i j : nat) : list nat :=
  let tmp := get a i in upd j tmp (upd i (get a j) a).

Definition median3 (a : list nat) (left right : nat) : list nat * nat :=
  let center := ((left + right) / 2)%nat in
  let a1 := if kf (get a left) >? kf (get a center) then swap a left center else a in
  let a2 := if kf (get a1 left) >? kf (get a1 right) then swap a1 left right else a1 in
  let a3 := if kf (get a2 center) >? kf (get a2 right) then swap a2 center right else a2 in
  let a4 := swap a3 center (right - 1) in
  (a4, get a4 (right - 1)).

(* while (cmp(ptr[++i], pivot) < 0) {}  — None when i leaves the array *)
Fixpoint scan_up (fuel : nat) (a : list nat) (pivot i : nat) : option nat :=
  match fuel with
  | O => None
  | S f =>
    let i' := S i in
    if (i' <? length a)%nat then
      if kf (get a i') <? kf pivot then scan_up f a pivot i' else Some i'
    else None
  end.

(* while (cmp(ptr[--j], pivot) > 0) {}  — None when j would go below 0 *)
Fixpoint scan_down (a : list nat) (pivot j : nat) : option nat :=
  match j with
  | O => None
  | S j' => if kf (get a j') >? kf pivot then scan_down a pivot j' else Some j'
  end.

Fixpoint partition (fuel : nat) (a : list nat) (pivot i j : nat) : option (list nat * nat) :=
  match fuel with
  | O => None
  | S f =>
    match scan_up (length a) a pivot i with
    | None => None
    | Some i' =>
      match scan_down a pivot j with
      | None => None
      | Some j' =>
        if (i' <? j')%nat then partition f (swap a i' j') pivot i' j'
        else Some (a, i')
      end
    end
  end.

Fixpoint quick_rec (cutoff : nat) (fuel : nat) (a : list nat) (left right : nat) : option (list nat) :=
  match fuel with
  | O => None
  | S f =>
    if (left + cutoff <=? right)%nat then
      let '(a1, pivot) := median3 a left right in
      match partition (length a) a1 pivot left (right - 1) with
      | None => None
      | Some (a2, i) =>
        let a3 := swap a2 i (right - 1) in              (* restore pivot *)
        match quick_rec cutoff f a3 left (i - 1) with
        | None => None
        | Some a4 => quick_rec cutoff f a4 (i + 1) right
        end
      end
    else Some (insertion_sort_range a left (right + 1 - left))
  end.

(* muggle_quick_sort.  REPAIRED: count == 0 returns before count - 1 is formed. *)
Definition quick_sort_c (cutoff : nat) (a : list nat) : option (list nat) :=
  if (length a =? 0)%nat then Some a
  else quick_rec cutoff (S (length a)) a 0 (length a - 1).

Definition quick_sort (a : list nat) : option (list nat) := quick_sort_c quick_sort_cutoff a.

(* ------------------------------------------------- driver entry points *)

(* the initial array of element ids 0 .. n-1 *)
Definition iota (n : nat) : list nat := seq 0 n.

End WithKey.
