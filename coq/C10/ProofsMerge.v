(* C10 — top-down merge sort with scratch array: sorted + permutation *)
From MV Require Import C10.Model C10.Arr C10.ProofsIns.
From Coq Require Import Permutation Sorted.

Section Merge.
Variable kf : nat -> Z.
Local Open Scope Z_scope.
Notation srt := (srt kf).

Definition merge_post (ptr arr : list nat) (l r idx center right left : nat) (arr' : list nat) : Prop :=
  length arr' = length arr /\ srt arr' left (right + 1) /\
  (forall k, (k < left \/ right < k)%nat -> get arr' k = get arr k) /\
  (forall x, ncnt (get arr') left (right + 1 - left) x =
     ncnt (get arr) left (idx - left) x + ncnt (get ptr) l (center + 1 - l) x
     + ncnt (get ptr) r (right + 1 - r) x)%nat.

Lemma merge_loop_spec : forall n ptr arr l r idx center right left,
  (left <= l)%nat -> (l <= center + 1)%nat -> (center + 1 <= r)%nat -> (r <= right + 1)%nat ->
  (idx + center + 1 = l + r)%nat ->
  ((center + 1 - l) + (right + 1 - r) <= n)%nat ->
  (right < length arr)%nat ->
  srt ptr l (center + 1) -> srt ptr r (right + 1) -> srt arr left idx ->
  (forall x y, (left <= x < idx)%nat -> ((l <= y <= center) \/ (r <= y <= right))%nat ->
               kf (get arr x) <= kf (get ptr y)) ->
  merge_post ptr arr l r idx center right left (merge_loop kf n ptr arr l r idx center right).
Proof.
  induction n; intros ptr arr l r idx center right left Hl1 Hl2 Hr1 Hr2 Hidx Hn Hlen Sl Sr Sa Hx.
  - cbn [merge_loop]. unfold merge_post. repeat split; auto.
    + replace (right + 1)%nat with idx by lia. exact Sa.
    + intros. replace (center + 1 - l)%nat with 0%nat by lia. replace (right + 1 - r)%nat with 0%nat by lia.
      replace (right + 1 - left)%nat with (idx - left)%nat by lia. simpl. lia.
  - (* take from the left run *)
    assert (TL : (l <= center)%nat -> ((r <= right)%nat -> kf (get ptr l) <= kf (get ptr r)) ->
                 merge_post ptr arr l r idx center right left
                   (merge_loop kf n ptr (upd idx (get ptr l) arr) (S l) r (S idx) center right)).
    { intros Hlc Hlr.
      destruct (IHn ptr (upd idx (get ptr l) arr) (S l) r (S idx) center right left) as [L [S1 [F C]]];
        try lia.
      - rewrite length_upd. lia.
      - intros i j ? ? ?. apply Sl; lia.
      - exact Sr.
      - intros x y ? ? ?.
        destruct (Nat.eq_dec y idx); subst; gu.
        + destruct (Nat.eq_dec x idx); subst; gu; try lia. apply Hx; lia.
        + apply Sa; lia.
      - intros x y ? ?.
        destruct (Nat.eq_dec x idx); subst; gu.
        + destruct H0.
          * apply Sl; lia.
          * assert (kf (get ptr r) <= kf (get ptr y)) by (apply Sr; lia).
            assert (kf (get ptr l) <= kf (get ptr r)) by (apply Hlr; lia). lia.
        + apply Hx; lia.
      - unfold merge_post. rewrite length_upd in L. repeat split; auto.
        + intros. rewrite F by lia. gu. auto.
        + intros x. rewrite C.
          replace (S idx - left)%nat with (S (idx - left)) by lia.
          rewrite (cnt_snoc Nat.eq_dec).
          replace (left + (idx - left))%nat with idx by lia. gu.
          rewrite (cnt_upd_out Nat.eq_dec 0%nat arr left (idx - left) idx) by lia.
          replace (center + 1 - l)%nat with (S (center + 1 - S l)) by lia.
          cbn [cnt]. unfold gt. fold (get arr). lia. }
    (* take from the right run *)
    assert (TR : (r <= right)%nat -> ((l <= center)%nat -> kf (get ptr r) < kf (get ptr l)) ->
                 merge_post ptr arr l r idx center right left
                   (merge_loop kf n ptr (upd idx (get ptr r) arr) l (S r) (S idx) center right)).
    { intros Hrr Hrl.
      destruct (IHn ptr (upd idx (get ptr r) arr) l (S r) (S idx) center right left) as [L [S1 [F C]]];
        try lia.
      - rewrite length_upd. lia.
      - exact Sl.
      - intros i j ? ? ?. apply Sr; lia.
      - intros x y ? ? ?.
        destruct (Nat.eq_dec y idx); subst; gu.
        + destruct (Nat.eq_dec x idx); subst; gu; try lia. apply Hx; lia.
        + apply Sa; lia.
      - intros x y ? ?.
        destruct (Nat.eq_dec x idx); subst; gu.
        + destruct H0.
          * assert (kf (get ptr l) <= kf (get ptr y)) by (apply Sl; lia).
            assert (kf (get ptr r) < kf (get ptr l)) by (apply Hrl; lia). lia.
          * apply Sr; lia.
        + apply Hx; lia.
      - unfold merge_post. rewrite length_upd in L. repeat split; auto.
        + intros. rewrite F by lia. gu. auto.
        + intros x. rewrite C.
          replace (S idx - left)%nat with (S (idx - left)) by lia.
          rewrite (cnt_snoc Nat.eq_dec).
          replace (left + (idx - left))%nat with idx by lia. gu.
          rewrite (cnt_upd_out Nat.eq_dec 0%nat arr left (idx - left) idx) by lia.
          replace (right + 1 - r)%nat with (S (right + 1 - S r)) by lia.
          cbn [cnt]. unfold gt. fold (get arr). lia. }
    cbn [merge_loop].
    destruct (Nat.leb_spec l center), (Nat.leb_spec r right); cbn [andb].
    + destruct (Z.leb_spec (kf (get ptr l)) (kf (get ptr r))).
      * apply TL; auto.
      * apply TR; auto.
    + apply TL; auto. intros; lia.
    + apply TR; auto. intros; lia.
    + unfold merge_post. repeat split; auto.
      * replace (right + 1)%nat with idx by lia. exact Sa.
      * intros. replace (center + 1 - l)%nat with 0%nat by lia. replace (right + 1 - r)%nat with 0%nat by lia.
        replace (right + 1 - left)%nat with (idx - left)%nat by lia. simpl. lia.
Qed.

Lemma copy_back_spec : forall n ptr arr idx,
  (idx + n <= length ptr)%nat ->
  let p' := copy_back n ptr arr idx in
  length p' = length ptr /\
  (forall k, (idx <= k < idx + n)%nat -> get p' k = get arr k) /\
  (forall k, (k < idx \/ idx + n <= k)%nat -> get p' k = get ptr k).
Proof.
  induction n; intros; cbn [copy_back]; cbv zeta.
  - repeat split; auto. intros; lia.
  - destruct (IHn (upd idx (get arr idx) ptr) arr (S idx)) as [L [I O]].
    + rewrite length_upd. lia.
    + rewrite length_upd in L. repeat split; auto.
      * intros. destruct (Nat.eq_dec k idx).
        -- subst. rewrite O by lia. gu. auto.
        -- apply I. lia.
      * intros. rewrite O by lia. gu. auto.
Qed.

Definition mrec_post (ptr arr : list nat) (left right : nat) (p' a' : list nat) : Prop :=
  length p' = length ptr /\ length a' = length arr /\ srt p' left (right + 1) /\
  (forall k, (k < left \/ right < k)%nat -> get p' k = get ptr k) /\
  (forall x, ncnt (get p') left (right + 1 - left) x = ncnt (get ptr) left (right + 1 - left) x).

Lemma merge_rec_spec : forall fuel ptr arr left right,
  (right + 1 - left <= fuel)%nat -> (1 <= fuel)%nat ->
  (right < length ptr)%nat -> (right < length arr)%nat ->
  exists p' a', merge_rec kf fuel ptr arr left right = Some (p', a') /\
                mrec_post ptr arr left right p' a'.
Proof.
  induction fuel; intros ptr arr left right Hf Hf1 Hp Ha. lia.
  cbn [merge_rec].
  destruct (Nat.ltb_spec left right) as [Hlt | Hge].
  - set (center := ((left + right) / 2)%nat).
    assert (Hc : (left <= center < right)%nat) by (unfold center; dlia).
    destruct (IHfuel ptr arr left center) as [p1 [a1 [E1 [Lp1 [La1 [S1 [F1 C1]]]]]]]; try lia.
    rewrite E1.
    destruct (IHfuel p1 a1 (center + 1)%nat right) as [p2 [a2 [E2 [Lp2 [La2 [S2 [F2 C2]]]]]]]; try lia.
    rewrite E2.
    set (a3 := merge_loop kf (right + 1 - left) p2 a2 left (center + 1) left center right).
    destruct (merge_loop_spec (right + 1 - left) p2 a2 left (center + 1) left center right left)
      as [La3 [S3 [F3 C3]]]; try lia.
    + intros i j ? ? ?. rewrite !F2 by lia. apply S1; lia.
    + exact S2.
    + intros i j ? ? ?. lia.
    + fold a3 in La3, S3, F3, C3.
      destruct (copy_back_spec (right + 1 - left) p2 a3 left) as [Lc [Ic Oc]]; try lia.
      set (p3 := copy_back (right + 1 - left) p2 a3 left) in *.
      exists p3, a3. split; auto.
      unfold mrec_post. repeat split; try lia.
      * intros i j ? ? ?. rewrite !Ic by lia. apply S3; lia.
      * intros. rewrite Oc by lia. rewrite F2 by lia. apply F1. lia.
      * intros x.
        rewrite (cnt_ext Nat.eq_dec _ (get p3) (get a3)) by (intros; apply Ic; lia).
        rewrite C3. rewrite Nat.sub_diag. cbn [cnt].
        replace (right + 1 - (center + 1))%nat with (right + 1 - (center + 1))%nat by lia.
        rewrite C2.
        rewrite (cnt_ext Nat.eq_dec (center + 1 - left) (get p2) (get p1)) by (intros; apply F2; lia).
        rewrite C1.
        rewrite (cnt_ext Nat.eq_dec (right + 1 - (center + 1)) (get p1) (get ptr)) by (intros; apply F1; lia).
        replace (ncnt (get ptr) left (right + 1 - left) x) with (ncnt (get ptr) left ((center + 1 - left) + (right + 1 - (center + 1))) x) by (f_equal; lia).
        rewrite (cnt_split Nat.eq_dec).
        replace (left + (center + 1 - left))%nat with (center + 1)%nat by lia. lia.
  - exists ptr, arr. split; auto. unfold mrec_post. repeat split; auto.
    intros i j ? ? ?. replace j with i by lia. lia.
Qed.

Theorem merge_sort_ok : forall a, exists p, merge_sort kf true a = Some (p, true) /\
  Sorted (kle kf) p /\ Permutation a p.
Proof.
  intros. unfold merge_sort. destruct (Nat.eqb_spec (length a) 0).
  - exists a. split; auto. destruct a; simpl in *; try lia. split; constructor.
  - cbn [negb]. cbv iota.
    destruct (merge_rec_spec (length a) a (repeat 0%nat (length a)) 0 (length a - 1))
      as [p [a' [E [Lp [La [S [F C]]]]]]]; try lia.
    + rewrite repeat_length. lia.
    + rewrite E. exists p. split; auto. split.
      * apply srt_Sorted. rewrite Lp. replace (length a) with (length a - 1 + 1)%nat at 1 by lia. exact S.
      * apply cntA_perm. intros. unfold cntA. rewrite Lp.
        replace (length a) with (length a - 1 + 1 - 0)%nat by lia. symmetry. apply C.
Qed.

End Merge.
