(* C10 — quick sort (median of 3, sentinel partition, insertion-sort tail below
   the cutoff): sorted + permutation, every scan stays inside the array. *)
From MV Require Import C10.Model C10.Arr C10.ProofsIns.
From Coq Require Import Permutation Sorted.

Lemma length_swap : forall a i j, length (swap a i j) = length a.
Proof. intros. unfold swap. rewrite !length_upd. auto. Qed.

Lemma get_swap_l : forall a i j, i < length a -> j < length a -> get (swap a i j) i = get a j.
Proof.
  intros. unfold swap. destruct (Nat.eq_dec i j).
  - subst. gu. auto.
  - gu. auto.
Qed.

Lemma get_swap_r : forall a i j, i < length a -> j < length a -> get (swap a i j) j = get a i.
Proof. intros. unfold swap. gu. auto. Qed.

Lemma get_swap_o : forall a i j k, k <> i -> k <> j -> get (swap a i j) k = get a k.
Proof. intros. unfold swap. gu. auto. Qed.

Lemma cntA_swap : forall a i j x, i < length a -> j < length a -> cntA (swap a i j) x = cntA a x.
Proof.
  intros. unfold swap.
  pose proof (cntA_upd a i (get a j) x H).
  pose proof (cntA_upd (upd i (get a j) a) j (get a i) x ltac:(rewrite length_upd; lia)).
  assert (get (upd i (get a j) a) j = get a j).
  { destruct (Nat.eq_dec j i). subst; gu; auto. gu; auto. }
  rewrite H3 in H2. lia.
Qed.

Ltac gs := repeat first [ rewrite get_swap_l by (rewrite ?length_swap; lia)
                        | rewrite get_swap_r by (rewrite ?length_swap; lia)
                        | rewrite get_swap_o by lia ].

(* a property of every element of a[lo..hi) survives a rearrangement of that range *)
Lemma range_transfer : forall (P : nat -> Prop) a a' lo hi,
  length a' = length a -> (hi <= length a) -> lo <= hi ->
  (forall k, k < lo \/ hi <= k -> get a' k = get a k) ->
  (forall x, cntA a' x = cntA a x) ->
  (forall k, lo <= k < hi -> P (get a k)) -> forall k, lo <= k < hi -> P (get a' k).
Proof.
  intros P a a' lo hi L Hh Hl F C HP k Hk.
  apply (cnt_transfer Nat.eq_dec P (get a) (get a') lo (hi - lo)); try lia.
  - intros x. apply cnt_range_of_whole; auto; try lia.
    intros. apply F. lia.
  - intros. apply HP. lia.
Qed.

Section Quick.
Variable kf : nat -> Z.
Local Open Scope Z_scope.
Notation srt := (srt kf).

Definition cswap (a : list nat) (i j : nat) : list nat :=
  if kf (get a i) >? kf (get a j) then swap a i j else a.

Lemma cswap_spec : forall a i j, (i < length a)%nat -> (j < length a)%nat -> i <> j ->
  let a' := cswap a i j in
  length a' = length a /\ (forall x, cntA a' x = cntA a x) /\
  (forall k, k <> i -> k <> j -> get a' k = get a k) /\
  kf (get a' i) = Z.min (kf (get a i)) (kf (get a j)) /\
  kf (get a' j) = Z.max (kf (get a i)) (kf (get a j)).
Proof.
  intros. unfold cswap in a'. subst a'.
  destruct (Z.gtb_spec (kf (get a i)) (kf (get a j))).
  - split. apply length_swap. split. intros; apply cntA_swap; auto.
    split. intros; gs; auto. gs. lia.
  - repeat split; auto; lia.
Qed.

Lemma median3_eq : forall a left right,
  median3 kf a left right =
  let center := ((left + right) / 2)%nat in
  let a3 := cswap (cswap (cswap a left center) left right) center right in
  let a4 := swap a3 center (right - 1) in (a4, get a4 (right - 1)).
Proof. reflexivity. Qed.

Lemma median3_spec : forall a left right a1 pivot,
  (left + 3 <= right)%nat -> (right < length a)%nat ->
  median3 kf a left right = (a1, pivot) ->
  length a1 = length a /\ (forall x, cntA a1 x = cntA a x) /\
  (forall k, (k < left \/ right < k)%nat -> get a1 k = get a k) /\
  get a1 (right - 1) = pivot /\ kf (get a1 left) <= kf pivot /\ kf pivot <= kf (get a1 right).
Proof.
  intros a left right a1 pivot H3 HL E. rewrite median3_eq in E. cbv zeta in E.
  set (center := ((left + right) / 2)%nat) in *.
  assert (Hc : (left < center /\ center + 2 <= right)%nat) by (unfold center; dlia).
  destruct (cswap_spec a left center) as [L1 [C1 [F1 [Mi1 Ma1]]]]; try lia.
  set (b1 := cswap a left center) in *.
  destruct (cswap_spec b1 left right) as [L2 [C2 [F2 [Mi2 Ma2]]]]; try lia.
  set (b2 := cswap b1 left right) in *.
  destruct (cswap_spec b2 center right) as [L3 [C3 [F3 [Mi3 Ma3]]]]; try lia.
  set (b3 := cswap b2 center right) in *.
  inversion E; subst a1 pivot; clear E.
  split. rewrite length_swap. lia.
  split. intros. rewrite cntA_swap by lia. rewrite C3, C2, C1. auto.
  split. intros. gs. rewrite F3, F2, F1 by lia. auto.
  split. auto.
  gs.
  rewrite (F3 left) by lia.
  rewrite (F2 center) in Mi3, Ma3 by lia.
  lia.
Qed.

Lemma scan_up_spec : forall fuel a pivot i s,
  (i < s)%nat -> (s < length a)%nat -> kf pivot <= kf (get a s) -> (s - i <= fuel)%nat ->
  exists i', scan_up kf fuel a pivot i = Some i' /\ (i < i' <= s)%nat /\
    kf pivot <= kf (get a i') /\ (forall k, (i < k < i')%nat -> kf (get a k) < kf pivot).
Proof.
  induction fuel; intros a pivot i s H1 H2 H3 H4. lia.
  cbn [scan_up]. cbv zeta.
  destruct (Nat.ltb_spec (S i) (length a)); try lia.
  destruct (Z.ltb_spec (kf (get a (S i))) (kf pivot)).
  - assert (S i <> s) by (intro; subst; lia).
    destruct (IHfuel a pivot (S i) s) as [i' [E [R [K B]]]]; try lia.
    exists i'. split; auto. split. lia. split; auto.
    intros k Hk. destruct (Nat.eq_dec k (S i)). subst; auto. apply B. lia.
  - exists (S i). split; auto. split. lia. split; auto. intros; lia.
Qed.

Lemma scan_down_spec : forall j a pivot s,
  (s < j)%nat -> kf (get a s) <= kf pivot ->
  exists j', scan_down kf a pivot j = Some j' /\ (s <= j' < j)%nat /\
    kf (get a j') <= kf pivot /\ (forall k, (j' < k < j)%nat -> kf pivot < kf (get a k)).
Proof.
  induction j; intros a pivot s H1 H2. lia.
  cbn [scan_down].
  destruct (Z.gtb_spec (kf (get a j)) (kf pivot)).
  - assert (j <> s) by (intro; subst; lia).
    destruct (IHj a pivot s) as [j' [E [R [K B]]]]; try lia.
    exists j'. split; auto. split. lia. split; auto.
    intros k Hk. destruct (Nat.eq_dec k j). subst; auto. apply B. lia.
  - exists j. split; auto. split. lia. split. lia. intros; lia.
Qed.

Lemma partition_spec : forall fuel a pivot i j,
  (i < j)%nat -> (j < length a)%nat -> (j - i < fuel)%nat ->
  kf (get a i) <= kf pivot -> kf pivot <= kf (get a j) ->
  exists a' i', partition kf fuel a pivot i j = Some (a', i') /\
    length a' = length a /\ (forall x, cntA a' x = cntA a x) /\
    (forall k, (k <= i \/ j <= k)%nat -> get a' k = get a k) /\
    (i < i' <= j)%nat /\
    (forall k, (i < k < i')%nat -> kf (get a' k) <= kf pivot) /\
    (forall k, (i' <= k < j)%nat -> kf pivot <= kf (get a' k)).
Proof.
  induction fuel; intros a pivot i j Hij Hj Hf Hi Hjp. lia.
  cbn [partition].
  destruct (scan_up_spec (length a) a pivot i j) as [i' [E1 [R1 [K1 B1]]]]; try lia.
  rewrite E1.
  destruct (scan_down_spec j a pivot i) as [j' [E2 [R2 [K2 B2]]]]; try lia.
  rewrite E2.
  destruct (Nat.ltb_spec i' j') as [Hlt | Hge].
  - destruct (IHfuel (swap a i' j') pivot i' j') as [a' [i'' [E [L [C [F [R [Lo Hi']]]]]]]]; try lia.
    + rewrite length_swap. lia.
    + gs. auto.
    + gs. auto.
    + rewrite length_swap in L.
      exists a', i''. split; auto. split; auto. split.
      { intros. rewrite C. apply cntA_swap; lia. }
      split.
      { intros. rewrite F by lia. gs. auto. }
      split. lia. split.
      * intros k Hk. destruct (Nat.lt_ge_cases i' k).
        -- apply Lo. lia.
        -- rewrite F by lia. destruct (Nat.eq_dec k i').
           ++ subst. gs. auto.
           ++ gs. assert (kf (get a k) < kf pivot) by (apply B1; lia). lia.
      * intros k Hk. destruct (Nat.lt_ge_cases k j').
        -- apply Hi'. lia.
        -- rewrite F by lia. destruct (Nat.eq_dec k j').
           ++ subst. gs. auto.
           ++ gs. assert (kf pivot < kf (get a k)) by (apply B2; lia). lia.
  - exists a, i'. split; auto. split; auto. split; auto. split; auto. split. lia. split.
    + intros k Hk. assert (kf (get a k) < kf pivot) by (apply B1; lia). lia.
    + intros k Hk. destruct (Nat.eq_dec k i'). subst; auto.
      assert (kf pivot < kf (get a k)) by (apply B2; lia). lia.
Qed.

Definition qpost (a : list nat) (left right : nat) (a' : list nat) : Prop :=
  length a' = length a /\ srt a' left (right + 1) /\
  (forall k, (k < left \/ right < k)%nat -> get a' k = get a k) /\
  (forall x, cntA a' x = cntA a x).

Lemma quick_rec_spec : forall cutoff, (3 <= cutoff)%nat ->
  forall fuel a left right,
  (right + 1 - left < fuel)%nat -> (left <= right + 1)%nat -> (right < length a)%nat ->
  exists a', quick_rec kf cutoff fuel a left right = Some a' /\ qpost a left right a'.
Proof.
  intros cutoff Hcut. induction fuel; intros a left right Hf Hlr HL. lia.
  cbn [quick_rec].
  destruct (Nat.leb_spec (left + cutoff) right) as [Hbig | Hsmall].
  - destruct (median3 kf a left right) as [a1 pivot] eqn:EM.
    destruct (median3_spec a left right a1 pivot) as [L1 [C1 [F1 [P1 [Lo1 Hi1]]]]]; auto; try lia.
    destruct (partition_spec (length a) a1 pivot left (right - 1)) as [a2 [i [EP [L2 [C2 [F2 [R2 [Lo2 Hi2]]]]]]]];
      try lia.
    { rewrite P1. lia. }
    rewrite EP.
    set (a3 := swap a2 i (right - 1)).
    assert (L3 : length a3 = length a) by (unfold a3; rewrite length_swap; lia).
    assert (Pr : get a2 (right - 1) = pivot) by (rewrite F2 by lia; auto).
    (* a3: [left, i) <= pivot, a3[i] = pivot, (i, right] >= pivot *)
    assert (A3i : get a3 i = pivot) by (unfold a3; gs; auto).
    assert (A3lo : forall k, (left <= k < i)%nat -> kf (get a3 k) <= kf pivot).
    { intros k Hk. unfold a3. gs. destruct (Nat.eq_dec k left).
      - subst. rewrite F2 by lia. auto.
      - apply Lo2. lia. }
    assert (A3hi : forall k, (i + 1 <= k < right + 1)%nat -> kf pivot <= kf (get a3 k)).
    { intros k Hk. unfold a3. destruct (Nat.eq_dec k (right - 1)).
      - subst. gs. destruct (Nat.eq_dec i (right - 1)). lia. apply Hi2. lia.
      - gs. destruct (Nat.eq_dec k right).
        + subst. rewrite F2 by lia. auto.
        + apply Hi2. lia. }
    destruct (IHfuel a3 left (i - 1)%nat) as [a4 [E4 [L4 [S4 [F4 C4]]]]]; try lia.
    rewrite E4.
    destruct (IHfuel a4 (i + 1)%nat right) as [a5 [E5 [L5 [S5 [F5 C5]]]]]; try lia.
    rewrite E5. exists a5. split; auto.
    (* bounds carried through the two recursive calls *)
    assert (A4lo : forall k, (left <= k < i)%nat -> kf (get a4 k) <= kf pivot).
    { apply (range_transfer (fun e => kf e <= kf pivot) a3 a4 left i); auto; try lia.
      intros. apply F4. lia. }
    assert (A4hi : forall k, (i + 1 <= k < right + 1)%nat -> kf pivot <= kf (get a4 k)).
    { intros. rewrite F4 by lia. apply A3hi. auto. }
    assert (A5hi : forall k, (i + 1 <= k < right + 1)%nat -> kf pivot <= kf (get a5 k)).
    { apply (range_transfer (fun e => kf pivot <= kf e) a4 a5 (i + 1) (right + 1)); auto; try lia.
      intros. apply F5. lia. }
    unfold qpost. split. lia. split.
    + intros x y Hx Hxy Hy.
      assert (X : (x < i)%nat -> kf (get a5 x) <= kf pivot).
      { intros. rewrite F5 by lia. apply A4lo. lia. }
      assert (I5 : get a5 i = pivot).
      { rewrite F5 by lia. rewrite F4 by lia. auto. }
      destruct (Nat.lt_ge_cases y i).
      * rewrite !F5 by lia. apply S4; lia.
      * destruct (Nat.eq_dec y i).
        -- subst y. rewrite I5. destruct (Nat.eq_dec x i). subst; rewrite I5; lia. apply X. lia.
        -- assert (kf pivot <= kf (get a5 y)) by (apply A5hi; lia).
           destruct (Nat.lt_ge_cases x i).
           ++ specialize (X H1). lia.
           ++ destruct (Nat.eq_dec x i). subst; rewrite I5; auto. apply S5; lia.
    + split.
      * intros. rewrite F5 by lia. rewrite F4 by lia. unfold a3. gs. rewrite F2 by lia. apply F1. lia.
      * intros. rewrite C5, C4. unfold a3. rewrite cntA_swap by lia. rewrite C2. apply C1.
  - destruct (insertion_sort_range_spec kf a left (right + 1 - left)) as [L [S [F C]]]. lia.
    eexists. split. reflexivity. unfold qpost. split; auto. split.
    + intros x y ? ? ?. apply S; lia.
    + split; auto. intros. apply F. lia.
Qed.

Theorem quick_sort_c_ok : forall cutoff a, (3 <= cutoff)%nat ->
  exists p, quick_sort_c kf cutoff a = Some p /\ Sorted (kle kf) p /\ Permutation a p.
Proof.
  intros cutoff a Hc. unfold quick_sort_c.
  destruct (Nat.eqb_spec (length a) 0).
  - exists a. split; auto. destruct a; simpl in *; try lia. split; constructor.
  - destruct (quick_rec_spec cutoff Hc (S (length a)) a 0 (length a - 1)) as [p [E [L [S [F C]]]]]; try lia.
    exists p. split; auto. split.
    + apply srt_Sorted. rewrite L. replace (length a) with (length a - 1 + 1)%nat at 1 by lia. exact S.
    + apply cntA_perm. intros. symmetry. apply C.
Qed.

End Quick.
