(* C10 — gen_ = ref_ for the segments of sort.c (tactics in C10/ProofsGen.v). *)
From MV Require Import C10.GenLib C10.Steps gen.Params_C10 C10.ProofsGen.
From Coq Require Import ZifyBool.
Local Open Scope Z_scope.
Ltac Zify.zify_post_hook ::= Z.to_euclidean_division_equations.
(* a false goal (changed C text) must fail, not search for ever; generous: the slowest lemma takes ~20 s *)
Set Default Timeout 900.

Section GenSort.
Variables (cmp : Z -> Z -> Z) (kf : Z -> Z).
Hypothesis Hc : cmp_ok cmp kf.

(* ------------------------------------------------------------------ sorts *)
Lemma gen_ins_pre_eq pa pb : 
  res_eq (gen_ins_pre cmp pa pb) (ref_ins_pre pa pb).
Proof. intros. unfold gen_ins_pre, ref_ins_pre. slice_decide Hc. Qed.

Lemma gen_ins_outer_step_eq pa pb i count : 0 <= i < B62 -> 0 <= count < B62 ->
  res_eq (gen_ins_outer_step cmp pa pb i count) (ref_ins_outer_step pa pb i count).
Proof. intros. unfold gen_ins_outer_step, ref_ins_outer_step. slice_decide Hc. Qed.

Lemma gen_ins_inner_step_eq pa pb j tmp : 0 <= j < B62 ->
  res_eq (gen_ins_inner_step cmp pa pb j tmp) (ref_ins_inner_step kf pa pb j tmp).
Proof. intros. unfold gen_ins_inner_step, ref_ins_inner_step. slice_decide Hc. Qed.

Lemma gen_ins_inner_post_eq pa pb j i tmp : 0 <= i < B62 ->
  res_eq (gen_ins_inner_post cmp pa pb j i tmp) (ref_ins_inner_post pa pb j i tmp).
Proof. intros. unfold gen_ins_inner_post, ref_ins_inner_post. slice_decide Hc. Qed.

Lemma gen_ins_outer_post_eq pa pb i : 
  res_eq (gen_ins_outer_post cmp pa pb i) (ref_ins_outer_post pa pb i).
Proof. intros. unfold gen_ins_outer_post, ref_ins_outer_post. slice_decide Hc. Qed.

Lemma gen_shell_pre_eq pa pb count : 0 <= count < B62 ->
  res_eq (gen_shell_pre cmp pa pb count) (ref_shell_pre pa pb count).
Proof. intros. unfold gen_shell_pre, ref_shell_pre. slice_decide Hc. Qed.

Lemma gen_shell_gap_step_eq pa pb inc : 0 <= inc < B62 ->
  res_eq (gen_shell_gap_step cmp pa pb inc) (ref_shell_gap_step pa pb inc).
Proof. intros. unfold gen_shell_gap_step, ref_shell_gap_step. slice_decide Hc. Qed.

Lemma gen_shell_mid_step_eq pa pb i inc count : 0 <= i < B62 -> 0 <= count < B62 ->
  res_eq (gen_shell_mid_step cmp pa pb i inc count) (ref_shell_mid_step pa pb i inc count).
Proof. intros. unfold gen_shell_mid_step, ref_shell_mid_step. slice_decide Hc. Qed.

Lemma gen_shell_inner_step_eq pa pb j inc tmp : 0 <= j < B62 -> 0 <= inc < B62 ->
  res_eq (gen_shell_inner_step cmp pa pb j inc tmp) (ref_shell_inner_step kf pa pb j inc tmp).
Proof. intros. unfold gen_shell_inner_step, ref_shell_inner_step. slice_decide Hc. Qed.

Lemma gen_shell_inner_post_eq pa pb j i tmp : 0 <= i < B62 ->
  res_eq (gen_shell_inner_post cmp pa pb j i tmp) (ref_shell_inner_post pa pb j i tmp).
Proof. intros. unfold gen_shell_inner_post, ref_shell_inner_post. slice_decide Hc. Qed.

Lemma gen_shell_mid_post_eq pa pb i inc : 0 <= inc < B62 ->
  res_eq (gen_shell_mid_post cmp pa pb i inc) (ref_shell_mid_post pa pb i inc).
Proof. intros. unfold gen_shell_mid_post, ref_shell_mid_post. slice_decide Hc. Qed.

Lemma gen_shell_gap_post_eq pa pb inc : 
  res_eq (gen_shell_gap_post cmp pa pb inc) (ref_shell_gap_post pa pb inc).
Proof. intros. unfold gen_shell_gap_post, ref_shell_gap_post. slice_decide Hc. Qed.

Lemma gen_hsort_pre_eq pa pb count r1 : 0 <= count < B62 ->
  res_eq (gen_hsort_pre cmp pa pb count r1) (ref_hsort_pre pa pb count r1).
Proof. intros. unfold gen_hsort_pre, ref_hsort_pre. slice_decide Hc. Qed.

Lemma gen_hsort_fill_step_eq pa pb i count : 0 <= i < B62 -> 0 <= count < B62 ->
  res_eq (gen_hsort_fill_step cmp pa pb i count) (ref_hsort_fill_step pa pb i count).
Proof. intros. unfold gen_hsort_fill_step, ref_hsort_fill_step. slice_decide Hc. Qed.

Lemma gen_hsort_fill_post_eq pa pb i : 
  res_eq (gen_hsort_fill_post cmp pa pb i) (ref_hsort_fill_post pa pb i).
Proof. intros. unfold gen_hsort_fill_post, ref_hsort_fill_post. slice_decide Hc. Qed.

Lemma gen_hsort_drain_step_eq pa pb i count key value : 0 <= i < B62 -> 0 <= count < B62 ->
  res_eq (gen_hsort_drain_step cmp pa pb i count key value) (ref_hsort_drain_step pa pb i count key value).
Proof. intros. unfold gen_hsort_drain_step, ref_hsort_drain_step. slice_decide Hc. Qed.

Lemma gen_hsort_drain_post_eq pa pb i : 
  res_eq (gen_hsort_drain_post cmp pa pb i) (ref_hsort_drain_post pa pb i).
Proof. intros. unfold gen_hsort_drain_post, ref_hsort_drain_post. slice_decide Hc. Qed.

Lemma gen_mrec_pre_eq pa pb left right a1 b1 a2 b2 : 0 <= left < B62 -> 0 <= right < B62 ->
  res_eq (gen_mrec_pre cmp pa pb left right a1 b1 a2 b2) (ref_mrec_pre pa pb left right a1 b1 a2 b2).
Proof. intros. unfold gen_mrec_pre, ref_mrec_pre. slice_decide Hc. Qed.

Lemma gen_mrec_merge_step_eq pa pb l r idx center right : 0 <= l < B62 -> 0 <= r < B62 -> 0 <= idx < B62 -> 0 <= center < B62 -> 0 <= right < B62 ->
  l <= center -> r <= right -> idx <= right ->
  res_eq (gen_mrec_merge_step cmp pa pb l r idx center right) (ref_mrec_merge_step kf pa pb l r idx center right).
Proof. intros. unfold gen_mrec_merge_step, ref_mrec_merge_step. slice_decide Hc. Qed.

Lemma gen_msort_pre_eq pa pb count ok m a2 : 0 <= count < B62 ->
  res_eq (gen_msort_pre cmp pa pb count ok m a2) (ref_msort_pre pa pb count ok m a2).
Proof. intros. unfold gen_msort_pre, ref_msort_pre. slice_decide Hc. Qed.

Lemma gen_qrec_pre_eq pa pb left right ains : 0 <= left < B62 -> 0 <= right < B62 -> left <= right + 1 ->
  res_eq (gen_qrec_pre cmp pa pb left right ains) (ref_qrec_pre kf (Z.of_nat quick_sort_cutoff) pa pb left right ains).
Proof. intros. unfold gen_qrec_pre, ref_qrec_pre, aswap, quick_sort_cutoff; simpl Z.of_nat. slice_decide Hc. Qed.

Lemma gen_qrec_part_step_eq pa pb i j pivot : 
  res_eq (gen_qrec_part_step cmp pa pb i j pivot) (ref_qrec_part_step pa pb i j pivot).
Proof. intros. unfold gen_qrec_part_step, ref_qrec_part_step, aswap. slice_decide Hc. Qed.

Lemma gen_qrec_up_step_eq pa pb i pivot : 0 <= i < B62 ->
  res_eq (gen_qrec_up_step cmp pa pb i pivot) (ref_qrec_up_step kf pa pb i pivot).
Proof. intros. unfold gen_qrec_up_step, ref_qrec_up_step, aswap. slice_decide Hc. Qed.

Lemma gen_qrec_up_post_eq pa pb i pivot j : 
  res_eq (gen_qrec_up_post cmp pa pb i pivot j) (ref_qrec_up_post pa pb i pivot j).
Proof. intros. unfold gen_qrec_up_post, ref_qrec_up_post, aswap. slice_decide Hc. Qed.

Lemma gen_qrec_down_step_eq pa pb j pivot : 0 < j < B62 ->
  res_eq (gen_qrec_down_step cmp pa pb j pivot) (ref_qrec_down_step kf pa pb j pivot).
Proof. intros. unfold gen_qrec_down_step, ref_qrec_down_step, aswap. slice_decide Hc. Qed.

Lemma gen_qrec_down_post_eq pa pb j i : 0 <= i < B62 -> 0 <= j < B62 ->
  res_eq (gen_qrec_down_post cmp pa pb j i) (ref_qrec_down_post pa pb j i).
Proof. intros. unfold gen_qrec_down_post, ref_qrec_down_post, aswap. slice_decide Hc. Qed.

Lemma gen_qrec_part_post_eq pa pb i j left right a4 a5 : 0 < i < B62 -> 0 < right < B62 ->
  res_eq (gen_qrec_part_post cmp pa pb i j left right a4 a5) (ref_qrec_part_post pa pb i j left right a4 a5).
Proof. intros. unfold gen_qrec_part_post, ref_qrec_part_post, aswap. slice_decide Hc. Qed.

Lemma gen_qsort_pre_eq pa pb count a1 : 0 <= count < B62 ->
  res_eq (gen_qsort_pre cmp pa pb count a1) (ref_qsort_pre pa pb count a1).
Proof. intros. unfold gen_qsort_pre, ref_qsort_pre. slice_decide Hc. Qed.

End GenSort.
