(* C19 — property theorems only.  Each is closed by [exact] of a lemma proved in
   C19/Proofs.v and followed by Print Assumptions. *)
From MV Require Import C19.Model C19.Proofs C19.ProofsLap C19.ProofsClock C19.ProofsRange.
Local Open Scope Z_scope.

(* A request is admitted exactly when fewer than n recorded requests (the n
   virtual initial ones included) lie within the preceding window; holds for
   every mix of check / update / check_and_update / check_and_force_update over
   every non-decreasing timeline, every n, t, init_forward (both directions of
   the iff: never admits beyond n, never refuses while room remains). *)
Theorem fc_admit_iff_room : forall u ts n f s ops,
  init_units u ts n f = Some s ->
  nondecr (- f * u) (map op_time ops) ->
  snd (run s ops) = snd (spec_run n (ts * u) (repeat (- f * u) n) ops).
Proof. exact fc_refines_window_spec. Qed.
Print Assumptions fc_admit_iff_room.

(* No half-open interval (x, x+t] ever contains more than n admitted requests. *)
Theorem fc_window_never_exceeds_n : forall u ts n f s ops,
  init_units u ts n f = Some s -> 0 < u ->
  nondecr (- f * u) (map op_time ops) -> forallb admitting_op ops = true ->
  let H := fst (spec_run n (ts * u) (repeat (- f * u) n) ops) in
  Inv (fst (run s ops)) H /\ bounded n (ts * u) H.
Proof. exact fc_window_bound. Qed.
Print Assumptions fc_window_never_exceeds_n.

(* The forced-update variant records every request and returns the verdict
   computed over all requests. *)
Theorem fc_force_update_records_all : forall u ts n f s times,
  init_units u ts n f = Some s -> nondecr (- f * u) times ->
  snd (run s (map OpCFU times)) = force_verdicts n (ts * u) (repeat (- f * u) n) times.
Proof. exact fc_force_records_all. Qed.
Print Assumptions fc_force_update_records_all.

(* The tick-based controller (unit = c ticks per ns-unit) gives the same
   verdicts on the same timeline expressed in ticks. *)
Theorem fc_fast_agrees_with_ns : forall c u ts n f s s' ops,
  0 < c -> init_units u ts n f = Some s -> init_units (c * u) ts n f = Some s' ->
  snd (run s' (map (scale_op c) ops)) = snd (run s ops).
Proof. exact fc_fast_agrees. Qed.
Print Assumptions fc_fast_agrees_with_ns.

(* The ring after arbitrarily many laps, slot by slot: it keeps its n slots, the cursor stands at
   (number of recorded requests) mod n, and slot i holds the most recent recorded stamp whose
   position is congruent to i modulo n, always one of the last n recorded stamps (H = the n
   virtual initial stamps followed by the recorded requests).  Every n, every timeline length:
   no slot is ever consulted with anything but the stamp last stored in it. *)
Theorem fc_every_slot_holds_its_last_stamp : forall u ts n f s ops,
  init_units u ts n f = Some s ->
  nondecr (- f * u) (map op_time ops) ->
  let s' := fst (run s ops) in
  let H := fst (spec_run n (ts * u) (repeat (- f * u) n) ops) in
  length (arr s') = n /\ (n <= length H)%nat /\
  cursor s' = ((length H - n) mod n)%nat /\
  forall i, (i < n)%nat ->
    nth i (arr s') 0 = nth (slot_src n (length H) i) H 0 /\
    (length H - n <= slot_src n (length H) i < length H)%nat.
Proof. exact fc_ring_after_laps. Qed.
Print Assumptions fc_every_slot_holds_its_last_stamp.

(* The time counter: the interval between two clock readings is their difference, whatever their
   nanosecond parts are (start tv_nsec = 999999999 and a later reading with a smaller tv_nsec included). *)
Theorem tc_interval_is_difference : forall a b, interval_ns (ts_of a) (ts_of b) = b - a.
Proof. exact interval_ts_of. Qed.
Print Assumptions tc_interval_is_difference.

(* The clock-reading entry points.  A controller created when the clock reads `base` (the clock advancing by
   st0 per read): init reads the clock exactly once; then for ANY sequence of check_and_update /
   check_and_force_update calls, each with the clock set to base + now and advancing by its own step at every
   read, each call leaves the clock exactly one step further (one read per call) and the verdicts are those
   of the explicit-timestamp operations at `now` - hence, by fc_admit_iff_room, of the window specification. *)
Theorem fc_calls_read_clock_once : forall base st0 ts n f c k' xs,
  ns_init {| c_next := base; c_step := st0 |} ts n f = (Some c, k') ->
  c_next k' = base + st0 /\
  exists s, init ts n f = Some s /\ ns_fc c = s /\
    ns_calls base c xs = combine (verdicts_of (snd (run s (map call_op xs)))) (map call_clock_after xs).
Proof. exact ns_calls_read_clock_once. Qed.
Print Assumptions fc_calls_read_clock_once.

Theorem fc_fast_calls_read_clock_once : forall base st0 fq ts n f c k' xs,
  fast_init {| c_next := base; c_step := st0 |} fq ts n f = (Some c, k') ->
  c_next k' = base + st0 /\
  exists s, init_fast fq ts n f = Some s /\ ff_fc c = s /\
    fast_calls base c xs = combine (verdicts_of (snd (run s (map call_op xs)))) (map call_clock_after xs).
Proof. exact fast_calls_read_clock_once. Qed.
Print Assumptions fc_fast_calls_read_clock_once.

(* Magnitudes: with |init_forward * unit| and every request time below 2^62, every stamp the ring ever holds
   is below 2^62 in magnitude and the window is t * unit, for every operation sequence. *)
Theorem fc_stamps_below_2_62 : forall u ts n f s ops,
  init_units u ts n f = Some s -> B62 (- f * u) -> Forall B62 (map op_time ops) ->
  stamps_bounded (fst (run s ops)) /\ tw (fst (run s ops)) = ts * u.
Proof. exact fc_stamps_stay_in_range. Qed.
Print Assumptions fc_stamps_below_2_62.

(* Second tie: the C text of the four leaf functions, re-translated on this run, is the
   model (n < 2^32 is the range of the uint32_t field; wf = cursor < n). *)
From MV Require Import Lib.Leaf C19.ProofsGen gen.Params_C19.
Theorem gen_check_matches_model : forall s now, wf s ->
  gen_muggle_flow_ctl_check (arr s) (Z.of_nat (cursor s)) (tw s) now = check s now /\
  gen_muggle_fast_flow_ctl_check (arr s) (Z.of_nat (cursor s)) (tw s) now = check s now.
Proof. intros s now H. split; [exact (gen_check_eq s now H)|exact (gen_fast_check_eq s now H)]. Qed.
Print Assumptions gen_check_matches_model.

Theorem gen_update_matches_model : forall s now, wf s -> Z.of_nat (length (arr s)) < 2 ^ 32 ->
  gen_muggle_flow_ctl_update (arr s) (Z.of_nat (cursor s)) (Z.of_nat (length (arr s))) now
    = (arr (update s now), Z.of_nat (cursor (update s now))) /\
  gen_muggle_fast_flow_ctl_update (arr s) (Z.of_nat (cursor s)) (Z.of_nat (length (arr s))) now
    = (arr (update s now), Z.of_nat (cursor (update s now))).
Proof. intros s now H1 H2. split; [exact (gen_update_eq s now H1 H2)|exact (gen_fast_update_eq s now H1 H2)]. Qed.
Print Assumptions gen_update_matches_model.

(* Call-level tie: muggle_time_counter_start/_end/_interval_ns, muggle_flow_ctl_get_curr_elapsed,
   _check_and_update, _check_and_force_update and the fast_ equivalents, re-translated from the C text on
   this run with their callees inlined (lib/leafcalls.py), equal the call-level model: same return value,
   same ring and time-counter fields, and of the clock readings (a :: r) exactly the first is consumed. *)
From MV Require Import C19.GenLib C19.ProofsGenCall.
Theorem gen_time_counter_matches_model : forall st en a r,
  gen_muggle_time_counter_interval_ns (tv_sec st) (tv_nsec st) (tv_sec en) (tv_nsec en)
    = (interval_ns st en, tv_sec st, tv_nsec st, tv_sec en, tv_nsec en) /\
  gen_muggle_time_counter_start (tv_sec st) (tv_nsec st) (tv_sec en) (tv_nsec en) (a :: r)
    = (tv_sec (ts_of a), tv_nsec (ts_of a), tv_sec en, tv_nsec en, r) /\
  gen_muggle_time_counter_end (tv_sec st) (tv_nsec st) (tv_sec en) (tv_nsec en) (a :: r)
    = (tv_sec st, tv_nsec st, tv_sec (ts_of a), tv_nsec (ts_of a), r).
Proof. exact gen_time_counter_eq. Qed.
Print Assumptions gen_time_counter_matches_model.

Theorem gen_ns_calls_match_model : forall c es en a r stp,
  wf (ns_fc c) -> Z.of_nat (length (arr (ns_fc c))) < 2 ^ 32 ->
  let n := Z.of_nat (length (arr (ns_fc c))) in
  let k := {| c_next := a; c_step := stp |} in
  gen_muggle_flow_ctl_get_curr_elapsed (arr (ns_fc c)) (Z.of_nat (cursor (ns_fc c))) n (tw (ns_fc c))
      (tv_sec (ns_start c)) (tv_nsec (ns_start c)) es en (a :: r)
    = ns_tuple (fst (ns_curr_elapsed c k)) c n (ts_of a) r /\
  gen_muggle_flow_ctl_check_and_update (arr (ns_fc c)) (Z.of_nat (cursor (ns_fc c))) n (tw (ns_fc c))
      (tv_sec (ns_start c)) (tv_nsec (ns_start c)) es en (a :: r)
    = (let '(c', b, _) := ns_check_and_update c k in ns_tuple b c' n (ts_of a) r) /\
  gen_muggle_flow_ctl_check_and_force_update (arr (ns_fc c)) (Z.of_nat (cursor (ns_fc c))) n (tw (ns_fc c))
      (tv_sec (ns_start c)) (tv_nsec (ns_start c)) es en (a :: r)
    = (let '(c', b, _) := ns_check_and_force_update c k in ns_tuple b c' n (ts_of a) r).
Proof. exact gen_ns_calls_eq. Qed.
Print Assumptions gen_ns_calls_match_model.

Theorem gen_fast_calls_match_model : forall c a r stp,
  wf (ff_fc c) -> Z.of_nat (length (arr (ff_fc c))) < 2 ^ 32 -> ticks_ok c a ->
  let n := Z.of_nat (length (arr (ff_fc c))) in
  let k := {| c_next := a; c_step := stp |} in
  gen_muggle_fast_flow_ctl_get_curr_elapsed (arr (ff_fc c)) (Z.of_nat (cursor (ff_fc c))) n (tw (ff_fc c)) (ff_start c) (a :: r)
    = fast_tuple (fst (fast_curr_elapsed c k)) c n r /\
  gen_muggle_fast_flow_ctl_check_and_update (arr (ff_fc c)) (Z.of_nat (cursor (ff_fc c))) n (tw (ff_fc c)) (ff_start c) (a :: r)
    = (let '(c', b, _) := fast_check_and_update c k in fast_tuple b c' n r) /\
  gen_muggle_fast_flow_ctl_check_and_force_update (arr (ff_fc c)) (Z.of_nat (cursor (ff_fc c))) n (tw (ff_fc c)) (ff_start c) (a :: r)
    = (let '(c', b, _) := fast_check_and_force_update c k in fast_tuple b c' n r).
Proof. exact gen_fast_calls_eq. Qed.
Print Assumptions gen_fast_calls_match_model.

(* No signed overflow: every signed arithmetic intermediate of the generated functions (range-check lists
   *_chk, one irange 64 item per +, -, *, unary - on a signed type, on the executed path) is inside int64
   when absolute clock values and request times are below 2^62 and every stored stamp is below 2^62 in
   magnitude (fc_stamps_below_2_62 shows the latter for every run). *)
Theorem gen_ns_no_signed_overflow : forall c es en a r now,
  ts_ok (ns_start c) -> 0 <= a < 2 ^ 62 -> B62 now -> stamps_bounded (ns_fc c) ->
  let s := ns_fc c in let n := Z.of_nat (length (arr s)) in let cu := Z.of_nat (cursor s) in
  let ss := tv_sec (ns_start c) in let sn := tv_nsec (ns_start c) in
  all_true (gen_muggle_time_counter_interval_ns_chk ss sn (tv_sec (ts_of a)) (tv_nsec (ts_of a))) /\
  all_true (gen_muggle_time_counter_start_chk ss sn es en (a :: r)) /\
  all_true (gen_muggle_time_counter_end_chk ss sn es en (a :: r)) /\
  all_true (gen_muggle_flow_ctl_get_curr_elapsed_chk (arr s) cu n (tw s) ss sn es en (a :: r)) /\
  all_true (gen_muggle_flow_ctl_check_and_update_chk (arr s) cu n (tw s) ss sn es en (a :: r)) /\
  all_true (gen_muggle_flow_ctl_check_and_force_update_chk (arr s) cu n (tw s) ss sn es en (a :: r)) /\
  all_true (genc_muggle_flow_ctl_check_chk (arr s) cu n (tw s) ss sn es en now) /\
  all_true (genc_muggle_flow_ctl_update_chk (arr s) cu n (tw s) ss sn es en now).
Proof. exact gen_ns_no_overflow. Qed.
Print Assumptions gen_ns_no_signed_overflow.

Theorem gen_fast_no_signed_overflow : forall c a r now,
  0 <= ff_start c <= a -> a < 2 ^ 64 -> a - ff_start c < 2 ^ 62 -> B62 now -> stamps_bounded (ff_fc c) ->
  let s := ff_fc c in let n := Z.of_nat (length (arr s)) in let cu := Z.of_nat (cursor s) in
  all_true (gen_muggle_fast_flow_ctl_get_curr_elapsed_chk (arr s) cu n (tw s) (ff_start c) (a :: r)) /\
  all_true (gen_muggle_fast_flow_ctl_check_and_update_chk (arr s) cu n (tw s) (ff_start c) (a :: r)) /\
  all_true (gen_muggle_fast_flow_ctl_check_and_force_update_chk (arr s) cu n (tw s) (ff_start c) (a :: r)) /\
  all_true (genc_muggle_fast_flow_ctl_check_chk (arr s) cu n (tw s) (ff_start c) now) /\
  all_true (genc_muggle_fast_flow_ctl_update_chk (arr s) cu n (tw s) (ff_start c) now).
Proof. exact gen_fast_no_overflow. Qed.
Print Assumptions gen_fast_no_signed_overflow.
