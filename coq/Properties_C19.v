(* C19 — property theorems only.  Each is closed by [exact] of a lemma proved in
   C19/Proofs.v and followed by Print Assumptions. *)
From MV Require Import C19.Model C19.Proofs.
Local Open Scope Z_scope.

(* A request is admitted exactly when fewer than n recorded requests (the n
   virtual initial ones included) lie within the preceding window; holds for
   every mix of check / update / check_and_update / check_and_force_update over
   every non-decreasing timeline, every n, t, init_forward (both directions of
   the iff: never admits beyond n, never refuses while room remains). *)
Theorem fc_admit_iff_room : forall u ts n f s ops,
  init_units u ts n f = Some s ->
  nondecr (- f * u) (map op_time ops) ->
  snd (run s ops) = snd (spec_run n (ts * u) (repeat (- f * u) n) ops).
Proof. exact fc_refines_window_spec. Qed.
Print Assumptions fc_admit_iff_room.

(* No half-open interval (x, x+t] ever contains more than n admitted requests. *)
Theorem fc_window_never_exceeds_n : forall u ts n f s ops,
  init_units u ts n f = Some s -> 0 < u ->
  nondecr (- f * u) (map op_time ops) -> forallb admitting_op ops = true ->
  let H := fst (spec_run n (ts * u) (repeat (- f * u) n) ops) in
  Inv (fst (run s ops)) H /\ bounded n (ts * u) H.
Proof. exact fc_window_bound. Qed.
Print Assumptions fc_window_never_exceeds_n.

(* The forced-update variant records every request and returns the verdict
   computed over all requests. *)
Theorem fc_force_update_records_all : forall u ts n f s times,
  init_units u ts n f = Some s -> nondecr (- f * u) times ->
  snd (run s (map OpCFU times)) = force_verdicts n (ts * u) (repeat (- f * u) n) times.
Proof. exact fc_force_records_all. Qed.
Print Assumptions fc_force_update_records_all.

(* The tick-based controller (unit = c ticks per ns-unit) gives the same
   verdicts on the same timeline expressed in ticks. *)
Theorem fc_fast_agrees_with_ns : forall c u ts n f s s' ops,
  0 < c -> init_units u ts n f = Some s -> init_units (c * u) ts n f = Some s' ->
  snd (run s' (map (scale_op c) ops)) = snd (run s ops).
Proof. exact fc_fast_agrees. Qed.
Print Assumptions fc_fast_agrees_with_ns.

(* Second tie: the C text of the four leaf functions, re-translated on this run, is the
   model (n < 2^32 is the range of the uint32_t field; wf = cursor < n). *)
From MV Require Import Lib.Leaf C19.ProofsGen gen.Params_C19.
Theorem gen_check_matches_model : forall s now, wf s ->
  gen_muggle_flow_ctl_check (arr s) (Z.of_nat (cursor s)) (tw s) now = check s now /\
  gen_muggle_fast_flow_ctl_check (arr s) (Z.of_nat (cursor s)) (tw s) now = check s now.
Proof. intros s now H. split; [exact (gen_check_eq s now H)|exact (gen_fast_check_eq s now H)]. Qed.
Print Assumptions gen_check_matches_model.

Theorem gen_update_matches_model : forall s now, wf s -> Z.of_nat (length (arr s)) < 2 ^ 32 ->
  gen_muggle_flow_ctl_update (arr s) (Z.of_nat (cursor s)) (Z.of_nat (length (arr s))) now
    = (arr (update s now), Z.of_nat (cursor (update s now))) /\
  gen_muggle_fast_flow_ctl_update (arr s) (Z.of_nat (cursor s)) (Z.of_nat (length (arr s))) now
    = (arr (update s now), Z.of_nat (cursor (update s now))).
Proof. intros s now H1 H2. split; [exact (gen_update_eq s now H1 H2)|exact (gen_fast_update_eq s now H1 H2)]. Qed.
Print Assumptions gen_update_matches_model.
