(* C05 — property theorems only (proved in C05/Proofs*.v), instantiated with the memory orders
   re-extracted from the code on this run (gen/Params_C05.v).  Every theorem quantifies over ALL
   schedules (lists of (thread, choice); choice 1 = spurious weak-CAS failure), any number of threads,
   any capacity, any scripts. *)
From MV Require Import C05.Model C05.ProofsSowr C05.ProofsRing C05.ProofsTs C05.ProofsTsInv C05.ProofsTsVis gen.Params_C05.
From MV Require Import Lib.Leaf C05.GenLib C05.ProofsGen C05.ProofsGenInit.

(* side condition on the code's memory orders (ts pool): acquire load / release store of free_idx,
   acquire test-and-set / release clear of the free spinlock *)
Theorem c05_memory_orders_sufficient : ts_mo_ok code_params = true.
Proof. vm_compute. reflexivity. Qed.
Print Assumptions c05_memory_orders_sufficient.

(* ---- sowr pool, documented usage (Appendix B): allocations only by thread a, frees only by thread f,
   free b releases b and everything allocated before it; capacity a power of two dividing 2^32;
   the run may start at any multiple [base] of the capacity (uint32 wrap of alloc_idx included) ---- *)
Theorem sowr_no_double_handout : forall cap base a f n scripts sched,
  sowr_geometry cap base -> sowr_usage a f scripts ->
  let s := sowr_run code_params cap base n scripts sched in
  s_dups s = 0%nat /\ NoDup (map fst (s_out s)) /\ (s_A s - s_Fl s <= cap - 1)%Z.
Proof.
  intros cap base a f n scripts sched Hg Hu s. split.
  - exact (sowr_no_double_handout_all code_params cap base a f n scripts sched Hg Hu).
  - exact (sowr_outstanding_distinct code_params cap base a f n scripts sched Hg Hu).
Qed.
Print Assumptions sowr_no_double_handout.

Theorem sowr_exhaustion_exact : forall cap base a f n scripts sched,
  sowr_geometry cap base -> sowr_usage a f scripts ->
  s_badnull (sowr_run code_params cap base n scripts sched) = 0%nat.
Proof. exact (sowr_exhaustion_exact_all code_params). Qed.
Print Assumptions sowr_exhaustion_exact.

Theorem sowr_serves_forever : forall cap base a f n scripts sched r,
  sowr_geometry cap base -> sowr_usage a f scripts ->
  let s := sowr_run code_params cap base n scripts sched in
  (a < s_n s)%nat -> s_pc (s_thr s a) = SBegin -> s_script (s_thr s a) = OpAlloc :: r ->
  (s_A s - s_Fl s < cap - 1)%Z ->
  let s3 := exec ssys (sstep code_params) s [(a, 0); (a, 0); (a, 0)]%nat in
  (s_A s + 1 <= s_A s3)%Z /\ s_dups s3 = 0%nat /\ s_badnull s3 = 0%nat.
Proof. exact (sowr_serves_forever_all code_params). Qed.
Print Assumptions sowr_serves_forever.

(* ---- ring pool: allocations serialised (threadsafe_alloc, or plain alloc by one thread a) ---- *)
Theorem ringpool_no_double_handout : forall cap n locked a scripts sched,
  ring_usage a locked scripts ->
  let s := ring_run code_params cap n locked scripts sched in
  r_dups s = 0%nat /\ NoDup (map fst (r_out s)) /\ (forall b, In b (map fst (r_out s)) -> r_inuse s b = 1%nat).
Proof. exact (ringpool_no_double_handout_all code_params). Qed.
Print Assumptions ringpool_no_double_handout.

(* ---- ts pool, one allocator thread, any number of freers ---- *)
Theorem ts_single_allocator_ok : forall cap n scripts a sched,
  (0 < cap)%nat -> single_allocator a n scripts -> TsOk cap (ts_run code_params cap n scripts sched).
Proof. exact (ts_single_allocator_ok_all code_params). Qed.
Print Assumptions ts_single_allocator_ok.

(* ---- ts pool, many allocators: known-finding pattern (DESIGN.md 3.2) ----
   full statement (REFUTED):  forall sched, t_dups (ts_run code_params cap n scripts sched) = 0.
   known class: >= 2 allocator threads and a commit (successful CAS / cached_free_pos write-back) inside
   another allocator's racy window (ghost flag t_race, windows W1-W3 of C05/ProofsTs.v). *)
Theorem ts_no_double_handout_partial : forall cap n scripts sched,
  (0 < cap)%nat ->
  let s := ts_run code_params cap n scripts sched in
  in_known_class scripts n s = false -> t_dups s = 0%nat /\ NoDup (map fst (t_out s)).
Proof. exact (ts_no_double_handout_partial_all code_params). Qed.
Print Assumptions ts_no_double_handout_partial.

Theorem ts_aba_refuted : exists sched,
  let s := ts_run code_params 4 2 aba_scripts sched in
  in_known_class aba_scripts 2 s = true /\ t_dups s <> 0%nat.
Proof. exists aba_sched. vm_compute. split; [reflexivity|discriminate]. Qed.
Print Assumptions ts_aba_refuted.

(* the racy cached_free_pos alone (no ABA) also leads to a double hand-out: the class is wider than W1 *)
Theorem ts_cache_race_refuted : exists sched,
  let s := ts_run code_params 4 2 cache_scripts sched in
  in_known_class cache_scripts 2 s = true /\ t_dups s <> 0%nat.
Proof. exists cache_sched. vm_compute. split; [reflexivity|discriminate]. Qed.
Print Assumptions ts_cache_race_refuted.

(* exhaustion exactness does NOT extend to many allocators either (second known class, ts-stale-null):
   with two allocator threads, without any racy window being hit and without a double hand-out, NULL is
   returned while a single block is out of a ring of capacity 4 *)
Theorem ts_stale_null_refuted : exists sched,
  let s := ts_run code_params 4 2 stale_scripts sched in
  count_allocators stale_scripts 2 = 2%nat /\ t_race s = false /\ t_dups s = 0%nat /\
  t_badnull s <> 0%nat /\ (t_A s - t_F s < 4 - 1)%nat.
Proof. exists stale_sched. vm_compute. repeat split; try reflexivity; try discriminate. lia. Qed.
Print Assumptions ts_stale_null_refuted.

(* ---- visibility (view discipline of DESIGN.md 4.2) ---- *)

(* ts pool, one allocator thread, any number of freers: with the memory orders found in the code every plain
   read of a ptrs[] entry by the allocator and every lock-protected write of one is covered by the thread's
   view (the ghost counter of uncovered accesses stays 0), for every schedule *)
Theorem ts_reads_covered : forall cap n scripts a sched,
  (0 < cap)%nat -> single_allocator a n scripts ->
  t_uncov (ts_run code_params cap n scripts sched) = 0%nat.
Proof.
  intros cap n scripts a sched.
  exact (ts_reads_covered_all code_params cap n scripts a sched c05_memory_orders_sufficient).
Qed.
Print Assumptions ts_reads_covered.

(* many allocators: visibility is REFUTED even outside the known class (no racy window, no double hand-out):
   an allocator that never synchronised reads a ptrs[] entry written by a free, because cached_free_pos is
   shared without synchronisation.  full statement (refuted):
     forall sched, in_known_class scripts n s = false -> t_uncov s = 0 *)
Theorem ts_multi_visibility_refuted : exists sched,
  let s := ts_run code_params 4 2 vis_scripts sched in
  in_known_class vis_scripts 2 s = false /\ t_dups s = 0%nat /\ t_uncov s <> 0%nat.
Proof. exists vis_sched. vm_compute. repeat split; try reflexivity. discriminate. Qed.
Print Assumptions ts_multi_visibility_refuted.

(* sowr pool: its plain fields alloc_idx / cached_free_pos are touched by the allocator thread only (nothing
   plain crosses threads inside the pool; free_idx is atomic and relaxed) *)
Theorem sowr_plain_fields_private : forall cap base a f n scripts sched,
  sowr_geometry cap base -> sowr_usage a f scripts ->
  forall t, t <> a -> touches_private (s_thr (sowr_run code_params cap base n scripts sched) t) = false.
Proof. exact (sowr_plain_fields_private_all code_params). Qed.
Print Assumptions sowr_plain_fields_private.

(* ring pool: the plain cursor and the plain in_use = 1 store are touched by at most one thread at a time,
   under the write spinlock (threadsafe_alloc) or by the single allocating thread *)
Theorem ring_cursor_exclusive : forall cap n locked a scripts sched,
  ring_usage a locked scripts ->
  let s := ring_run code_params cap n locked scripts sched in
  (forall t u, in_body (r_pc (r_thr s t)) = true -> in_body (r_pc (r_thr s u)) = true -> t = u) /\
  (r_locked s = true -> forall t, in_body (r_pc (r_thr s t)) = true -> r_lock s = true) /\
  (r_locked s = false -> forall t, in_body (r_pc (r_thr s t)) = true -> t = a).
Proof. exact (ring_cursor_exclusive_all code_params). Qed.
Print Assumptions ring_cursor_exclusive.

(* ring pool, exclusive ownership in every history including the all-owned state: a block is marked and
   returned only after its in_use flag was loaded as 0, when it is neither outstanding nor held by another
   thread; an allocation that finds a flag set does not return but scans on (it returns only after a free) *)
Theorem ring_takes_only_free_blocks : forall cap n locked a scripts sched,
  ring_usage a locked scripts ->
  let s := ring_run code_params cap n locked scripts sched in
  (forall t blk, r_pc (r_thr s t) = RAfter blk 0 -> r_inuse s blk = 0%nat /\ ~ In blk (map fst (r_out s))) /\
  (forall t b, held (r_pc (r_thr s t)) = Some b -> r_inuse s b = 1%nat /\ ~ In b (map fst (r_out s))) /\
  (forall t u b, held (r_pc (r_thr s t)) = Some b -> held (r_pc (r_thr s u)) = Some b -> t = u).
Proof. exact (ring_takes_only_free_blocks_all code_params). Qed.
Print Assumptions ring_takes_only_free_blocks.

Theorem ring_alloc_does_not_return_on_owned_block : forall s t blk v,
  (t < r_n s)%nat -> r_pc (r_thr s t) = RAfter blk (S v) ->
  exists s', rstep code_params s t 0 = Some (s', LPlain []) /\ r_pc (r_thr s' t) = RLoad (r_cursor s) /\
             r_out s' = r_out s /\ r_inuse s' = r_inuse s /\ r_dups s' = r_dups s.
Proof. exact (ring_alloc_scans_on code_params). Qed.
Print Assumptions ring_alloc_does_not_return_on_owned_block.

(* ==== second tie (DESIGN.md 4.4): the index arithmetic between the atomic operations ====
   The gen_ definitions of gen/Params_C05.v are regenerated from the C text of threadsafe_memory_pool.c,
   sowr_memory_pool.c and ring_memory_pool.c on every run (lib/props/c05_slice.py: atomic loads become the
   inputs ld<k>, a compare-exchange the inputs cur<k> / spur<k>, block pointers become indices, helpers are
   inlined, retry / scan loops are unrolled up to the third atomic operation, init loops are summarised with lfill).  Each obligation:
   generated = reference on the whole domain (every capacity 2^0 .. 2^31 that init accepts, every value of
   the free-running 32-bit cursor of the sowr pool, every ring position (pos_in: below the capacity) of the masked
   cursors and of the values another thread may have stored into them), and the steps of C05/Model.v that carry
   the same arithmetic expressed with the same references. *)
Local Open Scope Z_scope.

Theorem gen_ts_alloc_matches_model :
  (forall cap, pow2cap cap -> forall a bs c f ptrs ld1 ld2 cur1 spur1 cur2 spur2,
     pos_in cap a -> pos_in cap c -> pos_in cap ld1 -> pos_in cap ld2 -> pos_in cap cur1 -> pos_in cap cur2 ->
     gen_ts_alloc a bs c cap f ptrs ld1 ld2 cur1 spur1 cur2 spur2 =
     ref_ts_alloc a bs c cap f ptrs ld1 ld2 cur1 spur1 cur2 spur2) /\
  (forall s t x e ve notes, (0 < t_cap s)%nat -> zn (t_cap s) <= 2147483648 -> (e < t_cap s)%nat ->
     let p := ring_next (zn (t_cap s)) (zn e) in
     t_pc (t_thr (fst (t_segA s t x e ve notes)) t) =
     if p =? zn (t_cached s) then ALoad e (Z.to_nat p) ve
     else ACas e (Z.to_nat p) (t_ptrs s e) ve (t_A s) (t_cver s)) /\
  (forall P s t ch e p v ve vl gf, (t < t_n s)%nat -> t_pc (t_thr s t) = AAfter e p v ve vl gf ->
     exists s' l, tstep P s t ch = Some (s', l) /\ t_cached s' = v /\ t_alloc s' = t_alloc s /\
       (if zn p =? zn v then l = LPlain [(n_null, zn (length (t_out s)))]
        else exists vc, t_pc (t_thr s' t) = ACas e p (t_ptrs s e) ve (t_A s) vc)) /\
  (forall P s t ch e p d ve va vc, (t < t_n s)%nat -> t_pc (t_thr s t) = ACas e p d ve va vc ->
     exists s' l, tstep P s t ch = Some (s', l) /\
       (if cas_ok (zn (t_alloc s)) (zn (b2n (Nat.eqb ch 1))) (zn e)
        then t_alloc s' = p /\ t_pc (t_thr s' t) = ARet d
        else t_alloc s' = t_alloc s /\ exists ve', t_pc (t_thr s' t) = ARetry (t_alloc s) ve')).
Proof. exact (conj gen_ts_alloc_ref (conj model_ts_segA_ref (conj model_ts_after_ref model_ts_cas_ref))). Qed.
Print Assumptions gen_ts_alloc_matches_model.

Theorem gen_ts_free_matches_model :
  (forall cap, pow2cap cap -> forall a bs c f ptrs b, pos_in cap f ->
     gen_ts_free a bs c cap f ptrs b = ref_ts_free a bs c cap f ptrs b) /\
  (forall P s t ch b, ts_geom s -> (t < t_n s)%nat -> t_pc (t_thr s t) = FWrite b ->
     exists s' l, tstep P s t ch = Some (s', l) /\ t_ptrs s' = upd (t_ptrs s) (t_free s) b /\
       t_pc (t_thr s' t) = FStore (Z.to_nat (ring_next (zn (t_cap s)) (zn (t_free s))))) /\
  (forall P s t ch pos, (t < t_n s)%nat -> t_pc (t_thr s t) = FStore pos ->
     exists s' l, tstep P s t ch = Some (s', l) /\ t_free s' = pos /\ t_ptrs s' = t_ptrs s).
Proof. exact (conj gen_ts_free_ref (conj model_ts_free_ref model_ts_store_ref)). Qed.
Print Assumptions gen_ts_free_matches_model.

Theorem gen_sowr_alloc_matches_model :
  (forall cap, pow2cap cap -> forall a bs c f hb ld, fits cap bs -> u32 a -> pos_in cap c -> u32 ld ->
     gen_sowr_alloc a bs c cap f hb ld = ref_sowr_alloc a bs c cap f hb ld) /\
  (forall P s t ch r, (t < s_n s)%nat -> s_pc (s_thr s t) = SBegin -> s_script (s_thr s t) = OpAlloc :: r ->
     exists s' l, sstep P s t ch = Some (s', l) /\
       (if negb (sowr_pos (s_cap s) (s_alloc s) =? s_cached s)
        then s_alloc s' = (s_alloc s + 1) mod two32 /\ s_cached s' = s_cached s /\
             l = LPlain ([(n_call, 0)] ++ ret_notes (s_out s) (Z.to_nat (sowr_pos (s_cap s) (s_alloc s))))
        else s_alloc s' = s_alloc s /\ s_pc (s_thr s' t) = SLoad (sowr_pos (s_cap s) (s_alloc s)))) /\
  (forall P s t ch pos v fl, (t < s_n s)%nat -> s_pc (s_thr s t) = SAfter pos v fl ->
     exists s' l, sstep P s t ch = Some (s', l) /\ s_cached s' = sowr_bound (s_cap s) v /\
       (if negb (pos =? sowr_bound (s_cap s) v)
        then s_alloc s' = (s_alloc s + 1) mod two32 /\ l = LPlain ([] ++ ret_notes (s_out s) (Z.to_nat pos))
        else s_alloc s' = s_alloc s /\ l = LPlain [(n_null, zn (length (s_out s)))])).
Proof. exact (conj gen_sowr_alloc_ref (conj model_sowr_begin_ref model_sowr_after_ref)). Qed.
Print Assumptions gen_sowr_alloc_matches_model.

(* the sowr free rule: free_idx = block_idx + 1 *)
Theorem gen_sowr_free_matches_model :
  (forall a bs c cap f hb b, u32 (lget hb b) -> gen_sowr_free a bs c cap f hb b = ref_sowr_free a bs c cap f hb b) /\
  (forall P s t ch b fc, (t < s_n s)%nat -> s_pc (s_thr s t) = SStore b fc ->
     exists s' l, sstep P s t ch = Some (s', l) /\ s_free s' = Z.of_nat b + 1 /\
       l = LEv (Ev OStore cell_free (mo_sowr_store_free P) (Z.of_nat b + 1) 0 0)).
Proof. exact (conj gen_sowr_free_ref model_sowr_store_ref). Qed.
Print Assumptions gen_sowr_free_matches_model.

Theorem gen_ring_alloc_matches_model :
  (forall cap, pow2cap cap -> forall a bs hb hu ld1 ld2, fits cap bs -> 0 <= a < cap ->
     gen_ring_alloc a bs cap hb hu ld1 ld2 = ref_ring_alloc a bs cap hb hu ld1 ld2 /\
     gen_ring_ts_alloc a bs cap hb hu ld1 ld2 = ref_ring_alloc a bs cap hb hu ld1 ld2) /\
  (forall s t sc notes, ring_geom s ->
     r_cursor (fst (r_body s t sc notes)) = Z.to_nat (ring_next (zn (r_cap s)) (zn (r_cursor s))) /\
     r_pc (r_thr (fst (r_body s t sc notes)) t) = RLoad (r_cursor s)) /\
  (forall P s t ch blk v, (t < r_n s)%nat -> r_pc (r_thr s t) = RAfter blk v ->
     exists s' l, rstep P s t ch = Some (s', l) /\
       (if zn v =? 0 then r_inuse s' = upd (r_inuse s) blk 1%nat /\ r_cursor s' = r_cursor s
        else s' = fst (r_body s t (r_script (r_thr s t)) []))).
Proof. exact (conj gen_ring_alloc_ref (conj model_ring_body_ref model_ring_after_ref)). Qed.
Print Assumptions gen_ring_alloc_matches_model.

Theorem gen_ring_free_matches_model :
  (forall a bs cap hb hu b, gen_ring_free a bs cap hb hu b = ref_ring_free a bs cap hb hu b) /\
  (forall P s t ch b, (t < r_n s)%nat -> r_pc (r_thr s t) = RStore b ->
     exists s' l, rstep P s t ch = Some (s', l) /\ r_inuse s' = upd (r_inuse s) b 0%nat /\ r_cursor s' = r_cursor s).
Proof. exact (conj gen_ring_free_ref model_ring_store_ref). Qed.
Print Assumptions gen_ring_free_matches_model.

(* ---- init functions (REPAIRED code, fixes/C05-init-size-overflow.patch): for EVERY argument pair, every allocation
   outcome and every function in the place of muggle_next_pow_of_2 the regenerated init equals the reference; with the
   C20 model of muggle_next_pow_of_2 the reference refuses exactly the arguments whose rounded capacity does not fit
   muggle_sync_t, the degenerate sizes, and every data area capacity * block_size above UINT32_MAX (area_fits), and
   otherwise leaves the capacity next_pow2 and the cursors of the model's initial state ---- *)
Theorem gen_ts_init_matches_model :
  (forall npo2 a bs c cap f ptrs a1 a2 m1 m2, u32 a1 -> u32 a2 ->
     gen_ts_init npo2 a bs c cap f ptrs a1 a2 m1 m2 = ref_ts_init npo2 a bs c cap f ptrs a1 a2 m1 m2) /\
  (forall a bs c cap f ptrs c0 d m1 m2, 0 <= c0 < two32 -> 0 <= d < two32 ->
     c0 = 0 \/ 2147483648 < c0 \/ d = 0 \/
     ~ area_fits (npo2z c0) (true_sharing (code_sizeof_muggle_ts_memory_pool_head_t + d)) ->
     ref_ts_init npo2z a bs c cap f ptrs c0 d m1 m2 =
       (code_MUGGLE_ERR_INVALID_PARAM, a, bs, c, cap, f, ptrs, -1, -1, -1, -1)) /\
  (forall a bs c cap f ptrs c0 d m1 m2 n scripts,
     1 <= c0 <= 2147483648 -> 1 <= d < two32 ->
     area_fits (npo2z c0) (true_sharing (code_sizeof_muggle_ts_memory_pool_head_t + d)) ->
     m1 <> 0 -> m2 <> 0 ->
     let s0 := tinit (next_pow2 (Z.to_nat c0)) n scripts in
     let cap' := zn (t_cap s0) in
     let bs' := true_sharing (code_sizeof_muggle_ts_memory_pool_head_t + d) in
     ref_ts_init npo2z a bs c cap f ptrs c0 d m1 m2 =
       (code_MUGGLE_OK, zn (t_alloc s0), bs', zn (t_cached s0), cap', zn (t_free s0),
        lfill ptrs cap' (fun i => i) (fun i => blkidx 32 bs' i),
        cap' * bs', cap' * code_sizeof_muggle_ts_memory_pool_head_ptr_t, 1, 2) /\
     pow2cap cap' /\ c0 <= cap' /\ (forall j, t_ptrs s0 j = j)).
Proof. exact (conj gen_ts_init_ref (conj ts_init_refuses ts_init_accepts)). Qed.
Print Assumptions gen_ts_init_matches_model.

Theorem gen_sowr_init_matches_model :
  (forall npo2 a bs c cap f hb a1 a2 m1, u32 a1 -> u32 a2 ->
     gen_sowr_init npo2 a bs c cap f hb a1 a2 m1 = ref_sowr_init npo2 a bs c cap f hb a1 a2 m1) /\
  (forall a bs c cap f hb c0 d m1, 0 <= c0 < two32 -> 0 <= d < two32 ->
     2147483648 < c0 \/ ~ area_fits (npo2z (sowr_cap_arg c0)) (true_sharing (code_sizeof_muggle_sowr_block_head_t + d)) ->
     ref_sowr_init npo2z a bs c cap f hb c0 d m1 = (code_MUGGLE_ERR_INVALID_PARAM, 0, 0, 0, 0, 0, hb, -1, 0)) /\
  (forall a bs c cap f hb c0 d m1 n scripts,
     0 <= c0 <= 2147483648 -> 0 <= d < two32 ->
     area_fits (npo2z (sowr_cap_arg c0)) (true_sharing (code_sizeof_muggle_sowr_block_head_t + d)) -> m1 <> 0 ->
     let s0 := sinit (zn (next_pow2 (Z.to_nat (sowr_cap_arg c0)))) 0 n scripts in
     let cap' := s_cap s0 in
     let bs' := true_sharing (code_sizeof_muggle_sowr_block_head_t + d) in
     ref_sowr_init npo2z a bs c cap f hb c0 d m1 =
       (code_MUGGLE_OK, s_alloc s0, bs', s_cached s0, cap', s_free s0,
        lfill hb cap' (fun i => blkidx 32 bs' i) (fun i => i), cap' * bs', 1) /\
     pow2cap cap' /\ sowr_cap_arg c0 <= cap').
Proof. exact (conj gen_sowr_init_ref (conj sowr_init_refuses sowr_init_accepts)). Qed.
Print Assumptions gen_sowr_init_matches_model.

Theorem gen_ring_init_matches_model :
  (forall npo2 a bs cap hb hu a1 a2 m1, u32 a1 -> u32 a2 ->
     gen_ring_init npo2 a bs cap hb hu a1 a2 m1 = ref_ring_init npo2 a bs cap hb hu a1 a2 m1) /\
  (forall a bs cap hb hu c0 d m1, 0 <= c0 < two32 -> 0 <= d < two32 ->
     2147483648 < c0 \/ d = 0 \/
     ~ area_fits (npo2z (ring_cap_arg c0)) (npo2z (d + code_sizeof_muggle_ring_mpool_block_head_t)) ->
     ref_ring_init npo2z a bs cap hb hu c0 d m1 = (code_MUGGLE_ERR_INVALID_PARAM, 0, 0, 0, hb, hu, -1, 0)) /\
  (forall a bs cap hb hu c0 d m1 n locked scripts,
     0 <= c0 <= 2147483648 -> 1 <= d < two32 ->
     area_fits (npo2z (ring_cap_arg c0)) (npo2z (d + code_sizeof_muggle_ring_mpool_block_head_t)) -> m1 <> 0 ->
     let s0 := rinit (next_pow2 (Z.to_nat (ring_cap_arg c0))) n locked scripts in
     let cap' := zn (r_cap s0) in
     let bs' := npo2z (d + code_sizeof_muggle_ring_mpool_block_head_t) in
     ref_ring_init npo2z a bs cap hb hu c0 d m1 =
       (code_MUGGLE_OK, zn (r_cursor s0), bs', cap',
        lfill hb cap' (fun i => blkidx 32 bs' i) (fun i => i),
        lfill hu cap' (fun i => blkidx 32 bs' i) (fun _ => 0), cap' * bs', 1) /\
     pow2cap cap' /\ 2 <= cap' /\ ring_cap_arg c0 <= cap' /\ (forall j, r_inuse s0 j = 0%nat)).
Proof. exact (conj gen_ring_init_ref (conj ring_init_refuses ring_init_accepts)). Qed.
Print Assumptions gen_ring_init_matches_model.

(* the model's capacity rounding is muggle_next_pow_of_2 (C20 model) wherever the result fits muggle_sync_t *)
Theorem model_capacity_rounding_is_next_pow_of_2 : forall c, 1 <= c <= 2147483648 ->
  zn (next_pow2 (Z.to_nat c)) = npo2z c /\ pow2cap (npo2z c) /\ c <= npo2z c.
Proof. exact (fun c H => conj (next_pow2_npo2z c H) (npo2z_cap c H)). Qed.
Print Assumptions model_capacity_rounding_is_next_pow_of_2.

(* ---- init-time size products (REPAIRED code): for EVERY argument pair init either refuses or requests exactly
   capacity * block_size bytes for blocks that hold head + data_size, every block offset (a 32-bit product in the C
   text) is exact and every ring cell / header word holds its own block index ---- *)
Theorem ts_init_sizes_exact : forall a bs c cap f ptrs c0 d m1 m2,
  0 <= c0 < two32 -> 0 <= d < two32 -> m1 <> 0 -> m2 <> 0 ->
  let cap' := npo2z c0 in
  let bs' := true_sharing (code_sizeof_muggle_ts_memory_pool_head_t + d) in
  gen_ts_init npo2z a bs c cap f ptrs c0 d m1 m2 = (code_MUGGLE_ERR_INVALID_PARAM, a, bs, c, cap, f, ptrs, -1, -1, -1, -1) \/
  exists ptrs',
    gen_ts_init npo2z a bs c cap f ptrs c0 d m1 m2 =
      (code_MUGGLE_OK, 0, bs', 0, cap', 0, ptrs', cap' * bs', cap' * code_sizeof_muggle_ts_memory_pool_head_ptr_t, 1, 2) /\
    1 <= c0 <= cap' /\ pow2cap cap' /\ fits cap' bs' /\ code_sizeof_muggle_ts_memory_pool_head_t + d + 128 <= bs' /\
    (forall i, 0 <= i < cap' -> blkidx 32 bs' i = i) /\
    (zlenZ ptrs = cap' -> forall j, 0 <= j < cap' -> lget ptrs' j = j).
Proof. exact ts_init_sizes_exact_l. Qed.
Print Assumptions ts_init_sizes_exact.

Theorem sowr_init_sizes_exact : forall a bs c cap f hb c0 d m1,
  0 <= c0 < two32 -> 0 <= d < two32 -> m1 <> 0 ->
  let cap' := npo2z (sowr_cap_arg c0) in
  let bs' := true_sharing (code_sizeof_muggle_sowr_block_head_t + d) in
  gen_sowr_init npo2z a bs c cap f hb c0 d m1 = (code_MUGGLE_ERR_INVALID_PARAM, 0, 0, 0, 0, 0, hb, -1, 0) \/
  exists hb',
    gen_sowr_init npo2z a bs c cap f hb c0 d m1 = (code_MUGGLE_OK, 0, bs', cap' - 1, cap', 0, hb', cap' * bs', 1) /\
    sowr_cap_arg c0 <= cap' /\ pow2cap cap' /\ fits cap' bs' /\ code_sizeof_muggle_sowr_block_head_t + d + 128 <= bs' /\
    (forall i, 0 <= i < cap' -> blkidx 32 bs' i = i) /\
    (zlenZ hb = cap' -> forall j, 0 <= j < cap' -> lget hb' j = j).
Proof. exact sowr_init_sizes_exact_l. Qed.
Print Assumptions sowr_init_sizes_exact.

Theorem ring_init_sizes_exact : forall a bs cap hb hu c0 d m1,
  0 <= c0 < two32 -> 0 <= d < two32 -> m1 <> 0 ->
  let cap' := npo2z (ring_cap_arg c0) in
  let bs' := npo2z (d + code_sizeof_muggle_ring_mpool_block_head_t) in
  gen_ring_init npo2z a bs cap hb hu c0 d m1 = (code_MUGGLE_ERR_INVALID_PARAM, 0, 0, 0, hb, hu, -1, 0) \/
  exists hb' hu',
    gen_ring_init npo2z a bs cap hb hu c0 d m1 = (code_MUGGLE_OK, 0, bs', cap', hb', hu', cap' * bs', 1) /\
    ring_cap_arg c0 <= cap' /\ pow2cap cap' /\ fits cap' bs' /\ d + code_sizeof_muggle_ring_mpool_block_head_t <= bs' /\
    (forall i, 0 <= i < cap' -> blkidx 32 bs' i = i) /\
    (zlenZ hb = cap' -> forall j, 0 <= j < cap' -> lget hb' j = j) /\
    (zlenZ hu = cap' -> forall j, 0 <= j < cap' -> lget hu' j = 0).
Proof. exact ring_init_sizes_exact_l. Qed.
Print Assumptions ring_init_sizes_exact.

(* the argument pairs that the unrepaired code accepted with a wrapped size are refused *)
Theorem init_oversize_refused :
  (gen_ts_init npo2z 0 0 0 0 0 [] 8 536870912 1 1 = (code_MUGGLE_ERR_INVALID_PARAM, 0, 0, 0, 0, 0, [], -1, -1, -1, -1) /\
   gen_ts_init npo2z 0 0 0 0 0 [] 1 4294967288 1 1 = (code_MUGGLE_ERR_INVALID_PARAM, 0, 0, 0, 0, 0, [], -1, -1, -1, -1)) /\
  gen_sowr_init npo2z 0 0 0 0 0 [] 8 536870912 1 = (code_MUGGLE_ERR_INVALID_PARAM, 0, 0, 0, 0, 0, [], -1, 0) /\
  (gen_ring_init npo2z 0 0 0 [] [] 2 2147483648 1 = (code_MUGGLE_ERR_INVALID_PARAM, 0, 0, 0, [], [], -1, 0) /\
   gen_ring_init npo2z 0 0 0 [] [] 8 536870912 1 = (code_MUGGLE_ERR_INVALID_PARAM, 0, 0, 0, [], [], -1, 0)).
Proof. exact (conj ts_init_oversize_refused_l (conj sowr_init_oversize_refused_l ring_init_oversize_refused_l)). Qed.
Print Assumptions init_oversize_refused.

(* ---- init in the model's terms (C05/Model.v section 4: ts_init_cap / sowr_init_cap / ring_init_cap, block sizes,
   slab_bytes; printed by both drivers as the "F geom" line): head sizes as in the headers of this run, and for
   every accepted argument pair the regenerated init leaves exactly the model's capacity, block size and slab ---- *)
Theorem model_init_geometry_matches_code :
  (head_ts = code_sizeof_muggle_ts_memory_pool_head_t /\ head_sowr = code_sizeof_muggle_sowr_block_head_t /\
   head_ring = code_sizeof_muggle_ring_mpool_block_head_t /\ cell_ts = code_sizeof_muggle_ts_memory_pool_head_ptr_t) /\
  (forall a bs c cap f ptrs c0 d m1 m2 cap',
     1 <= c0 <= 2147483648 -> 1 <= d < two32 -> area_fits (npo2z c0) (true_sharing (head_ts + d)) -> m1 <> 0 -> m2 <> 0 ->
     ts_init_cap (Z.to_nat c0) = Some cap' ->
     ref_ts_init npo2z a bs c cap f ptrs c0 d m1 m2 =
       (code_MUGGLE_OK, 0, ts_block_size d, 0, zn cap', 0,
        lfill ptrs (zn cap') (fun i => i) (fun i => blkidx 32 (ts_block_size d) i),
        slab_bytes (zn cap') (ts_block_size d), zn cap' * cell_ts, 1, 2)) /\
  (forall a bs c cap f hb c0 d m1 cap',
     0 <= c0 <= 2147483648 -> 0 <= d < two32 -> area_fits (npo2z (sowr_cap_arg c0)) (true_sharing (head_sowr + d)) -> m1 <> 0 ->
     sowr_init_cap (Z.to_nat c0) = Some cap' ->
     ref_sowr_init npo2z a bs c cap f hb c0 d m1 =
       (code_MUGGLE_OK, 0, sowr_block_size d, zn cap' - 1, zn cap', 0,
        lfill hb (zn cap') (fun i => blkidx 32 (sowr_block_size d) i) (fun i => i),
        slab_bytes (zn cap') (sowr_block_size d), 1)) /\
  (forall a bs cap hb hu c0 d m1 cap',
     0 <= c0 <= 2147483648 -> 1 <= d -> d + head_ring <= 2147483648 ->
     area_fits (npo2z (ring_cap_arg c0)) (npo2z (d + head_ring)) -> m1 <> 0 ->
     ring_init_cap (Z.to_nat c0) = Some cap' ->
     ref_ring_init npo2z a bs cap hb hu c0 d m1 =
       (code_MUGGLE_OK, 0, ring_block_size d, zn cap',
        lfill hb (zn cap') (fun i => blkidx 32 (ring_block_size d) i) (fun i => i),
        lfill hu (zn cap') (fun i => blkidx 32 (ring_block_size d) i) (fun _ => 0),
        slab_bytes (zn cap') (ring_block_size d), 1)).
Proof.
  exact (conj model_geometry_consts (conj ts_init_model_geometry (conj sowr_init_model_geometry ring_init_model_geometry))).
Qed.
Print Assumptions model_init_geometry_matches_code.

(* ---- "the same OR AN OVERLAPPING block": user regions of data_size bytes, head bytes into blocks at stride
   block_size, are pairwise disjoint and inside the slab of capacity * block_size bytes; and the three init functions
   establish the premises (block_size >= head + data_size, slab = capacity * block_size) whenever the data area is
   below 4 GiB (above: see the _sizes_refuted witnesses) ---- *)
Theorem pool_blocks_disjoint_inside_slab :
  (forall cap bs hd d i j,
     0 <= hd -> 0 <= d -> hd + d <= bs -> 0 <= i < cap -> 0 <= j < cap -> i <> j ->
     let lo := fun k => k * bs + hd in
     (lo i + d <= lo j \/ lo j + d <= lo i) /\ 0 <= lo i /\ lo i + d <= cap * bs) /\
  (forall c0 d, 1 <= c0 <= 2147483648 -> 1 <= d ->
     let cap := npo2z c0 in let bs := true_sharing (head_ts + d) in
     cap * bs < two32 ->
     ts_block_size d = bs /\ slab_bytes cap bs = cap * bs /\ head_ts + d <= bs /\
     forall i j, 0 <= i < cap -> 0 <= j < cap -> i <> j ->
       (i * bs + head_ts + d <= j * bs + head_ts \/ j * bs + head_ts + d <= i * bs + head_ts) /\
       0 <= i * bs + head_ts /\ i * bs + head_ts + d <= slab_bytes cap bs) /\
  (forall c0 d, 0 <= c0 <= 2147483648 -> 0 <= d ->
     let cap := npo2z (sowr_cap_arg c0) in let bs := true_sharing (head_sowr + d) in
     cap * bs < two32 ->
     sowr_block_size d = bs /\ slab_bytes cap bs = cap * bs /\ head_sowr + d <= bs /\
     forall i j, 0 <= i < cap -> 0 <= j < cap -> i <> j ->
       (i * bs + head_sowr + d <= j * bs + head_sowr \/ j * bs + head_sowr + d <= i * bs + head_sowr) /\
       0 <= i * bs + head_sowr /\ i * bs + head_sowr + d <= slab_bytes cap bs) /\
  (forall c0 d, 0 <= c0 <= 2147483648 -> 1 <= d -> d + head_ring <= 2147483648 ->
     let cap := npo2z (ring_cap_arg c0) in let bs := ring_block_size d in
     cap * bs < two32 ->
     slab_bytes cap bs = cap * bs /\ head_ring + d <= bs /\
     forall i j, 0 <= i < cap -> 0 <= j < cap -> i <> j ->
       (i * bs + head_ring + d <= j * bs + head_ring \/ j * bs + head_ring + d <= i * bs + head_ring) /\
       0 <= i * bs + head_ring /\ i * bs + head_ring + d <= slab_bytes cap bs).
Proof.
  exact (conj blocks_disjoint_inside_slab (conj ts_blocks_disjoint_inside (conj sowr_blocks_disjoint_inside ring_blocks_disjoint_inside))).
Qed.
Print Assumptions pool_blocks_disjoint_inside_slab.
