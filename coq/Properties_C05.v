(* C05 — property theorems only (proved in C05/Proofs*.v), instantiated with the memory orders
   re-extracted from the code on this run (gen/Params_C05.v).  Every theorem quantifies over ALL
   schedules (lists of (thread, choice); choice 1 = spurious weak-CAS failure), any number of threads,
   any capacity, any scripts. *)
From MV Require Import C05.Model C05.ProofsSowr C05.ProofsRing C05.ProofsTs C05.ProofsTsInv C05.ProofsTsVis gen.Params_C05.

(* side condition on the code's memory orders (ts pool): acquire load / release store of free_idx,
   acquire test-and-set / release clear of the free spinlock *)
Theorem c05_memory_orders_sufficient : ts_mo_ok code_params = true.
Proof. vm_compute. reflexivity. Qed.
Print Assumptions c05_memory_orders_sufficient.

(* ---- sowr pool, documented usage (Appendix B): allocations only by thread a, frees only by thread f,
   free b releases b and everything allocated before it; capacity a power of two dividing 2^32;
   the run may start at any multiple [base] of the capacity (uint32 wrap of alloc_idx included) ---- *)
Theorem sowr_no_double_handout : forall cap base a f n scripts sched,
  sowr_geometry cap base -> sowr_usage a f scripts ->
  let s := sowr_run code_params cap base n scripts sched in
  s_dups s = 0%nat /\ NoDup (map fst (s_out s)) /\ (s_A s - s_Fl s <= cap - 1)%Z.
Proof.
  intros cap base a f n scripts sched Hg Hu s. split.
  - exact (sowr_no_double_handout_all code_params cap base a f n scripts sched Hg Hu).
  - exact (sowr_outstanding_distinct code_params cap base a f n scripts sched Hg Hu).
Qed.
Print Assumptions sowr_no_double_handout.

Theorem sowr_exhaustion_exact : forall cap base a f n scripts sched,
  sowr_geometry cap base -> sowr_usage a f scripts ->
  s_badnull (sowr_run code_params cap base n scripts sched) = 0%nat.
Proof. exact (sowr_exhaustion_exact_all code_params). Qed.
Print Assumptions sowr_exhaustion_exact.

Theorem sowr_serves_forever : forall cap base a f n scripts sched r,
  sowr_geometry cap base -> sowr_usage a f scripts ->
  let s := sowr_run code_params cap base n scripts sched in
  (a < s_n s)%nat -> s_pc (s_thr s a) = SBegin -> s_script (s_thr s a) = OpAlloc :: r ->
  (s_A s - s_Fl s < cap - 1)%Z ->
  let s3 := exec ssys (sstep code_params) s [(a, 0); (a, 0); (a, 0)]%nat in
  (s_A s + 1 <= s_A s3)%Z /\ s_dups s3 = 0%nat /\ s_badnull s3 = 0%nat.
Proof. exact (sowr_serves_forever_all code_params). Qed.
Print Assumptions sowr_serves_forever.

(* ---- ring pool: allocations serialised (threadsafe_alloc, or plain alloc by one thread a) ---- *)
Theorem ringpool_no_double_handout : forall cap n locked a scripts sched,
  ring_usage a locked scripts ->
  let s := ring_run code_params cap n locked scripts sched in
  r_dups s = 0%nat /\ NoDup (map fst (r_out s)) /\ (forall b, In b (map fst (r_out s)) -> r_inuse s b = 1%nat).
Proof. exact (ringpool_no_double_handout_all code_params). Qed.
Print Assumptions ringpool_no_double_handout.

(* ---- ts pool, one allocator thread, any number of freers ---- *)
Theorem ts_single_allocator_ok : forall cap n scripts a sched,
  (0 < cap)%nat -> single_allocator a n scripts -> TsOk cap (ts_run code_params cap n scripts sched).
Proof. exact (ts_single_allocator_ok_all code_params). Qed.
Print Assumptions ts_single_allocator_ok.

(* ---- ts pool, many allocators: known-finding pattern (DESIGN.md 3.2) ----
   full statement (REFUTED):  forall sched, t_dups (ts_run code_params cap n scripts sched) = 0.
   known class: >= 2 allocator threads and a commit (successful CAS / cached_free_pos write-back) inside
   another allocator's racy window (ghost flag t_race, windows W1-W3 of C05/ProofsTs.v). *)
Theorem ts_no_double_handout_partial : forall cap n scripts sched,
  (0 < cap)%nat ->
  let s := ts_run code_params cap n scripts sched in
  in_known_class scripts n s = false -> t_dups s = 0%nat /\ NoDup (map fst (t_out s)).
Proof. exact (ts_no_double_handout_partial_all code_params). Qed.
Print Assumptions ts_no_double_handout_partial.

Theorem ts_aba_refuted : exists sched,
  let s := ts_run code_params 4 2 aba_scripts sched in
  in_known_class aba_scripts 2 s = true /\ t_dups s <> 0%nat.
Proof. exists aba_sched. vm_compute. split; [reflexivity|discriminate]. Qed.
Print Assumptions ts_aba_refuted.

(* the racy cached_free_pos alone (no ABA) also leads to a double hand-out: the class is wider than W1 *)
Theorem ts_cache_race_refuted : exists sched,
  let s := ts_run code_params 4 2 cache_scripts sched in
  in_known_class cache_scripts 2 s = true /\ t_dups s <> 0%nat.
Proof. exists cache_sched. vm_compute. split; [reflexivity|discriminate]. Qed.
Print Assumptions ts_cache_race_refuted.

(* exhaustion exactness does NOT extend to many allocators either (second known class, ts-stale-null):
   with two allocator threads, without any racy window being hit and without a double hand-out, NULL is
   returned while a single block is out of a ring of capacity 4 *)
Theorem ts_stale_null_refuted : exists sched,
  let s := ts_run code_params 4 2 stale_scripts sched in
  count_allocators stale_scripts 2 = 2%nat /\ t_race s = false /\ t_dups s = 0%nat /\
  t_badnull s <> 0%nat /\ (t_A s - t_F s < 4 - 1)%nat.
Proof. exists stale_sched. vm_compute. repeat split; try reflexivity; try discriminate. lia. Qed.
Print Assumptions ts_stale_null_refuted.

(* ---- visibility (view discipline of DESIGN.md 4.2) ---- *)

(* ts pool, one allocator thread, any number of freers: with the memory orders found in the code every plain
   read of a ptrs[] entry by the allocator and every lock-protected write of one is covered by the thread's
   view (the ghost counter of uncovered accesses stays 0), for every schedule *)
Theorem ts_reads_covered : forall cap n scripts a sched,
  (0 < cap)%nat -> single_allocator a n scripts ->
  t_uncov (ts_run code_params cap n scripts sched) = 0%nat.
Proof.
  intros cap n scripts a sched.
  exact (ts_reads_covered_all code_params cap n scripts a sched c05_memory_orders_sufficient).
Qed.
Print Assumptions ts_reads_covered.

(* many allocators: visibility is REFUTED even outside the known class (no racy window, no double hand-out):
   an allocator that never synchronised reads a ptrs[] entry written by a free, because cached_free_pos is
   shared without synchronisation.  full statement (refuted):
     forall sched, in_known_class scripts n s = false -> t_uncov s = 0 *)
Theorem ts_multi_visibility_refuted : exists sched,
  let s := ts_run code_params 4 2 vis_scripts sched in
  in_known_class vis_scripts 2 s = false /\ t_dups s = 0%nat /\ t_uncov s <> 0%nat.
Proof. exists vis_sched. vm_compute. repeat split; try reflexivity. discriminate. Qed.
Print Assumptions ts_multi_visibility_refuted.

(* sowr pool: its plain fields alloc_idx / cached_free_pos are touched by the allocator thread only (nothing
   plain crosses threads inside the pool; free_idx is atomic and relaxed) *)
Theorem sowr_plain_fields_private : forall cap base a f n scripts sched,
  sowr_geometry cap base -> sowr_usage a f scripts ->
  forall t, t <> a -> touches_private (s_thr (sowr_run code_params cap base n scripts sched) t) = false.
Proof. exact (sowr_plain_fields_private_all code_params). Qed.
Print Assumptions sowr_plain_fields_private.

(* ring pool: the plain cursor and the plain in_use = 1 store are touched by at most one thread at a time,
   under the write spinlock (threadsafe_alloc) or by the single allocating thread *)
Theorem ring_cursor_exclusive : forall cap n locked a scripts sched,
  ring_usage a locked scripts ->
  let s := ring_run code_params cap n locked scripts sched in
  (forall t u, in_body (r_pc (r_thr s t)) = true -> in_body (r_pc (r_thr s u)) = true -> t = u) /\
  (r_locked s = true -> forall t, in_body (r_pc (r_thr s t)) = true -> r_lock s = true) /\
  (r_locked s = false -> forall t, in_body (r_pc (r_thr s t)) = true -> t = a).
Proof. exact (ring_cursor_exclusive_all code_params). Qed.
Print Assumptions ring_cursor_exclusive.

(* ring pool, exclusive ownership in every history including the all-owned state: a block is marked and
   returned only after its in_use flag was loaded as 0, when it is neither outstanding nor held by another
   thread; an allocation that finds a flag set does not return but scans on (it returns only after a free) *)
Theorem ring_takes_only_free_blocks : forall cap n locked a scripts sched,
  ring_usage a locked scripts ->
  let s := ring_run code_params cap n locked scripts sched in
  (forall t blk, r_pc (r_thr s t) = RAfter blk 0 -> r_inuse s blk = 0%nat /\ ~ In blk (map fst (r_out s))) /\
  (forall t b, held (r_pc (r_thr s t)) = Some b -> r_inuse s b = 1%nat /\ ~ In b (map fst (r_out s))) /\
  (forall t u b, held (r_pc (r_thr s t)) = Some b -> held (r_pc (r_thr s u)) = Some b -> t = u).
Proof. exact (ring_takes_only_free_blocks_all code_params). Qed.
Print Assumptions ring_takes_only_free_blocks.

Theorem ring_alloc_does_not_return_on_owned_block : forall s t blk v,
  (t < r_n s)%nat -> r_pc (r_thr s t) = RAfter blk (S v) ->
  exists s', rstep code_params s t 0 = Some (s', LPlain []) /\ r_pc (r_thr s' t) = RLoad (r_cursor s) /\
             r_out s' = r_out s /\ r_inuse s' = r_inuse s /\ r_dups s' = r_dups s.
Proof. exact (ring_alloc_scans_on code_params). Qed.
Print Assumptions ring_alloc_does_not_return_on_owned_block.
