(* C05 — property theorems only (proved in C05/Proofs*.v), instantiated with the memory orders
   re-extracted from the code on this run (gen/Params_C05.v). *)
From MV Require Import C05.Model C05.ProofsTs gen.Params_C05.

(* side condition on the code's memory orders (ts pool): acquire load / release store of free_idx,
   acquire test-and-set / release clear of the free spinlock *)
Theorem c05_memory_orders_sufficient : ts_mo_ok code_params = true.
Proof. vm_compute. reflexivity. Qed.
Print Assumptions c05_memory_orders_sufficient.

(* many allocators: the property is refuted inside the known class (witness: the ABA schedule) *)
Theorem ts_aba_refuted : exists sched,
  let s := ts_run code_params 4 2 aba_scripts sched in
  in_known_class aba_scripts 2 s = true /\ t_dups s <> 0%nat.
Proof. exists aba_sched. vm_compute. split; [reflexivity|discriminate]. Qed.
Print Assumptions ts_aba_refuted.
