(* C13 — the read callback is called for every registered context the kernel reported readable:
   select (the list walk reaches every registered context in the pass) and poll (in this pass, or
   the slot is untouched and the descriptor is still readable at the next kernel call). *)
From MV Require Import C13.Model C13.ProofsLife C13.ProofsIso.
From Coq Require Import Permutation.

(* ------------------------------------------------------------------ projections through edge / add_ctx *)
Lemma clist_edge : forall x s, clist (edge x s) = clist s.
Proof. intros. unfold edge. destruct (_ && _); auto. Qed.
Lemma trigs_edge : forall x s, trigs (edge x s) = trigs s.
Proof. intros. unfold edge. destruct (_ && _); auto. Qed.
Lemma phases_edge : forall x s, phases (edge x s) = phases s.
Proof. intros. unfold edge. destruct (_ && _); auto. Qed.
Lemma tr_edge : forall x s, tr (edge x s) = tr s.
Proof. intros. unfold edge. destruct (_ && _); auto. Qed.
Lemma cx_edge : forall x s, cx (edge x s) = cx s.
Proof. intros. unfold edge. destruct (_ && _); auto. Qed.
Lemma sset_edge : forall x s, sset (edge x s) = sset s.
Proof. intros. unfold edge. destruct (_ && _); auto. Qed.
Lemma ereg_edge : forall x s, ereg (edge x s) = ereg s.
Proof. intros. unfold edge. destruct (_ && _); auto. Qed.
Lemma bk_edge : forall x s, bk (edge x s) = bk s.
Proof. intros. unfold edge. destruct (_ && _); auto. Qed.

Lemma add_ctx_other : forall y s,
  trigs (fst (add_ctx y s)) = trigs s /\ phases (fst (add_ctx y s)) = phases s /\
  tr (fst (add_ctx y s)) = tr s /\ cx (fst (add_ctx y s)) = cx s /\
  (clist (fst (add_ctx y s)) = clist s \/ clist (fst (add_ctx y s)) = clist s ++ [y]).
Proof.
  intros y s. unfold add_ctx, backend_add. simpl. destruct (bk s); simpl.
  - repeat split; auto.
  - destruct (Nat.eqb (length (parr s)) (pcap s)); simpl; repeat split; auto.
  - match goal with |- context [if ?c then _ else _] => destruct c end; simpl;
      rewrite ?trigs_edge, ?phases_edge, ?tr_edge, ?cx_edge, ?clist_edge; simpl; repeat split; auto.
Qed.

(* ------------------------------------------------------------------ what an action does to trace / triggers / list length *)
Definition is_add (a : action) : bool := match a with AAdd _ => true | _ => false end.

Lemma count_adds_cons : forall a l, count_adds (a :: l) = (if is_add a then 1 else 0) + count_adds l.
Proof. intros. unfold count_adds. simpl. destruct a; simpl; auto. Qed.

Lemma count_adds_app : forall l1 l2, count_adds (l1 ++ l2) = count_adds l1 + count_adds l2.
Proof. intros. unfold count_adds. rewrite filter_app, app_length. auto. Qed.

Lemma do_act_facts : forall a s,
  trigs (do_act a s) = trigs s /\ phases (do_act a s) = phases s /\
  (exists r, tr (do_act a s) = EAct a r :: tr s) /\
  length (clist (do_act a s)) <= length (clist s) + (if is_add a then 1 else 0).
Proof.
  intros a s. destruct a; unfold do_act; simpl is_add.
  - destruct (can_write (cx s y)); [destruct (Nat.eqb k 0)|]; simpl;
      rewrite ?trigs_edge, ?phases_edge, ?tr_edge, ?clist_edge; simpl; repeat split; eauto; lia.
  - destruct (cpopen (cx s y) && negb (ceof (cx s y))); simpl;
      rewrite ?trigs_edge, ?phases_edge, ?tr_edge, ?clist_edge; simpl; repeat split; eauto; lia.
  - destruct (cpopen (cx s y)); [destruct (is_tcp (cx s y) && ceof (cx s y))|]; simpl;
      rewrite ?trigs_edge, ?phases_edge, ?tr_edge, ?clist_edge; simpl; repeat split; eauto; lia.
  - destruct (cadded (cx s y) || Nat.eqb y 0); [simpl; repeat split; eauto; lia|].
    set (s0 := updc y _ s).
    destruct (add_ctx_other y s0) as (A & B & C & D & E).
    destruct (add_ctx y s0) as [s1 ok]. simpl in *.
    rewrite A, B, C. repeat split; eauto.
    destruct E as [-> | ->]; rewrite ?app_length; simpl; lia.
  - destruct (cclosed (cx s y)); [|destruct (negb (is_pipe (cx s y)))]; simpl;
      rewrite ?trigs_edge, ?phases_edge, ?tr_edge, ?clist_edge; simpl; repeat split; eauto; lia.
  - simpl. rewrite ?trigs_edge, ?phases_edge, ?tr_edge, ?clist_edge. simpl. repeat split; eauto; lia.
  - simpl. rewrite ?trigs_edge, ?phases_edge, ?tr_edge, ?clist_edge. simpl. repeat split; eauto; lia.
  - destruct (can_reset (cx s y)); simpl;
      rewrite ?trigs_edge, ?phases_edge, ?tr_edge, ?clist_edge; simpl; repeat split; eauto; lia.
Qed.

Definition tg (s s' : st) : Prop := exists t, tr s' = t ++ tr s.
Lemma tg_refl : forall s, tg s s. Proof. intros; exists []; auto. Qed.
Lemma tg_trans : forall a b c, tg a b -> tg b c -> tg a c.
Proof. intros a b c [t1 H1] [t2 H2]. exists (t2 ++ t1). rewrite H2, H1, app_assoc. auto. Qed.

Lemma do_acts_facts : forall l s,
  trigs (do_acts l s) = trigs s /\ phases (do_acts l s) = phases s /\ tg s (do_acts l s) /\
  length (clist (do_acts l s)) <= length (clist s) + count_adds l.
Proof.
  induction l as [|a l IH]; intros s; simpl.
  - repeat split; auto. apply tg_refl. unfold count_adds; simpl; lia.
  - destruct (do_act_facts a s) as (A & B & [r C] & D).
    destruct (IH (do_act a s)) as (A' & B' & C' & D').
    rewrite A', B', A, B. repeat split; auto.
    + eapply tg_trans; [|apply C']. exists [EAct a r]. auto.
    + rewrite count_adds_cons. lia.
Qed.

Lemma count_adds_partition : forall p (l : list trigger),
  count_adds (map tact (filter p l)) + count_adds (map tact (filter (fun t => negb (p t)) l)) =
  count_adds (map tact l).
Proof.
  induction l as [|t l IH]; simpl; auto.
  destruct (p t); simpl; rewrite !count_adds_cons; lia.
Qed.

Definition meas (s : st) : nat :=
  length (clist s) + count_adds (map tact (trigs s)) + count_adds (concat (phases s)).

Lemma walk_fuel_meas : forall s, walk_fuel s = S (meas s).
Proof. intros. unfold walk_fuel, meas. auto. Qed.

Lemma cb_read_facts : forall x s,
  meas (cb_read x s) <= meas s /\
  exists t, tr (cb_read x s) = t ++ ERead x (cq (cx s x)) :: tr s.
Proof.
  intros x s. unfold cb_read.
  set (c := cx s x). set (off := coff c + cq c).
  set (s2 := emit (ERead x (cq c)) (updc x _ s)).
  set (fire := filter (trig_hit x off) (trigs s2)).
  set (keep := filter (fun t => negb (trig_hit x off t)) (trigs s2)).
  destruct (do_acts_facts (map tact fire) (set_trigs keep s2)) as (A & B & [t C] & D).
  split.
  - unfold meas. rewrite A, B. simpl in *.
    pose proof (count_adds_partition (trig_hit x off) (trigs s)) as P.
    fold fire keep in P. unfold fire, keep in *. simpl in *. lia.
  - exists t. rewrite C. auto.
Qed.

Lemma tg_cb_read : forall x s, tg s (cb_read x s).
Proof. intros. destruct (cb_read_facts x s) as [_ [t T]]. exists (t ++ [ERead x (cq (cx s x))]). rewrite T, <- app_assoc. auto. Qed.

Lemma tg_handle_wakeup : forall s, tg s (handle_wakeup s).
Proof.
  intros s. unfold handle_wakeup.
  set (s1 := emit EWake (set_wk 0 s)).
  assert (T1 : tg s s1) by (exists [EWake]; auto).
  destruct (idle s1); auto.
  destruct (phases (set_idle false s1)) as [|p r].
  - eapply tg_trans; [apply T1|]. destruct (do_act_facts AExit (set_idle false s1)) as (_ & _ & [r C] & _).
    exists [EAct AExit r]. rewrite C. auto.
  - eapply tg_trans; [apply T1|]. destruct (do_acts_facts p (set_phases r (set_idle false s1))) as (_ & _ & C & _). apply C.
Qed.

(* ------------------------------------------------------------------ select: the walk reaches every registered context *)
Lemma rm_notin : forall y l, ~ In y l -> rm y l = l.
Proof.
  induction l as [|a l IH]; intros H; simpl; auto.
  destruct (Nat.eqb a y) eqn:E.
  - apply Nat.eqb_eq in E. subst. exfalso. apply H. left; auto.
  - simpl. f_equal. apply IH. intro. apply H. right; auto.
Qed.

Lemma nth_error_rm : forall l i y, NoDup l -> nth_error l i = Some y ->
  (forall k, k < i -> nth_error (rm y l) k = nth_error l k) /\
  (forall j, i <= j -> nth_error (rm y l) j = nth_error l (S j)).
Proof.
  induction l as [|a l IH]; intros i y ND H; [destruct i; discriminate|].
  inversion ND as [|? ? Ha ND']; subst.
  destruct i as [|i]; simpl in H.
  - inversion H; subst a. simpl. rewrite Nat.eqb_refl. simpl. rewrite rm_notin by auto.
    split; [intros k Hk; lia|auto].
  - assert (Hne : a <> y) by (intro; subst; apply Ha; eapply nth_error_In; eauto).
    simpl. apply Nat.eqb_neq in Hne. rewrite Hne. simpl.
    destruct (IH i y ND' H) as [A B]. split.
    + intros [|k] Hk; simpl; auto. apply A. lia.
    + intros [|j] Hj; [lia|]. simpl. apply B. lia.
Qed.

Lemma tg_sel_walk : forall f i rep s, tg s (sel_walk f i rep s).
Proof.
  induction f as [|f IH]; intros i rep s; simpl; [apply tg_refl|].
  destruct (nth_error (clist s) i) as [x|]; [|apply tg_refl].
  set (s1 := if negb (Nat.eqb (lookup x rep) 0) then cb_read x s else s).
  assert (T1 : tg s s1) by (unfold s1; destruct (negb _); [apply tg_cb_read|apply tg_refl]).
  destruct (cflag (cx s1 x)).
  - eapply tg_trans; [apply T1|]. eapply tg_trans; [|apply IH]. exists [EClose x]. auto.
  - eapply tg_trans; [apply T1|]. eapply tg_trans; [|apply IH]. exists []. auto.
Qed.

Lemma sel_walk_reach : forall f i rep s x j, Inv s -> bk s = BSelect ->
  nth_error (clist s) j = Some x -> i <= j -> Nat.eqb (lookup x rep) 0 = false -> meas s - i < f ->
  exists t k, tr (sel_walk f i rep s) = t ++ tr s /\ In (ERead x k) t.
Proof.
  induction f as [|f IH]; intros i rep s x j I B Nx Hij Hl Hf; [lia|].
  assert (Hlen : j < length (clist s)) by (apply nth_error_Some; congruence).
  simpl.
  destruct (nth_error (clist s) i) as [y|] eqn:Ny;
    [|apply nth_error_None in Ny; lia].
  pose proof (nth_error_In _ _ Ny) as Hy.
  set (s1 := if negb (Nat.eqb (lookup y rep) 0) then cb_read y s else s).
  assert (I1 : Inv s1 /\ ext s s1 /\ meas s1 <= meas s).
  { unfold s1. destruct (negb _).
    - destruct (Inv_cb_read y s I Hy) as (A & C & _). destruct (cb_read_facts y s) as [M _]. auto.
    - split; [auto|split; [apply ext_refl|lia]]. }
  destruct I1 as (I1 & E1 & M1).
  assert (B1 : bk s1 = BSelect) by (rewrite (e_bk _ _ E1); auto).
  destruct (e_clist _ _ E1) as [l1 L1].
  assert (Ny1 : nth_error (clist s1) i = Some y).
  { rewrite L1, nth_error_app1; auto. apply nth_error_Some. congruence. }
  assert (Nx1 : nth_error (clist s1) j = Some x) by (rewrite L1, nth_error_app1; auto).
  assert (Hlen1 : j < length (clist s1)) by (apply nth_error_Some; congruence).
  assert (Hm1 : length (clist s1) <= meas s1) by (unfold meas; lia).
  destruct (Nat.eq_dec i j) as [->|Hne].
  - (* the cursor is on x: it is reported, so its read callback runs now *)
    assert (y = x) by congruence. subst y.
    assert (exists t k, tr s1 = t ++ tr s /\ In (ERead x k) t) as (t1 & k & T1 & K1).
    { unfold s1. rewrite Hl. simpl. destruct (cb_read_facts x s) as [_ [t T]].
      exists (t ++ [ERead x (cq (cx s x))]), (cq (cx s x)). split.
      - rewrite T, <- app_assoc. auto.
      - apply in_or_app. right; left; auto. }
    destruct (cflag (cx s1 x)).
    + match goal with |- context [sel_walk f j rep ?s2] => destruct (tg_sel_walk f j rep s2) as [t2 T2] end.
      exists (t2 ++ EClose x :: t1), k. split.
      * rewrite T2. simpl. rewrite T1, <- app_assoc. auto.
      * apply in_or_app. right; right; auto.
    + match goal with |- context [sel_walk f (S j) rep ?s2] => destruct (tg_sel_walk f (S j) rep s2) as [t2 T2] end.
      exists (t2 ++ t1), k. split.
      * rewrite T2. simpl. rewrite T1, app_assoc. auto.
      * apply in_or_app; auto.
  - assert (Hlt : i < j) by lia.
    destruct (e_tr _ _ E1) as [t1 T1].
    destruct (cflag (cx s1 y)) eqn:F.
    + (* y is closed and removed: x moves one position down *)
      set (s2 := cb_close y (set_sset (rm y (sset s1)) s1)).
      set (s3 := set_clist (rm y (clist s2)) s2).
      assert (I3 : Inv s3).
      { unfold s3, s2. eapply (Inv_close_gen y (set_sset (rm y (sset s1)) s1)); simpl; auto.
        - eapply Inv_view; [apply sv_set_sset|auto].
        - eapply nth_error_In; eauto.
        - intros z. destruct (Nat.eqb z y) eqn:E; auto. apply Nat.eqb_eq in E; subst; auto.
        - intros z. destruct (Nat.eqb z y); auto.
        - rewrite B1. discriminate.
        - rewrite B1. discriminate. }
      destruct (nth_error_rm (clist s1) i y (i_nodup s1 I1) Ny1) as [_ R].
      assert (Nx3 : nth_error (clist s3) (j - 1) = Some x).
      { unfold s3, s2. simpl. rewrite R by lia. replace (S (j - 1)) with j by lia. auto. }
      assert (M3 : meas s3 < meas s1).
      { unfold meas, s3, s2. simpl.
        assert (length (rm y (clist s1)) < length (clist s1)); [|lia].
        pose proof (rm_perm y (clist s1) (i_nodup s1 I1) (nth_error_In _ _ Ny1)) as P.
        apply Permutation_length in P. simpl in P. lia. }
      destruct (IH i rep s3 x (j - 1) I3 B1 Nx3 ltac:(lia) Hl ltac:(lia)) as (t & k & T & K).
      exists (t ++ EClose y :: t1), k. split.
      * change (set_clist (rm y (clist s1)) s2) with s3. rewrite T. unfold s3, s2. simpl. rewrite T1, <- app_assoc. auto.
      * apply in_or_app; auto.
    + set (s2 := set_sset (add_set y (sset s1)) s1).
      assert (I2 : Inv s2) by (eapply Inv_view; [apply sv_set_sset|auto]).
      destruct (IH (S i) rep s2 x j I2 B1 Nx1 ltac:(lia) Hl) as (t & k & T & K).
      { unfold meas, s2 in *. simpl. lia. }
      exists (t ++ t1), k. split.
      * fold s2. rewrite T. unfold s2. simpl. rewrite T1, app_assoc. auto.
      * apply in_or_app; auto.
Qed.

(* select: every registered context reported readable gets its read callback in that pass *)
Theorem read_dispatch_select : forall rep n s, Inv s -> bk s = BSelect -> 0 < n ->
  forall x, In x (clist s) -> Nat.eqb (lookup x rep) 0 = false ->
  exists t k, tr (dispatch_select rep n s) = t ++ tr s /\ In (ERead x k) t.
Proof.
  intros rep n s I B Hn x Hx Hl. unfold dispatch_select.
  apply Nat.ltb_lt in Hn. rewrite Hn.
  assert (I1 : Inv (set_sset [] s)) by (eapply Inv_view; [apply sv_set_sset|auto]).
  set (s2 := if negb (Nat.eqb (lookup 0 rep) 0) then handle_wakeup (set_sset [] s) else set_sset [] s).
  assert (H2 : Inv s2 /\ ext (set_sset [] s) s2).
  { unfold s2. destruct (negb _); [apply Inv_handle_wakeup; auto|split; auto; apply ext_refl]. }
  destruct H2 as [I2 E2].
  set (s3 := set_sset (add_set 0 (sset s2)) s2).
  assert (I3 : Inv s3) by (eapply Inv_view; [apply sv_set_sset|auto]).
  assert (B3 : bk s3 = BSelect) by (unfold s3; simpl; rewrite (e_bk _ _ E2); auto).
  assert (Hx3 : In x (clist s3)) by (unfold s3; simpl; eapply ext_In_clist; [apply E2|auto]).
  destruct (In_nth_error _ _ Hx3) as [j Nj].
  destruct (sel_walk_reach (walk_fuel s3) 0 rep s3 x j I3 B3 Nj ltac:(lia) Hl) as (t & k & T & K).
  { rewrite walk_fuel_meas. lia. }
  destruct (e_tr _ _ E2) as [t2 T2].
  exists (t ++ t2), k. split.
  - rewrite T. unfold s3. simpl. rewrite T2. simpl. rewrite app_assoc. auto.
  - apply in_or_app; auto.
Qed.

(* ------------------------------------------------------------------ descriptor state only moves one way *)
(* except for a context's own read callback, nothing takes pending bytes away, re-opens a peer or
   undoes a shutdown *)
Definition fdm (c c' : cst) : Prop :=
  ckind c' = ckind c /\ cq c <= cq c' /\ (ceof c = true -> ceof c' = true) /\
  (cpopen c' = true -> cpopen c = true) /\ (csht c = true -> csht c' = true) /\ (crst c = true -> crst c' = true).

Lemma fdm_refl : forall c, fdm c c.
Proof. intros; repeat split; auto. Qed.
Lemma fdm_trans : forall a b c, fdm a b -> fdm b c -> fdm a c.
Proof. intros a b c (A1 & A2 & A3 & A4 & A5 & A6) (B1 & B2 & B3 & B4 & B5 & B6). repeat split; auto; try congruence; lia. Qed.

Lemma ev_in_fdm : forall c c', fdm c c' -> ev_in c = true -> ev_in c' = true.
Proof.
  intros c c' (K & Q & E & P & S & R) H. unfold ev_in in *. rewrite K.
  destruct (ckind c).
  - apply Nat.ltb_lt in H. apply Nat.ltb_lt. lia.
  - apply Bool.orb_true_iff in H. destruct H as [H|H].
    + apply Bool.orb_true_iff in H. destruct H as [H|H].
      * apply Nat.ltb_lt in H. assert (Nat.ltb 0 (cq c') = true) as -> by (apply Nat.ltb_lt; lia). auto.
      * rewrite (E H). rewrite Bool.orb_true_r. auto.
    + rewrite (S H). rewrite Bool.orb_true_r. auto.
  - apply Bool.orb_true_iff in H. destruct H as [H|H].
    + apply Bool.orb_true_iff in H. destruct H as [H|H].
      * apply Nat.ltb_lt in H. assert (Nat.ltb 0 (cq c') = true) as -> by (apply Nat.ltb_lt; lia). auto.
      * rewrite (E H). rewrite Bool.orb_true_r. auto.
    + rewrite (S H). rewrite Bool.orb_true_r. auto.
Qed.

Lemma ev_hup_fdm : forall c c', fdm c c' -> ev_hup c = true -> ev_hup c' = true.
Proof.
  intros c c' (K & Q & E & P & S & R) H. unfold ev_hup in *. rewrite K.
  destruct (ckind c); auto.
  - apply Bool.orb_true_iff in H. destruct H as [H|H].
    + apply Bool.negb_true_iff in H. destruct (cpopen c') eqn:X; auto. rewrite (P eq_refl) in H. discriminate.
    + rewrite (S H). rewrite Bool.orb_true_r. auto.
  - apply Bool.orb_true_iff in H. destruct H as [H|H]; [rewrite (S H); auto|rewrite (R H), Bool.orb_true_r; auto].
Qed.

Definition fdm_all (s s' : st) : Prop := forall z, fdm (cx s z) (cx s' z).
Definition fdm_but (x : nat) (s s' : st) : Prop := forall z, z <> x -> fdm (cx s z) (cx s' z).

Lemma fdm_all_refl : forall s, fdm_all s s. Proof. intros s z. apply fdm_refl. Qed.
Lemma fdm_all_trans : forall a b c, fdm_all a b -> fdm_all b c -> fdm_all a c.
Proof. intros a b c H1 H2 z. eapply fdm_trans; eauto. Qed.
Lemma fdm_all_but : forall x s s', fdm_all s s' -> fdm_but x s s'.
Proof. intros x s s' H z _. apply H. Qed.
Lemma fdm_but_trans : forall x a b c, fdm_but x a b -> fdm_but x b c -> fdm_but x a c.
Proof. intros x a b c H1 H2 z Hz. eapply fdm_trans; eauto. Qed.

Lemma fdm_updc : forall y c s, fdm (cx s y) c -> fdm_all s (updc y c s).
Proof.
  intros y c s H z. simpl. destruct (Nat.eqb z y) eqn:E; [|apply fdm_refl].
  apply Nat.eqb_eq in E. subst. auto.
Qed.

Lemma fdm_cx_eq : forall s s', cx s' = cx s -> fdm_all s s'.
Proof. intros s s' H z. rewrite H. apply fdm_refl. Qed.

Lemma fdm_do_act : forall a s, fdm_all s (do_act a s).
Proof.
  intros a s. destruct a; unfold do_act.
  - destruct (can_write (cx s y)); [|apply fdm_cx_eq; auto].
    eapply fdm_all_trans; [apply (fdm_updc y (mkC (ckind (cx s y)) (cq (cx s y) + k) (ceof (cx s y)) (cpopen (cx s y)) (csht (cx s y)) (cflag (cx s y)) (cadded (cx s y)) (cregok (cx s y)) (cclosed (cx s y)) (coff (cx s y)) (crst (cx s y))))|].
    + repeat split; simpl; auto; lia.
    + apply fdm_cx_eq. destruct (Nat.eqb k 0); simpl; rewrite ?cx_edge; auto.
  - destruct (cpopen (cx s y) && negb (ceof (cx s y))) eqn:G; [|apply fdm_cx_eq; auto].
    apply Bool.andb_true_iff in G. destruct G as [P _].
    eapply fdm_all_trans; [apply (fdm_updc y (mkC (ckind (cx s y)) (cq (cx s y)) true (negb (is_pipe (cx s y))) (csht (cx s y)) (cflag (cx s y)) (cadded (cx s y)) (cregok (cx s y)) (cclosed (cx s y)) (coff (cx s y)) (crst (cx s y))))|].
    + repeat split; simpl; auto.
    + apply fdm_cx_eq. simpl. rewrite ?cx_edge; auto.
  - destruct (cpopen (cx s y)) eqn:P; [|apply fdm_cx_eq; auto].
    eapply fdm_all_trans; [apply (fdm_updc y (mkC (ckind (cx s y)) (cq (cx s y)) true false (csht (cx s y)) (cflag (cx s y)) (cadded (cx s y)) (cregok (cx s y)) (cclosed (cx s y)) (coff (cx s y)) (crst (cx s y))))|].
    + repeat split; simpl; auto; try (intros; discriminate).
    + apply fdm_cx_eq. destruct (is_tcp (cx s y) && ceof (cx s y)); simpl; rewrite ?cx_edge; auto.
  - destruct (cadded (cx s y) || Nat.eqb y 0); [apply fdm_cx_eq; auto|].
    set (c1 := mkC _ _ _ _ _ _ true _ _ _ _).
    destruct (add_ctx_other y (updc y c1 s)) as (_ & _ & _ & D & _).
    destruct (add_ctx y (updc y c1 s)) as [s1 ok]. simpl in D.
    intros z. simpl. rewrite D. simpl.
    destruct (Nat.eqb z y) eqn:E; [|apply fdm_refl].
    apply Nat.eqb_eq in E. subst z. rewrite Nat.eqb_refl. unfold c1. repeat split; simpl; auto.
  - destruct (cclosed (cx s y)); [apply fdm_cx_eq; auto|].
    eapply fdm_all_trans; [apply (fdm_updc y (mkC (ckind (cx s y)) (cq (cx s y)) (ceof (cx s y)) (cpopen (cx s y)) (csht (cx s y) || negb (is_pipe (cx s y))) true (cadded (cx s y)) (cregok (cx s y)) false (coff (cx s y)) (crst (cx s y))))|].
    + repeat split; simpl; auto. intros H. rewrite H. auto.
    + apply fdm_cx_eq. destruct (negb (is_pipe (cx s y))); simpl; rewrite ?cx_edge; auto.
  - apply fdm_cx_eq. simpl. rewrite cx_edge. auto.
  - apply fdm_cx_eq. simpl. rewrite cx_edge. auto.
  - destruct (can_reset (cx s y)) eqn:G; [|apply fdm_cx_eq; auto].
    eapply fdm_all_trans; [apply (fdm_updc y (mkC (ckind (cx s y)) (cq (cx s y)) true false (csht (cx s y)) (cflag (cx s y)) (cadded (cx s y)) (cregok (cx s y)) (cclosed (cx s y)) (coff (cx s y)) true))|].
    + repeat split; simpl; auto; try (intros; discriminate).
    + apply fdm_cx_eq. simpl. rewrite ?cx_edge; auto.
Qed.

Lemma fdm_do_acts : forall l s, fdm_all s (do_acts l s).
Proof.
  induction l as [|a l IH]; intros s; simpl; [apply fdm_all_refl|].
  eapply fdm_all_trans; [apply fdm_do_act|apply IH].
Qed.

Lemma fdm_cb_read : forall x s, fdm_but x s (cb_read x s).
Proof.
  intros x s. unfold cb_read.
  eapply fdm_but_trans; [|apply fdm_all_but, fdm_do_acts].
  intros z Hz. simpl. apply Nat.eqb_neq in Hz. rewrite Hz. apply fdm_refl.
Qed.

Lemma fdm_handle_wakeup : forall s, fdm_all s (handle_wakeup s).
Proof.
  intros s. unfold handle_wakeup.
  set (s1 := emit EWake (set_wk 0 s)).
  assert (F1 : fdm_all s s1) by (apply fdm_cx_eq; auto).
  destruct (idle s1); auto.
  destruct (phases (set_idle false s1)) as [|p r].
  - eapply fdm_all_trans; [apply F1|]. apply (fdm_do_act AExit (set_idle false s1)).
  - eapply fdm_all_trans; [apply F1|]. apply (fdm_do_acts p (set_phases r (set_idle false s1))).
Qed.

Lemma fdm_set_flag : forall x s, fdm_all s (set_flag x s).
Proof. intros. unfold set_flag. apply fdm_updc. repeat split; simpl; auto. Qed.

Lemma fdm_cb_close : forall x s, fdm_all s (cb_close x s).
Proof.
  intros x s z. simpl. destruct (Nat.eqb z x) eqn:E; [|apply fdm_refl].
  apply Nat.eqb_eq in E. subst. repeat split; simpl; auto.
Qed.

(* ------------------------------------------------------------------ poll *)
Lemma poll_step_facts : forall i n s, tg s (fst (poll_step i n s)) /\
  (i = 0 -> fdm_all s (fst (poll_step i n s))) /\
  (forall y re, nth_error (parr s) i = Some (y, re) -> 1 <= i -> fdm_but y s (fst (poll_step i n s))).
Proof.
  intros i n s. unfold poll_step.
  destruct (Nat.eqb i 0) eqn:E0.
  - apply Nat.eqb_eq in E0. subst i. simpl.
    destruct (has_in _); simpl.
    + split; [apply tg_handle_wakeup|]. split; [intros; apply fdm_handle_wakeup|intros; lia].
    + split; [apply tg_refl|]. split; [intros; apply fdm_all_refl|intros; lia].
  - apply Nat.eqb_neq in E0.
    destruct (nth_error (parr s) i) as [[x re]|] eqn:N.
    2:{ simpl. split; [apply tg_refl|]. split; [intros; lia|intros; discriminate]. }
    assert (exists s1 n1, (if has_in re then (cb_read x s, n - 1) else (s, n)) = (s1, n1) /\
              tg s s1 /\ fdm_but x s s1) as (s1 & n1 & -> & T1 & F1).
    { destruct (has_in re); eexists; eexists; (split; [reflexivity|]).
      - split; [apply tg_cb_read|apply fdm_cb_read].
      - split; [apply tg_refl|apply fdm_all_but, fdm_all_refl]. }
    assert (exists s2 n2, (if has_hup_err re then (set_flag x s1, n1 - 1) else (s1, n1)) = (s2, n2) /\
              tg s s2 /\ fdm_but x s s2) as (s2 & n2 & -> & T2 & F2).
    { destruct (has_hup_err re); eexists; eexists; (split; [reflexivity|]).
      - split; [eapply tg_trans; [apply T1|exists []; auto]|].
        eapply fdm_but_trans; [apply F1|apply fdm_all_but, fdm_set_flag].
      - split; auto. }
    split; [|split; [intros; lia|]].
    + destruct (cflag (cx s2 x)); simpl; auto.
      eapply tg_trans; [apply T2|]. exists [EClose x]. auto.
    + intros y re' H _. inversion H; subst y re'.
      destruct (cflag (cx s2 x)); simpl; auto.
      eapply fdm_but_trans; [apply F2|]. apply fdm_all_but.
      intros z. simpl. destruct (Nat.eqb z x) eqn:E; [|apply fdm_refl].
      apply Nat.eqb_eq in E. subst. repeat split; simpl; auto.
Qed.

Lemma tg_poll_walk : forall k n s, tg s (poll_walk k n s).
Proof.
  induction k as [|i IH]; intros n s; simpl; [apply tg_refl|].
  destruct (poll_step_facts i n s) as [T _].
  destruct (poll_step i n s) as [s' n']. simpl in T.
  destruct (Nat.eqb n' 0); auto. eapply tg_trans; eauto.
Qed.

(* the slot of a reported context: its read callback runs in this walk, or the walk stopped above
   it and left the slot, the registration and the pending input as they were *)
Lemma poll_walk_reach : forall k n s j x re, Inv s -> bk s = BPoll ->
  nth_error (parr s) j = Some (x, re) -> 1 <= j -> j < k ->
  has_in re = true -> ev_in (cx s x) = true ->
  (exists t m, tr (poll_walk k n s) = t ++ tr s /\ In (ERead x m) t) \/
  (nth_error (parr (poll_walk k n s)) j = Some (x, re) /\ ev_in (cx (poll_walk k n s) x) = true).
Proof.
  induction k as [|i IH]; intros n s j x re I B Nj Hj Hjk Hin Hev; [lia|].
  simpl.
  destruct (Inv_poll_step i n s I B) as [I' B'].
  destruct (poll_step_facts i n s) as (T & _ & F).
  destruct (Nat.eq_dec i j) as [->|Hne].
  - (* the walk is at x's slot *)
    left.
    assert (exists t m, tr (fst (poll_step j n s)) = t ++ tr s /\ In (ERead x m) t) as (t & m & T1 & K1).
    { unfold poll_step. assert (Nat.eqb j 0 = false) as -> by (apply Nat.eqb_neq; lia).
      rewrite Nj, Hin.
      destruct (cb_read_facts x s) as [_ [t0 T0]].
      assert (exists s2 n2, (if has_hup_err re then (set_flag x (cb_read x s), n - 1 - 1) else (cb_read x s, n - 1)) = (s2, n2) /\
                tr s2 = tr (cb_read x s)) as (s2 & n2 & -> & T2).
      { destruct (has_hup_err re); eexists; eexists; split; try reflexivity. }
      destruct (cflag (cx s2 x)); simpl; rewrite T2, T0.
      - exists (EClose x :: t0 ++ [ERead x (cq (cx s x))]), (cq (cx s x)). split.
        + simpl. rewrite <- app_assoc. auto.
        + right. apply in_or_app. right; left; auto.
      - exists (t0 ++ [ERead x (cq (cx s x))]), (cq (cx s x)). split.
        + rewrite <- app_assoc. auto.
        + apply in_or_app. right; left; auto. }
    destruct (poll_step j n s) as [s' n']. simpl in *.
    destruct (Nat.eqb n' 0); [eauto|].
    destruct (tg_poll_walk j n' s') as [t2 T2].
    exists (t2 ++ t), m. split; [rewrite T2, T1, app_assoc; auto|apply in_or_app; auto].
  - assert (Hlt : j < i) by lia.
    assert (exists s' n', poll_step i n s = (s', n') /\ nth_error (parr s') j = Some (x, re) /\ ev_in (cx s' x) = true)
      as (s' & n' & E' & Nj' & Hev').
    { destruct (nth_error (parr s) i) as [[y rey]|] eqn:Ni.
      - assert (Hi : i < length (parr s)) by (apply nth_error_Some; congruence).
        destruct (i_poll s I B) as [_ HP].
        assert (ND : NoDup (map fst (parr s))).
        { eapply Permutation_NoDup; [symmetry; apply HP|]. constructor; [|apply (i_nodup s I)].
          intro C. apply (i_reg s I) in C. destruct C; congruence. }
        assert (Hyx : x <> y).
        { intro; subst y.
          assert (nth_error (map fst (parr s)) i = Some x) by (rewrite nth_error_map, Ni; auto).
          assert (nth_error (map fst (parr s)) j = Some x) by (rewrite nth_error_map, Nj; auto).
          assert (i = j); [|lia].
          eapply (proj1 (NoDup_nth_error _) ND); [rewrite map_length; lia|congruence]. }
        pose proof (poll_step_lower i n s j I B ltac:(lia) Hlt Hi) as L.
        pose proof (F y rey eq_refl ltac:(lia) x Hyx) as Fx.
        destruct (poll_step i n s) as [s' n']. simpl in *.
        exists s', n'. split; auto. split; [rewrite L; auto|eapply ev_in_fdm; eauto].
      - exists s, n. split; auto. unfold poll_step.
        assert (Nat.eqb i 0 = false) as -> by (apply Nat.eqb_neq; lia). rewrite Ni. auto. }
    rewrite E' in *. simpl in *.
    destruct (Nat.eqb n' 0); [right; auto|].
    destruct (IH n' s' j x re I' B' Nj' Hj Hlt Hin Hev') as [(t & m & T1 & K1)|R]; [left|right; auto].
    destruct T as [t0 T0]. exists (t ++ t0), m. split; [rewrite T1, T0, app_assoc; auto|apply in_or_app; auto].
Qed.

(* poll: a registered context reported readable (and really readable: the report is the kernel's)
   gets its read callback in this pass, or - the walk having stopped above its slot because an fd
   with POLLIN and POLLHUP was counted twice - it is still in the array with its input pending and
   is reported readable again by the next kernel call *)
Theorem read_dispatch_poll : forall rep n s j x r0, Inv s -> bk s = BPoll ->
  nth_error (parr s) j = Some (x, r0) -> 1 <= j ->
  has_in (lookup x rep) = true -> ev_in (cx s x) = true ->
  let s' := dispatch_poll rep n s in
  (exists t m, tr s' = t ++ tr s /\ In (ERead x m) t) \/
  (exists e, In (x, e) (kern s') /\ has_in e = true).
Proof.
  intros rep n s j x r0 I B Nj Hj Hin Hev. unfold dispatch_poll.
  set (s1 := set_parr _ s).
  assert (V : same_view s s1).
  { unfold s1. constructor; simpl; auto. rewrite map_map. simpl. auto. }
  assert (I1 : Inv s1) by (eapply Inv_view; eauto).
  assert (B1 : bk s1 = BPoll) by auto.
  assert (Nj1 : nth_error (parr s1) j = Some (x, lookup x rep)).
  { unfold s1. simpl. rewrite nth_error_map, Nj. auto. }
  assert (Hx : In x (clist s1) /\ x <> 0).
  { destruct (Inv_poll_step_close s1 x (lookup x rep) j I1 B1 Hj Nj1) as [H _].
    split; auto. apply (i_reg s1 I1 x H). }
  assert (Fin : forall s2, bk s2 = BPoll -> nth_error (parr s2) j = Some (x, lookup x rep) -> ev_in (cx s2 x) = true ->
            exists e, In (x, e) (kern s2) /\ has_in e = true).
  { intros s2 B2 N2 E2. exists (events s2 x). unfold kern. rewrite B2.
    assert (events s2 x = events_c (cx s2 x)) as Ee.
    { unfold events. destruct Hx as [_ Hx]. apply Nat.eqb_neq in Hx. rewrite Hx. auto. }
    assert (has_in (events_c (cx s2 x)) = true) as Hi.
    { unfold events_c. rewrite E2. destruct (ev_hup (cx s2 x)), (ev_err (cx s2 x)); auto. }
    split; [|rewrite Ee; auto].
    apply filter_In. split.
    - apply in_map_iff. exists (x, lookup x rep). split; auto. eapply nth_error_In; eauto.
    - simpl. rewrite Ee. unfold nz, events_c. rewrite E2. destruct (ev_hup (cx s2 x)); auto. }
  destruct (Nat.ltb 0 n).
  - assert (Hlen : j < length (parr s1)) by (apply nth_error_Some; congruence).
    destruct (poll_walk_reach (length (parr s1)) n s1 j x (lookup x rep) I1 B1 Nj1 Hj Hlen Hin Hev) as [L|[R1 R2]].
    + left. auto.
    + right. apply Fin; auto. apply Inv_poll_walk; auto.
  - right. apply Fin; auto.
Qed.

(* ------------------------------------------------------------------ the three back-ends together *)
Lemma read_all :
  (* select: every registered context reported readable gets its read callback in that pass *)
  (forall rep n s, Inv s -> bk s = BSelect -> 0 < n ->
     forall x, In x (clist s) -> Nat.eqb (lookup x rep) 0 = false ->
     exists t k, tr (dispatch_select rep n s) = t ++ tr s /\ In (ERead x k) t) /\
  (* poll: in this pass, or (walk stopped above its slot by the double decrement) it is still in the
     array with its input pending and reported readable again by the next kernel call *)
  (forall rep n s j x r0, Inv s -> bk s = BPoll ->
     nth_error (parr s) j = Some (x, r0) -> 1 <= j ->
     has_in (lookup x rep) = true -> ev_in (cx s x) = true ->
     let s' := dispatch_poll rep n s in
     (exists t m, tr s' = t ++ tr s /\ In (ERead x m) t) \/
     (exists e, In (x, e) (kern s') /\ has_in e = true)) /\
  (* epoll: every reported event with EPOLLIN of a registered context, in that batch *)
  (forall rep s, Inv s -> bk s = BEpoll ->
     forall x e, In (x, e) (ep_filter [] (ereg s) rep) -> x <> 0 -> has_in e = true ->
     exists t n, tr (dispatch_epoll rep s) = t ++ tr s /\ In (ERead x n) t).
Proof.
  split; [exact read_dispatch_select|]. split; [exact read_dispatch_poll|exact read_dispatch_epoll].
Qed.

(* non-vacuity: the hypotheses of the poll statement are met in the double-decrement scenario and
   the second alternative is the one that holds there *)
Example read_poll_second_alternative :
  let s := start BPoll skip_script in
  Inv s /\ nth_error (parr s) 1 = Some (1, 0) /\ has_in (lookup 1 (kern s)) = true /\ ev_in (cx s 1) = true /\
  In (1, 1) (kern (dispatch_poll (kern s) (length (kern s)) s)) /\
  ~ In (ERead 1 3) (tr (dispatch_poll (kern s) (length (kern s)) s)).
Proof.
  split; [apply Inv_start|]. vm_compute. repeat split; auto.
  intros H. repeat (destruct H as [H|H]; [discriminate|]). destruct H.
Qed.

(* ------------------------------------------------------------------ poll: how long the delay can last *)
(* A ready slot is passed over only in a pass that closes (and so removes) a context in a higher
   slot: with n at least the number of live slots from j upwards (the kernel's return value counts
   every slot with a non-zero revents), the walk reaches slot j unless some higher slot carried
   POLLIN and POLLHUP|POLLERR together - and such a slot is flagged, closed and removed.  Since the
   slots above j are only ever removed during a pass that stops early (the signal slot 0, where
   phases could add contexts, is not reached), a ready slot at index j is read after at most
   nfd - j passes. *)
Definition live (re : nat) : bool := has_in re || has_hup_err re.
Definition slot_live (s : st) (i : nat) : bool :=
  match nth_error (parr s) i with Some (_, re) => live re | None => false end.
Definition lc (s : st) (lo hi : nat) : nat := length (filter (slot_live s) (seq lo (hi - lo))).

Lemma lc_ext : forall s s' lo hi, (forall i, lo <= i -> i < hi -> nth_error (parr s') i = nth_error (parr s) i) ->
  lc s' lo hi = lc s lo hi.
Proof.
  intros s s' lo hi H. unfold lc. f_equal. apply filter_ext_in. intros i Hi. apply in_seq in Hi.
  unfold slot_live. rewrite H; auto; lia.
Qed.

Lemma lc_top : forall s lo i, lo <= i -> lc s lo (S i) = lc s lo i + (if slot_live s i then 1 else 0).
Proof.
  intros s lo i H. unfold lc. replace (S i - lo) with (S (i - lo)) by lia.
  rewrite seq_S, filter_app, app_length. simpl. replace (lo + (i - lo)) with i by lia.
  destruct (slot_live s i); simpl; lia.
Qed.

Lemma poll_step_n : forall i n s y rey, i <> 0 -> nth_error (parr s) i = Some (y, rey) ->
  snd (poll_step i n s) = n - (if has_in rey then 1 else 0) - (if has_hup_err rey then 1 else 0).
Proof.
  intros i n s y rey Hi N. unfold poll_step. apply Nat.eqb_neq in Hi. rewrite Hi, N.
  destruct (has_in rey), (has_hup_err rey); simpl;
    repeat match goal with |- context [if ?c then _ else _] => destruct c; simpl end; lia.
Qed.

Lemma poll_step_both_closes : forall i n s y rey, i <> 0 -> nth_error (parr s) i = Some (y, rey) ->
  has_in rey = true -> has_hup_err rey = true ->
  exists t, tr (fst (poll_step i n s)) = t ++ tr s /\ In (EClose y) t.
Proof.
  intros i n s y rey Hi N HI HH. unfold poll_step. apply Nat.eqb_neq in Hi. rewrite Hi, N, HI, HH.
  assert (cflag (cx (set_flag y (cb_read y s)) y) = true) as ->.
  { unfold set_flag. simpl. rewrite Nat.eqb_refl. auto. }
  simpl. destruct (tg_cb_read y s) as [t T]. unfold set_flag. simpl. rewrite T.
  exists (EClose y :: t). split; auto. left; auto.
Qed.

Lemma poll_walk_skip : forall k n s j x re, Inv s -> bk s = BPoll ->
  nth_error (parr s) j = Some (x, re) -> 1 <= j -> j < k -> has_in re = true -> lc s j k <= n ->
  (exists t m, tr (poll_walk k n s) = t ++ tr s /\ In (ERead x m) t) \/
  (exists t y, tr (poll_walk k n s) = t ++ tr s /\ In (EClose y) t).
Proof.
  induction k as [|i IH]; intros n s j x re I B Nj Hj Hjk Hin Hn; [lia|].
  simpl.
  destruct (Inv_poll_step i n s I B) as [I' B'].
  destruct (poll_step_facts i n s) as (T & _ & _).
  destruct (Nat.eq_dec i j) as [->|Hne].
  - (* the walk is at x's slot *)
    left.
    assert (exists t m, tr (fst (poll_step j n s)) = t ++ tr s /\ In (ERead x m) t) as (t & m & T1 & K1).
    { unfold poll_step. assert (Nat.eqb j 0 = false) as -> by (apply Nat.eqb_neq; lia).
      rewrite Nj, Hin.
      destruct (cb_read_facts x s) as [_ [t0 T0]].
      assert (exists s2 n2, (if has_hup_err re then (set_flag x (cb_read x s), n - 1 - 1) else (cb_read x s, n - 1)) = (s2, n2) /\
                tr s2 = tr (cb_read x s)) as (s2 & n2 & -> & T2).
      { destruct (has_hup_err re); eexists; eexists; split; try reflexivity. }
      destruct (cflag (cx s2 x)); simpl; rewrite T2, T0.
      - exists (EClose x :: t0 ++ [ERead x (cq (cx s x))]), (cq (cx s x)). split.
        + simpl. rewrite <- app_assoc. auto.
        + right. apply in_or_app. right; left; auto.
      - exists (t0 ++ [ERead x (cq (cx s x))]), (cq (cx s x)). split.
        + rewrite <- app_assoc. auto.
        + apply in_or_app. right; left; auto. }
    destruct (poll_step j n s) as [s' n']. simpl in *.
    destruct (Nat.eqb n' 0); [eauto|].
    destruct (tg_poll_walk j n' s') as [t2 T2].
    exists (t2 ++ t), m. split; [rewrite T2, T1, app_assoc; auto|apply in_or_app; auto].
  - assert (Hlt : j < i) by lia.
    assert (LJ : slot_live s j = true) by (unfold slot_live, live; rewrite Nj, Hin; auto).
    assert (L1 : 1 <= lc s j i).
    { clear - LJ Hlt. unfold lc. assert (In j (filter (slot_live s) (seq j (i - j)))) as H.
      { apply filter_In. split; auto. apply in_seq. lia. }
      destruct (filter _ _); [destruct H|simpl; lia]. }
    rewrite (lc_top s j i) in Hn by lia.
    destruct (nth_error (parr s) i) as [[y rey]|] eqn:Ni.
    + assert (Hi : i < length (parr s)) by (apply nth_error_Some; congruence).
      assert (SL : slot_live s i = live rey) by (unfold slot_live; rewrite Ni; auto).
      destruct (has_in rey && has_hup_err rey) eqn:BOTH.
      * (* counted twice: this slot is flagged, closed and removed *)
        apply Bool.andb_true_iff in BOTH. destruct BOTH as [HI HH].
        destruct (poll_step_both_closes i n s y rey ltac:(lia) Ni HI HH) as (t1 & T1 & K1).
        right. destruct (poll_step i n s) as [s' n']. simpl in *.
        destruct (Nat.eqb n' 0); [eauto|].
        destruct (tg_poll_walk i n' s') as [t2 T2].
        exists (t2 ++ t1), y. split; [rewrite T2, T1, app_assoc; auto|apply in_or_app; auto].
      * pose proof (poll_step_n i n s y rey ltac:(lia) Ni) as PN.
        assert (LW : forall idx, j <= idx -> idx < i -> nth_error (parr (fst (poll_step i n s))) idx = nth_error (parr s) idx).
        { intros idx H1 H2. apply poll_step_lower; auto; lia. }
        destruct (poll_step i n s) as [s' n']. simpl in *.
        assert (N' : lc s j i <= n').
        { rewrite PN. rewrite SL in Hn. unfold live in Hn.
          destruct (has_in rey), (has_hup_err rey); simpl in *; try discriminate; lia. }
        assert (Nat.eqb n' 0 = false) as -> by (apply Nat.eqb_neq; lia).
        destruct (IH n' s' j x re I' B') as [(t & m & T1 & K1)|(t & z & T1 & K1)]; auto.
        -- rewrite LW; auto.
        -- rewrite (lc_ext s s' j i); auto.
        -- left. destruct T as [t0 T0]. exists (t ++ t0), m. split; [rewrite T1, T0, app_assoc; auto|apply in_or_app; auto].
        -- right. destruct T as [t0 T0]. exists (t ++ t0), z. split; [rewrite T1, T0, app_assoc; auto|apply in_or_app; auto].
    + assert (poll_step i n s = (s, n)) as ->.
      { unfold poll_step. assert (Nat.eqb i 0 = false) as -> by (apply Nat.eqb_neq; lia). rewrite Ni. auto. }
      assert (SL : slot_live s i = false) by (unfold slot_live; rewrite Ni; auto).
      rewrite SL in Hn.
      assert (Nat.eqb n 0 = false) as -> by (apply Nat.eqb_neq; lia).
      apply (IH n s j x re); auto. lia.
Qed.

(* one pass of the poll loop: a registered context reported readable is read, or the pass closed a
   context (whose slot, above j, is removed): the delay of evl_read_called_when_pending costs one
   higher slot per pass *)
Theorem poll_delay_bound_step : forall rep n s j x r0, Inv s -> bk s = BPoll ->
  nth_error (parr s) j = Some (x, r0) -> 1 <= j -> has_in (lookup x rep) = true ->
  let s1 := set_parr (map (fun p => (fst p, lookup (fst p) rep)) (parr s)) s in
  lc s1 j (length (parr s1)) <= n ->
  (exists t m, tr (dispatch_poll rep n s) = t ++ tr s /\ In (ERead x m) t) \/
  (exists t y, tr (dispatch_poll rep n s) = t ++ tr s /\ In (EClose y) t).
Proof.
  intros rep n s j x r0 I B Nj Hj Hin s1 Hn. unfold dispatch_poll. fold s1.
  assert (V : same_view s s1).
  { unfold s1. constructor; simpl; auto. rewrite map_map. simpl. auto. }
  assert (I1 : Inv s1) by (eapply Inv_view; eauto).
  assert (Nj1 : nth_error (parr s1) j = Some (x, lookup x rep)).
  { unfold s1. simpl. rewrite nth_error_map, Nj. auto. }
  assert (Hlen : j < length (parr s1)) by (apply nth_error_Some; congruence).
  assert (1 <= n).
  { assert (slot_live s1 j = true) as LJ by (unfold slot_live, live; rewrite Nj1, Hin; auto).
    assert (In j (filter (slot_live s1) (seq j (length (parr s1) - j)))) as H.
    { apply filter_In. split; auto. apply in_seq. lia. }
    unfold lc in Hn. destruct (filter _ _); [destruct H|simpl in Hn; lia]. }
  assert (Nat.ltb 0 n = true) as -> by (apply Nat.ltb_lt; lia).
  apply (poll_walk_skip (length (parr s1)) n s1 j x (lookup x rep)); auto.
Qed.
