(* C13 — life-cycle invariants of the three back-end loops: for every script, every kernel
   oracle and every number of iterations. *)
From MV Require Import C13.Model.
From Coq Require Import Permutation.

(* ------------------------------------------------------------------ trace predicates *)
Definition touches (e : ev) (x : nat) : bool :=
  match e with
  | ERead y _ | EClose y | EClear y => Nat.eqb y x
  | _ => false
  end.

(* newest-first trace: no callback on x is newer than x's close callback *)
Fixpoint wf_tr (t : list ev) : Prop :=
  match t with
  | [] => True
  | e :: r => wf_tr r /\ forall x, touches e x = true -> ~ In (EClose x) r
  end.

Definition loop_tr (t : list ev) : Prop := ~ In EExit t /\ forall x, ~ In (EClear x) t.

Record Inv (s : st) : Prop := mkInv {
  i_reg : forall x, In x (clist s) -> x <> 0 /\ cadded (cx s x) = true /\ cclosed (cx s x) = false;
  i_nodup : NoDup (clist s);
  i_poll : bk s = BPoll ->
           hd_error (map fst (parr s)) = Some 0 /\ Permutation (map fst (parr s)) (0 :: clist s);
  i_ereg : bk s = BEpoll -> forall x, In x (ereg s) -> x = 0 \/ In x (clist s);
  i_closed : forall x, In (EClose x) (tr s) -> cclosed (cx s x) = true;
  i_wf : wf_tr (tr s);
  i_loop : loop_tr (tr s);
  i_added : forall x, In (EAct (AAdd x) 0) (tr s) -> In x (clist s) \/ In (EClose x) (tr s);
  i_regtr : forall x, In x (clist s) -> In (EAct (AAdd x) 0) (tr s);
  i_cladd : forall x, cclosed (cx s x) = true -> cadded (cx s x) = true
}.

(* the part of the state the invariant looks at *)
Record same_view (s s' : st) : Prop := mkSV {
  v_bk : bk s' = bk s;
  v_clist : clist s' = clist s;
  v_tr : tr s' = tr s;
  v_fl : forall x, cadded (cx s' x) = cadded (cx s x) /\ cclosed (cx s' x) = cclosed (cx s x);
  v_parr : map fst (parr s') = map fst (parr s);
  v_ereg : ereg s' = ereg s
}.

Lemma sv_refl : forall s, same_view s s.
Proof. intros; constructor; auto. Qed.

Lemma sv_trans : forall a b c, same_view a b -> same_view b c -> same_view a c.
Proof.
  intros a b c [] []; constructor; try congruence.
  intros x. destruct (v_fl0 x), (v_fl1 x). split; congruence.
Qed.

Lemma Inv_view : forall s s', same_view s s' -> Inv s -> Inv s'.
Proof.
  intros s s' [] [].
  constructor; rewrite ?v_bk0, ?v_clist0, ?v_tr0, ?v_parr0, ?v_ereg0; auto.
  - intros x Hx. destruct (i_reg0 x Hx) as (A & B & C). destruct (v_fl0 x) as [E F].
    repeat split; auto; congruence.
  - intros x Hx. destruct (v_fl0 x) as [E F]. rewrite F. auto.
  - intros x. destruct (v_fl0 x) as [E F]. rewrite E, F. auto.
Qed.

(* monotone extension: what read / wake callbacks and scripted actions can do *)
Record ext (s s' : st) : Prop := mkExt {
  e_bk : bk s' = bk s;
  e_clist : exists l, clist s' = clist s ++ l;
  e_tr : exists t, tr s' = t ++ tr s;
  e_parr : exists l, parr s' = parr s ++ l;
  e_ereg : exists l, ereg s' = ereg s ++ l;
  e_cl : forall x, cclosed (cx s' x) = cclosed (cx s x)
}.

Lemma ext_refl : forall s, ext s s.
Proof. intros; constructor; auto; exists []; rewrite ?app_nil_r; auto. Qed.

Lemma ext_trans : forall a b c, ext a b -> ext b c -> ext a c.
Proof.
  intros a b c [] [].
  constructor; try congruence.
  - destruct e_clist0 as [l1 H1], e_clist1 as [l2 H2]. exists (l1 ++ l2). rewrite H2, H1, app_assoc; auto.
  - destruct e_tr0 as [l1 H1], e_tr1 as [l2 H2]. exists (l2 ++ l1). rewrite H2, H1, app_assoc; auto.
  - destruct e_parr0 as [l1 H1], e_parr1 as [l2 H2]. exists (l1 ++ l2). rewrite H2, H1, app_assoc; auto.
  - destruct e_ereg0 as [l1 H1], e_ereg1 as [l2 H2]. exists (l1 ++ l2). rewrite H2, H1, app_assoc; auto.
Qed.

Lemma sv_ext : forall s s', same_view s s' -> parr s' = parr s -> ext s s'.
Proof.
  intros s s' [] Hp. constructor; auto.
  - exists []. rewrite app_nil_r; auto.
  - exists []. auto.
  - exists []. rewrite app_nil_r; auto.
  - exists []. rewrite app_nil_r; auto.
  - intros x. apply v_fl0.
Qed.

(* ------------------------------------------------------------------ small facts *)
Lemma mem_In : forall x l, mem x l = true <-> In x l.
Proof.
  intros. unfold mem. rewrite existsb_exists. split.
  - intros (y & Hy & E). apply Nat.eqb_eq in E. subst; auto.
  - intros H. exists x. split; auto. apply Nat.eqb_refl.
Qed.

Lemma rm_In : forall x y l, In y (rm x l) <-> In y l /\ y <> x.
Proof.
  intros. unfold rm. rewrite filter_In. split; intros [A B]; split; auto.
  - intro E. subst. rewrite Nat.eqb_refl in B. discriminate.
  - apply Bool.negb_true_iff, Nat.eqb_neq. auto.
Qed.

Lemma rm_NoDup : forall x l, NoDup l -> NoDup (rm x l).
Proof. intros. apply NoDup_filter. auto. Qed.

Lemma rm_perm : forall x l, NoDup l -> In x l -> Permutation l (x :: rm x l).
Proof.
  induction l as [|a l IH]; intros ND Hin; [destruct Hin|].
  inversion ND; subst. simpl. destruct (Nat.eqb a x) eqn:E.
  - apply Nat.eqb_eq in E. subst. simpl.
    assert (rm x l = l) as ->; auto.
    { unfold rm. clear IH ND Hin H2. induction l as [|b l IH]; simpl; auto.
      destruct (Nat.eqb b x) eqn:F.
      - apply Nat.eqb_eq in F. subst. exfalso. apply H1. left; auto.
      - simpl. f_equal. apply IH. intro. apply H1. right; auto. }
  - simpl. destruct Hin as [->|Hin]; [rewrite Nat.eqb_refl in E; discriminate|].
    rewrite perm_swap. apply perm_skip. apply IH; auto.
Qed.

Definition action_eq_dec : forall a b : action, {a = b} + {a <> b}.
Proof. decide equality; apply Nat.eq_dec. Defined.
Definition ev_eq_dec : forall a b : ev, {a = b} + {a <> b}.
Proof. decide equality; try apply Nat.eq_dec; apply action_eq_dec. Defined.

Lemma wf_count : forall t x, wf_tr t -> count_occ ev_eq_dec t (EClose x) <= 1.
Proof.
  induction t as [|e t IH]; intros x W; simpl; auto.
  destruct W as [W1 W2].
  match goal with |- context [if ?d then _ else _] => destruct d as [E|E] end.
  - subst e. assert (~ In (EClose x) t) as N by (apply W2; simpl; apply Nat.eqb_refl).
    rewrite (proj1 (count_occ_not_In _ t (EClose x)) N). auto.
  - apply IH; auto.
Qed.

Lemma wf_after_close : forall a b x, wf_tr (a ++ EClose x :: b) -> forall e, In e a -> touches e x = false.
Proof.
  induction a as [|f a IH]; intros b x W e Hin; [destruct Hin|].
  simpl in W. destruct W as [W1 W2].
  destruct Hin as [->|Hin].
  - destruct (touches e x) eqn:T; auto. exfalso. apply (W2 x T). apply in_or_app. right; left; auto.
  - eapply IH; eauto.
Qed.

(* ------------------------------------------------------------------ primitives keep the view *)
Ltac sv := constructor; simpl; auto.

Lemma sv_set_trigs : forall l s, same_view s (set_trigs l s). Proof. intros; sv. Qed.
Lemma sv_set_phases : forall l s, same_view s (set_phases l s). Proof. intros; sv. Qed.
Lemma sv_set_idle : forall b s, same_view s (set_idle b s). Proof. intros; sv. Qed.
Lemma sv_set_wk : forall n s, same_view s (set_wk n s). Proof. intros; sv. Qed.
Lemma sv_set_toexit : forall b s, same_view s (set_toexit b s). Proof. intros; sv. Qed.
Lemma sv_set_sset : forall l s, same_view s (set_sset l s). Proof. intros; sv. Qed.
Lemma sv_set_tphases : forall l s, same_view s (set_tphases l s). Proof. intros; sv. Qed.
Lemma sv_set_erdl : forall l s, same_view s (set_erdl l s). Proof. intros; sv. Qed.

Lemma sv_edge : forall x s, same_view s (edge x s).
Proof. intros. unfold edge. destruct (_ && _); [apply sv_set_erdl|apply sv_refl]. Qed.

Lemma parr_edge : forall x s, parr (edge x s) = parr s.
Proof. intros. unfold edge. destruct (_ && _); auto. Qed.

Lemma sv_updc : forall y c s, cadded c = cadded (cx s y) -> cclosed c = cclosed (cx s y) -> same_view s (updc y c s).
Proof.
  intros. sv. intros x. destruct (Nat.eqb x y) eqn:E; auto.
  apply Nat.eqb_eq in E. subst. auto.
Qed.

Lemma sv_inject : forall s, same_view s (inject s).
Proof.
  intros. unfold inject. eapply sv_trans; [apply sv_set_wk|].
  eapply sv_trans; [apply sv_edge|]. apply sv_set_idle.
Qed.

(* ------------------------------------------------------------------ emit *)
Definition quiet (e : ev) : Prop :=
  match e with
  | EWake => True
  | ETimer => True
  | EAct (AAdd _) 0 => False
  | EAct _ _ => True
  | _ => False
  end.

Lemma Inv_emit_quiet : forall e s, quiet e -> Inv s -> Inv (emit e s).
Proof.
  intros e s Q []. constructor; simpl; auto.
  - intros x [E|H]; auto. subst e. destruct Q.
  - split; auto. intros x T. destruct e; simpl in T; try discriminate; destruct Q.
  - destruct i_loop0 as [A B]. split.
    + intros [E|H]; auto. subst e. destruct Q.
    + intros x [E|H]; [subst e; destruct Q|]. eapply B; eauto.
  - intros x [E|H].
    + subst e. simpl in Q. destruct Q.
    + destruct (i_added0 x H); auto.
Qed.

Lemma ext_emit : forall e s, ext s (emit e s).
Proof. intros. constructor; simpl; auto; try solve [exists []; rewrite ?app_nil_r; auto]. exists [e]. auto. Qed.

Lemma Inv_emit_read : forall x n s, In x (clist s) -> Inv s -> Inv (emit (ERead x n) s).
Proof.
  intros x n s Hin []. constructor; simpl; auto.
  - intros y [E|H]; [discriminate|auto].
  - split; auto. intros y T. simpl in T. apply Nat.eqb_eq in T. subst y.
    intro C. apply i_closed0 in C. destruct (i_reg0 x Hin) as (_ & _ & D). congruence.
  - destruct i_loop0 as [A B]. split.
    + intros [E|H]; [discriminate|auto].
    + intros y [E|H]; [discriminate|]. eapply B; eauto.
  - intros y [E|H]; [discriminate|]. destruct (i_added0 y H); auto.
Qed.

(* ------------------------------------------------------------------ add *)
Lemma sv_ext_comp : forall s s', same_view s s' -> parr s' = parr s -> forall s'', ext s' s'' -> ext s s''.
Proof. intros. eapply ext_trans; [apply sv_ext; eauto|auto]. Qed.

Lemma add_ctx_ok_view : forall y s s', add_ctx y s = (s', true) ->
  bk s' = bk s /\ clist s' = clist s ++ [y] /\ tr s' = tr s /\ cx s' = cx s /\
  (parr s' = if match bk s with BPoll => true | _ => false end then parr s ++ [(y, 0)] else parr s) /\
  (ereg s' = if match bk s with BEpoll => true | _ => false end then ereg s ++ [y] else ereg s).
Proof.
  intros y s s'. unfold add_ctx, backend_add. simpl.
  destruct (bk s) eqn:B; simpl.
  - intros E. inversion E; subst; simpl. rewrite B. repeat split; auto.
  - destruct (Nat.eqb (length (parr s)) (pcap s)); simpl; intros E; inversion E; subst; simpl.
    rewrite B. repeat split; auto.
  - intros E. inversion E; subst. clear E.
    match goal with |- context [if ?c then _ else _] => destruct c end; simpl;
      rewrite ?B; unfold edge; simpl;
      try match goal with |- context [if ?c then _ else _] => destruct c end; simpl; rewrite ?B; repeat split; auto.
Qed.

Lemma add_ctx_rej_view : forall y s s', add_ctx y s = (s', false) -> s' = s.
Proof.
  intros y s s'. unfold add_ctx, backend_add. simpl.
  destruct (bk s) eqn:B; simpl.
  - intros E; inversion E.
  - destruct (Nat.eqb (length (parr s)) (pcap s)); simpl; intros E; inversion E; subst.
    destruct s; simpl in *; auto.
  - match goal with |- context [if ?c then _ else _] => destruct c end; intros E; inversion E.
Qed.

Definition is_poll (b : backend) : bool := match b with BPoll => true | _ => false end.
Definition is_epoll (b : backend) : bool := match b with BEpoll => true | _ => false end.

Lemma do_add_spec : forall y s, cadded (cx s y) = false -> y <> 0 ->
  let s' := do_act (AAdd y) s in
  bk s' = bk s /\
  (forall x, cclosed (cx s' x) = cclosed (cx s x)) /\
  (forall x, x <> y -> cadded (cx s' x) = cadded (cx s x)) /\
  cadded (cx s' y) = true /\
  ((tr s' = EAct (AAdd y) 0 :: tr s /\ clist s' = clist s ++ [y] /\
    parr s' = (if is_poll (bk s) then parr s ++ [(y, 0)] else parr s) /\
    ereg s' = (if is_epoll (bk s) then ereg s ++ [y] else ereg s)) \/
   (tr s' = EAct (AAdd y) 2 :: tr s /\ clist s' = clist s /\ parr s' = parr s /\ ereg s' = ereg s)).
Proof.
  intros y s G1 G2. apply Nat.eqb_neq in G2.
  unfold do_act. rewrite G1, G2. simpl orb. cbv iota.
  set (c := cx s y).
  set (s0 := updc y _ s).
  destruct (add_ctx y s0) as [s1 ok] eqn:A.
  destruct ok.
  - apply add_ctx_ok_view in A. destruct A as (Abk & Acl & Atr & Acx & Ap & Ae).
    simpl in Abk, Acl, Atr, Ap, Ae.
    simpl. rewrite Acx. simpl.
    split; [auto|]. split; [|split; [|split]].
    + intros x. destruct (Nat.eqb x y) eqn:E; simpl; auto.
      apply Nat.eqb_eq in E. subst. rewrite ?Nat.eqb_refl; simpl; rewrite ?Nat.eqb_refl; simpl; auto.
    + intros x Hx. apply Nat.eqb_neq in Hx. rewrite ?Hx; simpl; rewrite ?Hx; auto.
    + rewrite ?Nat.eqb_refl; simpl; rewrite ?Nat.eqb_refl; simpl; auto.
    + left. rewrite Atr, Acl, Ap, Ae. repeat split; auto; destruct (bk s); auto.
  - apply add_ctx_rej_view in A. subst s1.
    simpl. split; [auto|]. split; [|split; [|split]].
    + intros x. destruct (Nat.eqb x y) eqn:E; simpl; auto.
      apply Nat.eqb_eq in E. subst. rewrite ?Nat.eqb_refl; simpl; rewrite ?Nat.eqb_refl; simpl; auto.
    + intros x Hx. apply Nat.eqb_neq in Hx. rewrite ?Hx; simpl; rewrite ?Hx; auto.
    + rewrite ?Nat.eqb_refl; simpl; rewrite ?Nat.eqb_refl; simpl; auto.
    + right. auto.
Qed.

Lemma Inv_do_add : forall y s, Inv s -> Inv (do_act (AAdd y) s) /\ ext s (do_act (AAdd y) s).
Proof.
  intros y s I.
  destruct (cadded (cx s y) || Nat.eqb y 0) eqn:G.
  - unfold do_act. rewrite G. split; [apply Inv_emit_quiet; simpl; auto|apply ext_emit].
  - apply Bool.orb_false_iff in G. destruct G as [G1 G2]. apply Nat.eqb_neq in G2.
    assert (Hnot : ~ In y (clist s)).
    { intro H. destruct (i_reg s I y H) as (_ & A & _). congruence. }
    destruct (do_add_spec y s G1 G2) as (Sbk & Scl & Sad & Sady & Scase).
    set (s' := do_act (AAdd y) s) in *. clearbody s'.
    destruct Scase as [(Str & Scl' & Sp & Se)|(Str & Scl' & Sp & Se)].
    + split.
      * destruct I. constructor; rewrite ?Sbk, ?Str, ?Scl', ?Sp, ?Se.
        -- intros x Hx. apply in_app_or in Hx. destruct Hx as [Hx|[<-|[]]].
           ++ destruct (i_reg0 x Hx) as (P & Q & R). split; auto. rewrite Scl.
              destruct (Nat.eq_dec x y) as [->|N]; [split; auto|]. rewrite Sad; auto.
           ++ split; auto. split; auto. rewrite Scl.
              destruct (cclosed (cx s y)) eqn:CC; auto. apply i_cladd0 in CC. congruence.
        -- eapply Permutation_NoDup; [apply Permutation_cons_append|]. constructor; auto.
        -- intros Bp. rewrite Bp. simpl. destruct (i_poll0 Bp) as [H1 H2]. rewrite map_app; simpl. split.
           ++ destruct (map fst (parr s)); simpl in *; [discriminate|auto].
           ++ transitivity (y :: map fst (parr s)); [symmetry; apply Permutation_cons_append|].
              transitivity (y :: 0 :: clist s); [apply perm_skip; auto|].
              transitivity (0 :: y :: clist s); [apply perm_swap|].
              apply perm_skip. apply Permutation_cons_append.
        -- intros Be x Hx. rewrite Be in Hx. simpl in Hx. apply in_app_or in Hx. destruct Hx as [Hx|[<-|[]]].
           ++ destruct (i_ereg0 Be x Hx); auto. right; apply in_or_app; auto.
           ++ right; apply in_or_app; right; left; auto.
        -- intros x [E|H]; [discriminate|]. rewrite Scl. auto.
        -- simpl. split; auto. intros x T; discriminate.
        -- destruct i_loop0 as [P Q]. split; [intros [E|H]; [discriminate|auto] | intros x [E|H]; [discriminate|eapply Q; eauto]].
        -- intros x [E|H].
           ++ inversion E; subst. left; apply in_or_app; right; left; auto.
           ++ destruct (i_added0 x H); [left; apply in_or_app; auto|right; right; auto].
        -- intros x Hx. apply in_app_or in Hx. destruct Hx as [Hx|[<-|[]]]; [right; auto|left; auto].
        -- intros x Hx. rewrite Scl in Hx. destruct (Nat.eq_dec x y) as [->|N]; auto. rewrite Sad; auto.
      * constructor; rewrite ?Sbk, ?Str, ?Scl', ?Sp, ?Se; auto.
        -- exists [y]; auto.
        -- exists [EAct (AAdd y) 0]; auto.
        -- destruct (is_poll (bk s)); [exists [(y,0)]|exists []; rewrite app_nil_r]; auto.
        -- destruct (is_epoll (bk s)); [exists [y]|exists []; rewrite app_nil_r]; auto.
    + split.
      * destruct I. constructor; rewrite ?Sbk, ?Str, ?Scl', ?Sp, ?Se; auto.
        -- intros x Hx. destruct (i_reg0 x Hx) as (P & Q & R). split; auto. rewrite Scl.
           destruct (Nat.eq_dec x y) as [->|N]; [contradiction|]. rewrite Sad; auto.
        -- intros x [E|H]; [discriminate|]. rewrite Scl. auto.
        -- simpl. split; auto. intros x T; discriminate.
        -- destruct i_loop0 as [P Q]. split; [intros [E|H]; [discriminate|auto] | intros x [E|H]; [discriminate|eapply Q; eauto]].
        -- intros x [E|H]; [discriminate|]. destruct (i_added0 x H); [left; auto|right; right; auto].
        -- intros x Hx. right; auto.
        -- intros x Hx. rewrite Scl in Hx. destruct (Nat.eq_dec x y) as [->|N]; auto. rewrite Sad; auto.
      * constructor; rewrite ?Sbk, ?Str, ?Scl', ?Sp, ?Se; auto; try solve [exists []; rewrite ?app_nil_r; auto].
        exists [EAct (AAdd y) 2]; auto.
Qed.

(* ------------------------------------------------------------------ the other actions *)
Lemma quiet_step : forall e s s1, quiet e -> same_view s s1 -> parr s1 = parr s -> Inv s ->
  Inv (emit e s1) /\ ext s (emit e s1).
Proof.
  intros. split.
  - apply Inv_emit_quiet; auto. eapply Inv_view; eauto.
  - eapply ext_trans; [apply sv_ext; eauto|apply ext_emit].
Qed.

Lemma Inv_do_act : forall a s, Inv s -> Inv (do_act a s) /\ ext s (do_act a s).
Proof.
  intros a s I. destruct a; try apply Inv_do_add; auto; unfold do_act.
  - (* write *)
    destruct (can_write (cx s y)); [|apply quiet_step; simpl; auto using sv_refl].
    apply quiet_step; simpl; auto.
    + destruct (Nat.eqb k 0); [apply sv_updc; auto|].
      eapply sv_trans; [apply sv_updc|apply sv_edge]; auto.
    + destruct (Nat.eqb k 0); rewrite ?parr_edge; auto.
  - (* hclose *)
    destruct (cpopen (cx s y) && negb (ceof (cx s y))); [|apply quiet_step; simpl; auto using sv_refl].
    apply quiet_step; simpl; auto.
    + eapply sv_trans; [apply sv_updc|apply sv_edge]; auto.
    + rewrite ?parr_edge; auto.
  - (* pclose *)
    destruct (cpopen (cx s y)); [|apply quiet_step; simpl; auto using sv_refl].
    apply quiet_step; simpl; auto.
    + destruct (is_tcp (cx s y) && ceof (cx s y)); [apply sv_updc; auto|].
      eapply sv_trans; [apply sv_updc|apply sv_edge]; auto.
    + destruct (is_tcp (cx s y) && ceof (cx s y)); rewrite ?parr_edge; auto.
  - (* shut *)
    destruct (cclosed (cx s y)) eqn:CC; [apply quiet_step; simpl; auto using sv_refl|].
    apply quiet_step; simpl; auto.
    + destruct (negb (is_pipe (cx s y))); [|apply sv_updc; simpl; auto].
      eapply sv_trans; [apply sv_updc|apply sv_edge]; simpl; auto.
    + destruct (negb (is_pipe (cx s y))); rewrite ?parr_edge; auto.
  - (* wake *)
    apply quiet_step; simpl; auto.
    + eapply sv_trans; [apply sv_set_wk|apply sv_edge].
    + rewrite parr_edge; auto.
  - (* exit: to_exit = EXIT, then the wake-up *)
    apply quiet_step; simpl; auto.
    + eapply sv_trans; [apply sv_set_toexit|]. eapply sv_trans; [apply sv_set_wk|apply sv_edge].
    + rewrite parr_edge; auto.
  - (* reset of the connection by the peer *)
    destruct (can_reset (cx s y)); [|apply quiet_step; simpl; auto using sv_refl].
    apply quiet_step; simpl; auto.
    + eapply sv_trans; [apply sv_updc|apply sv_edge]; auto.
    + rewrite ?parr_edge; auto.
Qed.

Lemma Inv_do_acts : forall l s, Inv s -> Inv (do_acts l s) /\ ext s (do_acts l s).
Proof.
  induction l as [|a l IH]; intros s I; simpl.
  - split; auto. apply ext_refl.
  - destruct (Inv_do_act a s I) as [I1 E1]. destruct (IH _ I1) as [I2 E2].
    split; auto. eapply ext_trans; eauto.
Qed.

Lemma ext_In_clist : forall s s' x, ext s s' -> In x (clist s) -> In x (clist s').
Proof. intros s s' x [] H. destruct e_clist0 as [l ->]. apply in_or_app; auto. Qed.

Lemma ext_In_tr : forall s s' e, ext s s' -> In e (tr s) -> In e (tr s').
Proof. intros s s' x [] H. destruct e_tr0 as [l ->]. apply in_or_app; auto. Qed.

(* ------------------------------------------------------------------ callbacks *)
Lemma Inv_cb_read : forall x s, Inv s -> In x (clist s) ->
  Inv (cb_read x s) /\ ext s (cb_read x s) /\
  exists t n, tr (cb_read x s) = t ++ tr s /\ In (ERead x n) t.
Proof.
  intros x s I Hin. unfold cb_read.
  set (c := cx s x).
  set (s1 := updc x _ s).
  assert (V1 : same_view s s1) by (apply sv_updc; auto).
  assert (I1 : Inv s1) by (eapply Inv_view; eauto).
  assert (I2 : Inv (emit (ERead x (cq c)) s1)) by (apply Inv_emit_read; auto).
  set (s2 := emit (ERead x (cq c)) s1) in *.
  set (s3 := set_trigs _ s2).
  assert (I3 : Inv s3) by (eapply Inv_view; [apply sv_set_trigs|auto]).
  destruct (Inv_do_acts (map tact (filter (trig_hit x (coff c + cq c)) (trigs s2))) s3 I3) as [I4 E4].
  split; auto. split.
  - eapply ext_trans; [|apply E4].
    eapply ext_trans; [apply (sv_ext s s1); auto|].
    eapply ext_trans; [apply ext_emit|]. apply sv_ext; auto. apply sv_set_trigs.
  - destruct E4. destruct e_tr0 as [t4 T4].
    exists (t4 ++ [ERead x (cq c)]), (cq c). split.
    + rewrite T4. simpl. rewrite <- app_assoc. auto.
    + apply in_or_app. right; left; auto.
Qed.

Lemma Inv_set_flag : forall x s, Inv s -> Inv (set_flag x s) /\ ext s (set_flag x s).
Proof.
  intros. unfold set_flag. assert (V : same_view s (updc x (mkC (ckind (cx s x)) (cq (cx s x)) (ceof (cx s x)) (cpopen (cx s x)) (csht (cx s x)) true (cadded (cx s x)) (cregok (cx s x)) (cclosed (cx s x)) (coff (cx s x)) (crst (cx s x))) s)) by (apply sv_updc; auto).
  split; [eapply Inv_view; eauto|apply sv_ext; auto].
Qed.

Lemma Inv_handle_wakeup : forall s, Inv s -> Inv (handle_wakeup s) /\ ext s (handle_wakeup s).
Proof.
  intros s I. unfold handle_wakeup.
  destruct (quiet_step EWake s (set_wk 0 s) Logic.I (sv_set_wk 0 s) eq_refl I) as [I1 E1].
  set (s1 := emit EWake (set_wk 0 s)) in *.
  destruct (idle s1); [|split; auto].
  assert (I2 : Inv (set_idle false s1)) by (eapply Inv_view; [apply sv_set_idle|auto]).
  assert (E2 : ext s (set_idle false s1)).
  { eapply ext_trans; [apply E1|]. apply sv_ext; auto. apply sv_set_idle. }
  destruct (phases (set_idle false s1)) as [|p rest] eqn:P.
  - destruct (Inv_do_act AExit _ I2) as [I3 E3]. split; auto. eapply ext_trans; eauto.
  - assert (I3 : Inv (set_phases rest (set_idle false s1))) by (eapply Inv_view; [apply sv_set_phases|auto]).
    destruct (Inv_do_acts p _ I3) as [I4 E4]. split; auto.
    eapply ext_trans; [apply E2|]. eapply ext_trans; [|apply E4]. apply sv_ext; auto. apply sv_set_phases.
Qed.

(* ------------------------------------------------------------------ closing a context *)
Lemma Inv_close_gen : forall x s s', Inv s -> In x (clist s) ->
  bk s' = bk s -> clist s' = rm x (clist s) -> tr s' = EClose x :: tr s ->
  (forall z, cadded (cx s' z) = cadded (cx s z)) ->
  (forall z, cclosed (cx s' z) = if Nat.eqb z x then true else cclosed (cx s z)) ->
  (bk s = BPoll -> hd_error (map fst (parr s')) = Some 0 /\
                   Permutation (map fst (parr s')) (0 :: rm x (clist s))) ->
  (bk s = BEpoll -> forall z, In z (ereg s') -> In z (ereg s) /\ z <> x) ->
  Inv s'.
Proof.
  intros x s s' [] Hin Hbk Hcl Htr Had Hcc Hp He.
  assert (Hxc : cclosed (cx s x) = false) by (apply i_reg0; auto).
  assert (Hnc : ~ In (EClose x) (tr s)).
  { intro C. apply i_closed0 in C. congruence. }
  constructor; rewrite ?Hbk, ?Hcl, ?Htr; auto.
  - intros z Hz. apply rm_In in Hz. destruct Hz as [Hz Hne].
    destruct (i_reg0 z Hz) as (A & B & C). split; auto. rewrite Had, Hcc.
    apply Nat.eqb_neq in Hne. rewrite Hne. auto.
  - apply rm_NoDup; auto.
  - intros Be z Hz. destruct (He Be z Hz) as [Hz1 Hz2].
    destruct (i_ereg0 Be z Hz1); auto. right. apply rm_In; auto.
  - intros z [E|H].
    + inversion E; subst. rewrite Hcc, Nat.eqb_refl. auto.
    + rewrite Hcc. destruct (Nat.eqb z x); auto.
  - simpl. split; auto. intros z T. apply Nat.eqb_eq in T. subst z. auto.
  - destruct i_loop0 as [P Q]. split.
    + intros [E|H]; [discriminate|auto].
    + intros z [E|H]; [discriminate|]. eapply Q; eauto.
  - intros z [E|H]; [discriminate|].
    destruct (Nat.eq_dec z x) as [->|N]; [right; left; auto|].
    destruct (i_added0 z H); [left; apply rm_In; auto|right; right; auto].
  - intros z Hz. apply rm_In in Hz. right. apply i_regtr0. tauto.
  - intros z. rewrite Hcc, Had. destruct (Nat.eqb z x) eqn:E; auto.
    apply Nat.eqb_eq in E. subst. intros _. apply i_reg0; auto.
Qed.

Lemma cb_close_cc : forall x s z, cclosed (cx (cb_close x s) z) = if Nat.eqb z x then true else cclosed (cx s z).
Proof. intros. simpl. destruct (Nat.eqb z x); auto. Qed.

Lemma cb_close_ca : forall x s z, cadded (cx (cb_close x s) z) = cadded (cx s z).
Proof. intros. simpl. destruct (Nat.eqb z x) eqn:E; auto. apply Nat.eqb_eq in E; subst; auto. Qed.

(* ------------------------------------------------------------------ select walk *)
Lemma Inv_sel_walk : forall fuel i rep s, Inv s -> bk s = BSelect ->
  Inv (sel_walk fuel i rep s) /\ bk (sel_walk fuel i rep s) = BSelect.
Proof.
  induction fuel as [|f IH]; intros i rep s I B; simpl; auto.
  destruct (nth_error (clist s) i) as [x|] eqn:N; auto.
  apply nth_error_In in N.
  assert (exists s1, s1 = (if negb (Nat.eqb (lookup x rep) 0) then cb_read x s else s) /\ Inv s1 /\ ext s s1) as (s1 & -> & I1 & E1).
  { eexists; split; [reflexivity|]. destruct (negb _).
    - destruct (Inv_cb_read x s I N) as (A & C & _); auto.
    - split; auto. apply ext_refl. }
  set (s1 := if negb (Nat.eqb (lookup x rep) 0) then cb_read x s else s) in *.
  assert (B1 : bk s1 = BSelect) by (rewrite (e_bk _ _ E1); auto).
  assert (N1 : In x (clist s1)) by (eapply ext_In_clist; eauto).
  destruct (cflag (cx s1 x)).
  - apply IH.
    + eapply (Inv_close_gen x (set_sset (rm x (sset s1)) s1)); simpl; auto.
      * eapply Inv_view; [apply sv_set_sset|auto].
      * intros z. destruct (Nat.eqb z x) eqn:E; auto. apply Nat.eqb_eq in E; subst; auto.
      * intros z. destruct (Nat.eqb z x); auto.
      * rewrite B1. discriminate.
      * rewrite B1. discriminate.
    + simpl. auto.
  - apply IH; simpl; auto. eapply Inv_view; [apply sv_set_sset|auto].
Qed.

(* ------------------------------------------------------------------ poll: swap-with-last *)
Lemma set_nth_perm : forall {A} (l : list A) i p q, nth_error l i = Some p ->
  Permutation (p :: set_nth i q l) (q :: l).
Proof.
  induction l as [|a l IH]; intros i p q H; destruct i; simpl in *; try discriminate.
  - inversion H; subst. apply perm_swap.
  - rewrite perm_swap. rewrite (IH _ _ q H). apply perm_swap.
Qed.

Lemma poll_remove_perm : forall l i p, nth_error l i = Some p -> Permutation l (p :: poll_remove i l).
Proof.
  intros l i p H. unfold poll_remove.
  destruct l as [|a l0] eqn:L; [destruct i; discriminate|]. rewrite <- L in *.
  assert (NE : l <> []) by (rewrite L; discriminate).
  destruct (app_removelast_last (0, 0) NE) as [].
  set (l' := removelast l) in *. set (q := last l (0, 0)) in *.
  assert (LEN : length l = S (length l')).
  { rewrite (app_removelast_last (0,0) NE). fold l' q. rewrite app_length. simpl. lia. }
  destruct (Nat.eqb i (length l - 1)) eqn:E.
  - apply Nat.eqb_eq in E.
    rewrite (app_removelast_last (0,0) NE) in H. fold l' q in H.
    rewrite nth_error_app2 in H by lia.
    replace (i - length l') with 0 in H by lia. simpl in H. inversion H; subst p.
    rewrite (app_removelast_last (0,0) NE) at 1. fold l' q.
    symmetry. apply Permutation_cons_append.
  - apply Nat.eqb_neq in E.
    assert (i < length l) by (apply nth_error_Some; congruence).
    rewrite (app_removelast_last (0,0) NE) in H. fold l' q in H.
    rewrite nth_error_app1 in H by lia.
    rewrite (app_removelast_last (0,0) NE) at 1. fold l' q.
    rewrite <- Permutation_cons_append. symmetry. apply set_nth_perm; auto.
Qed.

Lemma set_nth_hd : forall {A} (l : list A) i q, 1 <= i -> hd_error (set_nth i q l) = hd_error l.
Proof. intros A l i q H. destruct l, i; simpl; auto; lia. Qed.

Lemma removelast_hd : forall {A} (l : list A), 2 <= length l -> hd_error (removelast l) = hd_error l.
Proof. intros A l H. destruct l as [|a [|b l]]; simpl in *; auto; lia. Qed.

Lemma poll_remove_hd : forall l i (p : nat * nat), 1 <= i -> nth_error l i = Some p ->
  hd_error (poll_remove i l) = hd_error l.
Proof.
  intros l i p Hi H. unfold poll_remove.
  assert (i < length l) by (apply nth_error_Some; congruence).
  destruct l as [|a l0] eqn:L; [simpl in *; lia|]. rewrite <- L in *.
  destruct (Nat.eqb i (length l - 1)).
  - apply removelast_hd. lia.
  - rewrite set_nth_hd; auto. apply removelast_hd. lia.
Qed.

Lemma hd_error_map : forall {A B} (f : A -> B) l, hd_error (map f l) = option_map f (hd_error l).
Proof. intros. destruct l; auto. Qed.

Lemma Inv_poll_step_close : forall s x re i, Inv s -> bk s = BPoll -> 1 <= i ->
  nth_error (parr s) i = Some (x, re) ->
  In x (clist s) /\
  Inv (set_parr (poll_remove i (parr s)) (set_clist (rm x (clist (cb_close x s))) (cb_close x s))).
Proof.
  intros s x re i I B Hi N.
  destruct (i_poll s I B) as [H0 HP].
  assert (ND : NoDup (map fst (parr s))).
  { eapply Permutation_NoDup; [symmetry; apply HP|]. constructor; [|apply (i_nodup s I)].
    intro C. apply (i_reg s I) in C. destruct C; congruence. }
  assert (Nx : nth_error (map fst (parr s)) i = Some x) by (rewrite nth_error_map, N; auto).
  assert (Hx0 : x <> 0).
  { intro; subst x. assert (nth_error (map fst (parr s)) 0 = Some 0).
    { destruct (map fst (parr s)); simpl in *; auto. }
    assert (i = 0); [|lia].
    eapply (proj1 (NoDup_nth_error _) ND); [apply nth_error_Some; congruence|congruence]. }
  assert (Hin : In x (clist s)).
  { apply nth_error_In in Nx. eapply Permutation_in in Nx; [|apply HP]. destruct Nx; auto; congruence. }
  split; auto.
  eapply (Inv_close_gen x s); simpl; auto.
  - intros z. destruct (Nat.eqb z x) eqn:E; auto. apply Nat.eqb_eq in E; subst; auto.
  - intros z. destruct (Nat.eqb z x); auto.
  - intros _. split.
    + rewrite hd_error_map, (poll_remove_hd _ _ _ Hi N), <- hd_error_map. auto.
    + pose proof (Permutation_map fst (poll_remove_perm _ _ _ N)) as P1. simpl in P1.
      pose proof (rm_perm x (clist s) (i_nodup s I) Hin) as P2.
      assert (P3 : Permutation (x :: map fst (poll_remove i (parr s))) (x :: 0 :: rm x (clist s))).
      { rewrite <- P1, HP. rewrite P2 at 1. apply perm_swap. }
      eapply Permutation_cons_inv; eauto.
  - rewrite B. discriminate.
Qed.

Lemma ext_nth_parr : forall s s' i p, ext s s' -> nth_error (parr s) i = Some p -> nth_error (parr s') i = Some p.
Proof.
  intros s s' i p [] H. destruct e_parr0 as [l ->].
  rewrite nth_error_app1; auto. apply nth_error_Some. congruence.
Qed.

Lemma Inv_poll_step : forall i n s, Inv s -> bk s = BPoll ->
  Inv (fst (poll_step i n s)) /\ bk (fst (poll_step i n s)) = BPoll.
Proof.
  intros i n s I B. unfold poll_step.
  destruct (Nat.eqb i 0) eqn:E0.
  - simpl. destruct (has_in _); auto.
    destruct (Inv_handle_wakeup s I) as [A C]. split; auto. rewrite (e_bk _ _ C); auto.
  - apply Nat.eqb_neq in E0.
    destruct (nth_error (parr s) i) as [[x re]|] eqn:N; [|simpl; auto].
    destruct (Inv_poll_step_close s x re i I B ltac:(lia) N) as [Hin _].
    assert (exists s1 n1, (if has_in re then (cb_read x s, n - 1) else (s, n)) = (s1, n1) /\ Inv s1 /\ ext s s1) as (s1 & n1 & -> & I1 & E1).
    { destruct (has_in re); eexists; eexists; (split; [reflexivity|]).
      - destruct (Inv_cb_read x s I Hin) as (A & C & _); auto.
      - split; auto; apply ext_refl. }
    assert (exists s2 n2, (if has_hup_err re then (set_flag x s1, n1 - 1) else (s1, n1)) = (s2, n2) /\ Inv s2 /\ ext s s2) as (s2 & n2 & -> & I2 & E2).
    { destruct (has_hup_err re); eexists; eexists; (split; [reflexivity|]).
      - destruct (Inv_set_flag x s1 I1) as [A C]. split; auto. eapply ext_trans; eauto.
      - split; auto. }
    assert (B2 : bk s2 = BPoll) by (rewrite (e_bk _ _ E2); auto).
    destruct (cflag (cx s2 x)); [|simpl; auto].
    cbv zeta. simpl fst.
    pose proof (ext_nth_parr _ _ _ _ E2 N) as N2.
    destruct (Inv_poll_step_close s2 x re i I2 B2 ltac:(lia) N2) as [_ A]. split; auto.
Qed.

Lemma Inv_poll_walk : forall k n s, Inv s -> bk s = BPoll ->
  Inv (poll_walk k n s) /\ bk (poll_walk k n s) = BPoll.
Proof.
  induction k as [|i IH]; intros n s I B; simpl; auto.
  destruct (Inv_poll_step i n s I B) as [I' B'].
  destruct (poll_step i n s) as [s' n']. simpl in *.
  destruct (Nat.eqb n' 0); auto.
Qed.

(* ------------------------------------------------------------------ epoll walk *)
Lemma ep_filter_spec : forall evs seen reg,
  NoDup (map fst (ep_filter seen reg evs)) /\
  forall x, In x (map fst (ep_filter seen reg evs)) -> In x reg /\ ~ In x seen.
Proof.
  induction evs as [|[x e] r IH]; intros seen reg; simpl.
  - split; [constructor|intros x []].
  - destruct (mem x reg && negb (mem x seen)) eqn:G.
    + apply Bool.andb_true_iff in G. destruct G as [G1 G2].
      apply mem_In in G1. apply Bool.negb_true_iff in G2.
      assert (~ In x seen) by (intro C; apply mem_In in C; congruence).
      destruct (IH (x :: seen) reg) as [A C]. simpl. split.
      * constructor; auto. intro D. apply C in D. destruct D as [_ D]. apply D. left; auto.
      * intros y [<-|Hy]; auto. apply C in Hy. destruct Hy as [P Q]. split; auto. intro; apply Q; right; auto.
    + apply IH.
Qed.

Lemma Inv_ep_step : forall x e s, Inv s -> bk s = BEpoll -> In x (ereg s) ->
  Inv (ep_step x e s) /\ bk (ep_step x e s) = BEpoll /\
  (forall z, z <> x -> In z (ereg s) -> In z (ereg (ep_step x e s))).
Proof.
  intros x e s I B Hreg. unfold ep_step.
  destruct (Nat.eqb x 0) eqn:E0.
  - destruct (has_in e); [|auto].
    destruct (Inv_handle_wakeup s I) as [A C]. split; auto. split; [rewrite (e_bk _ _ C); auto|].
    intros z _ Hz. destruct C. destruct e_ereg0 as [l ->]. apply in_or_app. auto.
  - apply Nat.eqb_neq in E0.
    assert (Hin : In x (clist s)).
    { destruct (i_ereg s I B x Hreg); auto; congruence. }
    assert (exists s1, s1 = (if has_in e then cb_read x s else if has_hup_err e then set_flag x s else s) /\ Inv s1 /\ ext s s1) as (s1 & Es1 & I1 & E1).
    { eexists; split; [reflexivity|]. destruct (has_in e).
      - destruct (Inv_cb_read x s I Hin) as (A & C & _); auto.
      - destruct (has_hup_err e); [apply Inv_set_flag; auto|split; auto; apply ext_refl]. }
    cbv zeta. rewrite <- Es1.
    assert (B1 : bk s1 = BEpoll) by (rewrite (e_bk _ _ E1); auto).
    assert (R1 : forall z, In z (ereg s) -> In z (ereg s1)).
    { intros z Hz. destruct E1. destruct e_ereg0 as [l ->]. apply in_or_app. auto. }
    destruct (cflag (cx s1 x)); [|auto].
    split; [|split; [simpl; auto|]].
    + eapply (Inv_close_gen x s1); simpl; auto.
      * eapply ext_In_clist; eauto.
      * intros z. destruct (Nat.eqb z x) eqn:E; auto. apply Nat.eqb_eq in E; subst; auto.
      * intros z. destruct (Nat.eqb z x); auto.
      * rewrite B1. discriminate.
      * intros _ z Hz. apply rm_In in Hz. auto.
    + simpl. intros z Hne Hz. apply rm_In. split; auto.
Qed.

Lemma Inv_ep_walk : forall evs s, Inv s -> bk s = BEpoll -> NoDup (map fst evs) ->
  (forall x, In x (map fst evs) -> In x (ereg s)) ->
  Inv (ep_walk evs s) /\ bk (ep_walk evs s) = BEpoll.
Proof.
  induction evs as [|[x e] r IH]; intros s I B ND Hreg; simpl; auto.
  inversion ND as [|? ? Hnx ND']; subst.
  destruct (Inv_ep_step x e s I B (Hreg x (or_introl eq_refl))) as (I' & B' & R').
  apply IH; auto.
  intros z Hz. apply R'; [intro; subst; contradiction|]. apply Hreg. right; auto.
Qed.

(* ------------------------------------------------------------------ one iteration, the whole run *)
Lemma Inv_dispatch : forall rep n s, Inv s -> Inv (dispatch rep n s) /\ bk (dispatch rep n s) = bk s.
Proof.
  intros rep n s I. unfold dispatch. destruct (bk s) eqn:B.
  - unfold dispatch_select. destruct (Nat.ltb 0 n); [|auto].
    assert (I1 : Inv (set_sset [] s)) by (eapply Inv_view; [apply sv_set_sset|auto]).
    assert (exists s2, s2 = (if negb (Nat.eqb (lookup 0 rep) 0) then handle_wakeup (set_sset [] s) else set_sset [] s) /\ Inv s2 /\ bk s2 = BSelect) as (s2 & Es2 & I2 & B2).
    { eexists; split; [reflexivity|]. destruct (negb _); [|auto].
      destruct (Inv_handle_wakeup _ I1) as [A C]. split; auto. rewrite (e_bk _ _ C). auto. }
    rewrite <- Es2.
    apply Inv_sel_walk; auto. eapply Inv_view; [apply sv_set_sset|auto].
  - unfold dispatch_poll.
    set (s1 := set_parr _ s).
    assert (V : same_view s s1).
    { unfold s1. constructor; simpl; auto. rewrite map_map. simpl. auto. }
    assert (I1 : Inv s1) by (eapply Inv_view; eauto).
    destruct (Nat.ltb 0 n); [|split; auto].
    apply Inv_poll_walk; auto.
  - unfold dispatch_epoll.
    set (s1 := set_erdl _ s).
    assert (I1 : Inv s1) by (eapply Inv_view; [apply sv_set_erdl|auto]).
    destruct (ep_filter_spec rep [] (ereg s)) as [ND Hr].
    apply Inv_ep_walk; auto. intros x Hx. apply Hr; auto.
Qed.

(* the timer callback: a tick, then the next timer phase (or the exit after the last one) *)
Lemma Inv_cb_timer : forall s, Inv s -> Inv (cb_timer s) /\ ext s (cb_timer s).
Proof.
  intros s I. unfold cb_timer.
  destruct (quiet_step ETimer s s Logic.I (sv_refl s) eq_refl I) as [I1 E1].
  set (s1 := emit ETimer s) in *.
  destruct (tphases s1) as [|p rest] eqn:P.
  - destruct (Inv_do_act AExit _ I1) as [I2 E2]. split; auto. eapply ext_trans; eauto.
  - assert (I2 : Inv (set_tphases rest s1)) by (eapply Inv_view; [apply sv_set_tphases|auto]).
    destruct (Inv_do_acts p _ I2) as [I3 E3]. split; auto.
    eapply ext_trans; [apply E1|]. eapply ext_trans; [|apply E3]. apply sv_ext; auto. apply sv_set_tphases.
Qed.

Lemma Inv_iter : forall o s, Inv s -> Inv (iter o s) /\ bk (iter o s) = bk s.
Proof.
  intros o s I. unfold iter.
  assert (D : Inv (dispatch (orep o) (on o) (if oidle o then inject s else s)) /\
              bk (dispatch (orep o) (on o) (if oidle o then inject s else s)) = bk s).
  { destruct (oidle o).
    - destruct (Inv_dispatch (orep o) (on o) (inject s)) as [A B]; [eapply Inv_view; [apply sv_inject|auto]|].
      split; auto. rewrite B. apply (v_bk _ _ (sv_inject s)).
    - apply Inv_dispatch; auto. }
  destruct D as [A B]. destruct (tmr _); [|auto].
  destruct (Inv_cb_timer _ A) as [A2 E2]. split; auto. rewrite (e_bk _ _ E2). auto.
Qed.

Lemma finish_tr : forall s, tr (finish s) = EExit :: rev (map EClear (clist s)) ++ tr s.
Proof.
  intros s. unfold finish. simpl. f_equal.
  assert (forall l s0, tr (fold_left (fun s x => emit (EClear x) s) l s0) = rev (map EClear l) ++ tr s0) as F.
  { induction l as [|a l IH]; intros s0; simpl; auto. rewrite IH. simpl. rewrite <- app_assoc. auto. }
  apply F.
Qed.

Lemma Inv_run : forall os s s' fin, Inv s -> run os s = (s', fin) ->
  if fin then exists s1, Inv s1 /\ bk s1 = bk s /\ s' = finish s1 else Inv s' /\ bk s' = bk s.
Proof.
  induction os as [|o r IH]; intros s s' fin I R; simpl in R.
  - inversion R; subst. auto.
  - destruct (Inv_iter o s I) as [I1 B1].
    destruct (toexit (iter o s)).
    + inversion R; subst. exists (iter o s). auto.
    + specialize (IH _ _ _ I1 R). destruct fin.
      * destruct IH as (s1 & A & B & C). exists s1. split; [auto|]. split; [rewrite B; auto|auto].
      * destruct IH as [A B]; split; [auto|rewrite B; auto].
Qed.

Lemma Inv_init : forall b sc, Inv (init b sc).
Proof.
  intros. unfold init. constructor; simpl; auto; try tauto; try discriminate.
  - constructor.
  - split; [intros []|intros x []].
Qed.

Lemma Inv_start : forall b sc, Inv (start b sc) /\ bk (start b sc) = b.
Proof.
  intros. unfold start.
  destruct (Inv_do_acts (hd [] (s_phases sc)) (init b sc) (Inv_init b sc)) as [I E].
  set (s1 := do_acts (hd [] (s_phases sc)) (init b sc)) in *.
  assert (B : bk s1 = b) by (rewrite (e_bk _ _ E); auto).
  destruct b; auto.
  unfold backend_add. rewrite B. simpl.
  match goal with |- context [if ?c then _ else _] => destruct c end; simpl.
  - split; auto. destruct I. constructor; simpl; auto.
    intros _ x Hx. apply in_app_or in Hx. destruct Hx as [Hx|[<-|[]]]; auto.
  - assert (V : same_view (set_ereg (ereg s1 ++ [0]) s1) (edge 0 (set_ereg (ereg s1 ++ [0]) s1))) by apply sv_edge.
    split; [|rewrite (v_bk _ _ V); auto].
    eapply Inv_view; [apply V|].
    destruct I. constructor; simpl; auto.
    intros _ x Hx. apply in_app_or in Hx. destruct Hx as [Hx|[<-|[]]]; auto.
Qed.

(* ------------------------------------------------------------------ the life-cycle theorems *)
Theorem life_close_once : forall b sc os x,
  count_occ ev_eq_dec (tr (fst (runs b sc os))) (EClose x) <= 1.
Proof.
  intros. unfold runs. destruct (Inv_start b sc) as [I B].
  destruct (run os (start b sc)) as [s' fin] eqn:R.
  pose proof (Inv_run _ _ _ _ I R) as H. simpl.
  destruct fin.
  - destruct H as (s1 & I1 & _ & ->). rewrite finish_tr. simpl.
    rewrite count_occ_app.
    assert (count_occ ev_eq_dec (rev (map EClear (clist s1))) (EClose x) = 0) as ->.
    { apply count_occ_not_In. intro C. apply in_rev, in_map_iff in C. destruct C as (y & E & _). discriminate. }
    simpl. destruct (ev_eq_dec EExit (EClose x)); [discriminate|]. apply wf_count. apply I1.
  - apply wf_count. apply H.
Qed.

Lemma wf_app_clears : forall l t, wf_tr t -> (forall y, In y l -> ~ In (EClose y) t) ->
  wf_tr (rev (map EClear l) ++ t).
Proof.
  induction l as [|a l IH]; intros t W H; simpl; auto.
  rewrite <- app_assoc. simpl. apply IH.
  - simpl. split; auto. intros y T. apply Nat.eqb_eq in T. subst y. apply H. left; auto.
  - intros y Hy [C|C]; [discriminate|]. apply (H y); auto. right; auto.
Qed.

Lemma wf_finish : forall s, Inv s -> wf_tr (tr (finish s)).
Proof.
  intros s I. rewrite finish_tr. simpl. split; [|intros y T; discriminate].
  apply wf_app_clears; [apply I|].
  intros y Hy C. apply (i_closed s I) in C. destruct (i_reg s I y Hy) as (_ & _ & D). congruence.
Qed.

(* forward trace: nothing about x after its close callback *)
Theorem life_no_callback_after_close : forall b sc os x t1 t2,
  rev (tr (fst (runs b sc os))) = t1 ++ EClose x :: t2 ->
  forall e, In e t2 -> touches e x = false.
Proof.
  intros b sc os x t1 t2 H e He. unfold runs in H. destruct (Inv_start b sc) as [I B].
  destruct (run os (start b sc)) as [s' fin] eqn:R.
  pose proof (Inv_run _ _ _ _ I R) as HI. simpl in H.
  assert (T : tr s' = rev t2 ++ EClose x :: rev t1).
  { rewrite <- (rev_involutive (tr s')), H, rev_app_distr. simpl. rewrite <- app_assoc. auto. }
  apply -> in_rev in He.
  assert (W : wf_tr (tr s')).
  { destruct fin.
    - destruct HI as (s1 & I1 & _ & ->). apply wf_finish; auto.
    - apply HI. }
  rewrite T in W. eapply wf_after_close; eauto.
Qed.

(* when the loop has exited: the clear callback ran exactly once, in list order, for exactly the
   contexts still registered (accepted by add_ctx and not closed), then the exit callback, last *)
Theorem life_clear_and_exit : forall b sc os s',
  runs b sc os = (s', true) ->
  exists s1,
    tr s' = EExit :: rev (map EClear (clist s1)) ++ tr s1 /\
    NoDup (clist s1) /\
    (forall x, In x (clist s1) <-> In (EAct (AAdd x) 0) (tr s1) /\ ~ In (EClose x) (tr s1)) /\
    ~ In EExit (tr s1) /\ (forall x, ~ In (EClear x) (tr s1)).
Proof.
  intros b sc os s' R. unfold runs in R. destruct (Inv_start b sc) as [I B].
  pose proof (Inv_run _ _ _ _ I R) as (s1 & I1 & _ & ->).
  exists s1. split; [apply finish_tr|]. split; [apply I1|]. split; [|apply I1].
  intros x. split.
  - intros Hx. split; [apply I1; auto|].
    intro C. apply (i_closed s1 I1) in C. destruct (i_reg s1 I1 x Hx) as (_ & _ & D). congruence.
  - intros [A C]. destruct (i_added s1 I1 x A); auto. contradiction.
Qed.

(* while the loop has not exited there is neither a clear nor an exit callback *)
Theorem life_no_exit_before : forall b sc os s',
  runs b sc os = (s', false) -> ~ In EExit (tr s') /\ forall x, ~ In (EClear x) (tr s').
Proof.
  intros b sc os s' R. unfold runs in R. destruct (Inv_start b sc) as [I B].
  pose proof (Inv_run _ _ _ _ I R) as [I1 _]. apply I1.
Qed.

Theorem life_exit_once : forall b sc os,
  count_occ ev_eq_dec (tr (fst (runs b sc os))) EExit <= 1.
Proof.
  intros. destruct (runs b sc os) as [s' fin] eqn:R. simpl. destruct fin.
  - destruct (life_clear_and_exit _ _ _ _ R) as (s1 & T & _ & _ & NE & _). rewrite T. simpl.
    destruct (ev_eq_dec EExit EExit); [|congruence].
    rewrite count_occ_app.
    assert (count_occ ev_eq_dec (rev (map EClear (clist s1))) EExit = 0) as ->.
    { apply count_occ_not_In. intro C. apply in_rev, in_map_iff in C. destruct C as (y & E & _). discriminate. }
    rewrite (proj1 (count_occ_not_In ev_eq_dec (tr s1) EExit) NE). auto.
  - destruct (life_no_exit_before _ _ _ _ R) as [NE _].
    rewrite (proj1 (count_occ_not_In ev_eq_dec (tr s') EExit) NE). auto.
Qed.

(* the loop on the model's own kernel is one of the oracle-driven runs *)
Lemma runk_is_run : forall fuel s, exists os, run os s = runk fuel s.
Proof.
  induction fuel as [|f IH]; intros s; simpl.
  - exists []. auto.
  - destruct (IH (iter (kern_o s) s)) as [os E].
    exists (kern_o s :: os). simpl. rewrite E. auto.
Qed.

(* every state the loop can be in between two kernel calls satisfies the invariant *)
Lemma reach_Inv : forall b sc os s, runs b sc os = (s, false) -> Inv s /\ bk s = b.
Proof.
  intros b sc os s R. unfold runs in R. destruct (Inv_start b sc) as [I B].
  pose proof (Inv_run _ _ _ _ I R) as [A C]. split; auto. congruence.
Qed.

(* non-vacuity: a run with read, close, clear and exit callbacks *)
Definition example_script : script :=
  mkScr 8 [(1, KUnix); (2, KUnix); (3, KUnix)]
        [[AAdd 3; AAdd 2; AAdd 1; AWrite 1 5; AWrite 3 5]]
        [mkT 1 5 (AWrite 2 7); mkT 2 7 (AShut 2)] false [].

Example life_nonvacuous : forall b, exists os s,
  runs b example_script os = (s, true) /\
  In (ERead 2 7) (tr s) /\ In (EClose 2) (tr s) /\ In (EClear 1) (tr s) /\ In (EClear 3) (tr s) /\
  hd EWake (tr s) = EExit.
Proof.
  intros b. destruct (runk_is_run 10 (start b example_script)) as [os E].
  exists os, (fst (runk 10 (start b example_script))).
  unfold runs. rewrite E. destruct b; vm_compute; repeat split; auto 20.
Qed.
