(* C13 — isolation: adding, capacity-rejecting or removing one context leaves every other
   context's registration and pending data untouched; and what each loop does when the kernel
   reports a context readable. *)
From MV Require Import C13.Model C13.ProofsLife.
From Coq Require Import Permutation.

(* ------------------------------------------------------------------ add / reject *)
Definition tables_same (s s' : st) : Prop :=
  clist s' = clist s /\ parr s' = parr s /\ sset s' = sset s /\ ereg s' = ereg s /\ erdl s' = erdl s.

Lemma add_set_incl : forall x y l, In x l -> In x (add_set y l).
Proof. intros. unfold add_set. destruct (mem y l); auto. apply in_or_app; auto. Qed.

Lemma iso_add : forall y s, cadded (cx s y) = false -> y <> 0 ->
  let s' := do_act (AAdd y) s in
  (forall x, x <> y -> cx s' x = cx s x) /\
  cq (cx s' y) = cq (cx s y) /\
  ((* accepted: appended behind every existing registration *)
   (tr s' = EAct (AAdd y) 0 :: tr s /\ clist s' = clist s ++ [y] /\
    (exists l, parr s' = parr s ++ l) /\ (forall x, In x (sset s) -> In x (sset s')) /\
    (exists l, ereg s' = ereg s ++ l) /\ (exists l, erdl s' = erdl s ++ l)) \/
   (* refused for capacity: nothing at all changes but the flag that an add was attempted *)
   (tr s' = EAct (AAdd y) 2 :: tr s /\ tables_same s s')).
Proof.
  intros y s G1 G2. apply Nat.eqb_neq in G2.
  unfold do_act. rewrite G1, G2. simpl orb. cbv iota.
  set (c := cx s y). set (s0 := updc y _ s).
  destruct (add_ctx y s0) as [s1 ok] eqn:A. destruct ok.
  - unfold add_ctx, backend_add in A. simpl in A.
    destruct (bk s) eqn:B; simpl in A.
    + inversion A; subst s1; clear A. simpl.
      split; [intros x Hx; apply Nat.eqb_neq in Hx; rewrite ?Hx; simpl; rewrite ?Hx; auto|].
      split; [rewrite ?Nat.eqb_refl; simpl; rewrite ?Nat.eqb_refl; auto|].
      left. repeat split; auto; try solve [exists []; rewrite app_nil_r; auto]. intros; apply add_set_incl; auto.
    + destruct (Nat.eqb (length (parr s)) (pcap s)); inversion A; subst s1; clear A. simpl.
      split; [intros x Hx; apply Nat.eqb_neq in Hx; rewrite ?Hx; simpl; rewrite ?Hx; auto|].
      split; [rewrite ?Nat.eqb_refl; simpl; rewrite ?Nat.eqb_refl; auto|].
      left. repeat split; auto; try solve [exists []; rewrite app_nil_r; auto]. eauto.
    + match type of A with context [if ?c then _ else _] => destruct c end; inversion A; subst s1; clear A.
      * simpl.
        split; [intros x Hx; apply Nat.eqb_neq in Hx; rewrite ?Hx; simpl; rewrite ?Hx; auto|].
        split; [rewrite ?Nat.eqb_refl; simpl; rewrite ?Nat.eqb_refl; auto|].
        left. repeat split; auto; try solve [exists []; rewrite app_nil_r; auto]. eauto.
      * unfold edge. simpl.
        match goal with |- context [if ?c then _ else _] => destruct c end; simpl.
        -- split; [intros x Hx; apply Nat.eqb_neq in Hx; rewrite ?Hx; simpl; rewrite ?Hx; auto|].
           split; [rewrite ?Nat.eqb_refl; simpl; rewrite ?Nat.eqb_refl; auto|].
           left. repeat split; auto; try solve [exists []; rewrite app_nil_r; auto]; eauto.
        -- split; [intros x Hx; apply Nat.eqb_neq in Hx; rewrite ?Hx; simpl; rewrite ?Hx; auto|].
           split; [rewrite ?Nat.eqb_refl; simpl; rewrite ?Nat.eqb_refl; auto|].
           left. repeat split; auto; try solve [exists []; rewrite app_nil_r; auto]; eauto.
  - apply add_ctx_rej_view in A. subst s1. simpl.
    split; [intros x Hx; apply Nat.eqb_neq in Hx; rewrite ?Hx; simpl; rewrite ?Hx; auto|].
    split; [rewrite ?Nat.eqb_refl; simpl; rewrite ?Nat.eqb_refl; auto|].
    right. repeat split; auto.
Qed.

(* ------------------------------------------------------------------ poll: removal by swap-with-last *)
Lemma set_nth_lower : forall {A} (l : list A) i j q, j <> i -> nth_error (set_nth i q l) j = nth_error l j.
Proof.
  induction l as [|a l IH]; intros i j q H; destruct i, j; simpl; auto; try congruence.
Qed.

Lemma removelast_lower : forall {A} (l : list A) j, S j < length l -> nth_error (removelast l) j = nth_error l j.
Proof.
  induction l as [|a l IH]; intros j H; simpl in *; [lia|].
  destruct l as [|b l]; [simpl in *; lia|].
  destruct j; simpl; auto. apply IH. simpl in *. lia.
Qed.

(* slots below the removed one keep their context and their revents *)
Lemma poll_remove_lower : forall l i j, j < i -> i < length l -> nth_error (poll_remove i l) j = nth_error l j.
Proof.
  intros l i j Hj Hi. unfold poll_remove.
  destruct l as [|a l0] eqn:L; [simpl in *; lia|]. rewrite <- L in *.
  destruct (Nat.eqb i (length l - 1)).
  - apply removelast_lower. lia.
  - rewrite set_nth_lower by lia. apply removelast_lower. lia.
Qed.

(* every slot other than the removed one survives, with its revents: permutation *)
Lemma iso_poll_remove : forall l i p, nth_error l i = Some p ->
  Permutation l (p :: poll_remove i l) /\
  (1 <= i -> hd_error (poll_remove i l) = hd_error l) /\
  (forall j, j < i -> nth_error (poll_remove i l) j = nth_error l j).
Proof.
  intros l i p H. split; [apply poll_remove_perm; auto|]. split.
  - intros Hi. eapply poll_remove_hd; eauto.
  - intros j Hj. apply poll_remove_lower; auto. apply nth_error_Some. congruence.
Qed.

(* the step at slot i leaves every lower slot as the kernel filled it: a slot skipped by the
   early break (n exhausted by an fd counted twice for POLLIN and POLLHUP) is still registered
   with its descriptor and is reported again by the next, level-triggered, poll() *)
Lemma ext_parr_lower : forall s s' j, ext s s' -> j < length (parr s) -> nth_error (parr s') j = nth_error (parr s) j.
Proof. intros s s' j E H. destruct (e_parr _ _ E) as [l ->]. apply nth_error_app1; auto. Qed.

Lemma poll_step_lower : forall i n s j, Inv s -> bk s = BPoll -> 1 <= i -> j < i -> i < length (parr s) ->
  nth_error (parr (fst (poll_step i n s))) j = nth_error (parr s) j.
Proof.
  intros i n s j I B Hi Hj Hlen. unfold poll_step.
  destruct (Nat.eqb i 0) eqn:E0; [apply Nat.eqb_eq in E0; lia|].
  destruct (nth_error (parr s) i) as [[x re]|] eqn:N; [|auto].
  destruct (Inv_poll_step_close s x re i I B Hi N) as [Hin _].
  assert (exists s1 n1, (if has_in re then (cb_read x s, n - 1) else (s, n)) = (s1, n1) /\
            (exists l, parr s1 = parr s ++ l)) as (s1 & n1 & -> & [l1 P1]).
  { destruct (has_in re); eexists; eexists; (split; [reflexivity|]).
    - destruct (Inv_cb_read x s I Hin) as (_ & C & _). apply (e_parr _ _ C).
    - exists []. rewrite app_nil_r. auto. }
  assert (exists s2 n2, (if has_hup_err re then (set_flag x s1, n1 - 1) else (s1, n1)) = (s2, n2) /\
            parr s2 = parr s1) as (s2 & n2 & -> & P2).
  { destruct (has_hup_err re); eexists; eexists; (split; [reflexivity|]); auto. }
  destruct (cflag (cx s2 x)); simpl.
  - rewrite P2, P1. rewrite poll_remove_lower; [|auto|rewrite app_length; lia].
    apply nth_error_app1. lia.
  - rewrite P2, P1. apply nth_error_app1. lia.
Qed.

(* ------------------------------------------------------------------ select: the rebuilt set has no stale descriptor *)
Definition no_stale (s : st) : Prop := forall z, In z (sset s) -> z = 0 \/ In z (clist s).

Lemma add_set_In : forall x y l, In x (add_set y l) -> x = y \/ In x l.
Proof.
  intros x y l H. unfold add_set in H. destruct (mem y l); auto.
  apply in_app_or in H. destruct H as [H|[H|[]]]; auto.
Qed.

Lemma no_stale_do_act : forall a s, no_stale s -> no_stale (do_act a s).
Proof.
  intros a s H. unfold no_stale in *.
  destruct a; unfold do_act; simpl;
    repeat match goal with |- context [if ?c then _ else _] => destruct c eqn:?; simpl end;
    unfold edge; simpl; repeat match goal with |- context [if ?c then _ else _] => destruct c eqn:?; simpl end; auto.
  all: unfold add_ctx, backend_add; simpl.
  all: destruct (bk s); simpl;
    repeat match goal with |- context [if ?c then _ else _] => destruct c eqn:?; simpl end;
    unfold edge; simpl; repeat match goal with |- context [if ?c then _ else _] => destruct c eqn:?; simpl end.
  all: intros z Hz; try (apply add_set_In in Hz; destruct Hz as [->|Hz]; [right; apply in_or_app; right; left; auto|]).
  all: try (destruct (H z Hz); auto; right; apply in_or_app; auto).
  all: auto.
Qed.

Lemma no_stale_do_acts : forall l s, no_stale s -> no_stale (do_acts l s).
Proof. induction l; intros; simpl; auto. apply IHl. apply no_stale_do_act; auto. Qed.

Lemma no_stale_view : forall s s', sset s' = sset s -> clist s' = clist s -> no_stale s -> no_stale s'.
Proof. unfold no_stale; intros s s' A B H z Hz. rewrite A in Hz. rewrite B. auto. Qed.

Lemma no_stale_cb_read : forall x s, no_stale s -> no_stale (cb_read x s).
Proof. intros. unfold cb_read. apply no_stale_do_acts. eapply no_stale_view; [| |apply H]; auto. Qed.

Lemma no_stale_handle_wakeup : forall s, no_stale s -> no_stale (handle_wakeup s).
Proof.
  intros s H. unfold handle_wakeup.
  set (s1 := emit EWake (set_wk 0 s)).
  assert (H1 : no_stale s1) by (apply (no_stale_view s); auto).
  destruct (idle s1); auto.
  assert (H2 : no_stale (set_idle false s1)) by (apply (no_stale_view s1); auto).
  destruct (phases (set_idle false s1)) eqn:P.
  - apply no_stale_do_act; auto.
  - apply no_stale_do_acts. apply (no_stale_view (set_idle false s1)); auto.
Qed.

Lemma no_stale_sel_walk : forall f i rep s, no_stale s -> no_stale (sel_walk f i rep s).
Proof.
  induction f as [|f IH]; intros i rep s H; simpl; auto.
  destruct (nth_error (clist s) i) as [x|] eqn:N; auto.
  set (s1 := if negb (Nat.eqb (lookup x rep) 0) then cb_read x s else s).
  assert (H1 : no_stale s1) by (unfold s1; destruct (negb _); auto using no_stale_cb_read).
  assert (N1 : In x (clist s) -> True) by auto.
  destruct (cflag (cx s1 x)).
  - apply IH. unfold no_stale in *. simpl. intros z Hz. apply rm_In in Hz. destruct Hz as [Hz Hne].
    destruct (H1 z Hz); auto. right. apply rm_In. auto.
  - apply IH. unfold no_stale in *. simpl. intros z Hz. apply add_set_In in Hz. destruct Hz as [->|Hz]; auto.
    right. unfold s1. destruct (negb _).
    + apply nth_error_In in N. unfold cb_read.
      assert (forall l s0, In x (clist s0) -> In x (clist (do_acts l s0))) as D.
      { clear. induction l as [|a l IH]; intros s0 Hx; simpl; auto. apply IH.
        destruct a; unfold do_act; simpl;
          repeat match goal with |- context [if ?c then _ else _] => destruct c eqn:?; simpl end;
          unfold edge; simpl; repeat match goal with |- context [if ?c then _ else _] => destruct c eqn:?; simpl end; auto.
        all: unfold add_ctx, backend_add; simpl.
        all: destruct (bk s0); simpl;
          repeat match goal with |- context [if ?c then _ else _] => destruct c eqn:?; simpl end;
          unfold edge; simpl; repeat match goal with |- context [if ?c then _ else _] => destruct c eqn:?; simpl end.
        all: auto; apply in_or_app; auto. }
      apply D. simpl. auto.
    + apply nth_error_In in N. auto.
Qed.

(* after every pass of the (repaired) select loop, allset holds the signal fd and registered
   contexts only: a context removed in the pass is not re-added, not even when it was added to
   the set by add_ctx during the same pass *)
Lemma iso_select_rebuild : forall rep n s, Nat.ltb 0 n = true -> no_stale (dispatch_select rep n s).
Proof.
  intros rep n s Hn. unfold dispatch_select. rewrite Hn.
  apply no_stale_sel_walk.
  set (s2 := if negb (Nat.eqb (lookup 0 rep) 0) then handle_wakeup (set_sset [] s) else set_sset [] s).
  assert (H2 : no_stale s2).
  { unfold s2. destruct (negb _); [apply no_stale_handle_wakeup|]; unfold no_stale; simpl; tauto. }
  unfold no_stale in *. simpl. intros z Hz. apply add_set_In in Hz. destruct Hz; auto.
Qed.

(* ------------------------------------------------------------------ read callback when reported *)
(* epoll: every event with EPOLLIN for a registered context gets its read callback in that batch *)
Lemma tr_grows_ep_step : forall x e s, Inv s -> bk s = BEpoll -> In x (ereg s) -> exists t, tr (ep_step x e s) = t ++ tr s.
Proof.
  intros x e s I B Hreg. unfold ep_step.
  destruct (Nat.eqb x 0) eqn:E0.
  - destruct (has_in e); [|exists []; auto]. destruct (Inv_handle_wakeup s I) as [_ C]. apply C.
  - apply Nat.eqb_neq in E0.
    assert (Hin : In x (clist s)) by (destruct (i_ereg s I B x Hreg); auto; congruence).
    assert (exists t, tr (if has_in e then cb_read x s else if has_hup_err e then set_flag x s else s) = t ++ tr s) as [t T].
    { destruct (has_in e).
      - destruct (Inv_cb_read x s I Hin) as (_ & C & _). apply C.
      - destruct (has_hup_err e); exists []; auto. }
    cbv zeta. destruct (cflag _); simpl; [exists (EClose x :: t); rewrite T; auto|eauto].
Qed.

Lemma read_ep_walk : forall evs s, Inv s -> bk s = BEpoll -> NoDup (map fst evs) ->
  (forall x, In x (map fst evs) -> In x (ereg s)) ->
  forall x e, In (x, e) evs -> x <> 0 -> has_in e = true ->
  exists t n, tr (ep_walk evs s) = t ++ tr s /\ In (ERead x n) t.
Proof.
  induction evs as [|[y f] r IH]; intros s I B ND Hreg x e Hin Hx He; [destruct Hin|].
  simpl. inversion ND as [|? ? Hny ND']; subst.
  destruct (Inv_ep_step y f s I B (Hreg y (or_introl eq_refl))) as (I' & B' & R').
  assert (Hreg' : forall z, In z (map fst r) -> In z (ereg (ep_step y f s))).
  { intros z Hz. apply R'; [intro; subst; contradiction|]. apply Hreg. right; auto. }
  destruct Hin as [E|Hin].
  - inversion E; subst y f.
    assert (exists t n, tr (ep_step x e s) = t ++ tr s /\ In (ERead x n) t) as (t & n & T & Tin).
    { unfold ep_step. apply Nat.eqb_neq in Hx. rewrite Hx, He. apply Nat.eqb_neq in Hx.
      assert (Hc : In x (clist s)) by (destruct (i_ereg s I B x (Hreg x (or_introl eq_refl))); auto; congruence).
      destruct (Inv_cb_read x s I Hc) as (_ & _ & t & n & T & Tin).
      cbv zeta. destruct (cflag _); simpl; [exists (EClose x :: t)|exists t]; exists n; rewrite T; split; auto. right; auto. }
    assert (exists t2, tr (ep_walk r (ep_step x e s)) = t2 ++ tr (ep_step x e s)) as [t2 T2].
    { clear - I' B' ND' Hreg'. revert I' B' Hreg'. generalize (ep_step x e s) as s0.
      induction r as [|[z g] r IHr]; intros s0 I0 B0 H0; simpl; [exists []; auto|].
      inversion ND' as [|? ? Hnz ND2]; subst.
      destruct (Inv_ep_step z g s0 I0 B0 (H0 z (or_introl eq_refl))) as (I1 & B1 & R1).
      destruct (tr_grows_ep_step z g s0 I0 B0 (H0 z (or_introl eq_refl))) as [t1 T1].
      destruct (IHr ND2 _ I1 B1) as [t3 T3].
      { intros w Hw. apply R1; [intro; subst; contradiction|]. apply H0. right; auto. }
      exists (t3 ++ t1). rewrite T3, T1, app_assoc. auto. }
    exists (t2 ++ t), n. rewrite T2, T, app_assoc. split; auto. apply in_or_app; auto.
  - destruct (IH _ I' B' ND' Hreg' x e Hin Hx He) as (t & n & T & Tin).
    destruct (tr_grows_ep_step y f s I B (Hreg y (or_introl eq_refl))) as [t1 T1].
    exists (t ++ t1), n. rewrite T, T1, app_assoc. split; auto. apply in_or_app; auto.
Qed.

Lemma read_dispatch_epoll : forall rep s, Inv s -> bk s = BEpoll ->
  forall x e, In (x, e) (ep_filter [] (ereg s) rep) -> x <> 0 -> has_in e = true ->
  exists t n, tr (dispatch_epoll rep s) = t ++ tr s /\ In (ERead x n) t.
Proof.
  intros rep s I B x e Hin Hx He. unfold dispatch_epoll.
  set (s1 := set_erdl _ s).
  assert (I1 : Inv s1) by (eapply Inv_view; [apply sv_set_erdl|auto]).
  destruct (ep_filter_spec rep [] (ereg s)) as [ND Hr].
  apply (read_ep_walk (ep_filter [] (ereg s) rep) s1 I1 B ND) with (e := e); auto.
  intros z Hz. apply Hr; auto.
Qed.

(* the three isolation statements together *)
Lemma iso_all :
  (forall y s, cadded (cx s y) = false -> y <> 0 ->
     let s' := do_act (AAdd y) s in
     (forall x, x <> y -> cx s' x = cx s x) /\ cq (cx s' y) = cq (cx s y) /\
     ((tr s' = EAct (AAdd y) 0 :: tr s /\ clist s' = clist s ++ [y] /\
       (exists l, parr s' = parr s ++ l) /\ (forall x, In x (sset s) -> In x (sset s')) /\
       (exists l, ereg s' = ereg s ++ l) /\ (exists l, erdl s' = erdl s ++ l)) \/
      (tr s' = EAct (AAdd y) 2 :: tr s /\ tables_same s s'))) /\
  (forall l i p, nth_error l i = Some p ->
     Permutation l (p :: poll_remove i l) /\
     (1 <= i -> hd_error (poll_remove i l) = hd_error l) /\
     (forall j, j < i -> nth_error (poll_remove i l) j = nth_error l j)) /\
  (forall rep n s, Nat.ltb 0 n = true -> no_stale (dispatch_select rep n s)) /\
  (forall b sc os s, runs b sc os = (s, false) ->
     NoDup (clist s) /\
     (b = BPoll -> hd_error (map fst (parr s)) = Some 0 /\ Permutation (map fst (parr s)) (0 :: clist s)) /\
     (b = BEpoll -> forall x, In x (ereg s) -> x = 0 \/ In x (clist s))).
Proof.
  split; [exact iso_add|]. split; [exact iso_poll_remove|]. split; [exact iso_select_rebuild|].
  intros b sc os s R. destruct (reach_Inv _ _ _ _ R) as [I B]. split; [apply I|]. split.
  - intros E. apply I. congruence.
  - intros E. apply I. congruence.
Qed.

(* non-vacuity *)
Example iso_poll_remove_example :
  poll_remove 1 [(0, 0); (5, 1); (6, 0); (7, 3)] = [(0, 0); (7, 3); (6, 0)] /\
  poll_remove 3 [(0, 0); (5, 1); (6, 0); (7, 3)] = [(0, 0); (5, 1); (6, 0)].
Proof. vm_compute. auto. Qed.

(* capacity rejection happens (poll, hints_max_fd = 1) and changes nothing *)
Definition cap_script : script := mkScr 1 [(1, KPipe); (2, KPipe)] [[AAdd 1; AWrite 1 3; AAdd 2]] [] false [].
Example iso_reject_example :
  let s := start BPoll cap_script in
  clist s = [1] /\ map fst (parr s) = [0; 1] /\ cq (cx s 1) = 3 /\ hd EWake (tr s) = EAct (AAdd 2) 2 /\
  clist (start BSelect cap_script) = [1; 2].
Proof. vm_compute. auto. Qed.

(* the poll back-end's double decrement: context 2 (slot 2) reports POLLIN|POLLHUP and uses up
   n = 2, the walk stops before slot 1 although context 1 was reported readable; slot 1 is untouched
   and the next poll() reports it again *)
Definition skip_script : script :=
  mkScr 4 [(1, KPipe); (2, KPipe)] [[AAdd 1; AAdd 2; AWrite 1 3; AWrite 2 4; APclose 2]] [] false [].
Example poll_double_decrement_skips_one_pass :
  let s := start BPoll skip_script in
  let s1 := iter (kern_o s) s in
  let s2 := iter (kern_o s1) s1 in
  kern s = [(1, 1); (2, 3)] /\
  rev (tr s1) = rev (tr s) ++ [ERead 2 4; EClose 2] /\
  kern s1 = [(1, 1)] /\
  rev (tr s2) = rev (tr s1) ++ [ERead 1 3].
Proof. vm_compute. auto. Qed.
