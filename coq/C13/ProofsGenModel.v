(* C13 — second tie, part 2: the per-visit decisions of the reference functions (C13/Decide.v), which
   C13/ProofsGen.v proves equal to the C text of this run, are the decisions of the model's step functions. *)
From Coq Require Import ZArith List Bool Lia Arith.
From MV Require Import Lib.Leaf C13.Decide C13.Model.
Import ListNotations.

(* ------------------------------------------------------------------ the decisions are the model's *)
(* The references above are built from dec_poll / dec_epoll / dec_select; the model's step functions
   (C13/Model.v: poll_step, ep_step, sel_walk), about which every C13 theorem speaks, take exactly these
   decisions: executing the decision with the model's callbacks IS the model's step. *)

Definition run_dec_poll (d : bool * bool * bool * Z) (x i n : nat) (s : st) : st * nat :=
  let '(dr, dsf, dcl, dn) := d in
  let s1 := if dr then cb_read x s else s in
  let s2 := if dsf then set_flag x s1 else s1 in
  let n2 := n - Z.to_nat dn in
  if dcl then
    let s3 := cb_close x s2 in
    let s4 := set_clist (rm x (clist s3)) s3 in
    (set_parr (poll_remove i (parr s4)) s4, n2)
  else (s2, n2).

Lemma cflag_set_flag : forall x s, cflag (cx (set_flag x s) x) = true.
Proof. intros. unfold set_flag. simpl. rewrite Nat.eqb_refl. reflexivity. Qed.

Lemma poll_step_is_dec : forall i n s x re, i <> 0 -> nth_error (parr s) i = Some (x, re) ->
  poll_step i n s =
  run_dec_poll (dec_poll (has_in re) (has_hup_err re) (cflag (cx s x)) (cflag (cx (cb_read x s) x))) x i n s.
Proof.
  intros i n s x re Hi Hn. unfold poll_step. apply Nat.eqb_neq in Hi. rewrite Hi, Hn.
  unfold run_dec_poll, dec_poll.
  destruct (has_in re); destruct (has_hup_err re); cbn [orb];
    rewrite ?cflag_set_flag;
    repeat match goal with |- context [if ?c then _ else _] => destruct c end;
    simpl; rewrite ?Nat.sub_0_r; try reflexivity.
  all: try (replace (n - 1 - 1) with (n - Pos.to_nat 2) by (simpl; lia); reflexivity).
Qed.

Definition run_dec_epoll (d : bool * bool * bool) (x : nat) (s : st) : st :=
  let '(dr, dsf, dcl) := d in
  let s1 := if dr then cb_read x s else if dsf then set_flag x s else s in
  if dcl then
    let s2 := set_erdl (rm x (erdl s1)) (set_ereg (rm x (ereg s1)) s1) in
    let s3 := cb_close x s2 in
    set_clist (rm x (clist s3)) s3
  else s1.

Lemma ep_step_is_dec : forall x e s, x <> 0 ->
  ep_step x e s =
  run_dec_epoll (dec_epoll (has_in e) (has_hup_err e) (cflag (cx s x)) (cflag (cx (cb_read x s) x))) x s.
Proof.
  intros x e s Hx. unfold ep_step. apply Nat.eqb_neq in Hx. rewrite Hx.
  unfold run_dec_epoll, dec_epoll.
  destruct (has_in e); destruct (has_hup_err e); cbn [orb andb negb]; rewrite ?cflag_set_flag; reflexivity.
Qed.

Lemma sel_walk_is_dec : forall f i rep s x, nth_error (clist s) i = Some x ->
  sel_walk (S f) i rep s =
  let '(dr, dcl) := dec_select (negb (Nat.eqb (lookup x rep) 0)) (cflag (cx s x)) (cflag (cx (cb_read x s) x)) in
  let s1 := if dr then cb_read x s else s in
  if dcl then
    let s2 := cb_close x (set_sset (rm x (sset s1)) s1) in
    sel_walk f i rep (set_clist (rm x (clist s2)) s2)
  else sel_walk f (S i) rep (set_sset (add_set x (sset s1)) s1).
Proof.
  intros f i rep s x Hn. cbn [sel_walk]. rewrite Hn. unfold dec_select.
  destruct (negb (Nat.eqb (lookup x rep) 0)); reflexivity.
Qed.

(* poll's swap-with-last removal of the references is the model's poll_remove *)
Lemma set_nth_g_model : forall {A} i (v : A) l, set_nth_g i v l = set_nth i v l.
Proof. induction i as [|i IH]; intros v [|a l]; simpl; auto; rewrite IH; reflexivity. Qed.

Lemma slot_remove_is_poll_remove : forall i (l : list (nat * nat)), slot_remove (0, 0) i l = poll_remove i l.
Proof. intros i [|a l]; reflexivity. Qed.

(* capacities and refusal: muggle_evloop_init_poll / _init_epoll size the tables with ref_capacity, the
   poll back-end refuses a context exactly when nfd = capcity, select and epoll never refuse *)
Lemma model_capacity_is_code : forall b sc,
  Z.of_nat (pcap (init b sc)) = ref_capacity (Z.of_nat (s_hints sc)) /\
  Z.of_nat (ecap (init b sc)) = ref_capacity (Z.of_nat (s_hints sc)) /\
  length (parr (init b sc)) = 1 /\ sset (init b sc) = [0].
Proof.
  intros b sc. unfold init, ref_capacity, default_hints. simpl.
  destruct (Nat.ltb (s_hints sc) 1) eqn:E.
  - apply Nat.ltb_lt in E. replace (Z.of_nat (s_hints sc) <? 1)%Z with true by (symmetry; apply Z.ltb_lt; lia).
    repeat split; reflexivity.
  - apply Nat.ltb_ge in E. replace (Z.of_nat (s_hints sc) <? 1)%Z with false by (symmetry; apply Z.ltb_ge; lia).
    repeat split; lia.
Qed.

Lemma model_refusal_is_code : forall x s,
  (bk s = BPoll -> snd (backend_add x s) = negb (Z.of_nat (length (parr s)) =? Z.of_nat (pcap s))%Z) /\
  (bk s = BSelect -> snd (backend_add x s) = true) /\
  (bk s = BEpoll -> snd (backend_add x s) = true).
Proof.
  intros x s. unfold backend_add. repeat split; intros B; rewrite B; simpl; auto.
  destruct (Nat.eqb (length (parr s)) (pcap s)) eqn:E.
  - apply Nat.eqb_eq in E. rewrite E, Z.eqb_refl. reflexivity.
  - apply Nat.eqb_neq in E. simpl. symmetry. apply Bool.negb_true_iff. apply Z.eqb_neq. lia.
Qed.

(* non-vacuity of the decision lemmas: a slot with input and a hang-up together is read, flagged, closed,
   and counted twice (the documented double decrement) *)
Example dec_poll_in_and_hup : dec_poll true true false false = (true, true, true, 2%Z).
Proof. reflexivity. Qed.
Example dec_epoll_in_and_hup : dec_epoll true true false false = (true, false, false).
Proof. reflexivity. Qed.
