(* C13 — the back-end-free specification of a script whose read-callback triggers only write:
   which triggers fire between two idle phases is the least fixpoint of "registered and threshold
   reached by the bytes written so far", computed by Kleene iteration; it does not depend on the
   order in which contexts are visited.  Pure lemmas (no loop here). *)
From MV Require Import C13.Model C13.ProofsLife C13.ProofsIso C13.ProofsRead.
From Coq Require Import Permutation.

Definition trigger_eq_dec : forall a b : trigger, {a = b} + {a <> b}.
Proof. decide equality; [apply action_eq_dec|apply Nat.eq_dec|apply Nat.eq_dec]. Defined.

Definition memt (l : list trigger) (t : trigger) : bool :=
  existsb (fun u => if trigger_eq_dec t u then true else false) l.

Lemma memt_In : forall l t, memt l t = true <-> In t l.
Proof.
  intros. unfold memt. rewrite existsb_exists. split.
  - intros (u & Hu & E). destruct (trigger_eq_dec t u); [subst; auto|discriminate].
  - intros H. exists t. split; auto. destruct (trigger_eq_dec t t); auto.
Qed.

Lemma memt_false : forall l t, memt l t = false <-> ~ In t l.
Proof.
  intros. split.
  - intros H C. apply memt_In in C. congruence.
  - intros H. destruct (memt l t) eqn:E; auto. apply memt_In in E. contradiction.
Qed.

Fixpoint nodupb (l : list trigger) : bool :=
  match l with [] => true | a :: r => negb (memt r a) && nodupb r end.
Lemma nodupb_NoDup : forall l, nodupb l = true -> NoDup l.
Proof.
  induction l as [|a l IH]; simpl; intros H; [constructor|].
  apply Bool.andb_true_iff in H. destruct H as [A B]. constructor; auto.
  apply Bool.negb_true_iff in A. apply memt_false in A. auto.
Qed.

(* bytes a trigger writes to y *)
Definition wr (y : nat) (t : trigger) : nat := act_writes_to y (tact t).
Definition is_write (a : action) : bool := match a with AWrite _ _ => true | _ => false end.

(* sums over the triggers of U selected by P, and over a list *)
Fixpoint ws (U : list trigger) (P : trigger -> bool) (y : nat) : nat :=
  match U with [] => 0 | t :: r => (if P t then wr y t else 0) + ws r P y end.
Fixpoint wsl (l : list trigger) (y : nat) : nat :=
  match l with [] => 0 | t :: r => wr y t + wsl r y end.

(* total bytes ever written to y when the triggers P of U have fired on top of the ghost E *)
Definition tot (E : st) (U : list trigger) (P : trigger -> bool) (y : nat) : nat :=
  cq (cx E y) + (if can_write (cx E y) then ws U P y else 0).
(* trigger t is enabled: its context is registered and its threshold is reached *)
Definition en (E : st) (U : list trigger) (P : trigger -> bool) (t : trigger) : bool :=
  cregok (cx E (tctx t)) && Nat.leb (tbytes t) (tot E U P (tctx t)).

Fixpoint itP (E : st) (U : list trigger) (n : nat) : trigger -> bool :=
  match n with 0 => fun _ => false | S k => en E U (itP E U k) end.
Definition LP (E : st) (U : list trigger) : trigger -> bool := itP E U (length U).

(* the ghost after the epoch, the triggers left, the whole specification *)
Definition settle (E : st) (U : list trigger) : st := do_acts (map tact (filter (LP E U) U)) E.
Definition unf (E : st) (U : list trigger) : list trigger := filter (fun t => negb (LP E U t)) U.
Fixpoint spec_go (E : st) (U : list trigger) (phs : list (list action)) : st :=
  match phs with
  | [] => settle E U
  | p :: r => spec_go (do_acts p (settle E U)) (unf E U) r
  end.
Definition spec_sw (sc : script) : st :=
  spec_go (do_acts (hd [] (s_phases sc)) (init BSelect sc)) (s_trigs sc) (tl (s_phases sc)).

(* ------------------------------------------------------------------ monotonicity *)
Lemma ws_mono : forall U P Q y, (forall t, In t U -> P t = true -> Q t = true) -> ws U P y <= ws U Q y.
Proof.
  induction U as [|t U IH]; intros P Q y H; simpl; auto.
  assert (ws U P y <= ws U Q y) by (apply IH; intros; apply H; auto; right; auto).
  destruct (P t) eqn:A; [rewrite (H t (or_introl eq_refl) A); lia|destruct (Q t); lia].
Qed.

Lemma ws_ext : forall U P Q y, (forall t, In t U -> P t = Q t) -> ws U P y = ws U Q y.
Proof.
  induction U as [|t U IH]; intros P Q y H; simpl; auto.
  rewrite (H t (or_introl eq_refl)), (IH P Q y); auto. intros; apply H; right; auto.
Qed.

Lemma en_mono : forall E U P Q t, (forall u, In u U -> P u = true -> Q u = true) ->
  en E U P t = true -> en E U Q t = true.
Proof.
  intros E U P Q t H A. unfold en, tot in *. apply Bool.andb_true_iff in A. destruct A as [A B].
  rewrite A. simpl. apply Nat.leb_le in B. apply Nat.leb_le.
  pose proof (ws_mono U P Q (tctx t) H). destruct (can_write _); lia.
Qed.

Lemma itP_chain : forall E U k t, itP E U k t = true -> itP E U (S k) t = true.
Proof.
  induction k as [|k IH]; intros t H; [discriminate|].
  simpl in *. eapply en_mono; [|apply H]. intros u _ Hu. apply IH. auto.
Qed.

Lemma itP_le : forall E U k m t, k <= m -> itP E U k t = true -> itP E U m t = true.
Proof.
  intros E U k m t H. induction H; auto. intros A. apply itP_chain. auto.
Qed.

(* completeness: a closed set contains every iterate *)
Lemma itP_complete : forall E U Q, (forall t, In t U -> en E U Q t = true -> Q t = true) ->
  forall k t, In t U -> itP E U k t = true -> Q t = true.
Proof.
  intros E U Q C. induction k as [|k IH]; intros t Ht H; [discriminate|].
  simpl in H. apply C; auto. eapply en_mono; [|apply H]. intros u Hu A. apply IH; auto.
Qed.

(* soundness: a history in which every trigger was enabled by the ones before it stays below *)
Definition Just (E : st) (U : list trigger) (h : list trigger) : Prop :=
  forall pre t post, h = pre ++ t :: post -> en E U (memt pre) t = true.

Lemma Just_sound : forall E U h, NoDup h -> incl h U -> Just E U h ->
  forall t, In t h -> LP E U t = true.
Proof.
  intros E U h ND INC J.
  assert (forall n pre t post, length pre = n -> h = pre ++ t :: post -> itP E U (S n) t = true) as K.
  { induction n as [n IH] using lt_wf_ind. intros pre t post L Eh.
    simpl. eapply en_mono; [|apply (J pre t post Eh)].
    intros u _ Hu. apply memt_In in Hu. destruct (in_split _ _ Hu) as (p1 & p2 & ->).
    apply (itP_le E U (S (length p1)) n); [rewrite <- L, app_length; simpl; lia|].
    apply (IH (length p1)) with (pre := p1) (post := p2 ++ t :: post); auto.
    - rewrite <- L, app_length. simpl. lia.
    - rewrite Eh, <- app_assoc. auto. }
  intros t Ht. destruct (in_split _ _ Ht) as (pre & post & Eh).
  unfold LP. apply (itP_le E U (S (length pre))); [|eapply K; eauto].
  pose proof (NoDup_incl_length ND INC) as LL. rewrite Eh, app_length in LL. simpl in LL. lia.
Qed.

Lemma Just_app : forall E U h l, Just E U h ->
  (forall pre t post, l = pre ++ t :: post -> en E U (memt (h ++ pre)) t = true) -> Just E U (h ++ l).
Proof.
  intros E U h l J H pre t post Eq.
  (* split position: inside h or inside l *)
  revert pre Eq. induction h as [|a h IH] using rev_ind; intros pre Eq.
  - simpl in *. apply (H pre t post Eq).
  - destruct (Nat.lt_ge_cases (length pre) (length (h ++ [a]))) as [Lt|Ge].
    + (* t lies in h ++ [a] *)
      assert (exists post', h ++ [a] = pre ++ t :: post' /\ post = post' ++ l) as (post' & E1 & E2).
      { clear - Eq Lt. revert pre Eq Lt. generalize (h ++ [a]) as hh. induction hh as [|b hh IHh]; intros pre Eq Lt; [simpl in Lt; lia|].
        destruct pre as [|c pre]; simpl in *.
        - inversion Eq; subst. exists hh. auto.
        - inversion Eq; subst. destruct (IHh pre H1) as (p' & A & B); [lia|]. exists p'. split; [f_equal; auto|auto]. }
      apply (J pre t post' E1).
    + (* t lies in l *)
      assert (exists pre', pre = (h ++ [a]) ++ pre' /\ l = pre' ++ t :: post) as (pre' & E1 & E2).
      { clear - Eq Ge. revert pre Eq Ge. generalize (h ++ [a]) as hh. induction hh as [|b hh IHh]; intros pre Eq Ge; simpl in *.
        - exists pre. auto.
        - destruct pre as [|c pre]; simpl in *; [lia|]. inversion Eq; subst.
          destruct (IHh pre H1) as (p' & A & B); [lia|]. exists p'. split; [f_equal; auto|auto]. }
      subst pre. apply (H pre' t post E2).
Qed.

(* ------------------------------------------------------------------ the ghost of write-only histories *)
Definition addq (c : cst) (n : nat) : cst :=
  mkC (ckind c) (cq c + n) (ceof c) (cpopen c) (csht c) (cflag c) (cadded c) (cregok c) (cclosed c) (coff c).

Lemma addq_0 : forall c, addq c 0 = c.
Proof. intros []. unfold addq. simpl. rewrite Nat.add_0_r. auto. Qed.
Lemma addq_addq : forall c a b, addq (addq c a) b = addq c (a + b).
Proof. intros. unfold addq. simpl. f_equal. lia. Qed.
Lemma can_write_addq : forall c n, can_write (addq c n) = can_write c.
Proof. intros. reflexivity. Qed.

Lemma cx_do_write : forall z k s y,
  cx (do_act (AWrite z k) s) y =
  if can_write (cx s z) && Nat.eqb y z then addq (cx s y) k else cx s y.
Proof.
  intros. unfold do_act. destruct (can_write (cx s z)) eqn:CW; simpl; auto.
  destruct (Nat.eqb k 0); simpl; rewrite ?cx_edge; simpl;
    (destruct (Nat.eqb y z) eqn:E; auto; apply Nat.eqb_eq in E; subst; auto).
Qed.

Lemma bk_do_write : forall z k s, bk (do_act (AWrite z k) s) = bk s.
Proof.
  intros. unfold do_act. destruct (can_write (cx s z)); simpl; auto.
  destruct (Nat.eqb k 0); simpl; rewrite ?bk_edge; auto.
Qed.

Definition all_writes (l : list trigger) : Prop := forall t, In t l -> is_write (tact t) = true.

Lemma ghost_w : forall l E y, all_writes l ->
  cx (do_acts (map tact l) E) y = addq (cx E y) (if can_write (cx E y) then wsl l y else 0) /\
  bk (do_acts (map tact l) E) = bk E.
Proof.
  induction l as [|t l IH]; intros E y W; simpl.
  - split; auto. destruct (can_write (cx E y)); rewrite addq_0; auto.
  - assert (Wt : is_write (tact t) = true) by (apply W; left; auto).
    assert (Wl : all_writes l) by (intros u Hu; apply W; right; auto).
    destruct (tact t) as [z k| | | | | |] eqn:TA; try discriminate.
    destruct (IH (do_act (AWrite z k) E) y Wl) as [A B].
    pose proof (bk_do_write z k E) as F1.
    split; [|congruence].
    rewrite A, cx_do_write. unfold wr, act_writes_to. rewrite TA.
    destruct (Nat.eqb z y) eqn:Ezy.
    + apply Nat.eqb_eq in Ezy. subst z. rewrite Nat.eqb_refl.
      destruct (can_write (cx E y)) eqn:CW; simpl.
      * rewrite can_write_addq, CW, addq_addq. auto.
      * rewrite CW. auto.
    + assert (Nat.eqb y z = false) as -> by (apply Nat.eqb_neq; apply Nat.eqb_neq in Ezy; auto).
      rewrite Bool.andb_false_r. simpl. auto.
Qed.

Lemma wsl_filter : forall U P y, wsl (filter P U) y = ws U P y.
Proof. induction U as [|t U IH]; intros; simpl; auto. destruct (P t); simpl; rewrite IH; auto. Qed.

Lemma ws_add1 : forall U Q a y, NoDup U -> In a U -> Q a = false ->
  ws U (fun t => (if trigger_eq_dec t a then true else false) || Q t) y = wr y a + ws U Q y.
Proof.
  induction U as [|u U IH]; intros Q a y ND Hin Qa; [destruct Hin|].
  inversion ND as [|? ? Hu ND']; subst. simpl.
  destruct (trigger_eq_dec u a) as [->|N]; simpl.
  - rewrite Qa. assert (ws U (fun t => (if trigger_eq_dec t a then true else false) || Q t) y = ws U Q y) as ->; [|lia].
    apply ws_ext. intros t Ht. destruct (trigger_eq_dec t a) as [->|]; auto. contradiction.
  - destruct Hin as [Hin|Hin]; [congruence|]. rewrite (IH Q a y ND' Hin Qa). destruct (Q u); lia.
Qed.

Lemma wsl_ws : forall h U y, NoDup U -> NoDup h -> incl h U -> wsl h y = ws U (memt h) y.
Proof.
  induction h as [|a h IH]; intros U y NU Nh INC; simpl.
  - clear. induction U; simpl; auto.
  - inversion Nh as [|? ? Ha Nh']; subst.
    rewrite (IH U y NU Nh') by (intros t Ht; apply INC; right; auto).
    rewrite <- (ws_add1 U (memt h) a y NU); [|apply INC; left; auto|apply memt_false; auto].
    apply ws_ext. intros t Ht. unfold memt. simpl. auto.
Qed.

(* the ghost after a justified, NoDup history of writes; and the canonical ghost *)
Lemma ghost_hist : forall E U h y, NoDup U -> NoDup h -> incl h U -> all_writes U ->
  cx (do_acts (map tact h) E) y = addq (cx E y) (if can_write (cx E y) then ws U (memt h) y else 0).
Proof.
  intros E U h y NU Nh INC W.
  destruct (ghost_w h E y) as [A _]; [intros t Ht; apply W; auto|].
  rewrite A, (wsl_ws h U y); auto.
Qed.

Lemma ghost_settle : forall E U y, all_writes U ->
  cx (settle E U) y = addq (cx E y) (if can_write (cx E y) then ws U (LP E U) y else 0) /\
  bk (settle E U) = bk E.
Proof.
  intros E U y W. unfold settle.
  destruct (ghost_w (filter (LP E U) U) E y) as [A B].
  - intros t Ht. apply filter_In in Ht. apply W. tauto.
  - rewrite A, wsl_filter. auto.
Qed.

(* a closed justified history has fired exactly the least fixpoint *)
Lemma closed_is_lfp : forall E U h, NoDup h -> incl h U -> Just E U h ->
  (forall t, In t U -> en E U (memt h) t = true -> memt h t = true) ->
  forall t, In t U -> memt h t = LP E U t.
Proof.
  intros E U h Nh INC J C t Ht.
  destruct (memt h t) eqn:A.
  - symmetry. apply (Just_sound E U h Nh INC J). apply memt_In; auto.
  - destruct (LP E U t) eqn:B; auto.
    rewrite (itP_complete E U (memt h) C (length U) t Ht B) in A. discriminate.
Qed.
