(* C13 — the back-end-free specification of a script whose read-callback triggers write to,
   half-close or close peers, or wake the loop: which triggers fire between two idle phases is the
   least fixpoint of "registered and threshold reached by the bytes written so far", computed by
   Kleene iteration; it does not depend on the order in which contexts are visited.
   A terminator (half-close / close of a peer) is one more monotone fact: under the single-source
   condition of class S all callback-issued writes and terminators for that peer come from ONE
   context, whose triggers fire in list order, so what reaches the peer is a prefix of a fixed
   action sequence.  Pure lemmas (no loop here). *)
From MV Require Import C13.Model C13.ProofsLife C13.ProofsIso C13.ProofsRead.
From Coq Require Import Permutation.

Definition trigger_eq_dec : forall a b : trigger, {a = b} + {a <> b}.
Proof. decide equality; [apply action_eq_dec|apply Nat.eq_dec|apply Nat.eq_dec]. Defined.

Definition memt (l : list trigger) (t : trigger) : bool :=
  existsb (fun u => if trigger_eq_dec t u then true else false) l.

Lemma memt_In : forall l t, memt l t = true <-> In t l.
Proof.
  intros. unfold memt. rewrite existsb_exists. split.
  - intros (u & Hu & E). destruct (trigger_eq_dec t u); [subst; auto|discriminate].
  - intros H. exists t. split; auto. destruct (trigger_eq_dec t t); auto.
Qed.

Lemma memt_false : forall l t, memt l t = false <-> ~ In t l.
Proof.
  intros. split.
  - intros H C. apply memt_In in C. congruence.
  - intros H. destruct (memt l t) eqn:E; auto. apply memt_In in E. contradiction.
Qed.

Lemma memt_app : forall a b t, memt (a ++ b) t = memt a t || memt b t.
Proof. intros. unfold memt. apply existsb_app. Qed.

Fixpoint nodupb (l : list trigger) : bool :=
  match l with [] => true | a :: r => negb (memt r a) && nodupb r end.
Lemma nodupb_NoDup : forall l, nodupb l = true -> NoDup l.
Proof.
  induction l as [|a l IH]; simpl; intros H; [constructor|].
  apply Bool.andb_true_iff in H. destruct H as [A B]. constructor; auto.
  apply Bool.negb_true_iff in A. apply memt_false in A. auto.
Qed.

(* ------------------------------------------------------------------ trigger actions and their effect *)
Definition tact_ok (a : action) : bool :=
  match a with AWrite _ _ | AHclose _ | APclose _ | AWake => true | _ => false end.
Definition all_tacts (l : list trigger) : Prop := forall t, In t l -> tact_ok (tact t) = true.
Definition is_write (a : action) : bool := match a with AWrite _ _ => true | _ => false end.

Lemma tact_ok_phase : forall a, tact_ok a = true -> phase_act_ok a = true.
Proof. intros []; simpl; auto. Qed.

Definition addq (c : cst) (n : nat) : cst :=
  mkC (ckind c) (cq c + n) (ceof c) (cpopen c) (csht c) (cflag c) (cadded c) (cregok c) (cclosed c) (coff c) (crst c).
Lemma addq_0 : forall c, addq c 0 = c.
Proof. intros []. unfold addq. simpl. rewrite Nat.add_0_r. auto. Qed.
Lemma addq_addq : forall c a b, addq (addq c a) b = addq c (a + b).
Proof. intros. unfold addq. simpl. f_equal. lia. Qed.
Lemma can_write_addq : forall c n, can_write (addq c n) = can_write c.
Proof. intros. reflexivity. Qed.

(* what an action does to the context it targets *)
Definition act1 (a : action) (c : cst) : cst :=
  match a with
  | AWrite _ k => if can_write c then addq c k else c
  | AHclose _ => if cpopen c && negb (ceof c)
                 then mkC (ckind c) (cq c) true (negb (is_pipe c)) (csht c) (cflag c) (cadded c) (cregok c) (cclosed c) (coff c) (crst c)
                 else c
  | APclose _ => if cpopen c
                 then mkC (ckind c) (cq c) true false (csht c) (cflag c) (cadded c) (cregok c) (cclosed c) (coff c) (crst c)
                 else c
  | _ => c
  end.

Lemma cx_do_tact : forall a s y, tact_ok a = true ->
  cx (do_act a s) y = if targets_any y a then act1 a (cx s y) else cx s y.
Proof.
  intros a s y H. destruct a; try discriminate; unfold do_act, targets_any, targets_term, act1.
  - simpl. destruct (Nat.eqb y0 y) eqn:E.
    + apply Nat.eqb_eq in E. subst y0.
      destruct (can_write (cx s y)); simpl; auto.
      destruct (Nat.eqb k 0); simpl; rewrite ?cx_edge; simpl; rewrite Nat.eqb_refl; auto.
    + assert (Nat.eqb y y0 = false) as E' by (apply Nat.eqb_neq; apply Nat.eqb_neq in E; auto).
      destruct (can_write (cx s y0)); simpl; auto.
      destruct (Nat.eqb k 0); simpl; rewrite ?cx_edge; simpl; rewrite E'; auto.
  - simpl. rewrite Bool.orb_false_r. destruct (Nat.eqb y0 y) eqn:E.
    + apply Nat.eqb_eq in E. subst y0.
      destruct (cpopen (cx s y) && negb (ceof (cx s y))); simpl; auto.
      rewrite cx_edge. simpl. rewrite Nat.eqb_refl. auto.
    + assert (Nat.eqb y y0 = false) as E' by (apply Nat.eqb_neq; apply Nat.eqb_neq in E; auto).
      destruct (cpopen (cx s y0) && negb (ceof (cx s y0))); simpl; auto.
      rewrite cx_edge. simpl. rewrite E'. auto.
  - simpl. rewrite Bool.orb_false_r. destruct (Nat.eqb y0 y) eqn:E.
    + apply Nat.eqb_eq in E. subst y0.
      destruct (cpopen (cx s y)); simpl; auto.
      destruct (is_tcp (cx s y) && ceof (cx s y)); simpl; rewrite ?cx_edge; simpl; rewrite Nat.eqb_refl; auto.
    + assert (Nat.eqb y y0 = false) as E' by (apply Nat.eqb_neq; apply Nat.eqb_neq in E; auto).
      destruct (cpopen (cx s y0)); simpl; auto.
      destruct (is_tcp (cx s y0) && ceof (cx s y0)); simpl; rewrite ?cx_edge; simpl; rewrite E'; auto.
  - simpl. rewrite cx_edge. auto.
Qed.

Lemma bk_do_tact : forall a s, tact_ok a = true -> bk (do_act a s) = bk s.
Proof.
  intros a s H. destruct a; try discriminate; unfold do_act;
    repeat match goal with |- context [if ?c then _ else _] => destruct c end; simpl; rewrite ?bk_edge; auto.
Qed.

Definition yacts (l : list trigger) (y : nat) : list action := filter (targets_any y) (map tact l).
Definition apply_y (l : list action) (c : cst) : cst := fold_left (fun c a => act1 a c) l c.

Lemma apply_y_app : forall l1 l2 c, apply_y (l1 ++ l2) c = apply_y l2 (apply_y l1 c).
Proof. intros. unfold apply_y. apply fold_left_app. Qed.

Lemma ghost_y : forall l E y, all_tacts l ->
  cx (do_acts (map tact l) E) y = apply_y (yacts l y) (cx E y) /\ bk (do_acts (map tact l) E) = bk E.
Proof.
  induction l as [|t l IH]; intros E y W; simpl; [auto|].
  assert (Wt : tact_ok (tact t) = true) by (apply W; left; auto).
  assert (Wl : all_tacts l) by (intros u Hu; apply W; right; auto).
  destruct (IH (do_act (tact t) E) y Wl) as [A B].
  split; [|rewrite B; apply bk_do_tact; auto].
  rewrite A, (cx_do_tact _ _ _ Wt). unfold yacts. simpl.
  destruct (targets_any y (tact t)); simpl; auto.
Qed.

(* the parts of a context an action never changes, and the directions in which the rest moves *)
Record samefix (c c' : cst) : Prop := mkSF {
  sf_kind : ckind c' = ckind c; sf_sht : csht c' = csht c; sf_flag : cflag c' = cflag c;
  sf_add : cadded c' = cadded c; sf_reg : cregok c' = cregok c; sf_cl : cclosed c' = cclosed c;
  sf_off : coff c' = coff c; sf_q : cq c <= cq c'; sf_eof : ceof c = true -> ceof c' = true
}.
Lemma samefix_refl : forall c, samefix c c. Proof. intros; constructor; auto. Qed.
Lemma samefix_trans : forall a b c, samefix a b -> samefix b c -> samefix a c.
Proof. intros a b c [] []. constructor; try congruence; auto; lia. Qed.
Lemma act1_samefix : forall a c, samefix c (act1 a c).
Proof.
  intros a c. destruct a; simpl; try apply samefix_refl.
  - destruct (can_write c); [constructor; simpl; auto; lia|apply samefix_refl].
  - destruct (cpopen c && negb (ceof c)); [constructor; simpl; auto|apply samefix_refl].
  - destruct (cpopen c); [constructor; simpl; auto|apply samefix_refl].
Qed.
Lemma apply_samefix : forall l c, samefix c (apply_y l c).
Proof.
  induction l as [|a l IH]; intros c; simpl; [apply samefix_refl|].
  eapply samefix_trans; [apply act1_samefix|apply IH].
Qed.

Fixpoint sumw (l : list action) : nat :=
  match l with [] => 0 | AWrite _ k :: r => k + sumw r | _ :: r => sumw r end.

Lemma apply_writes : forall l c, (forall a, In a l -> is_write a = true) ->
  apply_y l c = addq c (if can_write c then sumw l else 0).
Proof.
  induction l as [|a l IH]; intros c W; simpl.
  - destruct (can_write c); rewrite addq_0; auto.
  - assert (is_write a = true) by (apply W; left; auto).
    destruct a; try discriminate. simpl.
    rewrite IH by (intros b Hb; apply W; right; auto).
    destruct (can_write c) eqn:CW; simpl.
    + rewrite can_write_addq, CW, addq_addq. auto.
    + rewrite CW. auto.
Qed.

(* ------------------------------------------------------------------ the fixpoint *)
(* total bytes ever written to y when the triggers P of U have fired (in list order) on the ghost E *)
Definition tot (E : st) (U : list trigger) (P : trigger -> bool) (y : nat) : nat :=
  cq (apply_y (yacts (filter P U) y) (cx E y)).
(* trigger t is enabled: its context is registered and its threshold is reached *)
Definition en (E : st) (U : list trigger) (P : trigger -> bool) (t : trigger) : bool :=
  cregok (cx E (tctx t)) && Nat.leb (tbytes t) (tot E U P (tctx t)).

Fixpoint itP (E : st) (U : list trigger) (n : nat) : trigger -> bool :=
  match n with 0 => fun _ => false | S k => en E U (itP E U k) end.
Definition LP (E : st) (U : list trigger) : trigger -> bool := itP E U (length U).

(* the ghost after the epoch, the triggers left, the whole specification *)
Definition settle (E : st) (U : list trigger) : st := do_acts (map tact (filter (LP E U) U)) E.
Definition unf (E : st) (U : list trigger) : list trigger := filter (fun t => negb (LP E U t)) U.
Fixpoint spec_go (E : st) (U : list trigger) (phs : list (list action)) : st :=
  match phs with
  | [] => settle E U
  | p :: r => spec_go (do_acts p (settle E U)) (unf E U) r
  end.
Definition spec_sw (sc : script) : st :=
  spec_go (do_acts (hd [] (s_phases sc)) (init BSelect sc)) (s_trigs sc) (tl (s_phases sc)).

(* ------------------------------------------------------------------ structure of the trigger list *)
(* a occurs before t in U *)
Definition before (U : list trigger) (a t : trigger) : Prop := exists l1 l2, U = l1 ++ a :: l2 /\ In t l2.
(* triggers of one context are listed by non-decreasing threshold *)
Definition sortedU (U : list trigger) : Prop :=
  forall a t, before U a t -> tctx t = tctx a -> tbytes a <= tbytes t.
(* single source: a peer that some trigger terminates gets all its trigger actions from one context *)
Definition TS (U : list trigger) : Prop :=
  forall y, (forall t, In t U -> targets_term y (tact t) = false) \/
            (exists c, forall t, In t U -> targets_any y (tact t) = true -> tctx t = c).
(* P is closed under "earlier trigger of the same context" *)
Definition pc (P : trigger -> bool) (U : list trigger) : Prop :=
  forall a t, before U a t -> tctx t = tctx a -> P t = true -> P a = true.

(* no trigger terminates a peer (then nothing below depends on the order of the list) *)
Definition noterm (U : list trigger) : Prop := forall t y, In t U -> targets_term y (tact t) = false.
Definition SOK (U : list trigger) : Prop := noterm U \/ sortedU U.
Definition PCok (P : trigger -> bool) (U : list trigger) : Prop := noterm U \/ pc P U.

Lemma before_cons : forall u U a t, before U a t -> before (u :: U) a t.
Proof. intros u U a t (l1 & l2 & -> & H). exists (u :: l1), l2. auto. Qed.

Lemma before_filter : forall f U a t, before (filter f U) a t -> before U a t.
Proof.
  induction U as [|u U IH]; intros a t (m1 & m2 & E & H); simpl in E.
  - destruct m1; discriminate.
  - destruct (f u) eqn:F.
    + destruct m1 as [|m m1]; simpl in E; inversion E; subst.
      * exists [], U. split; auto. apply filter_In in H. tauto.
      * apply before_cons. apply IH. exists m1, m2. auto.
    + apply before_cons. apply IH. exists m1, m2. auto.
Qed.

Lemma before_In : forall U a t, before U a t -> In a U /\ In t U.
Proof.
  intros U a t (l1 & l2 & -> & H). split; apply in_or_app; right; [left; auto|right; auto].
Qed.

Lemma TS_filter : forall f U, TS U -> TS (filter f U).
Proof.
  intros f U H y. destruct (H y) as [A|[c A]].
  - left. intros t Ht. apply filter_In in Ht. apply A. tauto.
  - right. exists c. intros t Ht. apply filter_In in Ht. apply A. tauto.
Qed.
Lemma sortedU_filter : forall f U, sortedU U -> sortedU (filter f U).
Proof. intros f U H a t B. apply H. eapply before_filter; eauto. Qed.

(* downward closed along a list; then the selected elements of a larger set extend those of a smaller *)
Definition dcl (P : trigger -> bool) (L : list trigger) : Prop :=
  forall a t, before L a t -> P t = true -> P a = true.

Lemma filter_none : forall (P : trigger -> bool) L, (forall t, In t L -> P t = false) -> filter P L = [].
Proof. induction L as [|a L IH]; intros H; simpl; auto. rewrite (H a (or_introl eq_refl)). apply IH. intros; apply H; right; auto. Qed.

Lemma filter_prefix : forall P Q L, dcl P L -> (forall t, In t L -> P t = true -> Q t = true) ->
  exists r, filter Q L = filter P L ++ r.
Proof.
  induction L as [|a L IH]; intros D H; simpl; [exists []; auto|].
  assert (D' : dcl P L) by (intros x y B; apply D; apply before_cons; auto).
  destruct (P a) eqn:Pa.
  - rewrite (H a (or_introl eq_refl) Pa). destruct IH as [r E]; auto.
    + intros t Ht. apply H. right; auto.
    + exists r. simpl. rewrite E. auto.
  - rewrite (filter_none P L).
    + simpl. eexists. reflexivity.
    + intros t Ht. destruct (P t) eqn:Pt; auto.
      rewrite (D a t) in Pa; [discriminate| |auto]. exists [], L. auto.
Qed.

Lemma filter_comm : forall {A} (f g : A -> bool) l, filter f (filter g l) = filter g (filter f l).
Proof.
  induction l as [|a l IH]; simpl; auto.
  destruct (g a) eqn:G; destruct (f a) eqn:F; simpl; rewrite ?G, ?F, IH; auto.
Qed.

Lemma filter_map_tact : forall (f : action -> bool) l,
  filter f (map tact l) = map tact (filter (fun t => f (tact t)) l).
Proof. induction l as [|a l IH]; simpl; auto. destruct (f (tact a)); simpl; rewrite IH; auto. Qed.

(* the actions reaching y when P has fired: the P-part of the y-targeting triggers, in list order *)
Lemma yacts_filter : forall P U y,
  yacts (filter P U) y = map tact (filter P (filter (fun t => targets_any y (tact t)) U)).
Proof. intros. unfold yacts. rewrite filter_map_tact, filter_comm. auto. Qed.

Lemma sumw_mono : forall (P Q : trigger -> bool) L, (forall t, In t L -> P t = true -> Q t = true) ->
  sumw (map tact (filter P L)) <= sumw (map tact (filter Q L)).
Proof.
  induction L as [|a L IH]; intros H; simpl; auto.
  assert (sumw (map tact (filter P L)) <= sumw (map tact (filter Q L))) by (apply IH; intros; apply H; auto; right; auto).
  destruct (P a) eqn:Pa.
  - rewrite (H a (or_introl eq_refl) Pa). simpl. destruct (tact a); lia.
  - destruct (Q a); simpl; auto. destruct (tact a); lia.
Qed.

Lemma tot_mono : forall E U P Q y, TS U -> PCok P U -> (forall t, In t U -> P t = true -> Q t = true) ->
  tot E U P y <= tot E U Q y.
Proof.
  intros E U P Q y T PP H. unfold tot. rewrite !yacts_filter.
  set (Uy := filter (fun t => targets_any y (tact t)) U).
  assert (HUy : forall t, In t Uy -> In t U /\ targets_any y (tact t) = true) by (intros t Ht; apply filter_In in Ht; auto).
  assert (WR : (forall t, In t U -> targets_term y (tact t) = false) ->
               cq (apply_y (map tact (filter P Uy)) (cx E y)) <= cq (apply_y (map tact (filter Q Uy)) (cx E y))).
  { intros N.
    assert (W : forall R, forall a, In a (map tact (filter R Uy)) -> is_write a = true).
    { intros R a Ha. apply in_map_iff in Ha. destruct Ha as (t & <- & Ht). apply filter_In in Ht. destruct Ht as [Ht _].
      destruct (HUy t Ht) as [A B]. specialize (N t A). unfold targets_any in B. rewrite N in B. simpl in B.
      destruct (tact t); try discriminate; auto. }
    rewrite !apply_writes by (apply W). unfold addq. simpl.
    destruct (can_write (cx E y)); [|lia]. apply Nat.add_le_mono_l. apply sumw_mono.
    intros t Ht. apply H. apply HUy. auto. }
  destruct PP as [NT|PP]; [apply WR; intros t Ht; apply NT; auto|].
  destruct (T y) as [N|[c C]]; [apply WR; auto|].
  (* single source: a prefix of its action sequence *)
  assert (D : dcl P Uy).
  { intros a t B Pt. destruct (before_In _ _ _ B) as [Ia It].
    apply (PP a t); auto. eapply before_filter; eauto.
    destruct (HUy a Ia), (HUy t It). rewrite (C a), (C t); auto. }
  destruct (filter_prefix P Q Uy D) as [r R].
  { intros t Ht. apply H. apply HUy. auto. }
  rewrite R, map_app, apply_y_app. apply (sf_q _ _ (apply_samefix _ _)).
Qed.

Lemma en_mono : forall E U P Q t, TS U -> PCok P U -> (forall u, In u U -> P u = true -> Q u = true) ->
  en E U P t = true -> en E U Q t = true.
Proof.
  intros E U P Q t T PP H A. unfold en in *. apply Bool.andb_true_iff in A. destruct A as [A B].
  rewrite A. simpl. apply Nat.leb_le in B. apply Nat.leb_le.
  pose proof (tot_mono E U P Q (tctx t) T PP H). lia.
Qed.

Lemma en_pc : forall E U P, sortedU U -> pc (en E U P) U.
Proof.
  intros E U P S a t B C H. unfold en in *. apply Bool.andb_true_iff in H. destruct H as [H1 H2].
  rewrite <- C, H1. simpl. apply Nat.leb_le in H2. apply Nat.leb_le. pose proof (S a t B C). lia.
Qed.

Lemma itP_pc : forall E U k, SOK U -> PCok (itP E U k) U.
Proof.
  intros E U k [N|S]; [left; auto|right].
  destruct k; [intros a t _ _ H; discriminate|apply en_pc; auto].
Qed.

Lemma itP_chain : forall E U k t, TS U -> SOK U -> itP E U k t = true -> itP E U (S k) t = true.
Proof.
  induction k as [|k IH]; intros t T S H; [discriminate|].
  simpl in *. eapply en_mono; [auto|apply itP_pc; auto| |apply H]. intros u _ Hu. apply IH; auto.
Qed.

Lemma itP_le : forall E U k m t, TS U -> SOK U -> k <= m -> itP E U k t = true -> itP E U m t = true.
Proof. intros E U k m t T S H. induction H; auto. intros A. apply itP_chain; auto. Qed.

(* completeness: a closed set contains every iterate *)
Lemma itP_complete : forall E U Q, TS U -> SOK U ->
  (forall t, In t U -> en E U Q t = true -> Q t = true) ->
  forall k t, In t U -> itP E U k t = true -> Q t = true.
Proof.
  intros E U Q T S C. induction k as [|k IH]; intros t Ht H; [discriminate|].
  simpl in H. apply C; auto. eapply en_mono; [auto|apply itP_pc; auto| |apply H]. intros u Hu A. apply IH; auto.
Qed.

(* soundness: a history made of batches, each enabled by the batches before it, stays below *)
Definition JustB (E : st) (U : list trigger) (hb : list (list trigger)) : Prop :=
  forall pre b post, hb = pre ++ b :: post ->
    PCok (memt (concat pre)) U /\ forall t, In t b -> en E U (memt (concat pre)) t = true.

Lemma length_concat_ne : forall (hb : list (list trigger)), (forall b, In b hb -> b <> []) -> length hb <= length (concat hb).
Proof.
  induction hb as [|b hb IH]; intros H; simpl; auto.
  rewrite app_length. assert (b <> []) by (apply H; left; auto).
  assert (length hb <= length (concat hb)) by (apply IH; intros; apply H; right; auto).
  destruct b; [congruence|simpl; lia].
Qed.

Lemma Just_sound : forall E U hb, TS U -> SOK U -> (forall b, In b hb -> b <> []) ->
  NoDup (concat hb) -> incl (concat hb) U -> JustB E U hb ->
  forall t, In t (concat hb) -> LP E U t = true.
Proof.
  intros E U hb T SO NE ND INC J.
  assert (forall n pre b post, length pre = n -> hb = pre ++ b :: post -> forall t, In t b -> itP E U (S n) t = true) as K.
  { induction n as [n IH] using lt_wf_ind. intros pre b post L Eh t Ht.
    destruct (J pre b post Eh) as [PC EN].
    simpl. eapply en_mono; [auto|apply PC| |apply (EN t Ht)].
    intros u _ Hu. apply memt_In in Hu. apply in_concat in Hu. destruct Hu as (b' & Hb' & Hu).
    destruct (in_split _ _ Hb') as (p1 & p2 & ->).
    apply (itP_le E U (S (length p1)) n); auto; [rewrite <- L, app_length; simpl; lia|].
    apply (IH (length p1)) with (pre := p1) (b := b') (post := p2 ++ b :: post); auto.
    - rewrite <- L, app_length. simpl. lia.
    - rewrite Eh, <- app_assoc. auto. }
  intros t Ht. apply in_concat in Ht. destruct Ht as (b & Hb & Ht).
  destruct (in_split _ _ Hb) as (pre & post & Eh).
  unfold LP. apply (itP_le E U (S (length pre))); auto; [|eapply K; eauto].
  pose proof (NoDup_incl_length ND INC) as LL.
  pose proof (length_concat_ne hb NE) as LC.
  assert (length hb = length pre + S (length post)) as LH by (rewrite Eh, app_length; simpl; auto).
  lia.
Qed.

(* a closed justified history has fired exactly the least fixpoint *)
Lemma closed_is_lfp : forall E U hb, TS U -> SOK U -> (forall b, In b hb -> b <> []) ->
  NoDup (concat hb) -> incl (concat hb) U -> JustB E U hb ->
  (forall t, In t U -> en E U (memt (concat hb)) t = true -> memt (concat hb) t = true) ->
  forall t, In t U -> memt (concat hb) t = LP E U t.
Proof.
  intros E U hb T S NE Nh INC J C t Ht.
  destruct (memt (concat hb) t) eqn:A.
  - symmetry. apply (Just_sound E U hb T S NE Nh INC J). apply memt_In; auto.
  - destruct (LP E U t) eqn:B; auto.
    rewrite (itP_complete E U (memt (concat hb)) T S C (length U) t Ht B) in A. discriminate.
Qed.

(* ------------------------------------------------------------------ the ghost of a history *)
(* the history lists the triggers of each context in the order of U *)
Definition ctxf (c : nat) (t : trigger) : bool := Nat.eqb (tctx t) c.
Definition ordU (U h : list trigger) : Prop :=
  forall c, filter (ctxf c) h = filter (memt h) (filter (ctxf c) U).

Fixpoint wsl (l : list trigger) (y : nat) : nat :=
  match l with [] => 0 | t :: r => act_writes_to y (tact t) + wsl r y end.
Fixpoint ws (U : list trigger) (P : trigger -> bool) (y : nat) : nat :=
  match U with [] => 0 | t :: r => (if P t then act_writes_to y (tact t) else 0) + ws r P y end.

Lemma ws_ext : forall U P Q y, (forall t, In t U -> P t = Q t) -> ws U P y = ws U Q y.
Proof.
  induction U as [|t U IH]; intros P Q y H; simpl; auto.
  rewrite (H t (or_introl eq_refl)), (IH P Q y); auto. intros; apply H; right; auto.
Qed.
Lemma wsl_filter : forall U P y, wsl (filter P U) y = ws U P y.
Proof. induction U as [|t U IH]; intros; simpl; auto. destruct (P t); simpl; rewrite IH; auto. Qed.
Lemma ws_add1 : forall U Q a y, NoDup U -> In a U -> Q a = false ->
  ws U (fun t => (if trigger_eq_dec t a then true else false) || Q t) y = act_writes_to y (tact a) + ws U Q y.
Proof.
  induction U as [|u U IH]; intros Q a y ND Hin Qa; [destruct Hin|].
  inversion ND as [|? ? Hu ND']; subst. simpl.
  destruct (trigger_eq_dec u a) as [->|N]; simpl.
  - rewrite Qa. assert (ws U (fun t => (if trigger_eq_dec t a then true else false) || Q t) y = ws U Q y) as ->; [|lia].
    apply ws_ext. intros t Ht. destruct (trigger_eq_dec t a) as [->|]; auto. contradiction.
  - destruct Hin as [Hin|Hin]; [congruence|]. rewrite (IH Q a y ND' Hin Qa). destruct (Q u); lia.
Qed.
Lemma wsl_ws : forall h U y, NoDup U -> NoDup h -> incl h U -> wsl h y = ws U (memt h) y.
Proof.
  induction h as [|a h IH]; intros U y NU Nh INC; simpl.
  - clear. induction U; simpl; auto.
  - inversion Nh as [|? ? Ha Nh']; subst.
    rewrite (IH U y NU Nh') by (intros t Ht; apply INC; right; auto).
    rewrite <- (ws_add1 U (memt h) a y NU); [|apply INC; left; auto|apply memt_false; auto].
    apply ws_ext. intros t Ht. unfold memt. simpl. auto.
Qed.

Lemma sumw_yacts : forall l y, (forall t, In t l -> targets_term y (tact t) = false) -> sumw (yacts l y) = wsl l y.
Proof.
  induction l as [|t l IH]; intros y H; simpl; auto.
  specialize (IH y (fun u Hu => H u (or_intror Hu))).
  pose proof (H t (or_introl eq_refl)) as Ht.
  unfold yacts in *. simpl.
  assert (TA : targets_any y (tact t) = match tact t with AWrite z _ => Nat.eqb z y | _ => false end).
  { unfold targets_any. rewrite Ht. auto. }
  rewrite TA. unfold act_writes_to.
  destruct (tact t) as [z k| | | | | | |]; simpl; auto.
  destruct (Nat.eqb z y); simpl; rewrite IH; auto.
Qed.


Lemma yacts_ctx : forall l y c, (forall t, In t l -> targets_any y (tact t) = true -> tctx t = c) ->
  yacts l y = yacts (filter (ctxf c) l) y.
Proof.
  induction l as [|t l IH]; intros y c H; simpl; auto.
  unfold yacts in *. simpl. specialize (IH y c (fun u Hu => H u (or_intror Hu))).
  unfold ctxf at 1. destruct (Nat.eqb (tctx t) c) eqn:E; simpl.
  - destruct (targets_any y (tact t)); rewrite IH; auto.
  - destruct (targets_any y (tact t)) eqn:Tg; [|auto].
    rewrite (H t (or_introl eq_refl) Tg), Nat.eqb_refl in E. discriminate.
Qed.

(* the ghost after the history = the ghost after the same triggers in list order *)
Lemma ghost_eq : forall E U h y, all_tacts U -> NoDup U -> NoDup h -> incl h U -> TS U ->
  noterm U \/ ordU U h ->
  cx (do_acts (map tact h) E) y = apply_y (yacts (filter (memt h) U) y) (cx E y).
Proof.
  intros E U h y W NU Nh INC T O.
  destruct (ghost_y h E y) as [A _]; [intros t Ht; apply W; auto|]. rewrite A.
  assert (NC : (forall t, In t U -> targets_term y (tact t) = false) \/
               (ordU U h /\ exists c, forall t, In t U -> targets_any y (tact t) = true -> tctx t = c)).
  { destruct O as [N|O]; [left; intros t Ht; apply N; auto|]. destruct (T y) as [N|C]; auto. }
  destruct NC as [N|[O' [c C]]].
  - assert (W1 : forall a, In a (yacts h y) -> is_write a = true).
    { intros a Ha. unfold yacts in Ha. apply filter_In in Ha. destruct Ha as [Ha Tg].
      apply in_map_iff in Ha. destruct Ha as (t & <- & Ht). specialize (N t (INC t Ht)).
      unfold targets_any in Tg. rewrite N in Tg. simpl in Tg. destruct (tact t); try discriminate; auto. }
    assert (W2 : forall a, In a (yacts (filter (memt h) U) y) -> is_write a = true).
    { intros a Ha. unfold yacts in Ha. apply filter_In in Ha. destruct Ha as [Ha Tg].
      apply in_map_iff in Ha. destruct Ha as (t & <- & Ht). apply filter_In in Ht. specialize (N t (proj1 Ht)).
      unfold targets_any in Tg. rewrite N in Tg. simpl in Tg. destruct (tact t); try discriminate; auto. }
    rewrite (apply_writes _ _ W1), (apply_writes _ _ W2).
    rewrite !sumw_yacts.
    + rewrite wsl_filter, (wsl_ws h U y); auto.
    + intros t Ht. apply filter_In in Ht. apply N. tauto.
    + intros t Ht. apply N. auto.
  - rewrite (yacts_ctx h y c) by (intros t Ht; apply C; auto).
    rewrite (yacts_ctx (filter (memt h) U) y c) by (intros t Ht; apply filter_In in Ht; apply C; tauto).
    rewrite (O' c), filter_comm. auto.
Qed.

Lemma ghost_settle : forall E U y, all_tacts U ->
  cx (settle E U) y = apply_y (yacts (filter (LP E U) U) y) (cx E y) /\ bk (settle E U) = bk E.
Proof.
  intros E U y W. unfold settle. apply ghost_y.
  intros t Ht. apply filter_In in Ht. apply W. tauto.
Qed.

(* ------------------------------------------------------------------ small facts used by the simulation *)
Lemma filter_memt_nil : forall l, filter (memt []) l = [].
Proof. induction l; simpl; auto. Qed.

Lemma JustB_snoc : forall E U hb b, JustB E U hb -> PCok (memt (concat hb)) U ->
  (forall t, In t b -> en E U (memt (concat hb)) t = true) -> JustB E U (hb ++ [b]).
Proof.
  intros E U hb b J PC EN pre b' post Eq.
  destruct post as [|p post].
  - apply app_inj_tail in Eq. destruct Eq as [-> ->]. auto.
  - assert (hb = pre ++ b' :: removelast (p :: post)) as Eh.
    { assert (p :: post <> []) as NE by discriminate.
      rewrite (app_removelast_last b' NE) in Eq. rewrite app_comm_cons, app_assoc in Eq.
      apply app_inj_tail in Eq. destruct Eq as [-> _]. auto. }
    apply (J pre b' _ Eh).
Qed.

Lemma apply_dead : forall l c, ceof c = true -> cq (apply_y l c) = cq c /\ ceof (apply_y l c) = true.
Proof.
  induction l as [|a l IH]; intros c H; simpl; auto.
  assert (cq (act1 a c) = cq c /\ ceof (act1 a c) = true) as [A B].
  { destruct a; simpl; auto.
    - unfold can_write. rewrite H. simpl. rewrite Bool.andb_false_r. auto.
    - rewrite H. simpl. rewrite Bool.andb_false_r. auto.
    - destruct (cpopen c); simpl; auto. }
  destruct (IH _ B) as [C D]. split; congruence.
Qed.

Lemma filter_split_dcl : forall (p q : trigger -> bool) L, dcl p L ->
  filter p L ++ filter (fun t => negb (p t) && q t) L = filter (fun t => p t || (negb (p t) && q t)) L.
Proof.
  induction L as [|a L IH]; intros D; simpl; auto.
  assert (D' : dcl p L) by (intros x y B; apply D; apply before_cons; auto).
  destruct (p a) eqn:Pa; simpl.
  - rewrite IH; auto.
  - assert (NP : forall t, In t L -> p t = false).
    { intros t Ht. destruct (p t) eqn:Pt; auto. rewrite (D a t) in Pa; [discriminate| |auto]. exists [], L. auto. }
    rewrite (filter_none p L NP). simpl.
    assert (filter (fun t => negb (p t) && q t) L = filter (fun t => p t || negb (p t) && q t) L) as ->; auto.
    apply filter_ext_in. intros t Ht. rewrite (NP t Ht). auto.
Qed.
