(* C13 — agreement of the back-ends: refutation of the unrestricted statement (witness), and the
   proved part: what a visit does is the same in the three back-ends. *)
From MV Require Import C13.Model C13.ProofsLife.

(* FULL STATEMENT (not proved, false without the class restriction, see agree_refuted):
     forall sc fuel, in_S sc = true ->
       snd (runks BSelect sc fuel) = true -> snd (runks BPoll sc fuel) = true ->
       snd (runks BEpoll sc fuel) = true ->
       forall x, outcome (fst (runks BSelect sc fuel)) x = outcome (fst (runks BPoll sc fuel)) x /\
                 outcome (fst (runks BSelect sc fuel)) x = outcome (fst (runks BEpoll sc fuel)) x.  *)
Definition agree (sc : script) (fuel : nat) : Prop :=
  forall x, outcome (fst (runks BSelect sc fuel)) x = outcome (fst (runks BPoll sc fuel)) x /\
            outcome (fst (runks BSelect sc fuel)) x = outcome (fst (runks BEpoll sc fuel)) x.

(* the witness: context 2 is shut down from context 1's callback right after 7 bytes were written
   to it; poll closes it with 0 bytes offered, select and epoll offer the 7 bytes first *)
Lemma agree_refuted : exists sc fuel,
  in_S sc = false /\
  snd (runks BSelect sc fuel) = true /\ snd (runks BPoll sc fuel) = true /\ snd (runks BEpoll sc fuel) = true /\
  ~ agree sc fuel.
Proof.
  exists witness_cross_shutdown, 10.
  split; [vm_compute; reflexivity|]. split; [vm_compute; reflexivity|].
  split; [vm_compute; reflexivity|]. split; [vm_compute; reflexivity|].
  intro A. destruct (A 2) as [P _]. vm_compute in P. discriminate.
Qed.

(* the same script with the shutdown issued by context 2 itself is in S and the back-ends agree on it *)
Definition witness_in_S : script :=
  mkScr 8 [(1, KUnix); (2, KUnix); (3, KUnix)]
        [[AAdd 3; AAdd 2; AAdd 1; AWrite 1 5; AWrite 3 5]]
        [mkT 1 5 (AWrite 2 7); mkT 2 7 (AShut 2)] false [].

Lemma agree_example_in_S : in_S witness_in_S = true /\
  map (outcome (fst (runks BSelect witness_in_S 10))) [1; 2; 3] = map (outcome (fst (runks BPoll witness_in_S 10))) [1; 2; 3] /\
  map (outcome (fst (runks BSelect witness_in_S 10))) [1; 2; 3] = map (outcome (fst (runks BEpoll witness_in_S 10))) [1; 2; 3] /\
  outcome (fst (runks BSelect witness_in_S 10)) 2 = (7, true, false).
Proof. vm_compute. repeat split; reflexivity. Qed.

(* ------------------------------------------------------------------ proved part *)
(* the part of the state the callbacks, the script and the outcomes live in; the back-end tables
   (parr, sset, ereg, erdl) are left out *)
Definition shared (s : st) :=
  (cx s, clist s, trigs s, phases s, idle s, wk s, toexit s, tr s).

(* the poll table has room for the add (select and epoll never refuse) *)
Definition room (a : action) (s : st) : Prop :=
  match a with AAdd _ => bk s = BPoll -> length (parr s) <> pcap s | _ => True end.

Lemma shared_edge : forall x s, shared (edge x s) = shared s.
Proof. intros. unfold edge. destruct (_ && _); auto. Qed.

Lemma add_ctx_room : forall y s, (bk s = BPoll -> length (parr s) <> pcap s) ->
  snd (add_ctx y s) = true /\
  shared (fst (add_ctx y s)) = (cx s, clist s ++ [y], trigs s, phases s, idle s, wk s, toexit s, tr s).
Proof.
  intros y s R. unfold add_ctx, backend_add. simpl. destruct (bk s) eqn:B; simpl.
  - auto.
  - destruct (Nat.eqb (length (parr s)) (pcap s)) eqn:E; simpl; auto.
    apply Nat.eqb_eq in E. exfalso. apply R; auto.
  - match goal with |- context [if ?c then _ else _] => destruct c end; simpl; auto.
    rewrite shared_edge. auto.
Qed.

Lemma sh_emit : forall e s s', shared s = shared s' -> shared (emit e s) = shared (emit e s').
Proof. intros e s s' H. unfold shared in *. simpl. inversion H. reflexivity. Qed.
Lemma sh_updc : forall y c s s', shared s = shared s' -> shared (updc y c s) = shared (updc y c s').
Proof. intros y c s s' H. unfold shared in *. simpl. inversion H. reflexivity. Qed.
Lemma sh_set_wk : forall n s s', shared s = shared s' -> shared (set_wk n s) = shared (set_wk n s').
Proof. intros n s s' H. unfold shared in *. simpl. inversion H. reflexivity. Qed.
Lemma sh_set_toexit : forall b s s', shared s = shared s' -> shared (set_toexit b s) = shared (set_toexit b s').
Proof. intros b s s' H. unfold shared in *. simpl. inversion H. reflexivity. Qed.
Lemma sh_set_trigs : forall l s s', shared s = shared s' -> shared (set_trigs l s) = shared (set_trigs l s').
Proof. intros l s s' H. unfold shared in *. simpl. inversion H. reflexivity. Qed.
Lemma sh_cx : forall s s', shared s = shared s' -> cx s = cx s'.
Proof. intros s s' H. unfold shared in H. inversion H. reflexivity. Qed.
Lemma sh_trigs : forall s s', shared s = shared s' -> trigs s = trigs s'.
Proof. intros s s' H. unfold shared in H. inversion H. reflexivity. Qed.

Ltac sh_step H :=
  repeat first [ rewrite shared_edge | apply sh_emit | apply sh_updc | apply sh_set_wk | apply sh_set_toexit | exact H ].

(* one scripted action does the same to the shared state whichever back-end runs it *)
Lemma do_act_shared : forall a s s', shared s = shared s' -> room a s -> room a s' ->
  shared (do_act a s) = shared (do_act a s').
Proof.
  intros a s s' H R R'. pose proof (sh_cx _ _ H) as Hcx.
  destruct a; unfold do_act; rewrite <- ?Hcx.
  - destruct (can_write (cx s y)); [destruct (Nat.eqb k 0)|]; sh_step H.
  - destruct (cpopen (cx s y) && negb (ceof (cx s y))); sh_step H.
  - destruct (cpopen (cx s y)); [destruct (is_tcp (cx s y) && ceof (cx s y))|]; sh_step H.
  - destruct (cadded (cx s y) || Nat.eqb y 0); [sh_step H|].
    set (c := mkC _ _ _ _ _ _ true _ _ _ _).
    assert (H0 : shared (updc y c s) = shared (updc y c s')) by (apply sh_updc; auto).
    destruct (add_ctx_room y (updc y c s) R) as [O1 S1].
    destruct (add_ctx_room y (updc y c s') R') as [O2 S2].
    destruct (add_ctx y (updc y c s)) as [s1 o1]. destruct (add_ctx y (updc y c s')) as [s2 o2].
    simpl in *. subst o1 o2.
    assert (HS : shared s1 = shared s2).
    { rewrite S1, S2. unfold shared in H. inversion H. rewrite Hcx. reflexivity. }
    rewrite (sh_cx _ _ HS). sh_step HS.
  - destruct (cclosed (cx s y)); [|destruct (negb (is_pipe (cx s y)))]; sh_step H.
  - assert (wk s = wk s') as -> by (unfold shared in H; inversion H; reflexivity). sh_step H.
  - assert (wk s = wk s') as -> by (unfold shared in H; inversion H; reflexivity). sh_step H.
  - destruct (can_reset (cx s y)); sh_step H.
Qed.

Fixpoint room_all (l : list action) (s : st) : Prop :=
  match l with [] => True | a :: r => room a s /\ room_all r (do_act a s) end.

Lemma do_acts_shared : forall l s s', shared s = shared s' -> room_all l s -> room_all l s' ->
  shared (do_acts l s) = shared (do_acts l s').
Proof.
  induction l as [|a l IH]; intros s s' H R R'; simpl; auto.
  destruct R as [R1 R2], R' as [R1' R2']. apply IH; auto. apply do_act_shared; auto.
Qed.

(* the read callback (drain, EOF flag, triggers) *)
Definition read_room (x : nat) (s : st) : Prop :=
  let c := cx s x in
  room_all (map tact (filter (trig_hit x (coff c + cq c)) (trigs s)))
    (set_trigs (filter (fun t => negb (trig_hit x (coff c + cq c) t)) (trigs s))
       (emit (ERead x (cq c))
          (updc x (mkC (ckind c) 0 (ceof c) (cpopen c) (csht c)
                       (cflag c || (if is_pipe c then ceof c else ceof c || csht c))
                       (cadded c) (cregok c) (cclosed c) (coff c + cq c) (crst c)) s))).

Lemma cb_read_shared : forall x s s', shared s = shared s' -> read_room x s -> read_room x s' ->
  shared (cb_read x s) = shared (cb_read x s').
Proof.
  intros x s s' H R R'. unfold cb_read, read_room in *.
  pose proof (sh_cx _ _ H) as Hcx. pose proof (sh_trigs _ _ H) as Htg.
  simpl in *. rewrite <- Hcx, <- Htg in *.
  apply do_acts_shared; auto.
  apply sh_set_trigs. apply sh_emit. apply sh_updc. auto.
Qed.

(* flagging and the close callback *)
Lemma close_shared : forall x s s', shared s = shared s' ->
  shared (set_clist (rm x (clist (cb_close x s))) (cb_close x s)) =
  shared (set_clist (rm x (clist (cb_close x s'))) (cb_close x s')) /\
  shared (set_flag x s) = shared (set_flag x s').
Proof.
  intros x s s' H. unfold shared in *. simpl. inversion H. split; reflexivity.
Qed.

(* PROVED PART of the agreement statement: the three back-ends run the same visit (read callback
   with its triggered actions, flagging, close callback and removal from ctx_list) on the shared
   state, provided the poll table has room for the adds; they differ only in the ORDER of visits
   and in WHEN a flagged context is noticed, which is what class S makes irrelevant and what
   agree_refuted exploits outside S. *)
Lemma agree_visit : forall x s s', shared s = shared s' -> read_room x s -> read_room x s' ->
  shared (cb_read x s) = shared (cb_read x s') /\
  shared (set_flag x s) = shared (set_flag x s') /\
  shared (set_clist (rm x (clist (cb_close x s))) (cb_close x s)) =
  shared (set_clist (rm x (clist (cb_close x s'))) (cb_close x s')).
Proof.
  intros x s s' H R R'. split; [apply cb_read_shared; auto|]. destruct (close_shared x s s' H); auto.
Qed.

Example agree_visit_nonvacuous :
  let s := start BSelect witness_in_S in let s' := start BPoll witness_in_S in
  shared s = shared s' /\ read_room 1 s /\ read_room 1 s' /\ bk s <> bk s'.
Proof. vm_compute. repeat split; try discriminate; intros; discriminate. Qed.
