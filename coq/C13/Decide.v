(* C13 — second tie (DESIGN.md 4.4), definitions only.
   Reference functions for what lib/props/c13_slice.py extracts from the C text of the three back-ends
   (coq/gen/Params_C13.v, regenerated on every run).  A generated function describes, for every path
   through a C function, the callbacks and bookkeeping calls IN EXECUTION ORDER as a flat list of
   (code, argument) pairs and the back-end's tables afterwards.  The references below are written once,
   for tables / batches / lists of ANY size; C13/ProofsGen.v proves each generated instance equal to its
   reference by a shape-independent tactic, and proves that the per-visit DECISIONS the references are
   built from ([dec_poll], [dec_epoll], [dec_select]) are exactly the decisions of the model's step
   functions (Model.poll_step, ep_step, sel_walk).

   Oracles: the k-th callback of a path may change every context's flags and evloop->to_exit; what the
   loop reads afterwards is (FL k c) resp. (TE k).  In the poll back-end a read callback may also
   register one more context (AD k; its id NW k, the stale revents of its slot NS k). *)
From Coq Require Import ZArith List Bool.
From MV Require Import Lib.Leaf.
Import ListNotations.
Local Open Scope Z_scope.

(* constants of the headers of this run (coq/gen/Params_C13.v: code_consts) *)
Record consts := mkK {
  k_pollin : Z; k_pollhup : Z; k_pollerr : Z;
  k_epin : Z; k_ephup : Z; k_eperr : Z; k_epet : Z; k_ctl_add : Z; k_ctl_del : Z;
  k_closed : Z; k_exit : Z; k_wake : Z; k_eintr : Z; k_ewouldblock : Z; k_invalid_fd : Z; k_fd_setsize : Z;
  k_sz_pollfd : Z; k_sz_ptr : Z; k_sz_epev : Z; k_sz_list : Z; k_sz_signal : Z
}.

(* what the model and the references need of them: the readable bit is apart from the hang-up / error
   bits (a report can carry both), the CLOSED flag is a non-zero mask, the two exit states differ and
   are not "running" *)
Definition consts_ok (K : consts) : bool :=
  (0 <? k_pollin K) && (0 <? k_pollhup K) && (0 <? k_pollerr K) &&
  (Z.land (k_pollin K) (Z.lor (k_pollhup K) (k_pollerr K)) =? 0) &&
  (0 <? k_epin K) && (0 <? k_ephup K) && (0 <? k_eperr K) &&
  (Z.land (k_epin K) (Z.lor (k_ephup K) (k_eperr K)) =? 0) &&
  (Z.land (k_epet K) (Z.lor (k_epin K) (Z.lor (k_ephup K) (k_eperr K))) =? 0) &&
  (0 <? k_closed K) && negb (k_exit K =? 0) && negb (k_wake K =? 0) && negb (k_exit K =? k_wake K) &&
  negb (k_ctl_add K =? k_ctl_del K) && (0 <? k_fd_setsize K) && negb (k_eintr K =? k_ewouldblock K).

(* muggle_evloop_init / _init_poll / _init_epoll: the capacity hint used when hints_max_fd < 1 (a literal in
   the C text; Model.init uses the same 8) *)
Definition default_hints : Z := 8.

(* token codes (lib/props/c13_slice.py: TOK) *)
Definition T_READ := 1.     Definition T_SETFLAG := 2.  Definition T_FLAGVAL := 3.  Definition T_CLOSE := 4.
Definition T_LREM := 5.     Definition T_WAKECLR := 6.  Definition T_WAKECB := 7.   Definition T_EPDEL := 8.
Definition T_FDCLR := 9.    Definition T_FDSET := 10.   Definition T_FDZERO := 11.  Definition T_KPOLL := 12.
Definition T_KSEL := 13.    Definition T_KEPOLL := 14.  Definition T_EXITREQ := 15. Definition T_CLEARCB := 16.
Definition T_EXITCB := 17.  Definition T_EPADD := 18.   Definition T_EPMASK := 19.  Definition T_LAPPEND := 20.
Definition T_NONBLOCK := 21. Definition T_BADD := 22.   Definition T_BRUN := 23.    Definition T_MALLOC := 24.
Definition T_EPCREATE := 25. Definition T_TIMERCB := 26. Definition T_KWATCH := 28.  Definition T_KTMO := 30.
Definition T_LINIT := 31.   Definition T_SIGINIT := 32.

(* ------------------------------------------------------------------ per-visit decisions *)
(* poll, slot i >= 1 with revents re: (read callback?, set CLOSED?, close?, decrement of n).
   rin / rhe: POLLIN resp. POLLHUP|POLLERR reported; fl0 / fl1: CLOSED already set before the visit /
   after the read callback *)
Definition dec_poll (rin rhe fl0 fl1 : bool) : bool * bool * bool * Z :=
  (rin, rhe, rhe || (if rin then fl1 else fl0), if rin then (if rhe then 2 else 1) else (if rhe then 1 else 0)).

(* epoll, one reported event: EPOLLIN is tested first, EPOLLERR|EPOLLHUP only otherwise *)
Definition dec_epoll (ein ehe fl0 fl1 : bool) : bool * bool * bool :=
  (ein, negb ein && ehe, if ein then fl1 else ehe || fl0).

(* select, one node of ctx_list: (read callback?, close?) *)
Definition dec_select (isset fl0 fl1 : bool) : bool * bool :=
  (isset, if isset then fl1 else fl0).

(* swap-with-last removal of slot i from a table of live slots *)
Fixpoint set_nth_g {A} (i : nat) (v : A) (l : list A) : list A :=
  match l, i with
  | [], _ => []
  | _ :: r, O => v :: r
  | a :: r, S j => a :: set_nth_g j v r
  end.
Definition slot_remove {A} (d : A) (i : nat) (l : list A) : list A :=
  match l with
  | [] => []
  | _ => if Nat.eqb i (length l - 1) then removelast l else set_nth_g i (last l d) (removelast l)
  end.

(* which callbacks are installed (NULL otherwise): read, close, wake, clear, exit *)
Record cbs := mkCb { hr : bool; hc : bool; hw : bool; hx : bool; he : bool }.
Definition all_cbs : cbs := mkCb true true true true true.
Definition no_cbs : cbs := mkCb false false false false false.

Section Ref.
Variable K : consts.
Variable FL : Z -> Z -> Z.
Variable TE : Z -> Z.
Variable CB : cbs.
(* the timer: None = evloop->timeout is -1 and cb_timer is NULL (as muggle_evloop_new leaves them);
   Some (tmo, elapsed) = cb_timer installed, evloop->timeout = tmo, milliseconds elapsed since the last tick *)
Variable TM : option (Z * Z).

Definition is_closed (f : Z) : bool := z2b (Z.land f (k_closed K)).
Definition te_val (k : nat) (te : option Z) : Z := match te with Some v => v | None => TE (Z.of_nat k) end.
Definition term_of (k : nat) (te : option Z) : Z := if te_val k te =? k_exit K then 1 else 0.
Definition est := (list Z * nat * option Z)%type.    (* trace, callbacks so far, to_exit stored since the last one *)

(* a callback that may be NULL: token and havoc only when installed *)
Definition cb_tok (on : bool) (code arg : Z) (s : est) : est :=
  let '(tr, k, te) := s in if on then (tr ++ [code; arg], S k, None) else s.

(* muggle_evloop_*_handle_wakeup when the signal descriptor is readable: clear-up, wake callback,
   a cross-thread exit request (WAKE) becomes EXIT *)
Definition ref_wakeup (s : est) : est :=
  let '(tr, k, te) := s in
  let '(tr2, k2, te2) := cb_tok (hw CB) T_WAKECB 0 (tr ++ [T_WAKECLR; 0], k, te) in
  (tr2, k2, if te_val k2 te2 =? k_wake K then Some (k_exit K) else te2).

(* the timeout of the first kernel call, and the timer block of poll / epoll after a pass: the timeout of the
   next call *)
Definition tmo0 : Z := match TM with Some (tmo, _) => tmo | None => -1 end.
Definition ref_timer (s : est) : est * Z :=
  match TM with
  | None => (s, -1)
  | Some (tmo, el) =>
      if tmo >=? 0 then (if tmo - el <=? 0 then (cb_tok true T_TIMERCB 0 s, tmo) else (s, tmo - el)) else (s, tmo)
  end.

(* ---------------------------------------------------------------- poll *)
Definition ptab := list (Z * Z * Z).      (* (node / context id, fd, revents), slot 0 = signal fd *)
Definition pst := (list Z * nat * ptab * Z * option Z * bool)%type.   (* trace, callbacks, table, n, to_exit, added *)

Section Poll.
Variable AD : Z -> bool.
Variables NW NS fdof : Z -> Z.

Definition ref_poll_slot (i : nat) (s : pst) : pst :=
  let '(tr, k, tab, n, te, added) := s in
  match nth_error tab i with
  | None => s
  | Some (c, _, re) =>
    let rin := z2b (Z.land re (k_pollin K)) in
    let rhe := z2b (Z.land re (Z.lor (k_pollhup K) (k_pollerr K))) in
    let ka := if hr CB then S k else k in
    let '(dr, dsf, dcl, dn) := dec_poll rin rhe (is_closed (FL (Z.of_nat k) c)) (is_closed (FL (Z.of_nat ka) c)) in
    let '(tr1, k1, tab1, te1, added1) :=
      if dr && hr CB then
        (tr ++ [T_READ; c], S k,
         (if negb added && AD (Z.of_nat (S k))
          then tab ++ [(NW (Z.of_nat (S k)), fdof (NW (Z.of_nat (S k))), NS (Z.of_nat (S k)))] else tab),
         None, added || AD (Z.of_nat (S k)))
      else (tr, k, tab, te, added) in
    let tr2 := if dsf then tr1 ++ [T_SETFLAG; c; T_FLAGVAL; Z.lor (FL (Z.of_nat k1) c) (k_closed K)] else tr1 in
    if dcl then
      let '(tr3, k3, te3) := cb_tok (hc CB) T_CLOSE c (tr2, k1, te1) in
      (tr3 ++ [T_LREM; c], k3, slot_remove (0, 0, 0) i tab1, n - dn, te3, added1)
    else (tr2, k1, tab1, n - dn, te1, added1)
  end.

(* the reverse walk from slot i down to the signal slot 0; it stops as soon as n is used up *)
Fixpoint ref_poll_walk (i : nat) (s : pst) : pst :=
  match i with
  | O =>
      let '(tr, k, tab, n, te, added) := s in
      match nth_error tab 0 with
      | Some (_, _, re0) =>
          if z2b (Z.land re0 (k_pollin K)) then
            let '(tr', k', te') := ref_wakeup (tr, k, te) in (tr', k', tab, n, te', added)
          else s
      | None => s
      end
  | S j =>
      let s1 := ref_poll_slot (S j) s in
      let '(_, _, _, n1, _, _) := s1 in
      if n1 <=? 0 then s1 else ref_poll_walk j s1
  end.

(* muggle_evloop_run_poll from its entry to the second poll() or its return *)
Definition ref_poll_run (added0 : bool) (tab0 : ptab) (n err : Z) : list Z * (Z * Z * list Z * list Z * list Z) :=
  let tr0 := [T_KPOLL; Z.of_nat (length tab0); T_KTMO; tmo0] in
  let '(tr, k, tab, te) :=
    if n >? 0 then
      let '(tr, k, tab, _, te, _) := ref_poll_walk (length tab0 - 1) (tr0, O, tab0, n, None, added0) in
      (tr, k, tab, te)
    else if n <? 0 then
      (if negb (err =? k_eintr K) then (tr0 ++ [T_EXITREQ; 0], O, tab0, Some (k_exit K)) else (tr0, O, tab0, None))
    else (tr0, O, tab0, None) in
  let '((tr', k', te'), next) := ref_timer (tr, k, te) in
  let obs t := (t, Z.of_nat (length tab), map (fun p => fst (fst p)) tab, map (fun p => snd (fst p)) tab,
                map (fun p => snd p) tab) in
  if te_val k' te' =? k_exit K then (tr', obs 1)
  else (tr' ++ [T_KPOLL; Z.of_nat (length tab); T_KTMO; next], obs 0).
End Poll.

(* muggle_evloop_add_ctx_poll: refused when the table is full, else the new slot is index nfd *)
Definition ref_add_ctx_poll (fdof : Z -> Z) (nfd cap c : Z) : list Z * (Z * Z * list Z) :=
  if nfd =? cap then ([], (-1, nfd, [])) else ([], (0, nfd + 1, [nfd; k_pollin K; fdof c; c])).

(* capacity rule shared by init_poll and init_epoll *)
Definition ref_capacity (hints : Z) : Z := (if hints <? 1 then default_hints else hints) + 1.

Definition ref_init_poll (evfd hints : Z) : list Z * (Z * Z * Z * Z * Z) :=
  let cap := ref_capacity hints in
  ([T_MALLOC; wrapu 64 (wrapu 64 cap * k_sz_pollfd K); T_MALLOC; wrapu 64 (wrapu 64 cap * k_sz_ptr K)],
   (0, cap, 1, evfd, k_pollin K)).

(* ---------------------------------------------------------------- epoll *)
Inductive epev := EvCtx (c e : Z) | EvSig (e : Z).

Definition ref_epoll_ev (fdof : Z -> Z) (s : est) (ev : epev) : est :=
  let '(tr, k, te) := s in
  match ev with
  | EvSig e => if z2b (Z.land e (k_epin K)) then ref_wakeup s else s
  | EvCtx c e =>
    let ein := z2b (Z.land e (k_epin K)) in
    let ehe := z2b (Z.land e (Z.lor (k_eperr K) (k_ephup K))) in
    let ka := if hr CB then S k else k in
    let '(dr, dsf, dcl) := dec_epoll ein ehe (is_closed (FL (Z.of_nat k) c)) (is_closed (FL (Z.of_nat ka) c)) in
    let '(tr1, k1, te1) := if dr then cb_tok (hr CB) T_READ c s else s in
    let tr2 := if dsf then tr1 ++ [T_SETFLAG; c; T_FLAGVAL; Z.lor (FL (Z.of_nat k1) c) (k_closed K)] else tr1 in
    if dcl then
      let '(tr3, k3, te3) := cb_tok (hc CB) T_CLOSE c (tr2 ++ [T_EPDEL; fdof c], k1, te1) in
      (tr3 ++ [T_LREM; c], k3, te3)
    else (tr2, k1, te1)
  end.

(* muggle_evloop_run_epoll from its entry (registration of the signal descriptor) to the second
   epoll_wait or its return; batch = None: epoll_wait returned -1 *)
Definition ref_epoll_run (fdof : Z -> Z) (evfd cap : Z) (batch : option (list epev)) (err : Z) : list Z * Z :=
  let tr0 := [T_EPADD; evfd; T_EPMASK; Z.lor (k_epin K) (k_epet K); T_KEPOLL; cap; T_KTMO; tmo0] in
  let s1 := match batch with Some evs => fold_left (ref_epoll_ev fdof) evs (tr0, O, None) | None => (tr0, O, None) end in
  let '((tr2, k2, te2), next) := ref_timer s1 in
  let '(tr3, te3) :=
    match batch with
    | Some _ => (tr2, te2)
    | None => if negb (err =? k_eintr K) then (tr2 ++ [T_EXITREQ; 0], Some (k_exit K)) else (tr2, te2)
    end in
  if te_val k2 te3 =? k_exit K then (tr3, 1) else (tr3 ++ [T_KEPOLL; cap; T_KTMO; next], 0).

Definition ref_add_ctx_epoll (fdof : Z -> Z) (c ctlret : Z) : list Z * (Z * Z) :=
  let tr := [T_EPADD; fdof c; T_EPMASK; Z.lor (k_epin K) (k_epet K)] in
  if negb (ctlret =? 0) then (tr, (-1, 1)) else (tr, (0, 1)).

Definition ref_init_epoll (hints : Z) : list Z * (Z * Z * Z) :=
  let cap := ref_capacity hints in
  ([T_EPCREATE; cap; T_MALLOC; wrapu 64 (wrapu 64 cap * k_sz_epev K)], (0, cap, 3)).

(* ---------------------------------------------------------------- select *)
(* trace, callbacks, to_exit, nfds, membership flags of the visited contexts' descriptors, ctx_list kept *)
Definition sst := (list Z * nat * option Z * Z * list Z * list Z)%type.

Definition ref_select_node (RS : Z -> bool) (fdof : Z -> Z) (s : sst) (c : Z) : sst :=
  let '(tr, k, te, nfds, fl, kept) := s in
  let ka := if hr CB then S k else k in
  let '(dr, dcl) := dec_select (RS (fdof c) && hr CB) (is_closed (FL (Z.of_nat k) c)) (is_closed (FL (Z.of_nat ka) c)) in
  let '(tr1, k1, te1) := if dr then cb_tok true T_READ c (tr, k, te) else (tr, k, te) in
  if dcl then
    let '(tr3, k3, te3) := cb_tok (hc CB) T_CLOSE c (tr1 ++ [T_FDCLR; fdof c], k1, te1) in
    (tr3 ++ [T_LREM; c], k3, te3, nfds, fl ++ [0], kept)
  else (tr1 ++ [T_FDSET; fdof c], k1, te1, (if fdof c >? nfds then fdof c else nfds), fl ++ [1], kept ++ [c]).

(* microseconds handed to select for evloop->timeout milliseconds (tv_sec * 1000000 + tv_usec) *)
Definition usecs (tmo : Z) : Z := cdiv tmo 1000 * 1000000 + crem tmo 1000 * 1000.

Definition ref_select_run (RS : Z -> bool) (fdof : Z -> Z) (evfd nf0 : Z) (ids : list Z) (n err : Z) (ktv_sec ktv_usec : Z)
  : list Z * (Z * Z * list Z * list Z) :=
  (* p_timeout: NULL unless a timer interval >= 0 is set *)
  let tv0 := match TM with Some (tmo, _) => if tmo <? 0 then -1 else usecs tmo | None => -1 end in
  let watch fl := concat (map (fun f => [T_KWATCH; f]) fl) in
  let all1 := map (fun _ : Z => 1) (evfd :: ids) in
  let tr0 := [T_KSEL; nf0 + 1] ++ watch all1 ++ [T_KTMO; tv0] in
  let '(tr, k, te, nfds, fl, kept) :=
    if n >? 0 then
      let '(trw, kw, tew) := if RS evfd then ref_wakeup (tr0 ++ [T_FDZERO; 0], O, None) else (tr0 ++ [T_FDZERO; 0], O, None) in
      fold_left (ref_select_node RS fdof) ids (trw ++ [T_FDSET; evfd], kw, tew, evfd, [1], [])
    else if n <? 0 then
      (if negb (err =? k_eintr K) then (tr0 ++ [T_EXITREQ; 0], O, Some (k_exit K), nf0, all1, ids)
       else (tr0, O, None, nf0, all1, ids))
    else (tr0, O, None, nf0, all1, ids) in
  (* the timer block of select: tick when the interval has elapsed, the timeval is restored then; otherwise the
     kernel's left-over stays in it *)
  let '((tr', k', te'), tv1) :=
    match TM with
    | Some (tmo, el) =>
        if tmo <? 0 then ((tr, k, te), -1)
        else if el >=? tmo then (cb_tok true T_TIMERCB 0 (tr, k, te), usecs tmo)
        else ((tr, k, te), ktv_sec * 1000000 + ktv_usec)
    | None => ((tr, k, te), -1)
    end in
  if te_val k' te' =? k_exit K then (tr', (1, nfds, fl, kept))
  else (tr' ++ [T_KSEL; nfds + 1] ++ watch fl ++ [T_KTMO; tv1], (0, nfds, fl, kept)).

(* muggle_evloop_add_ctx_select / muggle_evloop_select_set_fd: never refuses (there is no FD_SETSIZE guard
   in the code); nfds is the running maximum *)
Definition ref_add_ctx_select (fdof : Z -> Z) (nf0 c : Z) : list Z * (Z * Z * list Z) :=
  ([T_FDSET; fdof c], (0, (if fdof c >? nf0 then fdof c else nf0), [1; 1])).

Definition ref_init_select (evfd : Z) : list Z * (Z * Z * list Z) :=
  ([T_FDZERO; 0; T_FDSET; evfd], (0, evfd, [1])).

(* ---------------------------------------------------------------- event_loop.c, event_context.c *)
(* muggle_evloop_add_ctx: only from the loop's thread; non-blocking; append to ctx_list; ask the back-end
   (answer bret); a refused context is taken off the list again, whatever the back-end *)
Definition ref_loop_add_ctx (fdof : Z -> Z) (tid cur nbret c0 c bret : Z) : list Z * (Z * list Z) :=
  if tid =? cur then
    if negb (nbret =? 0) then ([T_NONBLOCK; fdof c], (-1, [c0]))
    else
      let tr := [T_NONBLOCK; fdof c; T_LAPPEND; c; T_BADD; c] in
      if negb (bret =? 0) then (tr ++ [T_LREM; c], (-1, [c0])) else (tr, (0, [c0; c]))
  else ([], (-1, [c0])).

(* muggle_evloop_run after the back-end loop returned: clear callback for every context still on
   ctx_list, in list order, whatever its flags; then the exit callback *)
Definition ref_loop_run (ids : list Z) : list Z * list Z :=
  ([T_BRUN; 0] ++ (if hx CB then concat (map (fun c => [T_CLEARCB; c]) ids) else []) ++
   (if he CB then [T_EXITCB; 0] else []), ids).

(* muggle_evloop_init, success path: hints_max_fd < 1 becomes the default, the node pool is sized by it only
   when use_mem_pool is set, no timer *)
Definition ref_loop_init (hints pool : Z) : list Z * (Z * Z * Z) :=
  let h := if hints <? 1 then default_hints else hints in
  ([T_MALLOC; k_sz_list K; T_LINIT; (if z2b pool then wrapu 64 h else 0); T_MALLOC; k_sz_signal K; T_SIGINIT; 0],
   (0, h, -1)).

(* muggle_ev_ctx_read: n > 0 bytes, or would-block: the context stays; interrupted: retried (second component 1);
   end of file (n = 0) and ANY other error: the context is flagged CLOSED *)
Definition ref_ctx_read (c n err : Z) : list Z * (Z * Z) :=
  let closed := [T_SETFLAG; c; T_FLAGVAL; Z.lor (FL 0 c) (k_closed K)] in
  if n >? 0 then ([], (0, n))
  else if n <? 0 then
    (if err =? k_ewouldblock K then ([], (0, n)) else if err =? k_eintr K then ([], (1, 0)) else (closed, (0, n)))
  else (closed, (0, n)).
End Ref.
